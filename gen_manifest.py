#!/usr/bin/env python3
"""Regenerates MANIFEST.json from claims.json (one entry per claimed property) so the file is always schema-valid."""
import json, sys, os
here = os.path.dirname(os.path.abspath(__file__))
claims = json.load(open(os.path.join(here, "claims.json")))
props = [json.loads(l)["id"] for l in open(os.path.join(here, "properties.jsonl"))]
ENV = "export GOFLAGS=-mod=mod GOPROXY=off; unset GOWORK;"
checks = []
for pid in props:
    c = claims["claimed"].get(pid)
    if not c:
        continue
    checks.append({
        "property_id": pid,
        "quick_cmd": f"{ENV} bin/lungocheck -prop {pid} -tier quick",
        "thorough_cmd": f"{ENV} bin/lungocheck -prop {pid} -tier thorough",
        "evidence_file": f"evidence/{pid}.json",
        "replay_cmd_template": "bin/lungocheck -explain {path}",
        "engine": "lungocheck",
        "level_claimed": {"category": "other", "text": c["text"], "design_ref": c.get("design_ref", "DESIGN.md section 5")},
        "level_note": c["note"],
        "technique": c["technique"],
    })
na = [{"property_id": pid, "reason": claims["not_applicable"][pid]} for pid in props if pid not in claims["claimed"]]
for x in na:
    assert x["reason"]
m = {
    "version": 1,
    "setup_cmd": f"{ENV} cd checker && go build -o ../bin/lungocheck . && cd .. && bin/lungocheck -rules >/dev/null",
    "hooks": {
        "guard": "verif",
        "enable": "none needed: static analysis reads the sources; no instrumentation is compiled into lungo",
        "baseline_off_cmd": "cd /repo && export GOFLAGS=-mod=mod GOPROXY=off && go test -vet=off -count=1 ./bsonkit ./dbkit",
        "source_commits": [],
        "add_only": True,
    },
    "engines": [{
        "name": "lungocheck",
        "path": "checker/",
        "serves_properties": [c["property_id"] for c in checks],
        "kind_free_text": "repository-specific static analyser (go/packages + go/ssa + VTA call graph, x/tools v0.29.0): rule obligations per resolved construct; exit 1 + VIOLATION line on an unlisted violated/undecided obligation",
    }],
    "checks": checks,
    "not_applicable": na,
    "notes": claims.get("notes", ""),
}
json.dump(m, open(os.path.join(here, "MANIFEST.json"), "w"), indent=1)
print("checks:", len(checks), "not_applicable:", len(na))
