package main

import (
	"fmt"
	"go/token"
	"go/types"
	"sort"
	"strings"

	"golang.org/x/tools/go/ssa"
)

// Rules added after the eighth round of seeded changes.

func init() {
	register(&Rule{ID: "FLAG-4", Doc: "the operator-table flag at the call sites of mongokit.Process is the confirmed constant: root=true where the query is a whole query/update/projection document (Match, Apply, Project, Extract, matchAnd, matchOr, extractAnd) and root=false where it is a condition on one element or alternative (matchElem, projectElemMatch, extractOr)", Run: func(c *Ctx, r *Reporter) { ruleFlag4(c, r, 0) }})
	register(&Rule{ID: "FLAG-5", Doc: "UploadStream.upload is called with final=true by Close only: Write and Suspend flush full chunks and keep the remainder in the buffer (a partial chunk in the middle of a file makes every later offset wrong and Resume reject the upload)", Run: func(c *Ctx, r *Reporter) { ruleFlag4(c, r, 1) }})
	register(&Rule{ID: "ARG-1", Doc: "no two arguments are crossed: at every call of a repository function, when two parameters of the same type are named a and b, the arguments are not (a field or parameter named b, a field or parameter named a)", Run: ruleArg1})
	register(&Rule{ID: "SIG-4", Doc: "a closed signal channel is marked: every close(stream.signal) is preceded, in the same critical section, by stream.closed = true for the same stream, so that no later Stream.Close or broadcast sends on the closed channel", Run: ruleSig4})
	register(&Rule{ID: "UPD-7", Doc: "what is recorded is what was written: in every function registered as a field update operator, a Changes.Record(path, x) that is dominated by a bsonkit.Put(doc, path, y, ...) for the same path records y itself (or reads the value back with bsonkit.Get) - never the previous value of the field, which is what min/max/rename have in hand as well", Run: ruleUpd7})
	register(&Rule{ID: "WIN-9", Doc: "distinct results are always sorted and de-duplicated: in bsonkit.Collect a return that is not dominated by the sort is reachable only over an edge on which the distinct parameter is false (no other shortcut, e.g. on the number of documents, may skip the sort: one document can contribute many array elements)", Run: ruleWin9})
	register(&Rule{ID: "TXN-6", Doc: "a per-item write error does not abort the transaction: the callbacks handed to useTransaction return as their error only what a Transaction method returned as its error, never the Error field of a Result (useTransaction aborts on a callback error, which would throw away the items of the batch that did succeed)", Run: ruleTxn6})
	register(&Rule{ID: "WATCH-3", Doc: "nothing is delivered after a drop but the invalidation: in Stream.next every store of an oplog event into s.event lies behind the false edge of a test of s.dropped (the test comes before the scan for the next event, in every round of the loop); the only store on the true side is the invalidate event", Run: ruleWatch3})
	register(&Rule{ID: "GFS-8", Doc: "bucket configuration is fixed at construction: the fields files, chunks, markers and chunkSize of Bucket are written by NewBucket only (a per-upload option that is stored in the bucket changes every later upload and breaks the resume of suspended ones)", Run: ruleGfs8})
}

func plainFuncName(g *ssa.Function) string {
	up := strings.TrimPrefix(strings.TrimPrefix(funcName(g), "(*"), "(")
	return strings.Replace(up, ")", "", 1)
}

// ---- FLAG-4 ------------------------------------------------------------------------------

type flagEntry struct {
	want bool
	why  string
}

var flag4Process = map[string]flagEntry{
	"mongokit.Match":            {true, "a whole query document: $and/$or/$nor at key level are top-level operators"},
	"mongokit.Apply":            {true, "a whole update document: its keys are the update operators"},
	"mongokit.Project":          {true, "a whole projection document"},
	"mongokit.Extract":          {true, "a whole query document"},
	"mongokit.matchAnd":         {true, "every item of $and is a whole query document"},
	"mongokit.matchOr":          {true, "every item of $or/$nor is a whole query document"},
	"mongokit.extractAnd":       {true, "every item of $and is a whole query document: nested $and/$or keep being extracted"},
	"mongokit.extractOr":        {false, "the single alternative of $or is extracted as a set of field conditions"},
	"mongokit.matchElem":        {false, "the $elemMatch condition applies to one element (the virtual item document): bare operators are expression operators"},
	"mongokit.projectElemMatch": {false, "the $elemMatch condition applies to one element (the virtual item document): bare operators are expression operators"},
}

var flag4Upload = map[string]flagEntry{
	"lungo.UploadStream.Write":   {false, "a full buffer is flushed; nothing partial may be cut"},
	"lungo.UploadStream.Suspend": {false, "only full chunks are stored; the remainder stays in the marker-less buffer for Resume"},
	"lungo.UploadStream.Close":   {true, "the last, possibly partial, chunk is cut"},
}

func ruleFlag4(c *Ctx, r *Reporter, which int) {
	type target struct {
		callee *types.Func
		argIdx int // index into Call.Args (receiver included for methods)
		table  map[string]flagEntry
		label  string
	}
	var targets []target
	if which != 0 {
	} else if f := c.lookupFunc(pkgMongokit, "Process"); f != nil {
		targets = append(targets, target{f, 4, flag4Process, "Process root"})
	} else {
		r.bad("anchor:mongokit.Process", "-", "not found")
	}
	if which != 1 {
	} else if f := c.lookupFunc(pkgLungo, "UploadStream.upload"); f != nil {
		targets = append(targets, target{f, 1, flag4Upload, "upload final"})
	} else {
		r.bad("anchor:UploadStream.upload", "-", "not found")
	}
	n := 0
	for _, t := range targets {
		matched := map[string]bool{}
		// call sites of the helper and, where a site forwards its own parameter (an unexported wrapper such as
		// flush(final) { ... s.upload(final) }), the call sites of that wrapper
		type want struct {
			callee *types.Func
			argIdx int
		}
		work := []want{{t.callee, t.argIdx}}
		done := map[want]bool{}
		for len(work) > 0 && len(done) < 8 {
			w := work[0]
			work = work[1:]
			if done[w] {
				continue
			}
			done[w] = true
			for _, fn := range c.repoFuncs() {
				allInstrs(fn, func(in ssa.Instruction) {
					ci, ok := in.(ssa.CallInstruction)
					if !ok || calleeObj(ci.Common()) != w.callee || w.argIdx >= len(ci.Common().Args) {
						return
					}
					v := resolveHelperValue(ci.Common().Args[w.argIdx])
					key := fmt.Sprintf("%s in %s", t.label, closureNeutral(plainFuncName(fn)))
					if p, isParam := unspill(v).(*ssa.Parameter); isParam && p.Parent() != nil {
						g := p.Parent()
						if obj, ok := g.Object().(*types.Func); ok && !obj.Exported() && !theHelpers.escaped[g] {
							for i, gp := range g.Params {
								if gp == p {
									work = append(work, want{obj, i})
								}
							}
							r.trivial(key, c.pos(in.Pos()), "the flag is forwarded from the wrapper's own parameter: judged at the wrapper's call sites")
							return
						}
					}
					var entry *flagEntry
					owner := ""
					for _, nm := range ownerNames(fn, plainFuncName) {
						nm = strings.TrimSuffix(nm, "$closure")
						if e, ok := t.table[nm]; ok && entry == nil {
							e := e
							entry, owner = &e, nm
						}
					}
					if entry == nil {
						r.trivial(key, c.pos(in.Pos()), "a call site outside the confirmed table: not judged")
						return
					}
					b, isConst := constBool(v)
					if !isConst {
						r.trivial(key, c.pos(in.Pos()), "the flag is computed, not a constant: not judged")
						return
					}
					n++
					matched[owner] = true
					r.check(b == entry.want, key, c.pos(in.Pos()), fmt.Sprintf("%v: %s", entry.want, entry.why), fmt.Sprintf("the flag is %v where %v is required: %s", b, entry.want, entry.why))
				})
			}
		}
		var names []string
		for nm := range t.table {
			names = append(names, nm)
		}
		sort.Strings(names)
		for _, nm := range names {
			if !matched[nm] {
				r.unk(t.label+" in "+nm, "-", "no call site with a constant flag found for this confirmed caller")
			}
		}
	}
	r.guard(n, []int{10, 3}[which], "call sites with a confirmed constant flag")
}

// ---- ARG-1 -------------------------------------------------------------------------------

func argName(v ssa.Value) string {
	v = unspill(v)
	for d := 0; d < 3; d++ {
		switch x := v.(type) {
		case *ssa.Convert:
			v = x.X
			continue
		case *ssa.ChangeType:
			v = x.X
			continue
		}
		break
	}
	switch x := v.(type) {
	case *ssa.Parameter:
		return strings.ToLower(x.Name())
	case *ssa.Field:
		if st, ok := x.X.Type().Underlying().(*types.Struct); ok && x.Field < st.NumFields() {
			return strings.ToLower(st.Field(x.Field).Name())
		}
	case *ssa.UnOp:
		if fa, ok := x.X.(*ssa.FieldAddr); ok && x.Op == token.MUL {
			return strings.ToLower(structFieldOf(fa).Name())
		}
	}
	return ""
}

func ruleArg1(c *Ctx, r *Reporter) {
	sites, pairs := 0, 0
	for _, fn := range c.repoFuncs() {
		allInstrs(fn, func(in ssa.Instruction) {
			ci, ok := in.(ssa.CallInstruction)
			if !ok {
				return
			}
			cc := ci.Common()
			f := calleeObj(cc)
			if f == nil || f.Pkg() == nil || !strings.HasPrefix(f.Pkg().Path(), pkgLungo) {
				return
			}
			sig, _ := f.Type().(*types.Signature)
			if sig == nil || sig.Params().Len() < 2 {
				return
			}
			off := 0
			if sig.Recv() != nil && !cc.IsInvoke() {
				off = 1
			}
			if len(cc.Args) != sig.Params().Len()+off {
				return // variadic expansion or a shape this rule does not read
			}
			sites++
			np := sig.Params().Len()
			for i := 0; i < np; i++ {
				for j := i + 1; j < np; j++ {
					pi, pj := sig.Params().At(i), sig.Params().At(j)
					ni, nj := strings.ToLower(pi.Name()), strings.ToLower(pj.Name())
					if ni == "" || nj == "" || ni == "_" || nj == "_" || ni == nj || !types.Identical(pi.Type(), pj.Type()) {
						continue
					}
					ai, aj := argName(cc.Args[i+off]), argName(cc.Args[j+off])
					if ai == "" || aj == "" {
						continue
					}
					pairs++
					key := fmt.Sprintf("%s -> %s(%s,%s)", closureNeutral(plainFuncName(fn)), fullShort(f), pi.Name(), pj.Name())
					r.check(!(ai == nj && aj == ni), key, c.pos(in.Pos()), "the named arguments are not crossed", fmt.Sprintf("parameter %s receives %q and parameter %s receives %q: the two arguments are crossed", pi.Name(), ai, pj.Name(), aj))
				}
			}
		})
	}
	r.guard(pairs, 20, "pairs of same-typed named parameters fed by named values")
	_ = sites
}

// ---- SIG-4 -------------------------------------------------------------------------------

func ruleSig4(c *Ctx, r *Reporter) {
	signalF := c.field(pkgLungo, "Stream", "signal")
	closedF := c.field(pkgLungo, "Stream", "closed")
	if signalF == nil || closedF == nil {
		r.bad("anchor:Stream.signal", "-", "not found")
		return
	}
	n := 0
	for _, fn := range c.repoFuncs() {
		allInstrs(fn, func(in ssa.Instruction) {
			call, ok := in.(*ssa.Call)
			if !ok {
				return
			}
			b, isB := call.Call.Value.(*ssa.Builtin)
			if !isB || b.Name() != "close" || len(call.Call.Args) != 1 {
				return
			}
			ld, ok := call.Call.Args[0].(*ssa.UnOp)
			if !ok || ld.Op != token.MUL {
				return
			}
			base, ok := fieldAddrOf(ld.X, signalF)
			if !ok {
				return
			}
			n++
			marked := false
			allInstrs(fn, func(x ssa.Instruction) {
				st, ok := x.(*ssa.Store)
				if !ok {
					return
				}
				b2, ok := fieldAddrOf(st.Addr, closedF)
				if !ok || b2 != base {
					return
				}
				if v, isC := constBool(st.Val); !isC || !v {
					return
				}
				if st.Block() == call.Block() {
					for _, y := range st.Block().Instrs {
						if y == ssa.Instruction(st) {
							marked = true
							break
						}
						if y == ssa.Instruction(call) {
							break
						}
					}
				} else if st.Block().Dominates(call.Block()) {
					marked = true
				}
			})
			r.check(marked, "close(signal) in "+closureNeutral(plainFuncName(fn)), c.pos(call.Pos()), "the stream is marked closed before its signal channel is closed", "the signal channel is closed without stream.closed = true: a later Stream.Close (or broadcast) sends on a closed channel and panics")
		})
	}
	r.guard(n, 1, "close(stream.signal) sites")
}

// ---- GFS-8 -------------------------------------------------------------------------------

func ruleGfs8(c *Ctx, r *Reporter) {
	fields := map[*types.Var]bool{}
	for _, nm := range []string{"files", "chunks", "markers", "chunkSize"} {
		if f := c.field(pkgLungo, "Bucket", nm); f != nil {
			fields[f] = true
		} else {
			r.bad("anchor:Bucket."+nm, "-", "not found")
		}
	}
	n := 0
	for _, fn := range c.repoFuncs() {
		allInstrs(fn, func(in ssa.Instruction) {
			st, ok := in.(*ssa.Store)
			if !ok {
				return
			}
			fa, ok := st.Addr.(*ssa.FieldAddr)
			if !ok || !fields[structFieldOf(fa)] {
				return
			}
			n++
			inCtor := false
			for _, nm := range ownerNames(fn, plainFuncName) {
				if strings.TrimSuffix(nm, "$closure") == "lungo.NewBucket" {
					inCtor = true
				}
			}
			r.check(inCtor, "write of Bucket."+structFieldOf(fa).Name()+" in "+closureNeutral(plainFuncName(fn)), c.pos(st.Pos()), "set by the constructor", "a configuration field of the shared Bucket is overwritten after construction: every later upload/download of this bucket sees the new value (a per-call option must stay local)")
		})
	}
	r.guard(n, 4, "writes of Bucket configuration fields")
}

// ---- UPD-7 -------------------------------------------------------------------------------

func ruleUpd7(c *Ctx, r *Reporter) {
	regs := readRegistries(c)
	reg := regs["FieldUpdateOperators"]
	recF := c.lookupFunc(pkgMongokit, "Changes.Record")
	putF := c.lookupFunc(pkgBsonkit, "Put")
	getF := c.lookupFunc(pkgBsonkit, "Get")
	if reg == nil || recF == nil || putF == nil {
		r.bad("anchor:FieldUpdateOperators/Changes.Record/bsonkit.Put", "-", "not found")
		return
	}
	var names []string
	for n := range reg {
		names = append(names, n)
	}
	sortStrings(names)
	seenFn := map[*ssa.Function]bool{}
	n := 0
	for _, name := range names {
		fn := reg[name]
		if seenFn[fn] {
			continue
		}
		seenFn[fn] = true
		for _, g := range withClosures(fn) {
			var puts, recs []*ssa.Call
			allInstrs(g, func(in ssa.Instruction) {
				call, ok := in.(*ssa.Call)
				if !ok {
					return
				}
				switch calleeObj(&call.Call) {
				case recF:
					if len(call.Call.Args) == 3 {
						recs = append(recs, call)
					}
				case putF:
					if len(call.Call.Args) == 4 {
						puts = append(puts, call)
					}
				}
			})
			for _, rc := range recs {
				// the nearest dominating Put of the same path
				var best *ssa.Call
				for _, p := range puts {
					if !(p.Call.Args[1] == rc.Call.Args[1] || sameSource(p.Call.Args[1], rc.Call.Args[1])) {
						continue
					}
					dom := p.Block() != rc.Block() && p.Block().Dominates(rc.Block())
					if p.Block() == rc.Block() {
						for _, y := range p.Block().Instrs {
							if y == ssa.Instruction(p) {
								dom = true
								break
							}
							if y == ssa.Instruction(rc) {
								break
							}
						}
					}
					if dom && (best == nil || best.Block().Dominates(p.Block())) {
						best = p
					}
				}
				if best == nil {
					continue
				}
				n++
				rv, pv := stripValue(rc.Call.Args[2]), stripValue(best.Call.Args[2])
				same := rv == pv || sameSource(rv, pv)
				if !same {
					if gc, ok := rv.(*ssa.Call); ok && getF != nil && calleeObj(&gc.Call) == getF {
						// read back from the document - after the write only
						if gc.Block() != best.Block() && best.Block().Dominates(gc.Block()) {
							same = true
						} else if gc.Block() == best.Block() {
							for _, y := range gc.Block().Instrs {
								if y == ssa.Instruction(best) {
									same = true
									break
								}
								if y == ssa.Instruction(gc) {
									break
								}
							}
						}
					}
				}
				r.check(same, fmt.Sprintf("update operator %s (%s):recorded value", name, closureNeutral(g.Name())), c.pos(rc.Pos()), "the value recorded for the path is the value that was put there", fmt.Sprintf("Changes.Record is given %s while bsonkit.Put at %s wrote %s: the update event describes a value the document does not hold", rv.Name(), c.pos(best.Pos()), pv.Name()))
			}
		}
	}
	r.guard(n, 8, "Changes.Record calls dominated by a Put of the same path")
}

// ---- WIN-9 -------------------------------------------------------------------------------

func ruleWin9(c *Ctx, r *Reporter) {
	fn := c.lookupSSA(pkgBsonkit, "Collect")
	if fn == nil || len(fn.Params) < 6 {
		r.bad("anchor:bsonkit.Collect", "-", "not found")
		return
	}
	var distinct *ssa.Parameter
	for _, p := range fn.Params {
		if p.Name() == "distinct" {
			distinct = p
		}
	}
	if distinct == nil {
		distinct = fn.Params[len(fn.Params)-1]
	}
	var isSortD func(in ssa.Instruction, depth int) bool
	isSort := func(in ssa.Instruction) bool { return isSortD(in, 0) }
	isSortD = func(in ssa.Instruction, depth int) bool {
		call, ok := in.(*ssa.Call)
		if !ok {
			return false
		}
		// the sort may live in a private helper that every call of it runs through (sort + de-duplicate extracted)
		if h := privateHelperOf(&call.Call); h != nil && depth < 2 && len(h.Blocks) > 0 {
			for _, hin := range h.Blocks[0].Instrs {
				if isSortD(hin, depth+1) {
					return true
				}
			}
			found := false
			allInstrs(h, func(hin ssa.Instruction) {
				if !found && isSortD(hin, depth+1) && hin.Block().Dominates(hin.Block()) {
					// only sorts on every path of the helper count: the sort's block dominates all returns
					all := true
					for _, ret := range returnsOf(h) {
						if ret.Block() != hin.Block() && !hin.Block().Dominates(ret.Block()) {
							all = false
						}
					}
					found = all
				}
			})
			return found
		}
		f := calleeObj(&call.Call)
		if f == nil || f.Pkg() == nil {
			return false
		}
		if f.Pkg().Path() == "sort" || f.Pkg().Path() == "slices" && strings.HasPrefix(f.Name(), "Sort") {
			return true
		}
		return f.Pkg().Path() == pkgBsonkit && f.Name() == "Sort"
	}
	hasSort := false
	allInstrs(fn, func(in ssa.Instruction) {
		if isSort(in) {
			hasSort = true
		}
	})
	if !hasSort {
		r.bad("Collect:sort", c.pos(fn.Pos()), "Collect does not sort its result")
		return
	}
	// blocks reachable from the entry without taking a distinct==false edge and without passing the sort
	reach := map[*ssa.BasicBlock]bool{}
	var work []*ssa.BasicBlock
	if len(fn.Blocks) > 0 {
		work = append(work, fn.Blocks[0])
	}
	n := 0
	for len(work) > 0 {
		b := work[len(work)-1]
		work = work[:len(work)-1]
		if reach[b] {
			continue
		}
		reach[b] = true
		sorted := false
		for _, in := range b.Instrs {
			if isSort(in) {
				sorted = true
				break
			}
			if ret, ok := in.(*ssa.Return); ok {
				n++
				r.bad("Collect:return without sort", c.pos(ret.Pos()), "this return is reached with distinct == true and without sorting: values of a distinct query come back unordered and repeated")
			}
		}
		if sorted {
			continue
		}
		succs := b.Succs
		if iff, ok := b.Instrs[len(b.Instrs)-1].(*ssa.If); ok && len(b.Succs) == 2 {
			cond := iff.Cond
			neg := false
			if u, ok := cond.(*ssa.UnOp); ok && u.Op == token.NOT {
				cond, neg = u.X, true
			}
			if cond == ssa.Value(distinct) {
				if neg {
					succs = []*ssa.BasicBlock{b.Succs[1]} // !distinct is false: distinct holds
				} else {
					succs = []*ssa.BasicBlock{b.Succs[0]}
				}
			}
		}
		work = append(work, succs...)
	}
	if n == 0 {
		r.ok("Collect:return without sort", c.pos(fn.Pos()), "every return that skips the sort lies behind a distinct == false edge")
	}
}

// ---- TXN-6 -------------------------------------------------------------------------------

func ruleTxn6(c *Ctx, r *Reporter) {
	use := c.lookupFunc(pkgLungo, "useTransaction")
	errF := c.field(pkgLungo, "Result", "Error")
	if use == nil || errF == nil {
		r.bad("anchor:useTransaction/Result.Error", "-", "not found")
		return
	}
	n := 0
	for _, fn := range c.repoFuncs() {
		allInstrs(fn, func(in ssa.Instruction) {
			ci, ok := in.(ssa.CallInstruction)
			if !ok || calleeObj(ci.Common()) != use || len(ci.Common().Args) < 4 {
				return
			}
			var cb *ssa.Function
			switch x := ci.Common().Args[3].(type) {
			case *ssa.MakeClosure:
				cb, _ = x.Fn.(*ssa.Function)
			case *ssa.Function:
				cb = x
			}
			if cb == nil || len(cb.Blocks) == 0 {
				return
			}
			n++
			bad := ""
			for _, ret := range returnsOf(cb) {
				if len(ret.Results) != 2 {
					continue
				}
				seen := map[ssa.Value]bool{}
				var fromResultError func(v ssa.Value, d int) bool
				fromResultError = func(v ssa.Value, d int) bool {
					if seen[v] || d > 8 {
						return false
					}
					seen[v] = true
					switch x := v.(type) {
					case *ssa.Phi:
						for _, e := range x.Edges {
							if fromResultError(e, d+1) {
								return true
							}
						}
					case *ssa.UnOp:
						if x.Op == token.MUL {
							if _, ok := fieldAddrOf(x.X, errF); ok {
								return true
							}
							return fromResultError(unspill(x), d+1) && unspill(x) != ssa.Value(x)
						}
					case *ssa.Field:
						if st, ok := x.X.Type().Underlying().(*types.Struct); ok && x.Field < st.NumFields() && st.Field(x.Field) == errF {
							return true
						}
					case *ssa.MakeInterface:
						return fromResultError(x.X, d+1)
					case *ssa.ChangeInterface:
						return fromResultError(x.X, d+1)
					}
					return false
				}
				if fromResultError(retVal(ret, 1), 0) {
					bad = c.pos(ret.Pos())
				}
			}
			r.check(bad == "", "useTransaction callback in "+closureNeutral(plainFuncName(fn)), c.pos(in.Pos()), "the callback's error is never a Result.Error", "the callback returns a Result's per-item Error as its own error (at "+bad+"): useTransaction aborts, and the items of the batch that succeeded are lost although the call reports them")
		})
	}
	r.guard(n, 20, "useTransaction call sites with a function literal")
}

// ---- WATCH-3 -----------------------------------------------------------------------------

func ruleWatch3(c *Ctx, r *Reporter) {
	fn := c.lookupSSA(pkgLungo, "Stream.next")
	droppedF := c.field(pkgLungo, "Stream", "dropped")
	eventF := c.field(pkgLungo, "Stream", "event")
	if fn == nil || droppedF == nil || eventF == nil {
		r.bad("anchor:Stream.next/dropped/event", "-", "not found")
		return
	}
	// tests of s.dropped: the successor on which dropped is false / true
	var notDropped, isDropped []*ssa.BasicBlock
	coneInstrs(fn, func(in ssa.Instruction) {
		iff, ok := in.(*ssa.If)
		if !ok || len(iff.Block().Succs) != 2 {
			return
		}
		cond, neg := iff.Cond, false
		if u, ok := cond.(*ssa.UnOp); ok && u.Op == token.NOT {
			cond, neg = u.X, true
		}
		ld, ok := cond.(*ssa.UnOp)
		if !ok || ld.Op != token.MUL {
			return
		}
		if _, ok := fieldAddrOf(ld.X, droppedF); !ok {
			return
		}
		t, f := iff.Block().Succs[0], iff.Block().Succs[1]
		if neg {
			t, f = f, t
		}
		isDropped = append(isDropped, t)
		notDropped = append(notDropped, f)
	})
	if len(notDropped) == 0 {
		r.bad("Stream.next:dropped test", c.pos(fn.Pos()), "Stream.next never tests s.dropped: a dropped namespace does not end the stream")
		return
	}
	domBy := func(set []*ssa.BasicBlock, b *ssa.BasicBlock) bool {
		for _, s := range set {
			if s == b || (s.Parent() == b.Parent() && s.Dominates(b)) {
				// a successor with several predecessors is not "behind the edge"
				if len(s.Preds) == 1 {
					return true
				}
			}
		}
		return false
	}
	n := 0
	coneInstrs(fn, func(in ssa.Instruction) {
		st, ok := in.(*ssa.Store)
		if !ok {
			return
		}
		if _, ok := fieldAddrOf(st.Addr, eventF); !ok {
			return
		}
		if st.Parent() != fn {
			return // a helper's store is judged through its call (not needed today)
		}
		if domBy(isDropped, st.Block()) {
			return // the invalidate event itself
		}
		n++
		r.check(domBy(notDropped, st.Block()), "Stream.next:event delivered only if not dropped", c.pos(st.Pos()), "the delivery lies behind a test that found s.dropped false", "an event can be delivered without s.dropped having been tested in this round: after the drop event the stream goes on delivering events of a re-created namespace instead of the invalidation")
	})
	r.guard(n, 1, "deliveries of an oplog event in Stream.next")
}
