package main

import (
	"fmt"
	"go/token"
	"go/types"
	"sort"
	"strings"

	"golang.org/x/tools/go/ssa"
)

// Rules added after the eighth round of seeded changes.

func init() {
	register(&Rule{ID: "FLAG-4", Doc: "the operator-table flag at the call sites of mongokit.Process is the confirmed constant: root=true where the query is a whole query/update/projection document (Match, Apply, Project, Extract, matchAnd, matchOr, extractAnd) and root=false where it is a condition on one element or alternative (matchElem, projectElemMatch, extractOr)", Run: func(c *Ctx, r *Reporter) { ruleFlag4(c, r, 0) }})
	register(&Rule{ID: "FLAG-5", Doc: "UploadStream.upload is called with final=true by Close only: Write and Suspend flush full chunks and keep the remainder in the buffer (a partial chunk in the middle of a file makes every later offset wrong and Resume reject the upload)", Run: func(c *Ctx, r *Reporter) { ruleFlag4(c, r, 1) }})
	register(&Rule{ID: "ARG-1", Doc: "no two arguments are crossed: at every call of a repository function, when two parameters of the same type are named a and b, the arguments are not (a field or parameter named b, a field or parameter named a)", Run: ruleArg1})
	register(&Rule{ID: "SIG-4", Doc: "a closed signal channel is marked: every close(stream.signal) is preceded, in the same critical section, by stream.closed = true for the same stream, so that no later Stream.Close or broadcast sends on the closed channel", Run: ruleSig4})
	register(&Rule{ID: "GFS-8", Doc: "bucket configuration is fixed at construction: the fields files, chunks, markers and chunkSize of Bucket are written by NewBucket only (a per-upload option that is stored in the bucket changes every later upload and breaks the resume of suspended ones)", Run: ruleGfs8})
}

func plainFuncName(g *ssa.Function) string {
	up := strings.TrimPrefix(strings.TrimPrefix(funcName(g), "(*"), "(")
	return strings.Replace(up, ")", "", 1)
}

// ---- FLAG-4 ------------------------------------------------------------------------------

type flagEntry struct {
	want bool
	why  string
}

var flag4Process = map[string]flagEntry{
	"mongokit.Match":            {true, "a whole query document: $and/$or/$nor at key level are top-level operators"},
	"mongokit.Apply":            {true, "a whole update document: its keys are the update operators"},
	"mongokit.Project":          {true, "a whole projection document"},
	"mongokit.Extract":          {true, "a whole query document"},
	"mongokit.matchAnd":         {true, "every item of $and is a whole query document"},
	"mongokit.matchOr":          {true, "every item of $or/$nor is a whole query document"},
	"mongokit.extractAnd":       {true, "every item of $and is a whole query document: nested $and/$or keep being extracted"},
	"mongokit.extractOr":        {false, "the single alternative of $or is extracted as a set of field conditions"},
	"mongokit.matchElem":        {false, "the $elemMatch condition applies to one element (the virtual item document): bare operators are expression operators"},
	"mongokit.projectElemMatch": {false, "the $elemMatch condition applies to one element (the virtual item document): bare operators are expression operators"},
}

var flag4Upload = map[string]flagEntry{
	"lungo.UploadStream.Write":   {false, "a full buffer is flushed; nothing partial may be cut"},
	"lungo.UploadStream.Suspend": {false, "only full chunks are stored; the remainder stays in the marker-less buffer for Resume"},
	"lungo.UploadStream.Close":   {true, "the last, possibly partial, chunk is cut"},
}

func ruleFlag4(c *Ctx, r *Reporter, which int) {
	type target struct {
		callee *types.Func
		argIdx int // index into Call.Args (receiver included for methods)
		table  map[string]flagEntry
		label  string
	}
	var targets []target
	if which != 0 {
	} else if f := c.lookupFunc(pkgMongokit, "Process"); f != nil {
		targets = append(targets, target{f, 4, flag4Process, "Process root"})
	} else {
		r.bad("anchor:mongokit.Process", "-", "not found")
	}
	if which != 1 {
	} else if f := c.lookupFunc(pkgLungo, "UploadStream.upload"); f != nil {
		targets = append(targets, target{f, 1, flag4Upload, "upload final"})
	} else {
		r.bad("anchor:UploadStream.upload", "-", "not found")
	}
	n := 0
	for _, t := range targets {
		matched := map[string]bool{}
		for _, fn := range c.repoFuncs() {
			allInstrs(fn, func(in ssa.Instruction) {
				ci, ok := in.(ssa.CallInstruction)
				if !ok || calleeObj(ci.Common()) != t.callee || t.argIdx >= len(ci.Common().Args) {
					return
				}
				var entry *flagEntry
				owner := ""
				for _, nm := range ownerNames(fn, plainFuncName) {
					nm = strings.TrimSuffix(nm, "$closure")
					if e, ok := t.table[nm]; ok && entry == nil {
						e := e
						entry, owner = &e, nm
					}
				}
				key := fmt.Sprintf("%s in %s", t.label, closureNeutral(plainFuncName(fn)))
				if entry == nil {
					r.trivial(key, c.pos(in.Pos()), "a call site outside the confirmed table: not judged")
					return
				}
				v := resolveHelperValue(ci.Common().Args[t.argIdx])
				b, isConst := constBool(v)
				if !isConst {
					r.trivial(key, c.pos(in.Pos()), "the flag is computed, not a constant: not judged")
					return
				}
				n++
				matched[owner] = true
				r.check(b == entry.want, key, c.pos(in.Pos()), fmt.Sprintf("%v: %s", entry.want, entry.why), fmt.Sprintf("the flag is %v where %v is required: %s", b, entry.want, entry.why))
			})
		}
		var names []string
		for nm := range t.table {
			names = append(names, nm)
		}
		sort.Strings(names)
		for _, nm := range names {
			if !matched[nm] {
				r.unk(t.label+" in "+nm, "-", "no call site with a constant flag found for this confirmed caller")
			}
		}
	}
	r.guard(n, []int{10, 3}[which], "call sites with a confirmed constant flag")
}

// ---- ARG-1 -------------------------------------------------------------------------------

func argName(v ssa.Value) string {
	v = unspill(v)
	for d := 0; d < 3; d++ {
		switch x := v.(type) {
		case *ssa.Convert:
			v = x.X
			continue
		case *ssa.ChangeType:
			v = x.X
			continue
		}
		break
	}
	switch x := v.(type) {
	case *ssa.Parameter:
		return strings.ToLower(x.Name())
	case *ssa.Field:
		if st, ok := x.X.Type().Underlying().(*types.Struct); ok && x.Field < st.NumFields() {
			return strings.ToLower(st.Field(x.Field).Name())
		}
	case *ssa.UnOp:
		if fa, ok := x.X.(*ssa.FieldAddr); ok && x.Op == token.MUL {
			return strings.ToLower(structFieldOf(fa).Name())
		}
	}
	return ""
}

func ruleArg1(c *Ctx, r *Reporter) {
	sites, pairs := 0, 0
	for _, fn := range c.repoFuncs() {
		allInstrs(fn, func(in ssa.Instruction) {
			ci, ok := in.(ssa.CallInstruction)
			if !ok {
				return
			}
			cc := ci.Common()
			f := calleeObj(cc)
			if f == nil || f.Pkg() == nil || !strings.HasPrefix(f.Pkg().Path(), pkgLungo) {
				return
			}
			sig, _ := f.Type().(*types.Signature)
			if sig == nil || sig.Params().Len() < 2 {
				return
			}
			off := 0
			if sig.Recv() != nil && !cc.IsInvoke() {
				off = 1
			}
			if len(cc.Args) != sig.Params().Len()+off {
				return // variadic expansion or a shape this rule does not read
			}
			sites++
			np := sig.Params().Len()
			for i := 0; i < np; i++ {
				for j := i + 1; j < np; j++ {
					pi, pj := sig.Params().At(i), sig.Params().At(j)
					ni, nj := strings.ToLower(pi.Name()), strings.ToLower(pj.Name())
					if ni == "" || nj == "" || ni == "_" || nj == "_" || ni == nj || !types.Identical(pi.Type(), pj.Type()) {
						continue
					}
					ai, aj := argName(cc.Args[i+off]), argName(cc.Args[j+off])
					if ai == "" || aj == "" {
						continue
					}
					pairs++
					key := fmt.Sprintf("%s -> %s(%s,%s)", closureNeutral(plainFuncName(fn)), fullShort(f), pi.Name(), pj.Name())
					r.check(!(ai == nj && aj == ni), key, c.pos(in.Pos()), "the named arguments are not crossed", fmt.Sprintf("parameter %s receives %q and parameter %s receives %q: the two arguments are crossed", pi.Name(), ai, pj.Name(), aj))
				}
			}
		})
	}
	r.guard(pairs, 20, "pairs of same-typed named parameters fed by named values")
	_ = sites
}

// ---- SIG-4 -------------------------------------------------------------------------------

func ruleSig4(c *Ctx, r *Reporter) {
	signalF := c.field(pkgLungo, "Stream", "signal")
	closedF := c.field(pkgLungo, "Stream", "closed")
	if signalF == nil || closedF == nil {
		r.bad("anchor:Stream.signal", "-", "not found")
		return
	}
	n := 0
	for _, fn := range c.repoFuncs() {
		allInstrs(fn, func(in ssa.Instruction) {
			call, ok := in.(*ssa.Call)
			if !ok {
				return
			}
			b, isB := call.Call.Value.(*ssa.Builtin)
			if !isB || b.Name() != "close" || len(call.Call.Args) != 1 {
				return
			}
			ld, ok := call.Call.Args[0].(*ssa.UnOp)
			if !ok || ld.Op != token.MUL {
				return
			}
			base, ok := fieldAddrOf(ld.X, signalF)
			if !ok {
				return
			}
			n++
			marked := false
			allInstrs(fn, func(x ssa.Instruction) {
				st, ok := x.(*ssa.Store)
				if !ok {
					return
				}
				b2, ok := fieldAddrOf(st.Addr, closedF)
				if !ok || b2 != base {
					return
				}
				if v, isC := constBool(st.Val); !isC || !v {
					return
				}
				if st.Block() == call.Block() {
					for _, y := range st.Block().Instrs {
						if y == ssa.Instruction(st) {
							marked = true
							break
						}
						if y == ssa.Instruction(call) {
							break
						}
					}
				} else if st.Block().Dominates(call.Block()) {
					marked = true
				}
			})
			r.check(marked, "close(signal) in "+closureNeutral(plainFuncName(fn)), c.pos(call.Pos()), "the stream is marked closed before its signal channel is closed", "the signal channel is closed without stream.closed = true: a later Stream.Close (or broadcast) sends on a closed channel and panics")
		})
	}
	r.guard(n, 1, "close(stream.signal) sites")
}

// ---- GFS-8 -------------------------------------------------------------------------------

func ruleGfs8(c *Ctx, r *Reporter) {
	fields := map[*types.Var]bool{}
	for _, nm := range []string{"files", "chunks", "markers", "chunkSize"} {
		if f := c.field(pkgLungo, "Bucket", nm); f != nil {
			fields[f] = true
		} else {
			r.bad("anchor:Bucket."+nm, "-", "not found")
		}
	}
	n := 0
	for _, fn := range c.repoFuncs() {
		allInstrs(fn, func(in ssa.Instruction) {
			st, ok := in.(*ssa.Store)
			if !ok {
				return
			}
			fa, ok := st.Addr.(*ssa.FieldAddr)
			if !ok || !fields[structFieldOf(fa)] {
				return
			}
			n++
			inCtor := false
			for _, nm := range ownerNames(fn, plainFuncName) {
				if strings.TrimSuffix(nm, "$closure") == "lungo.NewBucket" {
					inCtor = true
				}
			}
			r.check(inCtor, "write of Bucket."+structFieldOf(fa).Name()+" in "+closureNeutral(plainFuncName(fn)), c.pos(st.Pos()), "set by the constructor", "a configuration field of the shared Bucket is overwritten after construction: every later upload/download of this bucket sees the new value (a per-call option must stay local)")
		})
	}
	r.guard(n, 4, "writes of Bucket configuration fields")
}
