package main

import (
	"fmt"
	"go/token"
	"go/types"
	"os"
	"sort"
	"strings"

	"golang.org/x/tools/go/ssa"
)

// Sharing analysis (DESIGN 4.1): a flow-insensitive (SSA gives flow sensitivity for locals),
// field-based may-analysis over the functions of mongokit and lungo. For every SSA value it
// computes which foreign containers the value may share memory with:
//
//   PD  containers of an argument of a driver-level API call (caller owned)
//   PE  containers of an argument of an engine-level API call (Transaction methods, read-only mongokit API)
//   S   containers of stored state (documents reachable from a bsonkit.Set)
//
// separately for the value's outermost container ("top") and for anything reachable from it ("deep").
// bsonkit primitives are modelled by a summary table. Operator dispatch through mongokit.Process is
// resolved per registry (the registries named by the Context literal at the Process call site).

const (
	tPD uint8 = 1 << iota // argument of a driver-level call
	tPE                   // argument of an engine-level call (Transaction methods, Engine.Watch)
	tS                    // stored state
	tPR                   // argument of a read-only mongokit API function (must never be written to)
	tID                   // an _id value read out of another document with Get(x, "_id") (the copy-the-id idiom)
)

func taintStr(m uint8) string {
	var out []string
	if m&tPD != 0 {
		out = append(out, "driver-argument")
	}
	if m&tPE != 0 {
		out = append(out, "engine-argument")
	}
	if m&tS != 0 {
		out = append(out, "stored-state")
	}
	if m&tPR != 0 {
		out = append(out, "argument of a read-only mongokit function")
	}
	if m&tID != 0 {
		out = append(out, "_id value of another document")
	}
	if len(out) == 0 {
		return "fresh"
	}
	return strings.Join(out, "+")
}

type tt struct{ top, deep uint8 }

func (a tt) join(b tt) tt { return tt{a.top | b.top, a.deep | b.deep | a.top | b.top} }

type shareEvent struct {
	kind   string // mutate-shallow, mutate-deep, permute, transfer, return, leak
	fn     *ssa.Function
	in     ssa.Instruction
	what   string
	target tt
	key    string
}

type Share struct {
	c       *Ctx
	val     map[ssa.Value]tt
	extra   map[ssa.Value]uint8
	cellTop map[*ssa.Alloc]uint8 // for cells holding one pointer-like value (slice, map, pointer, interface): join of the tops stored
	field   map[*types.Var]tt
	param   map[*ssa.Parameter]tt
	pfield  map[*ssa.Parameter]map[int]tt // by-value struct parameters: taint per field (share_struct.go)
	free    map[*ssa.FreeVar]tt
	ret     map[*ssa.Function]tt
	capOut  map[*ssa.Parameter]uint8
	changed bool
	funcs   []*ssa.Function
	regs    map[string]registry
	// families: for every function registered as operator, the functions it may dispatch to through Process(ctx,...)
	familyOf map[*ssa.Function][]*ssa.Function
	events   []shareEvent
	record   bool
	setT     *types.Named
	docish   map[types.Type]bool
	stats    struct{ funcs, instrs, passes int }
	curFn    *ssa.Function
	curIn    ssa.Instruction
}

var shareCache *Share

func shareAnalysis(c *Ctx) *Share {
	if shareCache != nil && shareCache.c == c {
		return shareCache
	}
	s := &Share{c: c, val: map[ssa.Value]tt{}, extra: map[ssa.Value]uint8{}, cellTop: map[*ssa.Alloc]uint8{}, field: map[*types.Var]tt{}, param: map[*ssa.Parameter]tt{},
		free: map[*ssa.FreeVar]tt{}, ret: map[*ssa.Function]tt{}, capOut: map[*ssa.Parameter]uint8{}, familyOf: map[*ssa.Function][]*ssa.Function{}, docish: map[types.Type]bool{}}
	s.setT = c.lookupType(pkgBsonkit, "Set")
	s.regs = readRegistries(c)
	for _, fn := range c.repoFuncs() {
		p := fnPkgPath(fn)
		if p == pkgMongokit || p == pkgLungo {
			s.funcs = append(s.funcs, fn)
		}
	}
	s.stats.funcs = len(s.funcs)
	s.seedBoundary()
	for pass := 0; pass < 40; pass++ {
		s.changed = false
		for _, fn := range s.funcs {
			s.analyse(fn)
		}
		s.stats.passes = pass + 1
		if !s.changed {
			break
		}
	}
	s.record = true
	for _, fn := range s.funcs {
		s.analyse(fn)
	}
	shareCache = s
	return s
}

// ---- types ---------------------------------------------------------------------------

func (s *Share) isDocish(t types.Type) bool {
	if v, ok := s.docish[t]; ok {
		return v
	}
	s.docish[t] = false // recursion guard
	res := false
	switch x := t.Underlying().(type) {
	case *types.Basic:
	case *types.Pointer:
		res = s.isDocish(x.Elem())
	case *types.Slice:
		res = s.isDocish(x.Elem())
	case *types.Array:
		res = s.isDocish(x.Elem())
	case *types.Map:
		res = s.isDocish(x.Key()) || s.isDocish(x.Elem())
	case *types.Interface:
		res = x.NumMethods() == 0
		if n, ok := t.(*types.Named); ok && n.Obj().Pkg() != nil && strings.HasPrefix(n.Obj().Pkg().Path(), "go.mongodb.org/mongo-driver/mongo") && n.Obj().Name() == "WriteModel" {
			res = true
		}
	case *types.Struct:
		if n, ok := t.(*types.Named); ok && n.Obj().Pkg() != nil {
			switch n.Obj().Pkg().Path() + "." + n.Obj().Name() {
			case "go.mongodb.org/mongo-driver/bson/primitive.Binary", "time.Time", "sync.Mutex", "sync.RWMutex", "gopkg.in/tomb.v2.Tomb":
				s.docish[t] = false
				return false
			}
		}
		for i := 0; i < x.NumFields(); i++ {
			if s.isDocish(x.Field(i).Type()) {
				res = true
			}
		}
	case *types.Tuple:
		for i := 0; i < x.Len(); i++ {
			if s.isDocish(x.At(i).Type()) {
				res = true
			}
		}
	}
	s.docish[t] = res
	return res
}

func (s *Share) repoStruct(t types.Type) bool {
	n := derefNamed(t)
	if n == nil || n.Obj().Pkg() == nil {
		return false
	}
	p := n.Obj().Pkg().Path()
	if !strings.HasPrefix(p, pkgLungo) {
		return false
	}
	_, ok := n.Underlying().(*types.Struct)
	return ok
}

// ---- boundary ------------------------------------------------------------------------

var driverTypeNames = map[string]bool{"Collection": true, "Database": true, "Client": true, "IndexView": true}
var readOnlyMongokitAPI = map[string]bool{"Match": true, "Filter": true, "Sort": true, "Project": true, "ProjectList": true, "Distinct": true, "Extract": true, "Columns": true, "Resolve": true}

func (s *Share) boundaryKind(fn *ssa.Function) uint8 {
	if fn.Parent() != nil || fn.Object() == nil || !fn.Object().Exported() {
		return 0
	}
	recv := fn.Signature.Recv()
	switch fnPkgPath(fn) {
	case pkgLungo:
		if recv == nil {
			return 0
		}
		n := derefNamed(recv.Type())
		if n == nil {
			return 0
		}
		if driverTypeNames[n.Obj().Name()] && !isBucketFile(s.c, fn) {
			return tPD
		}
		if n.Obj().Name() == "Transaction" || (n.Obj().Name() == "Engine" && fn.Name() == "Watch") {
			return tPE
		}
	case pkgMongokit:
		if recv == nil && readOnlyMongokitAPI[fn.Name()] {
			return tPR
		}

	}
	return 0
}

func (s *Share) seedBoundary() {
	for _, fn := range s.funcs {
		k := s.boundaryKind(fn)
		if k == 0 {
			continue
		}
		for i, p := range fn.Params {
			if fn.Signature.Recv() != nil && i == 0 {
				continue
			}
			if !s.isDocish(p.Type()) {
				continue
			}
			// in-place contract: Apply(doc, ...), Update(list, ...): first parameter is the caller's working copy
			if fnPkgPath(fn) == pkgMongokit && (fn.Name() == "Apply" || fn.Name() == "Update") && i == 0 {
				continue
			}
			s.param[p] = tt{k, k}
		}
	}
}

// ---- value taint ---------------------------------------------------------------------

func (s *Share) get(v ssa.Value) tt {
	switch x := v.(type) {
	case *ssa.Const, *ssa.Function, *ssa.Builtin:
		return tt{}
	case *ssa.Parameter:
		t := s.param[x]
		t.deep |= s.extra[x]
		return t
	case *ssa.FreeVar:
		return s.free[x]
	case *ssa.Global:
		return tt{}
	}
	return s.val[v]
}

func (s *Share) set(v ssa.Value, t tt) {
	if !s.isDocish(v.Type()) {
		return
	}
	t.deep |= t.top
	old := s.val[v]
	nw := old.join(t)
	if nw != old {
		s.val[v] = nw
		s.changed = true
	}
}

func (s *Share) addField(f *types.Var, t tt) {
	if !s.isDocish(f.Type()) {
		return
	}
	old := s.field[f]
	nw := old.join(t)
	if nw != old {
		s.field[f] = nw
		s.changed = true
	}
}

func (s *Share) addParam(p *ssa.Parameter, t tt) {
	if !s.isDocish(p.Type()) {
		return
	}
	if tr := os.Getenv("LUNGOCHECK_TRACE"); tr != "" && tr == p.Parent().Name()+":"+p.Name() && s.param[p].join(t) != s.param[p] {
		where := "?"
		if s.curIn != nil {
			where = s.c.pos(s.curIn.Pos()) + " in " + funcName(s.curFn)
		}
		fmt.Fprintf(os.Stderr, "TRACE %s += top=%s deep=%s from %s\n", tr, taintStr(t.top), taintStr(t.deep), where)
	}
	old := s.param[p]
	nw := old.join(t)
	if nw != old {
		s.param[p] = nw
		s.changed = true
	}
}

// roots: the objects a pointer-like value may denote (for recording captures).
func (s *Share) roots(v ssa.Value, seen map[ssa.Value]bool, out *[]ssa.Value) {
	if seen[v] || len(seen) > 64 {
		return
	}
	seen[v] = true
	switch x := v.(type) {
	case *ssa.Alloc, *ssa.MakeSlice, *ssa.MakeMap, *ssa.Call, *ssa.Parameter, *ssa.FreeVar:
		*out = append(*out, v)
	case *ssa.Phi:
		for _, e := range x.Edges {
			s.roots(e, seen, out)
		}
	case *ssa.MakeInterface:
		s.roots(x.X, seen, out)
	case *ssa.ChangeType:
		s.roots(x.X, seen, out)
	case *ssa.ChangeInterface:
		s.roots(x.X, seen, out)
	case *ssa.TypeAssert:
		s.roots(x.X, seen, out)
	case *ssa.Slice:
		s.roots(x.X, seen, out)
	case *ssa.FieldAddr:
		s.roots(x.X, seen, out)
	case *ssa.IndexAddr:
		s.roots(x.X, seen, out)
	case *ssa.Extract:
		s.roots(x.Tuple, seen, out)
	case *ssa.Next:
		s.roots(x.Iter, seen, out)
	case *ssa.Range:
		s.roots(x.X, seen, out)
	case *ssa.Lookup:
		s.roots(x.X, seen, out)
	case *ssa.UnOp:
		if x.Op == token.MUL {
			s.roots(x.X, seen, out)
		}
	}
}

// capture: the object(s) denoted by target now also reach what `t` reaches.
func (s *Share) capture(target ssa.Value, t uint8) {
	if t == 0 {
		return
	}
	var rs []ssa.Value
	s.roots(target, map[ssa.Value]bool{}, &rs)
	for _, r := range rs {
		if s.extra[r]&t != t {
			if tr := os.Getenv("LUNGOCHECK_TRACE"); tr != "" && s.curFn != nil && (tr == "capture:"+s.curFn.Name() || tr == "capture:*") {
				fmt.Fprintf(os.Stderr, "TRACE capture in %s at %s: %s += %s\n", funcName(s.curFn), s.c.pos(s.curIn.Pos()), r.Name(), taintStr(t))
			}
			s.extra[r] |= t
			s.changed = true
		}
		if p, ok := r.(*ssa.Parameter); ok {
			if s.capOut[p]&t != t {
				s.capOut[p] |= t
				s.changed = true
			}
		}
	}
	// a local cell reached as an address (not through a load of its content) may have its content replaced
	for _, a := range directCells(target, 0) {
		if isScalarCell(a) && s.cellTop[a]&t != t {
			s.cellTop[a] |= t
			s.changed = true
		}
	}
	// captured into a field of a repo struct
	if fa := fieldAddrRoot(target); fa != nil && s.repoStruct(fa.X.Type()) {
		s.addField(structFieldOf(fa), tt{0, t})
	}
}

// directCells: the local cells v may be the address of (no loads on the way).
func directCells(v ssa.Value, depth int) []*ssa.Alloc {
	if depth > 8 {
		return nil
	}
	switch x := v.(type) {
	case *ssa.Alloc:
		return []*ssa.Alloc{x}
	case *ssa.Phi:
		var out []*ssa.Alloc
		for _, e := range x.Edges {
			out = append(out, directCells(e, depth+1)...)
		}
		return out
	case *ssa.MakeInterface:
		return directCells(x.X, depth+1)
	case *ssa.ChangeType:
		return directCells(x.X, depth+1)
	case *ssa.ChangeInterface:
		return directCells(x.X, depth+1)
	case *ssa.TypeAssert:
		return directCells(x.X, depth+1)
	}
	return nil
}

func fieldAddrRoot(v ssa.Value) *ssa.FieldAddr {
	for i := 0; i < 8; i++ {
		switch x := v.(type) {
		case *ssa.FieldAddr:
			return x
		case *ssa.UnOp:
			v = x.X
		case *ssa.IndexAddr:
			v = x.X
		case *ssa.Slice:
			v = x.X
		case *ssa.MakeInterface:
			v = x.X
		case *ssa.TypeAssert:
			v = x.X
		default:
			return nil
		}
	}
	return nil
}

// ---- per-function transfer -------------------------------------------------------------

func (s *Share) analyse(fn *ssa.Function) {
	// free variables of closures take the taint of their bindings
	for _, b := range fn.Blocks {
		for _, in := range b.Instrs {
			s.stats.instrs++
			s.curFn, s.curIn = fn, in
			s.instr(fn, in)
		}
	}
}

func (s *Share) loadFrom(addr ssa.Value) tt {
	switch a := addr.(type) {
	case *ssa.FieldAddr:
		f := structFieldOf(a)
		if s.repoStruct(a.X.Type()) {
			t := s.field[f]
			if n := derefNamed(a.X.Type()); n == s.setT && s.setT != nil {
				// documents reachable from a bsonkit.Set are stored state
				t = t.join(tt{tS, tS})
			}
			// a struct handed in from outside (Operation, IndexConfig) carries its owner's taint
			if b := s.get(a.X).deep; b != 0 && s.isDocish(f.Type()) {
				t = t.join(tt{b, b})
			}
			return t
		}
		base := s.get(a.X)
		return tt{base.deep, base.deep}
	case *ssa.IndexAddr:
		base := s.get(a.X)
		return tt{base.deep, base.deep}
	case *ssa.Alloc:
		e := s.extra[a]
		if isScalarCell(a) {
			// the cell holds one slice / map / pointer / interface: its outermost container is whatever was stored
			return tt{s.cellTop[a], e}
		}
		return tt{e, e}
	case *ssa.FreeVar:
		t := s.free[a]
		return tt{t.deep, t.deep}
	case *ssa.Parameter:
		t := s.get(a)
		return tt{t.deep, t.deep}
	case *ssa.Global:
		return tt{}
	default:
		base := s.get(addr)
		return tt{base.deep, base.deep}
	}
}

func (s *Share) storeTo(fn *ssa.Function, in ssa.Instruction, addr ssa.Value, v tt) {
	switch a := addr.(type) {
	case *ssa.FieldAddr:
		if s.repoStruct(a.X.Type()) {
			s.addField(structFieldOf(a), v)
			return
		}
		s.capture(a.X, v.deep)
		s.rawMutation(fn, in, a.X, "field store")
	case *ssa.IndexAddr:
		s.capture(a.X, v.deep)
		s.rawMutation(fn, in, a.X, "element store")
	case *ssa.Alloc:
		if s.extra[a]&v.deep != v.deep {
			s.extra[a] |= v.deep
			s.changed = true
		}
		if s.cellTop[a]&v.top != v.top {
			s.cellTop[a] |= v.top
			s.changed = true
		}
	case *ssa.FreeVar:
		old := s.free[a]
		nw := old.join(tt{0, v.deep})
		if nw != old {
			s.free[a] = nw
			s.changed = true
		}
	default:
		s.capture(addr, v.deep)
		s.rawMutation(fn, in, addr, "store through pointer")
	}
}

// isScalarCell: a local variable cell whose content is a single pointer-like value (not an aggregate
// that is written piecewise through FieldAddr/IndexAddr).
func isScalarCell(a *ssa.Alloc) bool {
	pt, ok := a.Type().Underlying().(*types.Pointer)
	if !ok {
		return false
	}
	switch pt.Elem().Underlying().(type) {
	case *types.Slice, *types.Map, *types.Pointer, *types.Interface:
		return true
	}
	return false
}

// rawMutation: a store into a container that is not a local allocation.
func (s *Share) rawMutation(fn *ssa.Function, in ssa.Instruction, container ssa.Value, what string) {
	if !s.record {
		return
	}
	t := s.get(container)
	if !s.isDocish(container.Type()) {
		return
	}
	var rs []ssa.Value
	s.roots(container, map[ssa.Value]bool{}, &rs)
	local := true
	for _, r := range rs {
		switch r.(type) {
		case *ssa.Alloc, *ssa.MakeSlice, *ssa.MakeMap:
		default:
			local = false
		}
	}
	if local && t.top == 0 {
		return
	}
	s.events = append(s.events, shareEvent{kind: "mutate-shallow", fn: fn, in: in, what: what, target: t})
}

func (s *Share) instr(fn *ssa.Function, in ssa.Instruction) {
	switch x := in.(type) {
	case *ssa.Phi:
		var t tt
		for _, e := range x.Edges {
			t = t.join(s.get(e))
		}
		s.set(x, t)
	case *ssa.UnOp:
		if x.Op == token.MUL {
			if fa, ok := x.X.(*ssa.FieldAddr); ok {
				if a, ok := fa.X.(*ssa.Alloc); ok {
					if t, ok := s.cellFieldAt(a, fa.Field, x, 0); ok {
						s.set(x, t)
						break
					}
				}
			}
			s.set(x, s.loadFrom(x.X))
		}
	case *ssa.Field:
		base := s.get(x.X)
		if t, ok := s.structFieldTaint(x.X, x.Field, 0); ok && s.repoStruct(x.X.Type()) {
			s.set(x, t)
			break
		}
		if s.repoStruct(x.X.Type()) {
			t := s.field[structFieldOf(x)]
			if base.deep != 0 && s.isDocish(x.Type()) {
				t = t.join(tt{base.deep, base.deep})
			}
			s.set(x, t)
		} else {
			s.set(x, tt{base.deep, base.deep})
		}
	case *ssa.FieldAddr, *ssa.IndexAddr:
		// addresses carry the taint of their base (used when passed on as pointers)
		var base ssa.Value
		if fa, ok := x.(*ssa.FieldAddr); ok {
			base = fa.X
		} else {
			base = x.(*ssa.IndexAddr).X
		}
		s.set(x.(ssa.Value), s.get(base))
	case *ssa.Index:
		base := s.get(x.X)
		s.set(x, tt{base.deep, base.deep})
	case *ssa.Lookup:
		base := s.get(x.X)
		s.set(x, tt{base.deep, base.deep})
	case *ssa.Range:
		s.set(x, s.get(x.X))
	case *ssa.Next:
		base := s.get(x.Iter)
		if rng, ok := x.Iter.(*ssa.Range); ok {
			// the iterator itself has an opaque type that carries no taint: take it from what is ranged over
			base = base.join(s.get(rng.X))
		}
		s.set(x, tt{base.deep, base.deep})
	case *ssa.Extract:
		s.set(x, s.get(x.Tuple))
	case *ssa.Slice:
		s.set(x, s.get(x.X))
	case *ssa.MakeInterface:
		s.set(x, s.get(x.X))
	case *ssa.ChangeType:
		s.set(x, s.get(x.X))
	case *ssa.ChangeInterface:
		s.set(x, s.get(x.X))
	case *ssa.Convert:
		s.set(x, s.get(x.X))
	case *ssa.TypeAssert:
		s.set(x, s.get(x.X))
	case *ssa.Alloc:
		e := s.extra[x]
		s.set(x, tt{0, e})
	case *ssa.MakeSlice:
		s.set(x, tt{0, s.extra[x]})
	case *ssa.MakeMap:
		s.set(x, tt{0, s.extra[x]})
	case *ssa.MakeClosure:
		if cl, ok := x.Fn.(*ssa.Function); ok {
			for i, b := range x.Bindings {
				if i < len(cl.FreeVars) {
					fv := cl.FreeVars[i]
					if !s.isDocish(fv.Type()) {
						continue
					}
					var t tt
					// bindings are addresses of the captured variables
					t = s.loadFrom(b)
					t = t.join(s.get(b))
					old := s.free[fv]
					nw := old.join(t)
					if nw != old {
						s.free[fv] = nw
						s.changed = true
					}
				}
			}
		}
	case *ssa.Store:
		s.storeTo(fn, in, x.Addr, s.get(x.Val))
	case *ssa.MapUpdate:
		v := s.get(x.Value).join(s.get(x.Key))
		if u, ok := x.Map.(*ssa.UnOp); ok {
			if fa, ok := u.X.(*ssa.FieldAddr); ok && s.repoStruct(fa.X.Type()) {
				s.addField(structFieldOf(fa), tt{0, v.deep})
				return
			}
		}
		s.capture(x.Map, v.deep)
		s.rawMutation(fn, in, x.Map, "map update")
	case *ssa.Return:
		var t tt
		for i := range x.Results {
			rv := retVal(x, i)
			if rv != nil && s.isDocish(rv.Type()) {
				t = t.join(s.get(rv))
			}
		}
		old := s.ret[fn]
		nw := old.join(t)
		if nw != old {
			s.ret[fn] = nw
			s.changed = true
		}
		if s.record {
			s.checkReturn(fn, x)
		}
	case *ssa.Send:
	case ssa.CallInstruction:
		s.call(fn, x)
	}
}

// ---- calls ---------------------------------------------------------------------------

type bsonSummary struct {
	result   string // "clean", "part" (shares with arg0, new top for lists), "sub" (a sub-value of arg0)
	mutates  int    // index of the argument mutated in place (-1 none)
	deepPath int    // index of the path argument deciding shallow/deep (-1: always deep)
	captures int    // index of the argument captured into the mutated one (-1 none)
	transfer []int  // arguments that become stored state
	permute  bool
}

var bsonkitSummaries = map[string]bsonSummary{
	"Clone": {result: "clean", mutates: -1, captures: -1}, "CloneList": {result: "clean", mutates: -1, captures: -1},
	"Transform": {result: "clean", mutates: -1, captures: -1}, "TransformList": {result: "clean", mutates: -1, captures: -1},
	"Convert": {result: "clean", mutates: -1, captures: -1}, "MustConvert": {result: "clean", mutates: -1, captures: -1},
	"ConvertList": {result: "clean", mutates: -1, captures: -1}, "MustConvertList": {result: "clean", mutates: -1, captures: -1},
	"ConvertValue": {result: "clean", mutates: -1, captures: -1}, "MustConvertValue": {result: "clean", mutates: -1, captures: -1},
	"NewDoc": {result: "clean", mutates: -1, captures: -1}, "Now": {result: "clean", mutates: -1, captures: -1},
	"Transfer": {result: "clean", mutates: -1, captures: -1}, "Decode": {result: "clean", mutates: -1, captures: -1}, "DecodeList": {result: "clean", mutates: -1, captures: -1},
	"Get": {result: "sub", mutates: -1, captures: -1}, "All": {result: "sub", mutates: -1, captures: -1},
	"Pick": {result: "part", mutates: -1, captures: -1}, "Collect": {result: "part", mutates: -1, captures: -1}, "Select": {result: "part", mutates: -1, captures: -1},
	"Put": {result: "sub", mutates: 0, deepPath: 1, captures: 2}, "Unset": {result: "sub", mutates: 0, deepPath: 1, captures: -1},
	"Increment": {result: "clean", mutates: 0, deepPath: 1, captures: -1}, "Multiply": {result: "clean", mutates: 0, deepPath: 1, captures: -1},
	"Push": {result: "sub", mutates: 0, deepPath: 1, captures: 2}, "Pop": {result: "sub", mutates: 0, deepPath: 1, captures: -1},
	"Sort":        {result: "none", mutates: 0, deepPath: -2, captures: -1, permute: true},
	"NewSet":      {result: "state", mutates: -1, captures: -1, transfer: []int{0}},
	"Set.Add":     {result: "none", mutates: -1, captures: -1, transfer: []int{1}},
	"Set.Replace": {result: "none", mutates: -1, captures: -1, transfer: []int{2}},
}

func (s *Share) event(kind string, fn *ssa.Function, in ssa.Instruction, what string, t tt) {
	if s.record {
		s.events = append(s.events, shareEvent{kind: kind, fn: fn, in: in, what: what, target: t})
	}
}

func (s *Share) call(fn *ssa.Function, ci ssa.CallInstruction) {
	cc := ci.Common()
	var res ssa.Value
	if v, ok := ci.(ssa.Value); ok {
		res = v
	}
	argT := make([]tt, len(cc.Args))
	for i, a := range cc.Args {
		argT[i] = s.get(a)
	}
	// builtins
	if b, ok := cc.Value.(*ssa.Builtin); ok {
		switch b.Name() {
		case "append":
			t := argT[0]
			for _, a := range argT[1:] {
				t.deep |= a.deep
			}
			if res != nil {
				s.set(res, tt{argT[0].top, t.deep | s.extra[res]})
				// the appended elements become reachable from whatever the slice is stored in
				s.capture(cc.Args[0], t.deep)
			}
			if argT[0].top != 0 {
				s.event("mutate-shallow", fn, ci, "append to a slice whose backing array is shared", argT[0])
			}
		case "copy":
			s.capture(cc.Args[0], argT[1].deep)
			if s.isDocish(cc.Args[0].Type()) {
				s.rawMutation(fn, ci, cc.Args[0], "copy into")
			}
		case "delete":
			if s.isDocish(cc.Args[0].Type()) {
				s.rawMutation(fn, ci, cc.Args[0], "delete from map")
			}
		}
		return
	}
	f := calleeObj(cc)
	// bsonkit primitives by summary
	if f != nil && f.Pkg() != nil && f.Pkg().Path() == pkgBsonkit {
		name := fullShort(f)
		sum, ok := bsonkitSummaries[name]
		if !ok {
			// read-only / value functions (Compare, Inspect, Order, ...): result clean
			if res != nil {
				s.set(res, tt{0, s.extra[res]})
			}
			return
		}
		if sum.mutates >= 0 && sum.mutates < len(cc.Args) {
			target := cc.Args[sum.mutates]
			t := argT[sum.mutates]
			switch {
			case sum.permute:
				s.event("permute", fn, ci, "bsonkit."+name, t)
			default:
				deep := true
				if sum.deepPath >= 0 && sum.deepPath < len(cc.Args) {
					if p, ok := constString(cc.Args[sum.deepPath]); ok && !strings.Contains(p, ".") {
						deep = false
					}
				}
				if deep {
					s.event("mutate-deep", fn, ci, "bsonkit."+name, t)
				} else {
					s.event("mutate-shallow", fn, ci, "bsonkit."+name+" (single constant key)", t)
				}
			}
			if sum.captures >= 0 && sum.captures < len(cc.Args) {
				s.capture(target, argT[sum.captures].deep)
			}
		}
		for _, ti := range sum.transfer {
			if ti < len(cc.Args) {
				s.event("transfer", fn, ci, "bsonkit."+name, argT[ti])
			}
		}
		if res != nil {
			switch sum.result {
			case "clean":
				s.set(res, tt{0, s.extra[res]})
			case "sub":
				d := argT[0].deep
				// the copy-the-id idiom: Get(x, "_id") yields a value that every write path treats as
				// immutable (the _id checks of ATOM-3); it is tracked as its own kind so that copying an
				// id from a stored document into a new one does not make the new one look shared
				if name == "Get" && len(cc.Args) == 2 {
					if p, ok := constString(cc.Args[1]); ok && p == "_id" && d != 0 {
						d = tID
					}
				}
				s.set(res, tt{d, d | s.extra[res]})
			case "part":
				s.set(res, tt{0, argT[0].deep | s.extra[res]})
			case "state":
				s.set(res, tt{tS, tS})
			}
		}
		// bsonkit.Select(list, limit, selector): the selector sees the documents of the list
		if name == "Select" && len(cc.Args) == 3 {
			if mc, ok := cc.Args[2].(*ssa.MakeClosure); ok {
				if cl, ok := mc.Fn.(*ssa.Function); ok && len(cl.Params) > 0 {
					s.addParam(cl.Params[0], tt{argT[0].deep, argT[0].deep})
				}
			}
		}
		return
	}
	// inside Process / ProcessExpression everything is a pass-through of the outer call's arguments
	if top := outermost(fn); fnPkgPath(top) == pkgMongokit && (top.Name() == "Process" || top.Name() == "ProcessExpression") {
		if f != nil && f.Pkg() != nil && f.Pkg().Path() == pkgMongokit && (f.Name() == "Process" || f.Name() == "ProcessExpression") {
			return
		}
	}
	// Process / ProcessExpression: per-registry dispatch
	if f != nil && f.Pkg() != nil && f.Pkg().Path() == pkgMongokit && (f.Name() == "Process" || f.Name() == "ProcessExpression") && f.Type().(*types.Signature).Recv() == nil {
		fam := s.familyAt(fn, cc.Args[0])
		docT := argT[1]
		var queryT tt
		for i := 2; i < len(argT); i++ {
			queryT = queryT.join(argT[i])
		}
		var cap uint8
		for _, op := range fam {
			if len(op.Params) < 5 {
				continue
			}
			s.addParam(op.Params[1], docT)
			s.addParam(op.Params[4], tt{queryT.deep, queryT.deep})
			cap |= s.capOut[op.Params[1]]
		}
		s.capture(cc.Args[1], cap)
		return
	}
	// the dynamic operator calls inside Process/ProcessExpression are accounted for at the Process call sites (per registry)
	if top := outermost(fn); fnPkgPath(top) == pkgMongokit && (top.Name() == "Process" || top.Name() == "ProcessExpression") && staticFn(cc) == nil && !cc.IsInvoke() {
		return
	}
	// repo callees (static or through the call graph)
	callees := s.calleesOf(fn, ci)
	repoCallee := false
	var rt tt
	for _, callee := range callees {
		p := fnPkgPath(callee)
		if p != pkgMongokit && p != pkgLungo {
			continue
		}
		repoCallee = true
		for i, a := range cc.Args {
			if i < len(callee.Params) && s.isDocish(callee.Params[i].Type()) {
				s.addParam(callee.Params[i], argT[i])
				s.capture(a, s.capOut[callee.Params[i]])
				s.passStructArg(callee.Params[i], a, argT[i])
			}
		}
		rt = rt.join(s.ret[callee])
	}
	if res != nil {
		if repoCallee {
			s.set(res, tt{rt.top, rt.deep | s.extra[res]})
		} else if s.isDocish(res.Type()) {
			// third-party call: the result may carry whatever went in (options merging, context values)
			var t tt
			for i, a := range cc.Args {
				if s.isDocish(a.Type()) {
					t.deep |= argT[i].deep
				}
			}
			if cc.IsInvoke() && s.isDocish(cc.Value.Type()) {
				t.deep |= s.get(cc.Value).deep
			}
			s.set(res, tt{t.deep, t.deep | s.extra[res]})
		}
	}
	if !repoCallee && s.record {
		// sort.Slice* permute their argument
		name := calleeFull(cc)
		switch name {
		case "sort.Slice", "sort.SliceStable", "sort.Sort", "sort.Stable", "slices.SortFunc", "slices.SortStableFunc":
			if len(cc.Args) > 0 && s.isDocish(cc.Args[0].Type()) {
				s.event("permute", fn, ci, name, argT[0])
			}
		}
	}
}

// calleesOf: statically known callee, else the VTA call graph's callees for this site.
func (s *Share) calleesOf(fn *ssa.Function, ci ssa.CallInstruction) []*ssa.Function {
	if sf := staticFn(ci.Common()); sf != nil {
		return []*ssa.Function{sf}
	}
	if f := calleeObj(ci.Common()); f != nil && !ci.Common().IsInvoke() {
		if sf := s.c.ssaFunc(f); sf != nil {
			return []*ssa.Function{sf}
		}
	}
	node := s.c.Graph().Nodes[fn]
	if node == nil {
		return nil
	}
	var out []*ssa.Function
	for _, e := range node.Out {
		if e.Site == ci && e.Callee.Func != nil {
			out = append(out, e.Callee.Func)
		}
	}
	sort.Slice(out, func(i, j int) bool { return out[i].String() < out[j].String() })
	return out
}

// familyAt: the operator functions a Process call may dispatch to, given its Context argument.
func (s *Share) familyAt(fn *ssa.Function, ctx ssa.Value) []*ssa.Function {
	var names []string
	if u, ok := ctx.(*ssa.UnOp); ok {
		if alloc, ok := u.X.(*ssa.Alloc); ok {
			if refs := alloc.Referrers(); refs != nil {
				for _, ref := range *refs {
					fa, ok := ref.(*ssa.FieldAddr)
					if !ok {
						continue
					}
					fname := structFieldOf(fa).Name()
					if fname != "TopLevel" && fname != "Expression" {
						continue
					}
					if fr := fa.Referrers(); fr != nil {
						for _, y := range *fr {
							if st, ok := y.(*ssa.Store); ok {
								if lu, ok := st.Val.(*ssa.UnOp); ok {
									if g, ok := lu.X.(*ssa.Global); ok {
										names = append(names, g.Name())
									}
								}
							}
						}
					}
				}
			}
		}
	}
	var fam []*ssa.Function
	add := func(rn string) {
		var ks []string
		for k := range s.regs[rn] {
			ks = append(ks, k)
		}
		sort.Strings(ks)
		for _, k := range ks {
			fam = append(fam, s.regs[rn][k])
		}
	}
	if len(names) > 0 {
		for _, n := range names {
			add(n)
		}
		return fam
	}
	// ctx passed through by an operator: the registries that contain the enclosing operator,
	// together with the registries they are paired with at literal sites
	top := outermost(fn)
	if cached, ok := s.familyOf[top]; ok {
		return cached
	}
	paired := map[string][]string{
		"TopLevelQueryOperators": {"TopLevelQueryOperators", "ExpressionQueryOperators"}, "ExpressionQueryOperators": {"TopLevelQueryOperators", "ExpressionQueryOperators"},
		"TopLevelExtractOperators": {"TopLevelExtractOperators", "ExpressionExtractOperators"}, "ExpressionExtractOperators": {"TopLevelExtractOperators", "ExpressionExtractOperators"},
		"FieldUpdateOperators": {"FieldUpdateOperators"}, "ProjectionExpressionOperators": {"ProjectionExpressionOperators"},
	}
	seen := map[string]bool{}
	var rns []string
	for rn, reg := range s.regs {
		for _, f := range reg {
			if f == top {
				for _, p := range paired[rn] {
					if !seen[p] {
						seen[p] = true
						rns = append(rns, p)
					}
				}
			}
		}
	}
	sort.Strings(rns)
	for _, rn := range rns {
		add(rn)
	}
	if len(fam) == 0 {
		// Process/ProcessExpression themselves and unknown pass-through: every operator (conservative)
		var all []string
		for rn := range s.regs {
			all = append(all, rn)
		}
		sort.Strings(all)
		for _, rn := range all {
			add(rn)
		}
	}
	s.familyOf[top] = fam
	return fam
}

// ---- returns at the driver boundary --------------------------------------------------------

var wrapperTypes = map[string]bool{"Cursor": true, "SingleResult": true, "Stream": true}

func (s *Share) checkReturn(fn *ssa.Function, ret *ssa.Return) {
	if s.boundaryKind(fn) != tPD {
		// accessors of the wrapper types
		recv := fn.Signature.Recv()
		if recv == nil || fn.Object() == nil || !fn.Object().Exported() || fnPkgPath(fn) != pkgLungo {
			return
		}
		n := derefNamed(recv.Type())
		if n == nil || !wrapperTypes[n.Obj().Name()] {
			return
		}
	}
	for i := range ret.Results {
		rv := retVal(ret, i)
		if rv == nil || !s.isDocish(rv.Type()) {
			continue
		}
		s.events = append(s.events, shareEvent{kind: "return", fn: fn, in: ret, what: fmt.Sprintf("result %d", i), target: s.get(rv)})
	}
}
