package main

import (
	"go/constant"
	"go/token"
	"go/types"

	"golang.org/x/tools/go/ssa"
)

// ---- instruction positions / dominance --------------------------------------

func instrIndex(in ssa.Instruction) int {
	b := in.Block()
	for i, x := range b.Instrs {
		if x == in {
			return i
		}
	}
	return -1
}

// instrDominates: a executes before b on every path from entry to b.
func instrDominates(a, b ssa.Instruction) bool {
	if a.Parent() != b.Parent() {
		return false
	}
	ba, bb := a.Block(), b.Block()
	if ba == bb {
		return instrIndex(a) < instrIndex(b)
	}
	return ba.Dominates(bb)
}

// blockReach computes the set of blocks reachable from the given start blocks without
// entering a blocked block (start blocks themselves are included unless blocked).
func blockReach(starts []*ssa.BasicBlock, blocked map[*ssa.BasicBlock]bool) map[*ssa.BasicBlock]bool {
	seen := map[*ssa.BasicBlock]bool{}
	var stack []*ssa.BasicBlock
	for _, s := range starts {
		if !blocked[s] && !seen[s] {
			seen[s] = true
			stack = append(stack, s)
		}
	}
	for len(stack) > 0 {
		b := stack[len(stack)-1]
		stack = stack[:len(stack)-1]
		for _, s := range b.Succs {
			if !blocked[s] && !seen[s] {
				seen[s] = true
				stack = append(stack, s)
			}
		}
	}
	return seen
}

// instrReaches: can control flow from just after a reach b?
func instrReaches(a, b ssa.Instruction) bool {
	if a.Parent() != b.Parent() {
		return false
	}
	if a.Block() == b.Block() && instrIndex(a) < instrIndex(b) {
		return true
	}
	r := blockReach(a.Block().Succs, nil)
	return r[b.Block()]
}

// ---- calls -------------------------------------------------------------------

// calleeObj resolves the *types.Func a call statically refers to (function, method, or
// interface method), or nil for dynamic calls of function values.
func calleeObj(cc *ssa.CallCommon) *types.Func {
	if cc.IsInvoke() {
		return cc.Method
	}
	switch v := cc.Value.(type) {
	case *ssa.Function:
		if f, ok := v.Object().(*types.Func); ok {
			return f
		}
		// instantiated generic / wrapper
		if v.Origin() != nil {
			if f, ok := v.Origin().Object().(*types.Func); ok {
				return f
			}
		}
	case *ssa.MakeClosure:
		if fn, ok := v.Fn.(*ssa.Function); ok {
			if f, ok := fn.Object().(*types.Func); ok {
				return f
			}
		}
	}
	return nil
}

// staticFn returns the concrete ssa.Function called, if statically known (incl. immediately applied closures).
func staticFn(cc *ssa.CallCommon) *ssa.Function {
	if cc.IsInvoke() {
		return nil
	}
	switch v := cc.Value.(type) {
	case *ssa.Function:
		return v
	case *ssa.MakeClosure:
		fn, _ := v.Fn.(*ssa.Function)
		return fn
	}
	return nil
}

func isCallTo(in ssa.Instruction, pkg, name string) (ssa.CallInstruction, bool) {
	ci, ok := in.(ssa.CallInstruction)
	if !ok {
		return nil, false
	}
	f := calleeObj(ci.Common())
	if f == nil || f.Pkg() == nil || f.Pkg().Path() != pkg {
		return nil, false
	}
	if fullShort(f) != name {
		return nil, false
	}
	return ci, true
}

// fullShort gives "Func" or "Type.Method" for a *types.Func.
func fullShort(f *types.Func) string {
	sig := f.Type().(*types.Signature)
	if recv := sig.Recv(); recv != nil {
		if n := derefNamed(recv.Type()); n != nil {
			return n.Obj().Name() + "." + f.Name()
		}
		// interface method
		return "?." + f.Name()
	}
	return f.Name()
}

// callsIn lists the call instructions (call/go/defer) of fn (not closures) that resolve to pkg.name.
func callsIn(fn *ssa.Function, pkg, name string) []ssa.CallInstruction {
	var out []ssa.CallInstruction
	for _, b := range fn.Blocks {
		for _, in := range b.Instrs {
			if ci, ok := isCallTo(in, pkg, name); ok {
				out = append(out, ci)
			}
		}
	}
	return out
}

// allInstrs iterates over all instructions of fn.
func allInstrs(fn *ssa.Function, f func(ssa.Instruction)) {
	for _, b := range fn.Blocks {
		for _, in := range b.Instrs {
			f(in)
		}
	}
}

// withClosures returns fn plus all (transitively) nested anonymous functions.
func withClosures(fn *ssa.Function) []*ssa.Function {
	out := []*ssa.Function{fn}
	for _, a := range fn.AnonFuncs {
		out = append(out, withClosures(a)...)
	}
	return out
}

// ---- values --------------------------------------------------------------------

// stripValue looks through value-preserving wrappers.
func stripValue(v ssa.Value) ssa.Value {
	for {
		switch x := v.(type) {
		case *ssa.ChangeType:
			v = x.X
		case *ssa.MakeInterface:
			v = x.X
		case *ssa.ChangeInterface:
			v = x.X
		case *ssa.Convert:
			// only look through conversions between identical underlying types
			if types.Identical(x.X.Type().Underlying(), x.Type().Underlying()) {
				v = x.X
			} else {
				return v
			}
		default:
			if u := unspill(v); u != v {
				v = u
				continue
			}
			return v
		}
	}
}

// unspill: a variable that a closure captures lives in a cell (t0 = new T; *t0 = x; ... *t0). When the cell is
// written exactly once, that store comes before the load, and no closure writes it or passes it on, a load of the cell
// is the stored value. (Adding a closure that merely reads a parameter must not change what a rule sees.)
func unspill(v ssa.Value) ssa.Value {
	ld, ok := v.(*ssa.UnOp)
	if !ok || ld.Op != token.MUL {
		return v
	}
	var cell ssa.Value = ld.X
	var al *ssa.Alloc
	switch x := cell.(type) {
	case *ssa.Alloc:
		al = x
	case *ssa.FreeVar:
		// inside the closure: find the cell in the enclosing function
		fn := x.Parent()
		par := fn.Parent()
		if par == nil {
			return v
		}
		idx := -1
		for i, fv := range fn.FreeVars {
			if fv == x {
				idx = i
			}
		}
		var mk *ssa.MakeClosure
		n := 0
		allInstrs(par, func(in ssa.Instruction) {
			if m, ok := in.(*ssa.MakeClosure); ok && m.Fn == ssa.Value(fn) {
				mk = m
				n++
			}
		})
		if n != 1 || idx < 0 || idx >= len(mk.Bindings) {
			return v
		}
		al, _ = mk.Bindings[idx].(*ssa.Alloc)
	}
	if al == nil || al.Referrers() == nil {
		return v
	}
	var store *ssa.Store
	for _, ref := range *al.Referrers() {
		switch r := ref.(type) {
		case *ssa.Store:
			if r.Addr != ssa.Value(al) || store != nil {
				return v
			}
			store = r
		case *ssa.UnOp:
			if r.Op != token.MUL {
				return v
			}
		case *ssa.MakeClosure:
			cl, _ := r.Fn.(*ssa.Function)
			if cl == nil {
				return v
			}
			for i, bnd := range r.Bindings {
				if bnd != ssa.Value(al) {
					continue
				}
				if i >= len(cl.FreeVars) || cl.FreeVars[i].Referrers() == nil {
					return v
				}
				for _, fr := range *cl.FreeVars[i].Referrers() {
					if u, ok := fr.(*ssa.UnOp); !ok || u.Op != token.MUL {
						return v
					}
				}
			}
		case *ssa.DebugRef:
		case *ssa.IndexAddr, *ssa.FieldAddr:
			// reading a part of the variable (handle[0]) is no write
			if !onlyRead(r.(ssa.Value), 0) {
				return v
			}
		default:
			return v
		}
	}
	if store == nil {
		return v
	}
	if _, inClosure := cell.(*ssa.FreeVar); !inClosure {
		if !instrDominates(store, ld) {
			return v
		}
	} else {
		// the closure is created after the store
		okAll := true
		for _, ref := range *al.Referrers() {
			if mk, ok := ref.(*ssa.MakeClosure); ok && !instrDominates(store, mk) {
				okAll = false
			}
		}
		if !okAll {
			return v
		}
	}
	return store.Val
}

func isNilConst(v ssa.Value) bool {
	c, ok := v.(*ssa.Const)
	return ok && c.Value == nil
}

func constString(v ssa.Value) (string, bool) {
	c, ok := stripValue(v).(*ssa.Const)
	if !ok || c.Value == nil || c.Value.Kind() != constant.String {
		return "", false
	}
	return constant.StringVal(c.Value), true
}

func constInt(v ssa.Value) (int64, bool) {
	c, ok := stripValue(v).(*ssa.Const)
	if !ok || c.Value == nil || c.Value.Kind() != constant.Int {
		return 0, false
	}
	i, ok := constant.Int64Val(c.Value)
	return i, ok
}

func constBool(v ssa.Value) (bool, bool) {
	c, ok := stripValue(v).(*ssa.Const)
	if !ok || c.Value == nil || c.Value.Kind() != constant.Bool {
		return false, false
	}
	return constant.BoolVal(c.Value), true
}

// fieldAddrOf: is v the address of field f (by object identity) of some struct? returns the base.
func fieldAddrOf(v ssa.Value, f *types.Var) (ssa.Value, bool) {
	fa, ok := v.(*ssa.FieldAddr)
	if !ok {
		return nil, false
	}
	st, ok := fa.X.Type().Underlying().(*types.Pointer).Elem().Underlying().(*types.Struct)
	if !ok {
		return nil, false
	}
	if st.Field(fa.Field) == f {
		return fa.X, true
	}
	return nil, false
}

// structFieldOf returns the field object accessed by a FieldAddr / Field instruction.
func structFieldOf(v ssa.Value) *types.Var {
	switch x := v.(type) {
	case *ssa.FieldAddr:
		if p, ok := x.X.Type().Underlying().(*types.Pointer); ok {
			if st, ok := p.Elem().Underlying().(*types.Struct); ok {
				return st.Field(x.Field)
			}
		}
	case *ssa.Field:
		if st, ok := x.X.Type().Underlying().(*types.Struct); ok {
			return st.Field(x.Field)
		}
	}
	return nil
}

// ---- error checks ----------------------------------------------------------------

// errCheck describes an `if err != nil` (or `== nil`) test of a particular value.
type errCheck struct {
	If       *ssa.If
	FailSucc *ssa.BasicBlock // successor taken when the error is non-nil
	OkSucc   *ssa.BasicBlock
}

// errChecksOf finds the conditionals that test the error value v against nil. It looks
// through phis that merge v with other values (the `err = f()` re-assignment idiom keeps
// one SSA value per assignment, so usually the test is on v directly).
func errChecksOf(v ssa.Value) []errCheck {
	var out []errCheck
	seen := map[ssa.Value]bool{}
	var visit func(x ssa.Value)
	visit = func(x ssa.Value) {
		if seen[x] {
			return
		}
		seen[x] = true
		refs := x.Referrers()
		if refs == nil {
			return
		}
		for _, r := range *refs {
			switch u := r.(type) {
			case *ssa.BinOp:
				if (u.Op == token.NEQ || u.Op == token.EQL) && (isNilConst(u.X) || isNilConst(u.Y)) {
					if urefs := u.Referrers(); urefs != nil {
						for _, ur := range *urefs {
							if iff, ok := ur.(*ssa.If); ok {
								b := iff.Block()
								if u.Op == token.NEQ {
									out = append(out, errCheck{iff, b.Succs[0], b.Succs[1]})
								} else {
									out = append(out, errCheck{iff, b.Succs[1], b.Succs[0]})
								}
							}
						}
					}
				}
			case *ssa.Phi:
				visit(u)
			}
		}
	}
	visit(v)
	return out
}

// errChecksDeep: errChecksOf, also following the value into private helpers it is handed to (txn, err := Begin();
// return finish(txn, err) tests the error inside finish). The blocks of such a check belong to the helper.
func errChecksDeep(v ssa.Value) []errCheck {
	out := errChecksOf(v)
	seen := map[ssa.Value]bool{}
	var follow func(x ssa.Value, depth int)
	follow = func(x ssa.Value, depth int) {
		if seen[x] || depth > 3 || x.Referrers() == nil {
			return
		}
		seen[x] = true
		for _, r := range *x.Referrers() {
			switch u := r.(type) {
			case *ssa.Phi:
				follow(u, depth)
			case *ssa.Call:
				h := privateHelperOf(&u.Call)
				if h == nil {
					continue
				}
				for i, a := range u.Call.Args {
					if a == x && i < len(h.Params) {
						out = append(out, errChecksOf(h.Params[i])...)
						follow(h.Params[i], depth+1)
					}
				}
			}
		}
	}
	follow(v, 0)
	return out
}

// tupleResult returns the Extract of index i of a call's tuple result (or the call itself if single result and i==0).
func tupleResult(call ssa.Value, i int) ssa.Value {
	if tup, ok := call.Type().(*types.Tuple); ok {
		if refs := call.Referrers(); refs != nil {
			for _, r := range *refs {
				if ex, ok := r.(*ssa.Extract); ok && ex.Index == i {
					return ex
				}
			}
		}
		_ = tup
		return nil
	}
	if i == 0 {
		return call
	}
	return nil
}

// errorResult returns the value carrying the (last) error result of a call, or nil.
func errorResult(call *ssa.Call) ssa.Value {
	sig := call.Call.Signature()
	n := sig.Results().Len()
	if n == 0 {
		return nil
	}
	last := sig.Results().At(n - 1).Type()
	if !isErrorType(last) {
		return nil
	}
	if n == 1 {
		return call
	}
	return tupleResult(call, n-1)
}

func isErrorType(t types.Type) bool {
	return types.Identical(t, types.Universe.Lookup("error").Type())
}

// returnsOf lists the Return instructions of fn.
func returnsOf(fn *ssa.Function) []*ssa.Return {
	var out []*ssa.Return
	for _, b := range fn.Blocks {
		if len(b.Instrs) == 0 {
			continue
		}
		if r, ok := b.Instrs[len(b.Instrs)-1].(*ssa.Return); ok {
			out = append(out, r)
		}
	}
	return out
}

// returnValue looks through the defer-spill (load of a named result alloc) to the returned value where simple.
func isNilReturnAt(r *ssa.Return, i int) bool {
	if i >= len(r.Results) {
		return false
	}
	return isNilConst(r.Results[i])
}

// escapesBefore walks all paths starting right after `start` and reports the first function
// exit (Return) that can be reached without executing an instruction for which pass() is true.
// stop() may mark additional instructions as bad exits (e.g. a loop back to the start).
func exitWithoutPassing(start ssa.Instruction, pass func(ssa.Instruction) bool, stop func(ssa.Instruction) bool) ssa.Instruction {
	type item struct {
		b   *ssa.BasicBlock
		idx int
	}
	seen := map[*ssa.BasicBlock]bool{}
	var bad ssa.Instruction
	var walk func(it item)
	walk = func(it item) {
		if bad != nil {
			return
		}
		for i := it.idx; i < len(it.b.Instrs); i++ {
			x := it.b.Instrs[i]
			if pass(x) {
				return
			}
			if stop != nil && stop(x) {
				bad = x
				return
			}
			if _, ok := x.(*ssa.Return); ok {
				bad = x
				return
			}
		}
		for _, s := range it.b.Succs {
			if !seen[s] {
				seen[s] = true
				walk(item{s, 0})
			}
		}
	}
	walk(item{start.Block(), instrIndex(start) + 1})
	return bad
}

// retVal returns the value actually returned in result slot i. Functions with defers spill
// their results: `*r = v; rundefers; t = *r; return t` - the spilled value is recovered from
// the last store to the result cell in the same block.
func retVal(ret *ssa.Return, i int) ssa.Value {
	if i >= len(ret.Results) {
		return nil
	}
	v := ret.Results[i]
	u, ok := v.(*ssa.UnOp)
	if !ok || u.Op != token.MUL {
		return v
	}
	cell, ok := u.X.(*ssa.Alloc)
	if !ok {
		return v
	}
	b := ret.Block()
	var last ssa.Value
	for _, in := range b.Instrs {
		if st, ok := in.(*ssa.Store); ok && st.Addr == cell {
			last = st.Val
		}
	}
	if last != nil {
		return last
	}
	return v
}

// onlyRead: the address a is used for nothing but loads (of it or of parts of it).
func onlyRead(a ssa.Value, depth int) bool {
	if a.Referrers() == nil || depth > 3 {
		return false
	}
	for _, ref := range *a.Referrers() {
		switch r := ref.(type) {
		case *ssa.UnOp:
			if r.Op != token.MUL {
				return false
			}
		case *ssa.IndexAddr, *ssa.FieldAddr:
			if !onlyRead(r.(ssa.Value), depth+1) {
				return false
			}
		case *ssa.DebugRef:
		default:
			return false
		}
	}
	return true
}
