package main

import (
	"fmt"
	"go/ast"
	"go/constant"
	"go/token"
	"go/types"
	"reflect"
	"sort"
	"strings"

	"golang.org/x/tools/go/ssa"
)

func init() {
	register(&Rule{ID: "TAB-1", Doc: "BSON type universe: the types ConvertValue produces are all handled by Inspect (plus Missing) and cloneValue; every Class is returned by Inspect and has a case in Compare; each class comparator asserts exactly the Go types Inspect maps to that class; the Class constants increase in MongoDB's comparison order", Run: ruleTab1})
	register(&Rule{ID: "TAB-2", Doc: "operator registries: every operator the properties name is registered; functions registered under several names dispatch on exactly those names with an error default; update/projection operators assert the ctx.Value type their unique Process site supplies", Run: ruleTab2})
	register(&Rule{ID: "TAB-3", Doc: "struct field coverage: the persisted FileIndex/FileNamespace mirror IndexConfig/Collection field by field (plain copies, no arithmetic), and Config/Equal/ListIndexes/CreateOne reference every field of IndexConfig", Run: ruleTab3})
	register(&Rule{ID: "TAB-4", Doc: "codec tags of File, FileNamespace, FileIndex: all fields exported, bson names pairwise distinct and not '-'", Run: ruleTab4})
	register(&Rule{ID: "TAB-5", Doc: "numeric promotion: in bsonkit.Add and Mul the static type returned for each of the 16 (left,right) cases is max(left,right) in int32<int64<float64<Decimal128", Run: ruleTab5})
	register(&Rule{ID: "TAB-6", Doc: "op-string agreement: every operation type the stream or append compares against is one that some caller of Transaction.append writes; the six event kinds are all written", Run: ruleTab6})
	register(&Rule{ID: "TAB-7", Doc: "TTL sentinel: every comparison of IndexConfig.Expiry with a constant is `> 0`, and IndexView.CreateOne maps expireAfterSeconds==0 to a positive duration", Run: ruleTab7})
}

func (c *Ctx) funcDecl(pkg, name string) (*ast.FuncDecl, *types.Info) {
	f := c.lookupFunc(pkg, name)
	if f == nil {
		return nil, nil
	}
	return c.declOf[f], c.pkgOf[f].TypesInfo
}

// funcDeclCone: the declaration of pkg.name with the bodies of its private helpers (helpers.go) appended to its own,
// for rules that scan a function's syntax for what it mentions: a block moved into a helper that only this function
// calls is still part of what the function does.
func (c *Ctx) funcDeclCone(pkg, name string) (*ast.FuncDecl, *types.Info) {
	d, info := c.funcDecl(pkg, name)
	if d == nil || d.Body == nil || c.Prog == nil {
		return d, info
	}
	fn := c.ssaFunc(c.lookupFunc(pkg, name))
	if fn == nil {
		return d, info
	}
	cone := helperCone(fn)
	if len(cone) == 1 {
		return d, info
	}
	cp := *d
	body := *d.Body
	body.List = append([]ast.Stmt{}, d.Body.List...)
	for _, h := range cone[1:] {
		obj, ok := h.Object().(*types.Func)
		if !ok || c.declOf[obj] == nil || c.declOf[obj].Body == nil || c.pkgOf[obj] == nil || c.pkgOf[obj].TypesInfo != info {
			continue
		}
		body.List = append(body.List, c.declOf[obj].Body)
	}
	cp.Body = &body
	return &cp, info
}

func typeKey(t types.Type) string {
	if t == nil {
		return "nil"
	}
	return types.TypeString(t, func(p *types.Package) string { return p.Name() })
}

// typeSwitchCases returns, per clause, the case types (nil type for `case nil`) of the first type switch on parameter `param` in fn.
func typeSwitchClauses(decl *ast.FuncDecl, info *types.Info) [][]types.Type {
	var out [][]types.Type
	found := false
	ast.Inspect(decl.Body, func(n ast.Node) bool {
		if found {
			return false
		}
		ts, ok := n.(*ast.TypeSwitchStmt)
		if !ok {
			return true
		}
		found = true
		for _, cl := range ts.Body.List {
			cc := cl.(*ast.CaseClause)
			if cc.List == nil {
				continue // default
			}
			var tys []types.Type
			for _, e := range cc.List {
				tv := info.Types[e]
				if tv.IsNil() {
					tys = append(tys, nil)
				} else {
					tys = append(tys, tv.Type)
				}
			}
			out = append(out, tys)
		}
		return false
	})
	return out
}

func ruleTab1(c *Ctx, r *Reporter) {
	convDecl, convInfo := c.funcDecl(pkgBsonkit, "ConvertValue")
	inspDecl, inspInfo := c.funcDecl(pkgBsonkit, "Inspect")
	cloneDecl, cloneInfo := c.funcDecl(pkgBsonkit, "cloneValue")
	if convDecl == nil || inspDecl == nil || cloneDecl == nil {
		r.bad("anchor:ConvertValue/Inspect/cloneValue", "-", "not found")
		return
	}
	// U: types ConvertValue can produce
	U := map[string]bool{}
	ast.Inspect(convDecl.Body, func(n ast.Node) bool {
		ts, ok := n.(*ast.TypeSwitchStmt)
		if !ok {
			return true
		}
		var bound *ast.Ident
		if as, ok := ts.Assign.(*ast.AssignStmt); ok {
			bound, _ = as.Lhs[0].(*ast.Ident)
		}
		for _, cl := range ts.Body.List {
			cc := cl.(*ast.CaseClause)
			if cc.List == nil {
				continue
			}
			ast.Inspect(cc, func(m ast.Node) bool {
				ret, ok := m.(*ast.ReturnStmt)
				if !ok || len(ret.Results) == 0 {
					return true
				}
				e := ret.Results[0]
				if id, ok := e.(*ast.Ident); ok && bound != nil && id.Name == bound.Name {
					// passthrough of the switched value: all case types
					for _, ce := range cc.List {
						tv := convInfo.Types[ce]
						if tv.IsNil() {
							U["nil"] = true
						} else {
							U[typeKey(tv.Type)] = true
						}
					}
					return true
				}
				tv := convInfo.Types[e]
				if tv.IsNil() {
					// `return nil, err` / `return nil, nil`
					if len(ret.Results) == 2 {
						if tv2 := convInfo.Types[ret.Results[1]]; tv2.IsNil() {
							U["nil"] = true
						}
					}
					return true
				}
				t := tv.Type
				if tup, ok := t.(*types.Tuple); ok && tup.Len() > 0 {
					t = tup.At(0).Type()
				}
				U[typeKey(t)] = true
				return true
			})
		}
		return false
	})
	delete(U, "interface{}")
	delete(U, "any")
	var ulist []string
	for k := range U {
		ulist = append(ulist, k)
	}
	sort.Strings(ulist)
	r.guard(len(U), 14, "types produced by ConvertValue ("+strings.Join(ulist, " ")+")")

	caseSet := func(decl *ast.FuncDecl, info *types.Info) map[string]bool {
		m := map[string]bool{}
		for _, cl := range typeSwitchClauses(decl, info) {
			for _, t := range cl {
				m[typeKey(t)] = true
			}
		}
		return m
	}
	insp := caseSet(inspDecl, inspInfo)
	cln := caseSet(cloneDecl, cloneInfo)
	for _, t := range ulist {
		r.check(insp[t], "Inspect handles "+t, c.pos(inspDecl.Pos()), "has a case", "a value ConvertValue can produce has no case in Inspect: Compare/Match would panic on stored data")
		r.check(cln[t], "cloneValue handles "+t, c.pos(cloneDecl.Pos()), "has a case", "a value ConvertValue can produce has no case in cloneValue: Clone would panic on stored data")
	}
	r.check(insp["bsonkit.MissingType"], "Inspect handles bsonkit.MissingType", c.pos(inspDecl.Pos()), "has a case", "Missing is not handled by Inspect")

	// classes
	classT := c.lookupType(pkgBsonkit, "Class")
	if classT == nil {
		r.bad("anchor:bsonkit.Class", "-", "not found")
		return
	}
	scope := c.Pkgs[pkgBsonkit].Types.Scope()
	classConst := map[string]int64{}
	for _, n := range scope.Names() {
		if k, ok := scope.Lookup(n).(*types.Const); ok && types.Identical(k.Type(), classT) {
			v, _ := constant.Int64Val(k.Val())
			classConst[n] = v
		}
	}
	order := []string{"Null", "Number", "String", "Document", "Array", "Binary", "ObjectID", "Boolean", "Date", "Timestamp", "Regex"}
	okOrder := len(classConst) == len(order)
	for i, n := range order {
		v, ok := classConst[n]
		if !ok {
			okOrder = false
			continue
		}
		if i > 0 && !(classConst[order[i-1]] < v) {
			okOrder = false
		}
	}
	r.check(okOrder, "Class order", c.pos(inspDecl.Pos()), "Null<Number<String<Document<Array<Binary<ObjectID<Boolean<Date<Timestamp<Regex as numeric constants (Compare orders classes with < and >)", fmt.Sprintf("the Class constants %v are not strictly increasing in MongoDB's comparison order", classConst))

	// Inspect: class per type
	classOfType := map[string]string{}
	returned := map[string]bool{}
	ast.Inspect(inspDecl.Body, func(n ast.Node) bool {
		cc, ok := n.(*ast.CaseClause)
		if !ok || cc.List == nil {
			return true
		}
		cls := ""
		ast.Inspect(cc, func(m ast.Node) bool {
			if ret, ok := m.(*ast.ReturnStmt); ok && len(ret.Results) >= 1 {
				if id, ok := ret.Results[0].(*ast.Ident); ok {
					cls = id.Name
				}
			}
			return true
		})
		returned[cls] = true
		for _, e := range cc.List {
			tv := inspInfo.Types[e]
			if tv.IsNil() {
				classOfType["nil"] = cls
			} else {
				classOfType[typeKey(tv.Type)] = cls
			}
		}
		return true
	})
	for _, n := range order {
		r.check(returned[n], "Inspect returns "+n, c.pos(inspDecl.Pos()), "class is produced by Inspect", "class is never produced by Inspect")
	}

	// Compare: case per class -> comparator; comparator's asserted types == types Inspect maps to the class
	cmpDecl, cmpInfo := c.funcDecl(pkgBsonkit, "Compare")
	if cmpDecl == nil {
		r.bad("anchor:bsonkit.Compare", "-", "not found")
		return
	}
	comparatorOf := map[string]string{}
	ast.Inspect(cmpDecl.Body, func(n ast.Node) bool {
		sw, ok := n.(*ast.SwitchStmt)
		if !ok {
			return true
		}
		for _, cl := range sw.Body.List {
			cc := cl.(*ast.CaseClause)
			for _, e := range cc.List {
				id, ok := e.(*ast.Ident)
				if !ok {
					continue
				}
				callee := ""
				ast.Inspect(cc, func(m ast.Node) bool {
					if call, ok := m.(*ast.CallExpr); ok {
						if fid, ok := call.Fun.(*ast.Ident); ok {
							if _, isFn := cmpInfo.Uses[fid].(*types.Func); isFn {
								callee = fid.Name
							}
						}
					}
					return true
				})
				comparatorOf[id.Name] = callee
			}
		}
		return false
	})
	for _, cls := range order {
		cmp, has := comparatorOf[cls]
		if !r.check(has, "Compare case "+cls, c.pos(cmpDecl.Pos()), "has a case", "class has no case in Compare: comparing two such values panics") {
			continue
		}
		if cmp == "" {
			r.trivial("Compare comparator "+cls, c.pos(cmpDecl.Pos()), "no comparator needed (all values equal)")
			continue
		}
		d, info := c.funcDecl(pkgBsonkit, cmp)
		if d == nil {
			r.bad("Compare comparator "+cls, c.pos(cmpDecl.Pos()), "comparator "+cmp+" not found")
			continue
		}
		// asserted types on lv and rv
		asserted := map[string]map[string]bool{}
		ast.Inspect(d.Body, func(n ast.Node) bool {
			switch x := n.(type) {
			case *ast.TypeAssertExpr:
				if id, ok := x.X.(*ast.Ident); ok && x.Type != nil {
					if asserted[id.Name] == nil {
						asserted[id.Name] = map[string]bool{}
					}
					asserted[id.Name][typeKey(info.Types[x.Type].Type)] = true
				}
			case *ast.TypeSwitchStmt:
				var id *ast.Ident
				switch a := x.Assign.(type) {
				case *ast.AssignStmt:
					id, _ = a.Rhs[0].(*ast.TypeAssertExpr).X.(*ast.Ident)
				case *ast.ExprStmt:
					id, _ = a.X.(*ast.TypeAssertExpr).X.(*ast.Ident)
				}
				if id != nil {
					if asserted[id.Name] == nil {
						asserted[id.Name] = map[string]bool{}
					}
					for _, cl := range x.Body.List {
						for _, e := range cl.(*ast.CaseClause).List {
							asserted[id.Name][typeKey(info.Types[e].Type)] = true
						}
					}
				}
			}
			return true
		})
		want := map[string]bool{}
		for t, cl := range classOfType {
			if cl == cls {
				want[t] = true
			}
		}
		okAll := len(d.Type.Params.List) > 0
		var params []string
		for _, f := range d.Type.Params.List {
			for _, n := range f.Names {
				params = append(params, n.Name)
			}
		}
		for _, p := range params {
			if !reflect.DeepEqual(asserted[p], want) {
				okAll = false
			}
		}
		r.check(okAll, "Compare comparator "+cls, c.pos(d.Pos()), fmt.Sprintf("%s asserts exactly the types Inspect maps to %s: %v", cmp, cls, keys(want)), fmt.Sprintf("%s asserts %v / %v but Inspect maps %v to %s: an unchecked assertion can panic or a type is unhandled", cmp, keys(asserted[params[0]]), keys(asserted[params[len(params)-1]]), keys(want), cls))
	}
	// compareNumbers: 4x4
	if d, info := c.funcDecl(pkgBsonkit, "compareNumbers"); d != nil {
		pairs := 0
		ast.Inspect(d.Body, func(n ast.Node) bool {
			ts, ok := n.(*ast.TypeSwitchStmt)
			if !ok {
				return true
			}
			// count only inner switches: those nested in a case clause
			_ = info
			for _, cl := range ts.Body.List {
				pairs += len(cl.(*ast.CaseClause).List)
			}
			return true
		})
		// outer 4 + inner 16
		r.check(pairs == 20, "compareNumbers 4x4", c.pos(d.Pos()), "4 outer and 16 inner type cases", fmt.Sprintf("expected 4 outer + 16 inner numeric cases, found %d labels", pairs))
	}
}

func keys(m map[string]bool) []string {
	var out []string
	for k := range m {
		out = append(out, k)
	}
	sort.Strings(out)
	return out
}

// ---- TAB-2 -----------------------------------------------------------------------

type registry map[string]*ssa.Function

func readRegistries(c *Ctx) map[string]registry {
	regs := map[string]registry{}
	sp := c.SSA[pkgMongokit]
	for _, m := range sp.Members {
		fn, ok := m.(*ssa.Function)
		if !ok || !strings.HasPrefix(fn.Name(), "init") {
			continue
		}
		fns := append([]*ssa.Function{fn}, fn.AnonFuncs...)
		for _, f := range fns {
			allInstrs(f, func(in ssa.Instruction) {
				mu, ok := in.(*ssa.MapUpdate)
				if !ok {
					return
				}
				u, ok := mu.Map.(*ssa.UnOp)
				if !ok {
					return
				}
				g, ok := u.X.(*ssa.Global)
				if !ok {
					return
				}
				k, ok := constString(mu.Key)
				if !ok {
					return
				}
				var target *ssa.Function
				switch v := mu.Value.(type) {
				case *ssa.Function:
					target = v
				case *ssa.ChangeType:
					target, _ = v.X.(*ssa.Function)
				case *ssa.MakeClosure:
					target, _ = v.Fn.(*ssa.Function)
				}
				if target == nil {
					return
				}
				if regs[g.Name()] == nil {
					regs[g.Name()] = registry{}
				}
				regs[g.Name()][k] = target
			})
		}
	}
	// synthetic package init calls init#1.. : handled since Members include them
	return regs
}

var requiredOperators = map[string][]string{
	"TopLevelQueryOperators":        {"$and", "$or", "$nor", "$jsonSchema"},
	"ExpressionQueryOperators":      {"", "$eq", "$gt", "$lt", "$gte", "$lte", "$ne", "$not", "$in", "$nin", "$exists", "$type", "$all", "$size", "$elemMatch", "$mod", "$bitsAllClear", "$bitsAllSet", "$bitsAnyClear", "$bitsAnySet"},
	"FieldUpdateOperators":          {"$set", "$setOnInsert", "$unset", "$rename", "$inc", "$mul", "$min", "$max", "$currentDate", "$push", "$pop", "$pull", "$pullAll", "$addToSet", "$bit"},
	"ProjectionExpressionOperators": {"", "$slice", "$elemMatch"},
	"TopLevelExtractOperators":      {"$and", "$or"},
	"ExpressionExtractOperators":    {"", "$eq", "$in"},
}

func ruleTab2(c *Ctx, r *Reporter) {
	regs := readRegistries(c)
	r.guard(len(regs), 6, "operator registries")
	var rnames []string
	for n := range requiredOperators {
		rnames = append(rnames, n)
	}
	sort.Strings(rnames)
	for _, rn := range rnames {
		for _, op := range requiredOperators[rn] {
			r.check(regs[rn][op] != nil, fmt.Sprintf("%s[%q]", rn, op), "-", "registered", "operator named by the properties is not registered (it would be rejected as unknown or silently skipped)")
		}
	}
	// (b) multi-name functions dispatching on their op parameter
	for _, rn := range rnames {
		byFn := map[*ssa.Function][]string{}
		for k, f := range regs[rn] {
			byFn[f] = append(byFn[f], k)
		}
		for f, names := range byFn {
			if len(names) < 2 || len(f.Params) < 3 {
				continue
			}
			sort.Strings(names)
			opParam := f.Params[2]
			labels := map[string]bool{}
			for _, g := range withClosures(f) {
				allInstrs(g, func(in ssa.Instruction) {
					bo, ok := in.(*ssa.BinOp)
					if !ok || bo.Op != token.EQL {
						return
					}
					isOp := func(v ssa.Value) bool {
						if v == ssa.Value(opParam) {
							return true
						}
						if fv, ok := v.(*ssa.FreeVar); ok && fv.Name() == opParam.Name() {
							return true
						}
						// captured by reference: *op inside the closure, or a load of the spill cell in the parent
						if u, ok := v.(*ssa.UnOp); ok && u.Op == token.MUL {
							if fv, ok := u.X.(*ssa.FreeVar); ok && fv.Name() == opParam.Name() {
								return true
							}
							if a, ok := u.X.(*ssa.Alloc); ok && a.Comment == opParam.Name() {
								return true
							}
						}
						return false
					}
					if isOp(bo.X) {
						if s, ok := constString(bo.Y); ok {
							labels[s] = true
						}
					} else if isOp(bo.Y) {
						if s, ok := constString(bo.X); ok {
							labels[s] = true
						}
					}
				})
			}
			if len(labels) == 0 {
				continue // does not dispatch on the name
			}
			key := fmt.Sprintf("%s:%s dispatch", rn, funcName(f))
			missing := []string{}
			for _, n := range names {
				if !labels[n] {
					missing = append(missing, fmt.Sprintf("%q", n))
				}
			}
			extra := []string{}
			for l := range labels {
				found := false
				for _, n := range names {
					if n == l {
						found = true
					}
				}
				if !found {
					extra = append(extra, fmt.Sprintf("%q", l))
				}
			}
			sort.Strings(extra)
			r.check(len(missing) == 0 && len(extra) == 0, key, c.pos(f.Pos()), fmt.Sprintf("registered names %v == case labels", names), fmt.Sprintf("registered names and case labels differ (registered but unhandled: %v; handled but not registered: %v)", missing, extra))
		}
	}
	// constant operator names passed directly to a dispatching function must be handled too (matchNe -> matchComp("$eq"))
	// (c) ctx.Value assertions
	valueF := c.field(pkgMongokit, "Context", "Value")
	if valueF == nil {
		r.bad("anchor:Context.Value", "-", "not found")
		return
	}
	assertedValueTypes := func(f *ssa.Function) map[string]bool {
		out := map[string]bool{}
		for _, g := range withClosures(f) {
			allInstrs(g, func(in ssa.Instruction) {
				ta, ok := in.(*ssa.TypeAssert)
				if !ok {
					return
				}
				// X is a load of/extract of ctx.Value
				src := ta.X
				isValue := false
				switch x := src.(type) {
				case *ssa.Field:
					isValue = structFieldOf(x) == valueF
				case *ssa.UnOp:
					if fa, ok := x.X.(*ssa.FieldAddr); ok {
						isValue = structFieldOf(fa) == valueF
					}
				}
				if isValue {
					out[typeKey(ta.AssertedType)] = true
				}
			})
		}
		return out
	}
	// which registry is paired with which Value type: read the Process sites
	valueTypeOfRegistry := map[string]string{}
	for _, fn := range c.repoFuncs() {
		if fnPkgPath(fn) != pkgMongokit {
			continue
		}
		allInstrs(fn, func(in ssa.Instruction) {
			call, ok := in.(*ssa.Call)
			if !ok || calleeFull(&call.Call) != pkgMongokit+".Process" {
				return
			}
			// arg0 is a Context value loaded from a local composite
			u, ok := call.Call.Args[0].(*ssa.UnOp)
			if !ok {
				return
			}
			alloc, ok := u.X.(*ssa.Alloc)
			if !ok {
				return
			}
			var regNames []string
			vt := ""
			if refs := alloc.Referrers(); refs != nil {
				for _, ref := range *refs {
					fa, ok := ref.(*ssa.FieldAddr)
					if !ok {
						continue
					}
					if frefs := fa.Referrers(); frefs != nil {
						for _, fr := range *frefs {
							st, ok := fr.(*ssa.Store)
							if !ok {
								continue
							}
							switch structFieldOf(fa).Name() {
							case "TopLevel", "Expression":
								if lu, ok := st.Val.(*ssa.UnOp); ok {
									if g, ok := lu.X.(*ssa.Global); ok {
										regNames = append(regNames, g.Name())
									}
								}
							case "Value":
								if mi, ok := st.Val.(*ssa.MakeInterface); ok {
									vt = typeKey(mi.X.Type())
								}
							}
						}
					}
				}
			}
			for _, rn := range regNames {
				if old, ok := valueTypeOfRegistry[rn]; ok && old != vt {
					valueTypeOfRegistry[rn] = "<conflict>"
				} else {
					valueTypeOfRegistry[rn] = vt
				}
			}
		})
	}
	nAssert := 0
	for _, rn := range rnames {
		var ks []string
		for k := range regs[rn] {
			ks = append(ks, k)
		}
		sort.Strings(ks)
		for _, k := range ks {
			f := regs[rn][k]
			at := assertedValueTypes(f)
			if len(at) == 0 {
				continue
			}
			nAssert++
			key := fmt.Sprintf("%s[%q] ctx.Value type", rn, k)
			supplied := valueTypeOfRegistry[rn]
			okk := len(at) == 1 && at[supplied]
			// the function must not also be registered in a registry with another Value type
			for _, other := range rnames {
				if other == rn {
					continue
				}
				for _, g := range regs[other] {
					if g == f && valueTypeOfRegistry[other] != supplied {
						okk = false
					}
				}
			}
			r.check(okk, key, c.pos(f.Pos()), "asserts "+supplied+", which the only Process site using this registry supplies", fmt.Sprintf("operator asserts ctx.Value.(%v) but the registry is driven with %q: the unchecked assertion would panic", keys(at), supplied))
		}
	}
	r.guard(nAssert, 15, "operators asserting ctx.Value")
}

// ---- TAB-3 / TAB-4 ------------------------------------------------------------------

func structFields(t *types.Named) []string {
	st, ok := t.Underlying().(*types.Struct)
	if !ok {
		return nil
	}
	var out []string
	for i := 0; i < st.NumFields(); i++ {
		out = append(out, st.Field(i).Name())
	}
	return out
}

// compositeLits of a given named struct type inside a function declaration.
func compositeLits(decl *ast.FuncDecl, info *types.Info, t *types.Named) []*ast.CompositeLit {
	var out []*ast.CompositeLit
	ast.Inspect(decl.Body, func(n ast.Node) bool {
		if cl, ok := n.(*ast.CompositeLit); ok {
			if tv, ok := info.Types[cl]; ok && derefNamed(tv.Type) == t {
				out = append(out, cl)
			}
		}
		return true
	})
	return out
}

// plainCopy: e is `x.F` (optionally wrapped in conversions / Clone calls); returns F.
func plainCopy(e ast.Expr, info *types.Info) (string, bool) {
	for {
		switch x := e.(type) {
		case *ast.ParenExpr:
			e = x.X
			continue
		case *ast.SelectorExpr:
			if _, ok := info.Selections[x]; ok {
				return x.Sel.Name, true
			}
			return "", false
		case *ast.CallExpr:
			if len(x.Args) != 1 {
				return "", false
			}
			if tv, ok := info.Types[x.Fun]; ok && tv.IsType() {
				e = x.Args[0]
				continue
			}
			switch f := x.Fun.(type) {
			case *ast.SelectorExpr:
				if f.Sel.Name == "Clone" {
					e = x.Args[0]
					continue
				}
			case *ast.Ident:
				if f.Name == "Clone" {
					e = x.Args[0]
					continue
				}
			}
			return "", false
		default:
			return "", false
		}
	}
}

func selectedFields(decl *ast.FuncDecl, info *types.Info, t *types.Named) map[string]bool {
	out := map[string]bool{}
	ast.Inspect(decl.Body, func(n ast.Node) bool {
		if se, ok := n.(*ast.SelectorExpr); ok {
			if sel, ok := info.Selections[se]; ok && sel.Kind() == types.FieldVal && derefNamed(sel.Recv()) == t {
				out[se.Sel.Name] = true
			}
		}
		return true
	})
	return out
}

func ruleTab3(c *Ctx, r *Reporter) {
	cfgT := c.lookupType(pkgMongokit, "IndexConfig")
	fiT := c.lookupType(pkgLungo, "FileIndex")
	fnsT := c.lookupType(pkgLungo, "FileNamespace")
	if cfgT == nil || fiT == nil || fnsT == nil {
		r.bad("anchor:IndexConfig/FileIndex", "-", "not found")
		return
	}
	cfgFields := structFields(cfgT)
	// the on-disk index mirrors the config
	r.check(reflect.DeepEqual(cfgFields, structFields(fiT)) || sameSet(cfgFields, structFields(fiT)), "FileIndex mirrors IndexConfig", "-", fmt.Sprintf("same field names %v", cfgFields), fmt.Sprintf("FileIndex %v and IndexConfig %v differ: a part of the index definition is not persisted", structFields(fiT), cfgFields))

	literalCovers := func(where string, decl *ast.FuncDecl, info *types.Info, t *types.Named, srcT *types.Named, requirePlain bool) {
		lits := compositeLits(decl, info, t)
		// field-by-field assignments (x.F = v on a variable of the struct type) count like literal elements
		assigned := map[string]ast.Expr{}
		ast.Inspect(decl.Body, func(n ast.Node) bool {
			as, ok := n.(*ast.AssignStmt)
			if !ok || len(as.Lhs) != len(as.Rhs) {
				return true
			}
			for i, lhs := range as.Lhs {
				if se, ok := lhs.(*ast.SelectorExpr); ok {
					if sel, ok := info.Selections[se]; ok && sel.Kind() == types.FieldVal && derefNamed(sel.Recv()) == t {
						assigned[se.Sel.Name] = as.Rhs[i]
					}
				}
			}
			return true
		})
		if len(lits) == 0 && len(assigned) == 0 {
			r.bad(where+":literal "+t.Obj().Name(), c.pos(decl.Pos()), "no composite literal of "+t.Obj().Name()+" (nor field assignments) found")
			return
		}
		if len(lits) == 0 || (len(lits) == 1 && len(lits[0].Elts) == 0 && len(assigned) > 0) {
			lits = []*ast.CompositeLit{{Lbrace: decl.Pos()}}
		}
		for _, cl := range lits {
			set := map[string]ast.Expr{}
			for k, v := range assigned {
				set[k] = v
			}
			for _, el := range cl.Elts {
				if kv, ok := el.(*ast.KeyValueExpr); ok {
					if id, ok := kv.Key.(*ast.Ident); ok {
						set[id.Name] = kv.Value
					}
				}
			}
			for _, f := range structFields(t) {
				key := fmt.Sprintf("%s:%s.%s", where, t.Obj().Name(), f)
				v, ok := set[f]
				if !ok {
					pos := decl.Pos()
					if cl.Pos().IsValid() {
						pos = cl.Pos()
					}
					r.bad(key, c.pos(pos), "field is not set: this part of the definition is dropped")
					continue
				}
				if requirePlain {
					src, plain := plainCopy(v, info)
					r.check(plain && src == f, key, c.pos(v.Pos()), "plain copy of the same-named field", "the value is not a plain copy of ."+f+" (arithmetic or another field): persist/reload would not be the identity")
				} else {
					r.ok(key, c.pos(v.Pos()), "set")
				}
			}
		}
		_ = srcT
	}
	if d, info := c.funcDeclCone(pkgLungo, "BuildFile"); d != nil {
		literalCovers("BuildFile", d, info, fiT, cfgT, true)
		literalCovers("BuildFile", d, info, fnsT, nil, false)
	} else {
		r.bad("anchor:BuildFile", "-", "not found")
	}
	if d, info := c.funcDeclCone(pkgLungo, "File.BuildCatalog"); d != nil {
		literalCovers("BuildCatalog", d, info, cfgT, fiT, true)
		got := selectedFields(d, info, fnsT)
		for _, f := range structFields(fnsT) {
			r.check(got[f], "BuildCatalog:reads FileNamespace."+f, c.pos(d.Pos()), "read", "stored field is never read back")
		}
	} else {
		r.bad("anchor:File.BuildCatalog", "-", "not found")
	}
	if d, info := c.funcDeclCone(pkgMongokit, "Index.Config"); d != nil {
		literalCovers("Index.Config", d, info, cfgT, cfgT, true)
	}
	if d, info := c.funcDeclCone(pkgLungo, "IndexView.CreateOne"); d != nil {
		literalCovers("IndexView.CreateOne", d, info, cfgT, nil, false)
	}
	for _, fn := range []struct{ pkg, name string }{{pkgMongokit, "IndexConfig.Equal"}, {pkgLungo, "Transaction.ListIndexes"}} {
		d, info := c.funcDeclCone(fn.pkg, fn.name)
		if d == nil {
			r.bad("anchor:"+fn.name, "-", "not found")
			continue
		}
		got := selectedFields(d, info, cfgT)
		for _, f := range cfgFields {
			r.check(got[f], fn.name+":uses IndexConfig."+f, c.pos(d.Pos()), "referenced", "field of the index definition is ignored here")
		}
	}
}

func sameSet(a, b []string) bool {
	if len(a) != len(b) {
		return false
	}
	m := map[string]bool{}
	for _, x := range a {
		m[x] = true
	}
	for _, x := range b {
		if !m[x] {
			return false
		}
	}
	return true
}

func ruleTab4(c *Ctx, r *Reporter) {
	for _, tn := range []string{"File", "FileNamespace", "FileIndex"} {
		t := c.lookupType(pkgLungo, tn)
		if t == nil {
			r.bad("anchor:"+tn, "-", "not found")
			continue
		}
		st := t.Underlying().(*types.Struct)
		seen := map[string]string{}
		for i := 0; i < st.NumFields(); i++ {
			f := st.Field(i)
			tag := reflect.StructTag(st.Tag(i)).Get("bson")
			name := strings.Split(tag, ",")[0]
			if name == "" {
				name = strings.ToLower(f.Name())
			}
			key := fmt.Sprintf("%s.%s codec", tn, f.Name())
			switch {
			case !f.Exported():
				r.bad(key, c.pos(f.Pos()), "unexported field is skipped by the bson codec")
			case name == "-":
				r.bad(key, c.pos(f.Pos()), "field is excluded from the file (bson:\"-\")")
			case seen[name] != "":
				r.bad(key, c.pos(f.Pos()), "bson name "+name+" collides with field "+seen[name])
			case len(strings.Split(tag, ",")) > 1:
				r.bad(key, c.pos(f.Pos()), "the bson tag carries codec options ("+strings.Join(strings.Split(tag, ",")[1:], ",")+"): minsize stores an int64 that fits as int32, truncate drops fractions, omitempty drops empty values, inline changes the layout - the value read back is not the value written")
			default:
				r.ok(key, c.pos(f.Pos()), "exported, bson name "+name)
			}
			seen[name] = f.Name()
		}
	}
}

// ---- TAB-5 -----------------------------------------------------------------------

func ruleTab5(c *Ctx, r *Reporter) {
	rank := map[string]int{"int32": 0, "int64": 1, "float64": 2, "primitive.Decimal128": 3}
	names := []string{"int32", "int64", "float64", "primitive.Decimal128"}
	for _, fname := range []string{"Add", "Mul"} {
		d, info := c.funcDecl(pkgBsonkit, fname)
		if d == nil {
			r.bad("anchor:bsonkit."+fname, "-", "not found")
			continue
		}
		n := 0
		// outer type switch
		var outer *ast.TypeSwitchStmt
		for _, st := range d.Body.List {
			if ts, ok := st.(*ast.TypeSwitchStmt); ok {
				outer = ts
			}
		}
		if outer == nil {
			r.bad(fname+":shape", c.pos(d.Pos()), "no outer type switch")
			continue
		}
		for _, ocl := range outer.Body.List {
			occ := ocl.(*ast.CaseClause)
			if len(occ.List) != 1 {
				continue
			}
			lt := typeKey(info.Types[occ.List[0]].Type)
			for _, st := range occ.Body {
				inner, ok := st.(*ast.TypeSwitchStmt)
				if !ok {
					continue
				}
				for _, icl := range inner.Body.List {
					icc := icl.(*ast.CaseClause)
					if len(icc.List) != 1 {
						continue
					}
					rt := typeKey(info.Types[icc.List[0]].Type)
					lr, ok1 := rank[lt]
					rr, ok2 := rank[rt]
					if !ok1 || !ok2 {
						continue
					}
					want := names[lr]
					if rr > lr {
						want = names[rr]
					}
					for _, s := range icc.Body {
						ret, ok := s.(*ast.ReturnStmt)
						if !ok || len(ret.Results) != 1 {
							continue
						}
						n++
						got := typeKey(info.Types[ret.Results[0]].Type)
						r.check(got == want, fmt.Sprintf("%s(%s,%s) result type", fname, lt, rt), c.pos(ret.Pos()), "returns "+want, "returns "+got+" where the promotion rule requires "+want)
					}
				}
			}
		}
		r.guard(n, 16, "numeric cases in bsonkit."+fname)
	}
}

// ---- TAB-6 -----------------------------------------------------------------------

func ruleTab6(c *Ctx, r *Reporter) {
	appendF := c.lookupFunc(pkgLungo, "Transaction.append")
	if appendF == nil {
		r.bad("anchor:Transaction.append", "-", "not found")
		return
	}
	written := map[string]bool{}
	for _, fn := range c.repoFuncs() {
		if fnPkgPath(fn) != pkgLungo {
			continue
		}
		allInstrs(fn, func(in ssa.Instruction) {
			if call, ok := in.(*ssa.Call); ok && calleeObj(&call.Call) == appendF {
				if s, ok := constString(call.Call.Args[3]); ok {
					written[s] = true
				} else {
					r.bad(funcName(fn)+":append op", c.pos(in.Pos()), "operation type is not a constant")
				}
			}
		})
	}
	for _, op := range []string{"insert", "replace", "update", "delete", "drop", "dropDatabase"} {
		r.check(written[op], "written op "+op, "-", "some caller of append writes it", "no caller writes this event kind any more")
	}
	// readers: comparisons of an operation type with constants in Stream.next and in append
	read := map[string]string{}
	collect := func(fn *ssa.Function, isOp func(v ssa.Value) bool) {
		allInstrs(fn, func(in ssa.Instruction) {
			bo, ok := in.(*ssa.BinOp)
			if !ok || (bo.Op != token.EQL && bo.Op != token.NEQ) {
				return
			}
			var other ssa.Value
			if isOp(bo.X) {
				other = bo.Y
			} else if isOp(bo.Y) {
				other = bo.X
			}
			if other == nil {
				return
			}
			if s, ok := constString(other); ok {
				read[s] = funcName(fn) + " @ " + c.pos(in.Pos())
			}
		})
	}
	if ap := c.ssaFunc(appendF); ap != nil {
		collect(ap, func(v ssa.Value) bool { return v == ssa.Value(ap.Params[3]) })
	}
	if next := c.lookupSSA(pkgLungo, "Stream.next"); next != nil {
		// opType := bsonkit.Get(event, "operationType")
		var opVals []ssa.Value
		allInstrs(next, func(in ssa.Instruction) {
			if call, ok := in.(*ssa.Call); ok && calleeFull(&call.Call) == pkgBsonkit+".Get" {
				if s, ok := constString(call.Call.Args[1]); ok && s == "operationType" {
					opVals = append(opVals, call)
				}
			}
		})
		r.guard(len(opVals), 1, "read of operationType in Stream.next")
		collect(next, func(v ssa.Value) bool {
			for _, o := range opVals {
				if v == o {
					return true
				}
			}
			return false
		})
	} else {
		r.bad("anchor:Stream.next", "-", "not found")
	}
	var rk []string
	for k := range read {
		rk = append(rk, k)
	}
	sort.Strings(rk)
	for _, k := range rk {
		r.check(written[k], "read op "+k, strings.SplitN(read[k], " @ ", 2)[1], "matches an event kind that is written", "the reader tests for an operation type that is never written: the branch is dead (invalidate / fullDocument logic silently off)")
	}
	r.guard(len(rk), 4, "operation types tested by readers")
}

// ---- TAB-7 -----------------------------------------------------------------------

func ruleTab7(c *Ctx, r *Reporter) {
	expF := c.field(pkgMongokit, "IndexConfig", "Expiry")
	if expF == nil {
		r.bad("anchor:IndexConfig.Expiry", "-", "not found")
		return
	}
	n := 0
	for _, fn := range c.repoFuncs() {
		allInstrs(fn, func(in ssa.Instruction) {
			bo, ok := in.(*ssa.BinOp)
			if !ok {
				return
			}
			isExp := func(v ssa.Value) bool {
				switch x := v.(type) {
				case *ssa.Field:
					return structFieldOf(x) == expF
				case *ssa.UnOp:
					if fa, ok := x.X.(*ssa.FieldAddr); ok {
						return structFieldOf(fa) == expF
					}
				case *ssa.Extract, *ssa.Call:
				}
				return false
			}
			var k int64
			var isConst, left bool
			if isExp(bo.X) {
				k, isConst = constInt(bo.Y)
				left = true
			} else if isExp(bo.Y) {
				k, isConst = constInt(bo.X)
			} else {
				return
			}
			if !isConst {
				return
			}
			switch bo.Op {
			case token.GTR, token.LSS, token.GEQ, token.LEQ, token.EQL, token.NEQ:
			default:
				return
			}
			n++
			good := k == 0 && ((left && bo.Op == token.GTR) || (!left && bo.Op == token.LSS))
			r.check(good, funcName(fn)+":Expiry test", c.pos(in.Pos()), "`Expiry > 0` means TTL index", fmt.Sprintf("Expiry is compared with %s %d: the TTL sentinel is `> 0` everywhere else (an expireAfterSeconds:0 index is stored as 1ns)", bo.Op, k))
		})
	}
	r.guard(n, 3, "comparisons of IndexConfig.Expiry with a constant")

	// CreateOne: zero seconds maps to a positive duration
	fn := c.lookupSSA(pkgLungo, "IndexView.CreateOne")
	if fn == nil {
		r.bad("anchor:IndexView.CreateOne", "-", "not found")
		return
	}
	found := false
	allInstrs(fn, func(in ssa.Instruction) {
		iff, ok := in.(*ssa.If)
		if !ok {
			return
		}
		bo, ok := iff.Cond.(*ssa.BinOp)
		if !ok || bo.Op != token.EQL {
			return
		}
		if k, ok := constInt(bo.Y); !ok || k != 0 {
			return
		}
		// X is *ExpireAfterSeconds
		u, ok := bo.X.(*ssa.UnOp)
		if !ok {
			return
		}
		if lu, ok := u.X.(*ssa.UnOp); ok {
			if fa, ok := lu.X.(*ssa.FieldAddr); !ok || structFieldOf(fa).Name() != "ExpireAfterSeconds" {
				return
			}
		} else {
			return
		}
		// the true successor contributes a positive constant to a phi
		tsucc := iff.Block().Succs[0]
		for _, s := range tsucc.Succs {
			for _, x := range s.Instrs {
				phi, ok := x.(*ssa.Phi)
				if !ok {
					continue
				}
				for i, e := range phi.Edges {
					if s.Preds[i] == tsucc {
						if k, ok := constInt(e); ok && k > 0 {
							found = true
						}
					}
				}
			}
		}
	})
	r.check(found, "IndexView.CreateOne:expireAfterSeconds 0", c.pos(fn.Pos()), "expireAfterSeconds == 0 is mapped to a positive duration, so the index is still a TTL index under the `> 0` sentinel", "expireAfterSeconds == 0 is not mapped to a positive expiry: such an index would silently never expire anything")
}

// inspectTables: Go type -> class name (from Inspect) and class name -> comparator function name (from Compare).
func inspectTables(c *Ctx) (classOfType map[string]string, comparatorOf map[string]string) {
	classOfType, comparatorOf = map[string]string{}, map[string]string{}
	inspDecl, inspInfo := c.funcDecl(pkgBsonkit, "Inspect")
	cmpDecl, cmpInfo := c.funcDecl(pkgBsonkit, "Compare")
	if inspDecl == nil || cmpDecl == nil {
		return
	}
	ast.Inspect(inspDecl.Body, func(n ast.Node) bool {
		cc, ok := n.(*ast.CaseClause)
		if !ok || cc.List == nil {
			return true
		}
		cls := ""
		ast.Inspect(cc, func(m ast.Node) bool {
			if ret, ok := m.(*ast.ReturnStmt); ok && len(ret.Results) >= 1 {
				if id, ok := ret.Results[0].(*ast.Ident); ok {
					cls = id.Name
				}
			}
			return true
		})
		for _, e := range cc.List {
			tv := inspInfo.Types[e]
			if tv.IsNil() {
				classOfType["nil"] = cls
			} else {
				classOfType[typeKey(tv.Type)] = cls
			}
		}
		return true
	})
	ast.Inspect(cmpDecl.Body, func(n ast.Node) bool {
		sw, ok := n.(*ast.SwitchStmt)
		if !ok {
			return true
		}
		for _, cl := range sw.Body.List {
			cc := cl.(*ast.CaseClause)
			for _, e := range cc.List {
				id, ok := e.(*ast.Ident)
				if !ok {
					continue
				}
				ast.Inspect(cc, func(m ast.Node) bool {
					if call, ok := m.(*ast.CallExpr); ok {
						if fid, ok := call.Fun.(*ast.Ident); ok {
							if _, isFn := cmpInfo.Uses[fid].(*types.Func); isFn {
								comparatorOf[id.Name] = fid.Name
							}
						}
					}
					return true
				})
			}
		}
		return false
	})
	return
}
