package main

import (
	"fmt"
	"go/constant"
	"go/token"
	"go/types"
	"strings"

	"golang.org/x/tools/go/ssa"
)

func init() {
	register(&Rule{ID: "DUR-1", Doc: "AtomicWriteFile: remove stale temp -> OpenFile(temp,O_CREATE|O_EXCL) -> io.Copy -> temp.Sync -> temp.Close -> Rename(temp,path) -> Open(dir) -> dir.Sync, each dominating the next on its success edge, all before any `return nil`; every step's error is checked and returned", Run: ruleDur1})
	register(&Rule{ID: "DUR-2", Doc: "only AtomicWriteFile creates, renames, removes or writes files; FileStore.Store persists BuildFile(catalog) to s.path through it and Load reads the same path", Run: ruleDur2})
	register(&Rule{ID: "DUR-3", Doc: "store-then-publish failure path: when store.Store fails Commit returns that error, e.txn is already cleared and the token release is pending, so later commits work", Run: ruleDur3})
	register(&Rule{ID: "DUR-4", Doc: "no error result is dropped on the persist/load path (store.go, file.go, dbkit/atomic.go) except the listed best-effort cleanups", Run: ruleDur4})
}

// resolveCell looks through a load of a single-assignment local cell (variables captured by closures).
func resolveCell(v ssa.Value) ssa.Value {
	for i := 0; i < 4; i++ {
		u, ok := v.(*ssa.UnOp)
		if !ok || u.Op != token.MUL {
			return v
		}
		cell, ok := u.X.(*ssa.Alloc)
		if !ok {
			return v
		}
		var stored ssa.Value
		n := 0
		if refs := cell.Referrers(); refs != nil {
			for _, ref := range *refs {
				if st, ok := ref.(*ssa.Store); ok && st.Addr == cell {
					n++
					stored = st.Val
				}
			}
		}
		if n != 1 {
			return v
		}
		v = stored
	}
	return v
}

func calleeFull(cc *ssa.CallCommon) string {
	f := calleeObj(cc)
	if f == nil || f.Pkg() == nil {
		return ""
	}
	return f.Pkg().Path() + "." + fullShort(f)
}

func ruleDur1(c *Ctx, r *Reporter) {
	fn := c.lookupSSA(pkgDbkit, "AtomicWriteFile")
	if fn == nil {
		r.bad("anchor:AtomicWriteFile", "-", "not found")
		return
	}
	pathParam := fn.Params[0]
	type step struct {
		name string
		call *ssa.Call
	}
	var open, cp, fsync, fclose, rename, opendir, dirsync, rmStale *ssa.Call
	var fileSyncs, fileCloses []*ssa.Call
	allInstrs(fn, func(in ssa.Instruction) {
		call, ok := in.(*ssa.Call)
		if !ok {
			return
		}
		switch calleeFull(&call.Call) {
		case "os.OpenFile":
			open = call
		case "io.Copy":
			cp = call
		case "os.Rename":
			rename = call
		case "os.Open":
			opendir = call
		case "os.Remove":
			rmStale = call
		case "os.File.Sync":
			fileSyncs = append(fileSyncs, call)
		case "os.File.Close":
			fileCloses = append(fileCloses, call)
		}
	})
	key := "AtomicWriteFile:"
	// the directory fsync (open dir, sync dir) may be extracted into a helper of package dbkit: H(path) error
	var dirHelper *ssa.Function
	var dirHelperCall *ssa.Call
	if opendir == nil {
		allInstrs(fn, func(in ssa.Instruction) {
			call, ok := in.(*ssa.Call)
			if !ok {
				return
			}
			h := call.Call.StaticCallee()
			if h == nil || fnPkgPath(h) != pkgDbkit || h.Blocks == nil || h == fn {
				return
			}
			allInstrs(h, func(x ssa.Instruction) {
				if hc, ok := x.(*ssa.Call); ok && calleeFull(&hc.Call) == "os.Open" {
					dirHelper, dirHelperCall, opendir = h, call, hc
				}
			})
		})
	}
	// the rename may have moved into that helper too ("publish": rename, then fsync the directory)
	var helperRename *ssa.Call
	if dirHelper != nil && rename == nil {
		allInstrs(dirHelper, func(x ssa.Instruction) {
			if hc, ok := x.(*ssa.Call); ok && calleeFull(&hc.Call) == "os.Rename" {
				helperRename = hc
			}
		})
	}
	if dirHelper != nil {
		var tempPathEarly ssa.Value
		if open != nil {
			tempPathEarly = resolveCell(open.Call.Args[0])
		}
		ok := ruleDur1DirHelper(c, r, fn, dirHelper, dirHelperCall, opendir, rename, helperRename, tempPathEarly, pathParam)
		if !ok {
			return
		}
		opendir = nil
	}
	if open == nil || cp == nil || (rename == nil && helperRename == nil) || (opendir == nil && dirHelper == nil) {
		r.bad(key+"protocol", c.pos(fn.Pos()), fmt.Sprintf("a step of the protocol is missing (OpenFile:%v io.Copy:%v Rename:%v Open(dir):%v)", open != nil, cp != nil, rename != nil, opendir != nil))
		return
	}
	tempFile := tupleResult(open, 0)
	var dirFile ssa.Value
	if opendir != nil {
		dirFile = tupleResult(opendir, 0)
	}
	for _, s := range fileSyncs {
		recv := resolveCell(s.Call.Args[0])
		if recv == tempFile {
			fsync = s
		} else if recv == dirFile {
			dirsync = s
		}
	}
	for _, s := range fileCloses {
		if resolveCell(s.Call.Args[0]) == tempFile {
			fclose = s
		}
	}
	// temp path = path + non-empty constant
	tempPath := resolveCell(open.Call.Args[0])
	goodTemp := false
	if bo, ok := tempPath.(*ssa.BinOp); ok && bo.Op == token.ADD && bo.X == pathParam {
		if k, ok := bo.Y.(*ssa.Const); ok && k.Value != nil && k.Value.Kind() == constant.String && constant.StringVal(k.Value) != "" {
			goodTemp = true
		}
	}
	r.check(goodTemp, key+"temp name", c.pos(open.Pos()), "temporary file is path + non-empty constant suffix (same directory, so rename is atomic)", "the temporary file name is not derived as path+suffix")
	// flags
	flags, isConst := constInt(open.Call.Args[1])
	const oCreate, oExcl, oAppend = 0x40, 0x80, 0x400
	r.check(isConst && flags&oCreate != 0 && flags&oExcl != 0 && flags&oAppend == 0, key+"open flags", c.pos(open.Pos()),
		"O_CREATE|O_EXCL: a fresh, empty file is written", "temp file is not opened with O_CREATE|O_EXCL: leftovers of a killed commit could be reused")
	// copy target and source
	r.check(stripValue(resolveCell(cp.Call.Args[0])) == tempFile || stripValue(cp.Call.Args[0]) == tempFile || resolveCell(stripValue(cp.Call.Args[0])) == tempFile, key+"copy target", c.pos(cp.Pos()), "io.Copy writes into the temp file", "io.Copy does not write into the temp file")
	r.check(cp.Call.Args[1] == fn.Params[1], key+"copy source", c.pos(cp.Pos()), "io.Copy reads the caller's reader", "io.Copy does not read the caller's data")
	// rename args (examined inside the helper when the rename lives there)
	if rename != nil {
		r.check(resolveCell(rename.Call.Args[0]) == tempPath && rename.Call.Args[1] == pathParam, key+"rename args", c.pos(rename.Pos()), "Rename(temp, path)", "rename does not move the temp file onto path")
	}
	// directory
	if dirHelper == nil {
		dirOK := false
		if call, ok := opendir.Call.Args[0].(*ssa.Call); ok && calleeFull(&call.Call) == "path/filepath.Dir" && call.Call.Args[0] == pathParam {
			dirOK = true
		}
		r.check(dirOK, key+"parent dir", c.pos(opendir.Pos()), "the parent directory of path is opened for fsync", "the directory that is fsynced is not filepath.Dir(path)")
	}

	steps := []step{{"remove stale temp", rmStale}, {"open temp", open}, {"copy", cp}, {"sync temp", fsync}, {"close temp", fclose}, {"rename", rename}, {"open dir", opendir}, {"sync dir", dirsync}}
	if dirHelper != nil {
		steps = steps[:6] // the two directory steps were examined inside the helper
	}
	if helperRename != nil {
		steps = steps[:5] // the rename too; the helper must run only after the temp file was closed successfully
		dom := false
		if fclose != nil {
			for _, chk := range errChecksOf(errorResult(fclose)) {
				if chk.OkSucc == dirHelperCall.Block() || chk.OkSucc.Dominates(dirHelperCall.Block()) {
					dom = true
				}
			}
		}
		r.check(dom, key+"order close temp < rename", c.pos(dirHelperCall.Pos()), "runs only after 'close temp' succeeded", "'rename' can run although 'close temp' has not (successfully) happened before it")
	}
	for i, s := range steps {
		if s.call == nil {
			r.bad(key+"step "+s.name, c.pos(fn.Pos()), "step is missing")
			continue
		}
		// error checked and failure returns non-nil
		ev := errorResult(s.call)
		if ev == nil {
			r.bad(key+"step "+s.name+":error", c.pos(s.call.Pos()), "call has no error result")
			continue
		}
		checks := errChecksOf(ev)
		if len(checks) == 0 {
			r.bad(key+"step "+s.name+":error", c.pos(s.call.Pos()), "the error of this step is never tested")
			continue
		}
		retOK := true
		for _, chk := range checks {
			// from the failing edge every reachable return must be non-nil, until control merges
			// back with the success path (the os.IsNotExist tolerance after Remove)
			if !failEdgeReturnsError(chk) && s.name != "remove stale temp" {
				retOK = false
			}
		}
		r.check(retOK, key+"step "+s.name+":error", c.pos(s.call.Pos()), "failure edge returns a non-nil error", "a failure of this step can fall through to success")
		// ordering: this step is dominated by the success edge of the previous one
		if i > 0 && steps[i-1].call != nil {
			prev := steps[i-1]
			dom := false
			pev := errorResult(prev.call)
			for _, chk := range errChecksOf(pev) {
				if chk.OkSucc == s.call.Block() || chk.OkSucc.Dominates(s.call.Block()) {
					dom = true
				}
			}
			if prev.name == "remove stale temp" {
				dom = instrDominates(prev.call, s.call)
			}
			r.check(dom, key+"order "+prev.name+" < "+s.name, c.pos(s.call.Pos()), "runs only after '"+prev.name+"' succeeded", "'"+s.name+"' can run although '"+prev.name+"' has not (successfully) happened before it")
		}
	}
	// every return nil is dominated by the directory sync
	n := 0
	for _, ret := range returnsOf(fn) {
		if len(ret.Results) == 1 && isNilConst(retVal(ret, 0)) {
			n++
			if dirHelper != nil {
				// success only behind the success edge of the helper call
				good := false
				for _, chk := range errChecksOf(errorResult(dirHelperCall)) {
					if chk.OkSucc == ret.Block() || chk.OkSucc.Dominates(ret.Block()) {
						good = true
					}
				}
				r.check(good, key+"return nil", c.pos(ret.Pos()), "success is reported only after the directory fsync helper succeeded", "success can be reported before the rename is durable")
				continue
			}
			good := dirsync != nil && instrDominates(dirsync, ret)
			if good {
				good = false
				for _, chk := range errChecksOf(errorResult(dirsync)) {
					if chk.OkSucc == ret.Block() || chk.OkSucc.Dominates(ret.Block()) {
						good = true
					}
				}
			}
			r.check(good, key+"return nil", c.pos(ret.Pos()), "success is reported only after the directory entry was fsynced", "success can be reported before the rename is durable")
		}
	}
	if dirHelper != nil {
		// `return helper(path)` reports success exactly when the helper does
		for _, ret := range returnsOf(fn) {
			if len(ret.Results) == 1 && retVal(ret, 0) == ssa.Value(dirHelperCall) {
				n++
				r.ok(key+"return nil", c.pos(ret.Pos()), "the result of the directory fsync helper is returned")
			}
		}
	}
	r.guard(n, 1, "`return nil` in AtomicWriteFile")
}

// ruleDur1DirHelper examines a helper H(path) error of package dbkit that opens and fsyncs the parent directory,
// and how AtomicWriteFile calls it. Returns false when the shape is not understood (reported as violation).
func ruleDur1DirHelper(c *Ctx, r *Reporter, fn, h *ssa.Function, hcall, opendir, rename, helperRename *ssa.Call, tempPath ssa.Value, pathParam *ssa.Parameter) bool {
	key := "AtomicWriteFile:"
	// the helper receives the path
	var hp *ssa.Parameter
	for i, a := range hcall.Call.Args {
		if a == ssa.Value(pathParam) && i < len(h.Params) {
			hp = h.Params[i]
		}
	}
	if hp == nil {
		r.bad(key+"parent dir", c.pos(hcall.Pos()), "the directory fsync helper is not given the path that was renamed onto")
		return false
	}
	dirOK := false
	if call, ok := opendir.Call.Args[0].(*ssa.Call); ok && calleeFull(&call.Call) == "path/filepath.Dir" && call.Call.Args[0] == ssa.Value(hp) {
		dirOK = true
	}
	r.check(dirOK, key+"parent dir", c.pos(opendir.Pos()), "the parent directory of path is opened for fsync (in "+h.Name()+")", "the directory that is fsynced is not filepath.Dir(path)")
	// sync of that handle
	var dirsync *ssa.Call
	dirFile := tupleResult(opendir, 0)
	allInstrs(h, func(in ssa.Instruction) {
		if call, ok := in.(*ssa.Call); ok && calleeFull(&call.Call) == "os.File.Sync" && resolveCell(call.Call.Args[0]) == dirFile {
			dirsync = call
		}
	})
	if dirsync == nil {
		r.bad(key+"step sync dir", c.pos(h.Pos()), "step is missing")
		return false
	}
	// inside the helper: open checked, sync after open succeeded, success only after the sync succeeded
	okOpen := false
	for _, chk := range errChecksOf(errorResult(opendir)) {
		if failEdgeReturnsError(chk) && (chk.OkSucc == dirsync.Block() || chk.OkSucc.Dominates(dirsync.Block())) {
			okOpen = true
		}
	}
	r.check(okOpen, key+"step open dir:error", c.pos(opendir.Pos()), "failure edge returns a non-nil error and the sync runs only after the open succeeded", "a failed open of the directory can fall through")
	okSync := true
	for _, ret := range returnsOf(h) {
		if ret.Block() == h.Recover {
			continue
		}
		v := retVal(ret, 0)
		if isNilConst(v) {
			good := false
			for _, chk := range errChecksOf(errorResult(dirsync)) {
				if chk.OkSucc == ret.Block() || chk.OkSucc.Dominates(ret.Block()) {
					good = true
				}
			}
			if !good {
				okSync = false
			}
		}
	}
	r.check(okSync, key+"step sync dir:error", c.pos(dirsync.Pos()), "the helper reports success only after the directory fsync succeeded (or returns its error directly)", "the helper can report success without a successful directory fsync")
	// after the rename succeeded (in AtomicWriteFile, or in the helper itself), result consumed
	dom := false
	if helperRename != nil {
		// Rename(<the caller's temp path>, <the path>) with its failure returned, before the directory is opened
		argsOK := helperRename.Call.Args[1] == ssa.Value(hp)
		if p0, ok := helperRename.Call.Args[0].(*ssa.Parameter); ok && argsOK {
			argsOK = false
			for i, q := range h.Params {
				if q == p0 && i < len(hcall.Call.Args) && tempPath != nil && resolveCell(hcall.Call.Args[i]) == tempPath {
					argsOK = true
				}
			}
		} else {
			argsOK = false
		}
		r.check(argsOK, key+"rename args", c.pos(helperRename.Pos()), "Rename(temp, path) (in "+h.Name()+")", "rename does not move the temp file onto path")
		for _, chk := range errChecksOf(errorResult(helperRename)) {
			if failEdgeReturnsError(chk) && (chk.OkSucc == opendir.Block() || chk.OkSucc.Dominates(opendir.Block())) {
				dom = true
			}
		}
	} else if rename != nil {
		for _, chk := range errChecksOf(errorResult(rename)) {
			if chk.OkSucc == hcall.Block() || chk.OkSucc.Dominates(hcall.Block()) {
				dom = true
			}
		}
	}
	r.check(dom, key+"order rename < open dir", c.pos(hcall.Pos()), "runs only after 'rename' succeeded", "'open dir' can run although 'rename' has not (successfully) happened before it")
	used := false
	if refs := hcall.Referrers(); refs != nil {
		for _, ref := range *refs {
			switch ref.(type) {
			case *ssa.Return, *ssa.BinOp, *ssa.Store, *ssa.Phi:
				used = true
			}
		}
	}
	r.check(used, key+"order open dir < sync dir", c.pos(hcall.Pos()), "the helper's error is returned or tested", "the error of the directory fsync helper is dropped")
	return true
}

// failEdgeReturnsError: all returns reachable from the failure successor (without passing the
// success successor) return a non-nil value in their last result.
func failEdgeReturnsError(chk errCheck) bool {
	blocked := map[*ssa.BasicBlock]bool{chk.OkSucc: true}
	reach := blockReach([]*ssa.BasicBlock{chk.FailSucc}, blocked)
	found := false
	for b := range reach {
		if len(b.Instrs) == 0 {
			continue
		}
		if ret, ok := b.Instrs[len(b.Instrs)-1].(*ssa.Return); ok {
			found = true
			if len(ret.Results) == 0 || isNilConst(retVal(ret, len(ret.Results)-1)) {
				return false
			}
		}
	}
	// the failure edge must not simply rejoin the success path
	for b := range reach {
		for _, s := range b.Succs {
			if s == chk.OkSucc {
				return false
			}
		}
	}
	return found
}

var fileMutators = map[string]bool{
	"os.WriteFile": true, "os.Create": true, "os.OpenFile": true, "os.Rename": true, "os.Remove": true, "os.RemoveAll": true,
	"os.Truncate": true, "os.Mkdir": true, "os.MkdirAll": true, "os.Link": true, "os.Symlink": true, "os.CreateTemp": true,
	"io/ioutil.WriteFile": true, "io/ioutil.TempFile": true,
	"os.File.Write": true, "os.File.WriteString": true, "os.File.WriteAt": true, "os.File.Truncate": true, "os.File.ReadFrom": true,
}

func ruleDur2(c *Ctx, r *Reporter) {
	atomic := c.lookupSSA(pkgDbkit, "AtomicWriteFile")
	if atomic == nil {
		r.bad("anchor:AtomicWriteFile", "-", "not found")
		return
	}
	n := 0
	for _, fn := range c.repoFuncs() {
		allInstrs(fn, func(in ssa.Instruction) {
			ci, ok := in.(ssa.CallInstruction)
			if !ok {
				return
			}
			name := calleeFull(ci.Common())
			if !fileMutators[name] {
				return
			}
			n++
			r.check(inCone(atomic, outermost(fn)), funcName(fn)+":"+name, c.pos(in.Pos()), "inside AtomicWriteFile", "the file system is modified outside AtomicWriteFile (bypasses the atomic write protocol)")
		})
	}
	r.guard(n, 4, "file-system mutating calls")

	store := c.lookupSSA(pkgLungo, "FileStore.Store")
	load := c.lookupSSA(pkgLungo, "FileStore.Load")
	pathF := c.field(pkgLungo, "FileStore", "path")
	buildFile := c.lookupFunc(pkgLungo, "BuildFile")
	if store == nil || load == nil || pathF == nil || buildFile == nil {
		r.bad("anchor:FileStore", "-", "not found")
		return
	}
	var aw, marshal, bf, reader *ssa.Call
	allInstrs(store, func(in ssa.Instruction) {
		if call, ok := in.(*ssa.Call); ok {
			switch calleeFull(&call.Call) {
			case pkgDbkit + ".AtomicWriteFile":
				aw = call
			case "go.mongodb.org/mongo-driver/bson.Marshal":
				marshal = call
			case "bytes.NewReader":
				reader = call
			}
			if calleeObj(&call.Call) == buildFile {
				bf = call
			}
		}
	})
	key := "FileStore.Store:"
	if aw == nil || marshal == nil || bf == nil || reader == nil {
		r.bad(key+"pipeline", c.pos(store.Pos()), "Store does not go BuildFile -> bson.Marshal -> bytes.NewReader -> AtomicWriteFile")
	} else {
		okPipe := bf.Call.Args[0] == store.Params[1] &&
			stripValue(marshal.Call.Args[0]) == bf &&
			reader.Call.Args[0] == tupleResult(marshal, 0) &&
			stripValue(aw.Call.Args[1]) == reader &&
			isLoadOf(aw.Call.Args[0], pathF)
		r.check(okPipe, key+"pipeline", c.pos(aw.Pos()), "the bytes written to s.path are bson.Marshal(BuildFile(catalog)) of the catalog being committed", "what FileStore.Store writes is not the marshalled BuildFile(catalog) of its argument, or it goes to another path")
		// error of marshal checked before writing
		dom := false
		for _, chk := range errChecksOf(errorResult(marshal)) {
			if chk.OkSucc.Dominates(aw.Block()) || chk.OkSucc == aw.Block() {
				dom = true
			}
		}
		r.check(dom, key+"marshal checked", c.pos(marshal.Pos()), "nothing is written when encoding fails", "a failed encoding can still reach the file")
		// the error of AtomicWriteFile is returned
		good := false
		for _, chk := range errChecksOf(errorResult(aw)) {
			if failEdgeReturnsError(chk) {
				good = true
			}
		}
		// or the result of AtomicWriteFile is returned directly
		for _, ret := range returnsOf(store) {
			if retVal(ret, 0) == ssa.Value(aw) {
				good = true
			}
		}
		r.check(good, key+"write error returned", c.pos(aw.Pos()), "a failed write is reported to Commit", "a failed write is not reported: Commit would publish unpersisted data")
	}
	var rd *ssa.Call
	allInstrs(load, func(in ssa.Instruction) {
		if call, ok := in.(*ssa.Call); ok && calleeFull(&call.Call) == "os.ReadFile" {
			rd = call
		}
	})
	r.check(rd != nil && isLoadOf(rd.Call.Args[0], pathF), "FileStore.Load:path", c.pos(load.Pos()), "Load reads the path Store writes", "Load does not read s.path")
}

func ruleDur3(c *Ctx, r *Reporter) {
	commit := c.lookupSSA(pkgLungo, "Engine.Commit")
	storeF := c.field(pkgLungo, "Engine", "store")
	txnF := c.field(pkgLungo, "Engine", "txn")
	if commit == nil || storeF == nil || txnF == nil {
		r.bad("anchor:Engine.Commit", "-", "not found")
		return
	}
	var storeCall *ssa.Call
	var clear *ssa.Store
	var deferRel *ssa.Defer
	var releases []*ssa.Call
	allInstrs(commit, func(in ssa.Instruction) {
		switch x := in.(type) {
		case *ssa.Call:
			if x.Call.IsInvoke() && x.Call.Method.Name() == "Store" && isLoadOf(x.Call.Value, storeF) {
				storeCall = x
			}
			if calleeFull(&x.Call) == pkgDbkit+".Semaphore.Release" {
				releases = append(releases, x)
			}
		case *ssa.Store:
			if _, ok := fieldAddrOf(x.Addr, txnF); ok && isNilConst(x.Val) {
				clear = x
			}
		case *ssa.Defer:
			if calleeFull(&x.Call) == pkgDbkit+".Semaphore.Release" {
				deferRel = x
			}
		}
	})
	if storeCall == nil {
		r.bad("Engine.Commit:store call", c.pos(commit.Pos()), "no e.store.Store(...) call")
		return
	}
	key := "Engine.Commit:store failure"
	checks := errChecksOf(storeCall)
	if len(checks) == 0 {
		r.bad(key, c.pos(storeCall.Pos()), "the error of store.Store is never tested")
		return
	}
	for _, chk := range checks {
		// failing edge returns the very error
		retErr := false
		reach := blockReach([]*ssa.BasicBlock{chk.FailSucc}, map[*ssa.BasicBlock]bool{chk.OkSucc: true})
		for b := range reach {
			if len(b.Instrs) == 0 {
				continue
			}
			if ret, ok := b.Instrs[len(b.Instrs)-1].(*ssa.Return); ok && len(ret.Results) == 1 {
				v := retVal(ret, 0)
				if v == ssa.Value(storeCall) {
					retErr = true
				} else if call, ok := v.(*ssa.Call); ok {
					// wrapped error: the original must be an argument
					for _, a := range call.Call.Args {
						if stripValue(a) == ssa.Value(storeCall) {
							retErr = true
						}
					}
					if sl, ok := call.Call.Args[len(call.Call.Args)-1].(*ssa.Slice); ok {
						_ = sl
						retErr = true
					}
				}
			}
		}
		r.check(retErr, key+":returns error", c.pos(storeCall.Pos()), "Commit returns the store's error", "Commit does not report the store's failure")
		r.check(clear != nil && instrDominates(clear, storeCall), key+":txn cleared", c.pos(storeCall.Pos()), "e.txn was cleared before the store was attempted (the failed transaction cannot be committed again, the next Begin is not refused)", "e.txn is still set when the store fails: the engine refuses every later writer")
		// release pending on the failure path: deferred, or an explicit release reachable on every path from FailSucc
		released := deferRel != nil && instrDominates(deferRel, storeCall)
		if !released {
			isRel := func(in ssa.Instruction) bool {
				for _, rc := range releases {
					if ssa.Instruction(rc) == in {
						return true
					}
				}
				return false
			}
			if len(chk.FailSucc.Instrs) > 0 {
				first := chk.FailSucc.Instrs[0]
				if isRel(first) || exitWithoutPassing(first, isRel, nil) == nil {
					released = true
				}
			}
		}
		r.check(released, key+":token released", c.pos(storeCall.Pos()), "the writer token is released on the failure path", "a failing store leaves the writer token held: no later write can begin")
	}
}

func ruleDur4(c *Ctx, r *Reporter) {
	// functions on the persist/load path
	var fns []*ssa.Function
	for _, fn := range c.repoFuncs() {
		file := c.fileOf(fn.Pos())
		pkg := fnPkgPath(fn)
		if (pkg == pkgLungo && (file == "store.go" || file == "file.go")) || (pkg == pkgDbkit && file == "atomic.go") {
			fns = append(fns, fn)
		}
	}
	r.guard(len(fns), 8, "functions in store.go, file.go, dbkit/atomic.go")
	allowed := map[string]string{
		"dbkit.AtomicWriteFile$closure|os.File.Close": "best-effort cleanup of the temp file in the deferred closure (the real Close on the success path is checked)",
		"dbkit.AtomicWriteFile$closure|os.Remove":     "best-effort removal of the temp file in the deferred closure (a no-op after a successful rename)",
		"dbkit.AtomicWriteFile|defer os.File.Close":   "closing the read-only directory handle after fsync",
	}
	n := 0
	for _, fn := range fns {
		allInstrs(fn, func(in ssa.Instruction) {
			ci, ok := in.(ssa.CallInstruction)
			if !ok {
				return
			}
			sig := ci.Common().Signature()
			res := sig.Results()
			if res.Len() == 0 || !isErrorType(res.At(res.Len()-1).Type()) {
				return
			}
			name := calleeFull(ci.Common())
			if name == "" && ci.Common().IsInvoke() {
				name = "iface." + ci.Common().Method.Name()
			}
			short := strings.TrimPrefix(strings.TrimPrefix(name, "github.com/256dpi/lungo/"), "github.com/256dpi/")
			n++
			key := funcName(fn) + ":" + short
			call, isCall := in.(*ssa.Call)
			if !isCall && isReadOnlyHandleClose(ci) {
				r.trivial(key+" (deferred)", c.pos(in.Pos()), "closing a handle obtained from os.Open (read-only): nothing to lose")
				return
			}
			if !isCall {
				k := funcName(fn) + "|defer " + name
				if why, ok := allowed[k]; ok {
					r.trivial(key+" (deferred)", c.pos(in.Pos()), "listed exception: "+why)
				} else {
					r.bad(key+" (deferred/go)", c.pos(in.Pos()), "error result of a deferred/go call is dropped on the persist path")
				}
				return
			}
			var ev ssa.Value
			if res.Len() == 1 {
				ev = call
			} else {
				ev = tupleResult(call, res.Len()-1)
			}
			used := false
			if ev != nil {
				if refs := ev.Referrers(); refs != nil {
					for _, ref := range *refs {
						if _, ok := ref.(*ssa.DebugRef); !ok {
							used = true
						}
					}
				}
			}
			if used {
				r.ok(key, c.pos(in.Pos()), "error value is consumed (tested or returned)")
				return
			}
			listed := false
			for _, owner := range ownerNames(fn, funcName) {
				if why, ok := allowed[owner+"|"+name]; ok && !listed {
					r.trivial(key, c.pos(in.Pos()), "listed exception: "+why)
					listed = true
				}
			}
			if listed {
				return
			}
			r.bad(key, c.pos(in.Pos()), "error result is dropped on the persist/load path")
		})
	}
	r.guard(n, 10, "error-returning calls on the persist/load path")
	_ = types.Universe
}

// isReadOnlyHandleClose: a Close on a file that was opened with os.Open (read-only) in the same function.
func isReadOnlyHandleClose(ci ssa.CallInstruction) bool {
	if calleeFull(ci.Common()) != "os.File.Close" || len(ci.Common().Args) == 0 {
		return false
	}
	v := resolveCell(stripValue(ci.Common().Args[0]))
	if ex, ok := v.(*ssa.Extract); ok && ex.Index == 0 {
		if call, ok := ex.Tuple.(*ssa.Call); ok && calleeFull(&call.Call) == "os.Open" {
			return true
		}
	}
	return false
}

// closureNeutral replaces the ordinal of an anonymous function (F$1, F$2, ...) by a fixed tag: adding another closure
// to F renumbers them without changing what they do.
func closureNeutral(name string) string {
	out := []byte{}
	for i := 0; i < len(name); i++ {
		out = append(out, name[i])
		if name[i] == '$' {
			j := i + 1
			for j < len(name) && name[j] >= '0' && name[j] <= '9' {
				j++
			}
			if j > i+1 {
				out = append(out, []byte("closure")...)
				i = j - 1
			}
		}
	}
	return string(out)
}
