package main

import (
	"fmt"
	"go/token"
	"go/types"
	"sort"
	"strings"

	"golang.org/x/tools/go/ssa"
)

func init() {
	register(&Rule{ID: "NUM-2", Doc: "integer arithmetic on caller-supplied numbers cannot overflow before it is clamped: every negation/addition/subtraction/multiplication with an operand that comes out of an interface{} (operator argument) or out of strconv.Atoi is dominated by a comparison that bounds that operand on the overflowing side", Run: ruleNum2})
	register(&Rule{ID: "PANIC-5", Doc: "bsonkit.Index.tuples always yields at least one tuple (its callers index tuples[0] unconditionally): every per-column value list is a non-empty literal or an array used only on the len != 0 edge", Run: rulePanic5})
}

// ---- wild integers -------------------------------------------------------------------

type wildInfo struct {
	c       *Ctx
	retWild map[*ssa.Function]map[int]bool
	memo    map[ssa.Value]int // 0 unknown, 1 wild, 2 not
}

func isIntType(t types.Type) bool {
	b, ok := t.Underlying().(*types.Basic)
	return ok && b.Info()&types.IsInteger != 0
}

func isNumType(t types.Type) bool {
	b, ok := t.Underlying().(*types.Basic)
	return ok && b.Info()&(types.IsInteger|types.IsFloat) != 0
}

func (w *wildInfo) wild(v ssa.Value, depth int) bool {
	if depth > 10 {
		return false
	}
	if m, ok := w.memo[v]; ok && m != 0 {
		return m == 1
	}
	w.memo[v] = 2 // cycle guard: loop counters are not wild
	res := false
	switch x := v.(type) {
	case *ssa.TypeAssert:
		if !x.CommaOk && isNumType(x.AssertedType) && isIface(x.X.Type()) {
			res = true
		}
	case *ssa.Extract:
		switch t := x.Tuple.(type) {
		case *ssa.TypeAssert:
			if x.Index == 0 && isNumType(t.AssertedType) && isIface(t.X.Type()) {
				res = true
			}
		case *ssa.Call:
			name := calleeFull(&t.Call)
			if (name == "strconv.Atoi" || name == "strconv.ParseInt" || name == "strconv.ParseUint") && x.Index == 0 {
				res = true
			}
			if sf := staticFn(&t.Call); sf != nil && w.retWild[sf][x.Index] {
				res = true
			}
		}
	case *ssa.Call:
		if sf := staticFn(&x.Call); sf != nil && w.retWild[sf][0] {
			res = true
		}
	case *ssa.Convert:
		if isNumType(x.Type()) && isNumType(x.X.Type()) {
			res = w.wild(x.X, depth+1)
		}
	case *ssa.ChangeType:
		res = w.wild(x.X, depth+1)
	case *ssa.Phi:
		for _, e := range x.Edges {
			if w.wild(e, depth+1) {
				res = true
			}
		}
	case *ssa.UnOp:
		if x.Op == token.MUL {
			// load of a local cell / captured variable holding a wild value
			if cell, ok := x.X.(*ssa.Alloc); ok {
				if refs := cell.Referrers(); refs != nil {
					for _, ref := range *refs {
						if st, ok := ref.(*ssa.Store); ok && st.Addr == cell && w.wild(st.Val, depth+1) {
							res = true
						}
					}
				}
			}
		}
	}
	if res {
		w.memo[v] = 1
	}
	return res
}

func computeWild(c *Ctx) *wildInfo {
	w := &wildInfo{c: c, retWild: map[*ssa.Function]map[int]bool{}, memo: map[ssa.Value]int{}}
	var fns []*ssa.Function
	for _, fn := range c.repoFuncs() {
		p := fnPkgPath(fn)
		if p == pkgMongokit || p == pkgBsonkit {
			fns = append(fns, fn)
		}
	}
	for iter := 0; iter < 5; iter++ {
		changed := false
		w.memo = map[ssa.Value]int{}
		for _, fn := range fns {
			for _, ret := range returnsOf(fn) {
				for i := range ret.Results {
					rv := retVal(ret, i)
					if rv == nil || !isNumType(rv.Type()) {
						continue
					}
					if w.wild(rv, 0) {
						if w.retWild[fn] == nil {
							w.retWild[fn] = map[int]bool{}
						}
						if !w.retWild[fn][i] {
							w.retWild[fn][i] = true
							changed = true
						}
					}
				}
			}
		}
		if !changed {
			break
		}
	}
	w.memo = map[ssa.Value]int{}
	return w
}

// boundedSide: is there a dominating comparison that bounds value v from above (upper=true) or below?
func boundedSide(fn *ssa.Function, v ssa.Value, at ssa.Instruction, upper bool) bool {
	res := false
	allInstrs(fn, func(in ssa.Instruction) {
		iff, ok := in.(*ssa.If)
		if !ok || res {
			return
		}
		bo, ok := iff.Cond.(*ssa.BinOp)
		if !ok {
			return
		}
		var left bool
		switch {
		case sameSource(bo.X, v):
			left = true
		case sameSource(bo.Y, v):
			left = false
		default:
			return
		}
		other := bo.Y
		if !left {
			other = bo.X
		}
		if sameSource(other, v) {
			return
		}
		for i, s := range iff.Block().Succs {
			if !(s == at.Block() || s.Dominates(at.Block())) || len(s.Preds) != 1 {
				continue
			}
			trueEdge := i == 0
			op := bo.Op
			// normalise to "v op other"
			if !left {
				switch op {
				case token.LSS:
					op = token.GTR
				case token.LEQ:
					op = token.GEQ
				case token.GTR:
					op = token.LSS
				case token.GEQ:
					op = token.LEQ
				}
			}
			if !trueEdge {
				switch op {
				case token.LSS:
					op = token.GEQ
				case token.LEQ:
					op = token.GTR
				case token.GTR:
					op = token.LEQ
				case token.GEQ:
					op = token.LSS
				case token.EQL:
					op = token.NEQ
				case token.NEQ:
					op = token.EQL
				}
			}
			switch op {
			case token.LSS, token.LEQ:
				if upper {
					res = true
				}
			case token.GTR, token.GEQ:
				if !upper {
					res = true
				}
			case token.EQL:
				res = true
			}
		}
	})
	return res
}

// hasBound: v has an upper (lower) bound at instruction `at`: it is not caller-supplied, or built
// from bounded parts, or a dominating comparison bounds it on that side.
func (w *wildInfo) hasBound(fn *ssa.Function, v ssa.Value, at ssa.Instruction, upper bool, depth int) bool {
	if depth > 8 {
		return false
	}
	if !w.wild(v, 0) {
		return true
	}
	switch x := v.(type) {
	case *ssa.Convert:
		if boundedSide(fn, v, at, upper) {
			return true
		}
		return w.hasBound(fn, x.X, at, upper, depth+1)
	case *ssa.ChangeType:
		return w.hasBound(fn, x.X, at, upper, depth+1)
	case *ssa.Phi:
		if boundedSide(fn, v, at, upper) {
			return true
		}
		for i, e := range x.Edges {
			pred := x.Block().Preds[i]
			term := pred.Instrs[len(pred.Instrs)-1]
			if w.hasBound(fn, e, term, upper, depth+1) {
				continue
			}
			// the deciding test sits at the end of the predecessor itself
			if iff, ok := term.(*ssa.If); ok {
				if bo, ok := iff.Cond.(*ssa.BinOp); ok && edgeBounds(bo, pred.Succs[0] == x.Block(), e, upper) {
					continue
				}
			}
			return false
		}
		return true
	case *ssa.BinOp:
		if boundedSide(fn, v, at, upper) {
			return true
		}
		switch x.Op {
		case token.ADD:
			return w.hasBound(fn, x.X, at, upper, depth+1) && w.hasBound(fn, x.Y, at, upper, depth+1)
		case token.SUB:
			return w.hasBound(fn, x.X, at, upper, depth+1) && w.hasBound(fn, x.Y, at, !upper, depth+1)
		}
		return false
	case *ssa.UnOp:
		if x.Op == token.SUB {
			return w.hasBound(fn, x.X, at, !upper, depth+1)
		}
	}
	return boundedSide(fn, v, at, upper)
}

// edgeBounds: taking the given edge of comparison bo bounds e on the requested side.
func edgeBounds(bo *ssa.BinOp, trueEdge bool, e ssa.Value, upper bool) bool {
	var left bool
	switch {
	case sameSource(bo.X, e):
		left = true
	case sameSource(bo.Y, e):
		left = false
	default:
		return false
	}
	op := bo.Op
	if !left {
		switch op {
		case token.LSS:
			op = token.GTR
		case token.LEQ:
			op = token.GEQ
		case token.GTR:
			op = token.LSS
		case token.GEQ:
			op = token.LEQ
		}
	}
	if !trueEdge {
		switch op {
		case token.LSS:
			op = token.GEQ
		case token.LEQ:
			op = token.GTR
		case token.GTR:
			op = token.LEQ
		case token.GEQ:
			op = token.LSS
		case token.EQL:
			op = token.NEQ
		case token.NEQ:
			op = token.EQL
		}
	}
	switch op {
	case token.LSS, token.LEQ:
		return upper
	case token.GTR, token.GEQ:
		return !upper
	case token.EQL:
		return true
	}
	return false
}

// feedsBounds: does the value (transitively through arithmetic, phis, conversions and local
// cells) reach a slice bound, an index or an allocation size?
func feedsBounds(v ssa.Value, seen map[ssa.Value]bool) bool {
	if seen[v] {
		return false
	}
	seen[v] = true
	refs := v.Referrers()
	if refs == nil {
		return false
	}
	for _, ref := range *refs {
		switch x := ref.(type) {
		case *ssa.Slice:
			if x.Low == v || x.High == v || x.Max == v {
				return true
			}
		case *ssa.IndexAddr:
			if x.Index == v {
				return true
			}
		case *ssa.Index:
			if x.Index == v {
				return true
			}
		case *ssa.MakeSlice:
			return true
		case *ssa.BinOp:
			switch x.Op {
			case token.ADD, token.SUB, token.MUL:
				if feedsBounds(x, seen) {
					return true
				}
			case token.LSS, token.LEQ, token.GTR, token.GEQ:
				// a comparison that guards a slice expression: the guard itself is computed from the overflowed value
				if guardsSlice(x) {
					return true
				}
			}
		case *ssa.UnOp:
			if x.Op == token.SUB && feedsBounds(x, seen) {
				return true
			}
		case *ssa.Phi:
			if feedsBounds(x, seen) {
				return true
			}
		case *ssa.Convert:
			if feedsBounds(x, seen) {
				return true
			}
		case *ssa.Store:
			if cell, ok := x.Addr.(*ssa.Alloc); ok && x.Val == v {
				if crefs := cell.Referrers(); crefs != nil {
					for _, cr := range *crefs {
						if ld, ok := cr.(*ssa.UnOp); ok && ld.Op == token.MUL && feedsBounds(ld, seen) {
							return true
						}
					}
				}
			}
		}
	}
	return false
}

// guardsSlice: the comparison controls a branch in which a slice/index expression occurs.
func guardsSlice(cmp *ssa.BinOp) bool {
	refs := cmp.Referrers()
	if refs == nil {
		return false
	}
	for _, ref := range *refs {
		iff, ok := ref.(*ssa.If)
		if !ok {
			continue
		}
		for _, s := range iff.Block().Succs {
			for _, in := range s.Instrs {
				switch in.(type) {
				case *ssa.Slice, *ssa.IndexAddr:
					return true
				}
			}
		}
	}
	return false
}

type num2Finding struct {
	in  ssa.Instruction
	msg string
}

func num2Scan(w *wildInfo, fn *ssa.Function) (checked int, findings []num2Finding) {
	allInstrs(fn, func(in ssa.Instruction) {
		switch x := in.(type) {
		case *ssa.UnOp:
			if x.Op != token.SUB || !isIntType(x.Type()) || !w.wild(x.X, 0) {
				return
			}
			if !feedsBounds(x, map[ssa.Value]bool{}) {
				return
			}
			checked++
			if !w.hasBound(fn, x.X, x, false, 0) {
				findings = append(findings, num2Finding{in, "negation of a caller-supplied integer with no lower bound: the most negative value negates to itself and later bounds arithmetic goes wrong"})
			}
		case *ssa.BinOp:
			if !isIntType(x.Type()) {
				return
			}
			switch x.Op {
			case token.ADD, token.SUB, token.MUL:
			default:
				return
			}
			wx, wy := w.wild(x.X, 0), w.wild(x.Y, 0)
			if !wx && !wy {
				return
			}
			// loop counters (i+1) are not wild: handled by the cycle guard
			if !feedsBounds(x, map[ssa.Value]bool{}) {
				return // value arithmetic ($inc/$mul results): NUM-3
			}
			checked++
			var missing []string
			need := func(v ssa.Value, upper bool, what string) {
				if !w.hasBound(fn, v, x, upper, 0) {
					missing = append(missing, what)
				}
			}
			switch x.Op {
			case token.ADD:
				need(x.X, true, "upper bound of the left operand")
				need(x.Y, true, "upper bound of the right operand")
				if !w.hasBound(fn, x.X, x, false, 0) && !w.hasBound(fn, x.Y, x, false, 0) {
					missing = append(missing, "lower bound of either operand")
				}
			case token.SUB:
				need(x.X, true, "upper bound of the minuend")
				need(x.Y, false, "lower bound of the subtrahend")
				if !w.hasBound(fn, x.X, x, false, 0) && !w.hasBound(fn, x.Y, x, true, 0) {
					missing = append(missing, "lower bound of the minuend or upper bound of the subtrahend")
				}
			case token.MUL:
				if wx {
					need(x.X, true, "upper bound of the left operand")
					need(x.X, false, "lower bound of the left operand")
				}
				if wy {
					need(x.Y, true, "upper bound of the right operand")
					need(x.Y, false, "lower bound of the right operand")
				}
			}
			if len(missing) > 0 {
				findings = append(findings, num2Finding{in, "arithmetic on a caller-supplied integer can overflow: no dominating comparison gives the " + strings.Join(missing, " / ")})
			}
		}
	})
	return
}

func ruleNum2(c *Ctx, r *Reporter) {
	w := computeWild(c)
	total := 0
	sources := 0
	for fn, m := range w.retWild {
		_ = fn
		sources += len(m)
	}
	for _, fn := range c.repoFuncs() {
		p := fnPkgPath(fn)
		if p != pkgMongokit && p != pkgBsonkit {
			continue
		}
		n, findings := num2Scan(w, fn)
		total += n
		sort.Slice(findings, func(i, j int) bool { return findings[i].in.Pos() < findings[j].in.Pos() })
		for _, f := range findings {
			r.bad(fmt.Sprintf("%s:%s", funcName(fn), opName(f.in)), c.pos(f.in.Pos()), f.msg)
		}
		if n > 0 && len(findings) == 0 {
			r.ok(funcName(fn)+":integer arithmetic", c.pos(fn.Pos()), fmt.Sprintf("%d operation(s) on caller-supplied integers, each bounded by a dominating comparison", n))
		}
	}
	r.guard(total, 5, "arithmetic operations on caller-supplied integers")
	r.guard(sources, 2, "helper functions returning caller-supplied integers")
	positiveCheck(r, "NUM-2", "Neg", "", func(fn *ssa.Function) int {
		ww := &wildInfo{c: c, retWild: map[*ssa.Function]map[int]bool{}, memo: map[ssa.Value]int{}}
		_, f := num2Scan(ww, fn)
		return len(f)
	})
}

func opName(in ssa.Instruction) string {
	switch x := in.(type) {
	case *ssa.UnOp:
		return "negation"
	case *ssa.BinOp:
		return "operator " + x.Op.String()
	}
	return "arithmetic"
}

// ---- PANIC-5 -----------------------------------------------------------------------

func rulePanic5(c *Ctx, r *Reporter) {
	fn := c.lookupSSA(pkgBsonkit, "Index.tuples")
	if fn == nil {
		r.bad("anchor:Index.tuples", "-", "not found")
		return
	}
	// literal slices: slice of a freshly allocated array of length >= 1
	isLiteral := func(v ssa.Value) bool {
		sl, ok := v.(*ssa.Slice)
		if !ok {
			return false
		}
		a, ok := sl.X.(*ssa.Alloc)
		if !ok {
			return false
		}
		arr, ok := a.Type().(*types.Pointer).Elem().Underlying().(*types.Array)
		return ok && arr.Len() >= 1
	}
	n := 0
	allInstrs(fn, func(in ssa.Instruction) {
		phi, ok := in.(*ssa.Phi)
		if !ok {
			return
		}
		st, ok := phi.Type().Underlying().(*types.Slice)
		if !ok {
			return
		}
		// the per-column value list is a []interface{}; the tuple list ([][]interface{}) is the
		// cartesian product of non-empty lists and starts with one empty tuple
		if _, isIface := st.Elem().Underlying().(*types.Interface); !isIface {
			return
		}
		hasLit := false
		for _, e := range phi.Edges {
			if isLiteral(e) {
				hasLit = true
			}
		}
		if !hasLit {
			return
		}
		n++
		var problems []string
		for i, e := range phi.Edges {
			if isLiteral(e) {
				continue
			}
			// the array itself: only on the edge where its length is known to be non-zero
			pred := phi.Block().Preds[i]
			good := false
			// walk up single-predecessor chains to the deciding If
			b := pred
			succ := phi.Block()
			for d := 0; d < 3 && b != nil; d++ {
				if iff, ok := b.Instrs[len(b.Instrs)-1].(*ssa.If); ok {
					if bo, ok := iff.Cond.(*ssa.BinOp); ok {
						if lc, ok := bo.X.(*ssa.Call); ok {
							if bi, ok := lc.Call.Value.(*ssa.Builtin); ok && bi.Name() == "len" && sameSource(stripValue(lc.Call.Args[0]), stripValue(e)) {
								if k, ok := constInt(bo.Y); ok && k == 0 {
									nonZero := b.Succs[1]
									if bo.Op == token.NEQ || bo.Op == token.GTR {
										nonZero = b.Succs[0]
									}
									if nonZero == succ && (bo.Op == token.EQL || bo.Op == token.NEQ || bo.Op == token.GTR) {
										good = true
									}
								}
							}
						}
					}
					break
				}
				if len(b.Preds) != 1 {
					break
				}
				succ = b
				b = b.Preds[0]
			}
			if !good {
				problems = append(problems, fmt.Sprintf("the value list can be the (possibly empty) array %s on an edge that does not establish len != 0", e.Name()))
			}
		}
		if len(problems) > 0 {
			r.bad("Index.tuples:values non-empty", c.pos(phi.Pos()), strings.Join(problems, "; ")+": tuples() could return no tuple and Add/Has/Remove index tuples[0]")
		} else {
			r.ok("Index.tuples:values non-empty", c.pos(phi.Pos()), "every column contributes at least one value, so at least one tuple is produced")
		}
	})
	// the per-column value list may be produced by a helper of package bsonkit: every value it returns must be a
	// literal one-element slice or an array that was tested to be non-empty
	allInstrs(fn, func(in ssa.Instruction) {
		call, ok := in.(*ssa.Call)
		if !ok {
			return
		}
		h := call.Call.StaticCallee()
		if h == nil || h == fn || fnPkgPath(h) != pkgBsonkit || h.Blocks == nil {
			return
		}
		st, ok := call.Type().Underlying().(*types.Slice)
		if !ok {
			return
		}
		if _, isIface := st.Elem().Underlying().(*types.Interface); !isIface {
			return
		}
		n++
		var problems []string
		for _, ret := range returnsOf(h) {
			if ret.Block() == h.Recover {
				continue
			}
			e := stripValue(retVal(ret, 0))
			if isLiteral(e) {
				continue
			}
			good := false
			for _, b := range h.Blocks {
				iff, ok := b.Instrs[len(b.Instrs)-1].(*ssa.If)
				if !ok {
					continue
				}
				bo, ok := iff.Cond.(*ssa.BinOp)
				if !ok {
					continue
				}
				lc, ok := bo.X.(*ssa.Call)
				if !ok {
					continue
				}
				bi, ok := lc.Call.Value.(*ssa.Builtin)
				if !ok || bi.Name() != "len" || !sameSource(stripValue(lc.Call.Args[0]), e) {
					continue
				}
				if k, ok := constInt(bo.Y); !ok || k != 0 {
					continue
				}
				nonZero := b.Succs[1]
				if bo.Op == token.NEQ || bo.Op == token.GTR {
					nonZero = b.Succs[0]
				}
				if (bo.Op == token.EQL || bo.Op == token.NEQ || bo.Op == token.GTR) && len(nonZero.Preds) == 1 && (nonZero == ret.Block() || nonZero.Dominates(ret.Block())) {
					good = true
				}
			}
			if !good {
				problems = append(problems, fmt.Sprintf("%s can return the (possibly empty) array %s without having established len != 0", h.Name(), e.Name()))
			}
		}
		if len(problems) > 0 {
			r.bad("Index.tuples:values non-empty", c.pos(call.Pos()), strings.Join(problems, "; ")+": tuples() could return no tuple and Add/Has/Remove index tuples[0]")
		} else {
			r.ok("Index.tuples:values non-empty", c.pos(call.Pos()), "through "+h.Name()+": every column contributes at least one value, so at least one tuple is produced")
		}
	})
	r.guard(n, 1, "per-column value lists in Index.tuples")
	// the consumers really rely on it
	use := 0
	for _, name := range []string{"Index.Add", "Index.Has", "Index.Remove"} {
		if f := c.lookupSSA(pkgBsonkit, name); f != nil {
			allInstrs(f, func(in ssa.Instruction) {
				if ia, ok := in.(*ssa.IndexAddr); ok {
					if k, ok := constInt(ia.Index); ok && k == 0 {
						use++
					}
				}
			})
		}
	}
	r.trivial("Index.tuples:consumers", "-", fmt.Sprintf("%d unconditional tuples[0] uses rely on this invariant", use))
}

// ---- OWN-4 variants --------------------------------------------------------------------

func init() {
	register(&Rule{ID: "OWN-4p", Doc: "projection never writes into its input: OWN-4 restricted to mongokit.Project/ProjectList and the projection operators", Run: func(c *Ctx, r *Reporter) {
		ruleOwn4Filtered(c, r, func(fn string) bool {
			return strings.Contains(fn, "mongokit.Project") || strings.Contains(fn, "mongokit.project")
		}, 3)
	}})
	register(&Rule{ID: "OWN-4u", Doc: "updates are applied to clones: OWN-4 restricted to the update operators, Apply/Update/Extract and the write methods of mongokit.Collection", Run: func(c *Ctx, r *Reporter) {
		ruleOwn4Filtered(c, r, func(fn string) bool {
			return strings.Contains(fn, "mongokit.apply") || strings.Contains(fn, "mongokit.push") || strings.Contains(fn, "mongokit.extract") || strings.Contains(fn, "mongokit.Apply") || strings.Contains(fn, "mongokit.Update") || strings.Contains(fn, "mongokit.Collection)")
		}, 25)
	}})
}

func ruleOwn4Filtered(c *Ctx, r *Reporter, keep func(fn string) bool, min int) {
	sub := &Reporter{rule: r.rule}
	ruleOwn4(c, sub)
	n := 0
	for _, o := range sub.obs {
		if strings.HasPrefix(o.Construct, "guard:") || o.Construct == "analysis" {
			continue
		}
		if keep(o.Construct) {
			n++
			r.obs = append(r.obs, o)
		}
	}
	r.guard(n, min, "in-place mutation sites in scope")
}

func init() {
	register(&Rule{ID: "NUM-2s", Doc: "$slice projection windows: NUM-2 restricted to the projection operators (start/limit arithmetic is clamped before it can overflow)", Run: func(c *Ctx, r *Reporter) {
		sub := &Reporter{rule: r.rule}
		ruleNum2(c, sub)
		n := 0
		for _, o := range sub.obs {
			if strings.HasPrefix(o.Construct, "mongokit.project") {
				n++
				r.obs = append(r.obs, o)
			}
			if strings.HasPrefix(o.Construct, "positive-example") {
				r.obs = append(r.obs, o)
			}
		}
		r.guard(n, 1, "projection functions doing arithmetic on caller-supplied integers")
	}})
}
