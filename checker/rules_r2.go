package main

import (
	"fmt"
	"go/token"
	"go/types"

	"golang.org/x/tools/go/ssa"
)

// Rules added after the second round of independently seeded changes (DESIGN 11.5).

func init() {
	register(&Rule{ID: "TXN-3", Doc: "a finished transaction is detached from its session: in every Session method that hands the session's transaction to Engine.Commit or Engine.Abort, s.txn is set to nil on every path through that call - before it, or on every way out after it (also when the commit fails)", Run: ruleTxn3})
}

func ruleTxn3(c *Ctx, r *Reporter) {
	sessT := c.lookupType(pkgLungo, "Session")
	txnF := c.field(pkgLungo, "Session", "txn")
	commitF := c.lookupFunc(pkgLungo, "Engine.Commit")
	abortF := c.lookupFunc(pkgLungo, "Engine.Abort")
	if sessT == nil || txnF == nil || commitF == nil || abortF == nil {
		r.bad("anchor:Session.txn/Engine.Commit/Engine.Abort", "-", "not found")
		return
	}
	isTxnAddr := func(v ssa.Value) bool {
		fa, ok := v.(*ssa.FieldAddr)
		return ok && structFieldOf(fa) == txnF
	}
	isNilStore := func(in ssa.Instruction) bool {
		st, ok := in.(*ssa.Store)
		return ok && isTxnAddr(st.Addr) && isNilConst(st.Val)
	}
	n := 0
	for i := 0; i < sessT.NumMethods(); i++ {
		fn := c.ssaFunc(sessT.Method(i))
		if fn == nil {
			continue
		}
		for _, g := range withClosures(fn) {
			allInstrs(g, func(in ssa.Instruction) {
				call, ok := in.(*ssa.Call)
				if !ok {
					return
				}
				f := calleeObj(&call.Call)
				if f != commitF && f != abortF {
					return
				}
				if len(call.Call.Args) < 2 {
					return
				}
				ld, ok := stripValue(call.Call.Args[1]).(*ssa.UnOp)
				if !ok || ld.Op != token.MUL || !isTxnAddr(ld.X) {
					return // not the session's transaction (e.g. a transaction that was never attached)
				}
				n++
				key := fmt.Sprintf("%s:%s detaches the transaction", funcName(g), f.Name())
				before := false
				allInstrs(g, func(x ssa.Instruction) {
					if isNilStore(x) && instrDominates(ld, x) && instrDominates(x, call) {
						before = true
					}
				})
				if before {
					r.ok(key, c.pos(call.Pos()), "s.txn is cleared between reading it and the call")
					return
				}
				if bad := exitWithoutPassing(call, isNilStore, nil); bad != nil {
					r.bad(key, c.pos(call.Pos()), fmt.Sprintf("the exit at %s is reached after the call without s.txn = nil: the session keeps a transaction the engine has already finished (its reads show unpersisted state, its writes are lost)", c.pos(bad.Pos())))
					return
				}
				r.ok(key, c.pos(call.Pos()), "every way out after the call passes s.txn = nil")
			})
		}
	}
	r.guard(n, 3, "Engine.Commit/Abort calls on the session's transaction")
}

func init() {
	register(&Rule{ID: "EXT-1", Doc: "upsert extraction treats $in and $or as an equality only for exactly one alternative: in the functions registered as $in (expression extract operators) and $or (top level extract operators), every bsonkit.Put / Process call is reached only on paths where the comparisons on len(operand array) leave exactly the value 1", Run: ruleExt1})
}

// lenInterval derives, from the comparisons of len(x) (x satisfying isArr) against constants whose
// edges dominate block b, the interval of len(x) on entry to b. hi < 0 means unbounded.
func lenInterval(fn *ssa.Function, isArr func(ssa.Value) bool, b *ssa.BasicBlock) (lo, hi int64) {
	lo, hi = 0, -1
	type fact struct {
		op token.Token
		k  int64
	}
	var facts []fact
	for _, blk := range fn.Blocks {
		if len(blk.Instrs) == 0 {
			continue
		}
		iff, ok := blk.Instrs[len(blk.Instrs)-1].(*ssa.If)
		if !ok {
			continue
		}
		bo, ok := iff.Cond.(*ssa.BinOp)
		if !ok {
			continue
		}
		isLen := func(v ssa.Value) bool {
			call, ok := stripIntConv(v).(*ssa.Call)
			if !ok {
				return false
			}
			bi, ok := call.Call.Value.(*ssa.Builtin)
			return ok && bi.Name() == "len" && isArr(call.Call.Args[0])
		}
		op := bo.Op
		var k int64
		switch {
		case isLen(bo.X):
			kk, ok := constInt(bo.Y)
			if !ok {
				continue
			}
			k = kk
		case isLen(bo.Y):
			kk, ok := constInt(bo.X)
			if !ok {
				continue
			}
			k = kk
			switch op {
			case token.LSS:
				op = token.GTR
			case token.LEQ:
				op = token.GEQ
			case token.GTR:
				op = token.LSS
			case token.GEQ:
				op = token.LEQ
			}
		default:
			continue
		}
		for i, s := range blk.Succs {
			if len(s.Preds) != 1 || !(s == b || s.Dominates(b)) {
				continue
			}
			eop := op
			if i == 1 {
				switch op {
				case token.LSS:
					eop = token.GEQ
				case token.LEQ:
					eop = token.GTR
				case token.GTR:
					eop = token.LEQ
				case token.GEQ:
					eop = token.LSS
				case token.EQL:
					eop = token.NEQ
				case token.NEQ:
					eop = token.EQL
				}
			}
			facts = append(facts, fact{eop, k})
		}
	}
	for pass := 0; pass < 3; pass++ {
		for _, f := range facts {
			switch f.op {
			case token.EQL:
				if f.k > lo {
					lo = f.k
				}
				if hi < 0 || f.k < hi {
					hi = f.k
				}
			case token.NEQ:
				if f.k == lo {
					lo++
				}
				if hi >= 0 && f.k == hi {
					hi--
				}
			case token.LSS:
				if hi < 0 || f.k-1 < hi {
					hi = f.k - 1
				}
			case token.LEQ:
				if hi < 0 || f.k < hi {
					hi = f.k
				}
			case token.GTR:
				if f.k+1 > lo {
					lo = f.k + 1
				}
			case token.GEQ:
				if f.k > lo {
					lo = f.k
				}
			}
		}
	}
	return
}

func ruleExt1(c *Ctx, r *Reporter) {
	regs := readRegistries(c)
	putF := c.lookupFunc(pkgBsonkit, "Put")
	procF := c.lookupFunc(pkgMongokit, "Process")
	n := 0
	for _, it := range [][2]string{{"ExpressionExtractOperators", "$in"}, {"TopLevelExtractOperators", "$or"}} {
		fn := regs[it[0]][it[1]]
		key := "extract " + it[1]
		if fn == nil || putF == nil || procF == nil || len(fn.Params) < 5 {
			r.bad("anchor:"+key, "-", "operator not registered in "+it[0])
			continue
		}
		operand := fn.Params[len(fn.Params)-1]
		isArr := func(v ssa.Value) bool {
			v = stripValue(v)
			if ex, ok := v.(*ssa.Extract); ok {
				v = ex.Tuple
			}
			if hc, ok := v.(*ssa.Call); ok {
				// array, err := helper(.., operand): the helper's first result (checked below to be the asserted operand)
				if h := staticFn(&hc.Call); h != nil && fnPkgPath(h) == pkgMongokit {
					for _, a := range hc.Call.Args {
						if a == ssa.Value(operand) {
							return true
						}
					}
				}
				return false
			}
			ta, ok := v.(*ssa.TypeAssert)
			return ok && ta.X == ssa.Value(operand)
		}
		sites := 0
		allInstrs(fn, func(in ssa.Instruction) {
			call, ok := in.(*ssa.Call)
			if !ok {
				return
			}
			f := calleeObj(&call.Call)
			if f != putF && f != procF {
				return
			}
			sites++
			n++
			lo, hi := lenInterval(fn, isArr, call.Block())
			// the array may come checked out of a function of the package (array, err := operandArray(name, v)):
			// what that function has established about the length on its successful returns holds here too
			allInstrs(fn, func(x ssa.Instruction) {
				hc, ok := x.(*ssa.Call)
				if !ok {
					return
				}
				h := staticFn(&hc.Call)
				if h == nil || h.Blocks == nil || fnPkgPath(h) != pkgMongokit || hc.Call.Signature().Results().Len() != 2 {
					return
				}
				var hp *ssa.Parameter
				for i, a := range hc.Call.Args {
					if a == ssa.Value(operand) && i < len(h.Params) {
						hp = h.Params[i]
					}
				}
				if hp == nil {
					return
				}
				// the caller continues only on the helper's nil error
				dominated := false
				for _, ec := range errChecksOf(errorResult(hc)) {
					if ec.OkSucc == call.Block() || ec.OkSucc.Dominates(call.Block()) {
						dominated = true
					}
				}
				if !dominated {
					return
				}
				isArrH := func(v ssa.Value) bool {
					v = stripValue(v)
					if ex, ok := v.(*ssa.Extract); ok {
						v = ex.Tuple
					}
					ta, ok := v.(*ssa.TypeAssert)
					return ok && ta.X == ssa.Value(hp)
				}
				hlo, hhi := int64(-1), int64(0)
				okAll := true
				for _, ret := range returnsOf(h) {
					if len(ret.Results) != 2 || !isNilConst(retVal(ret, 1)) {
						continue
					}
					if !isArrH(retVal(ret, 0)) {
						okAll = false
						continue
					}
					l2, h2 := lenInterval(h, isArrH, ret.Block())
					if hlo < 0 || l2 < hlo {
						hlo = l2
					}
					if h2 < 0 || hhi < 0 {
						hhi = -1
					} else if h2 > hhi {
						hhi = h2
					}
				}
				if !okAll || hlo < 0 {
					return
				}
				if hlo > lo {
					lo = hlo
				}
				if hhi >= 0 && (hi < 0 || hhi < hi) {
					hi = hhi
				}
			})
			k := fmt.Sprintf("%s:%s only for a single alternative", funcName(fn), f.Name())
			his := fmt.Sprint(hi)
			if hi < 0 {
				his = "unbounded"
			}
			r.check(lo == 1 && hi == 1, k, c.pos(call.Pos()), "reached only with len(array) == 1", fmt.Sprintf("reached with len(array) in [%d, %s]: an %s with several alternatives would be extracted as an equality on its first one and end up in the upserted document", lo, his, it[1]))
		})
		if sites == 0 {
			r.bad("anchor:"+key, c.pos(fn.Pos()), "no Put/Process call found in the operator")
		}
	}
	r.guard(n, 2, "extraction sites in the $in/$or extract operators")
}

// ---- TAB-8 / TAB-9: the file format's namespace table ---------------------------------

func init() {
	register(&Rule{ID: "TAB-8", Doc: "namespace keys of the store file round-trip: BuildFile keys namespaces by Handle.String (strings.Join with one constant separator), BuildCatalog splits at the first occurrence of the same separator into two parts, Handle.Validate rejects a database name containing the separator, and every exported Transaction method with a Handle parameter validates it", Run: ruleTab8})
	register(&Rule{ID: "TAB-9", Doc: "per-namespace containers of the store file are per namespace: inside the namespace loops of BuildFile and File.BuildCatalog every map written to is allocated inside the loop, unless it is the table keyed by the loop's own key", Run: ruleTab9})
}

// dependsOn: does v (transitively, through operands and through cells/arrays it is loaded from) depend on target?
func dependsOn(v, target ssa.Value, seen map[ssa.Value]bool) bool {
	if v == nil || seen[v] {
		return false
	}
	seen[v] = true
	if v == target {
		return true
	}
	in, ok := v.(ssa.Instruction)
	if !ok {
		return false
	}
	for _, op := range in.Operands(nil) {
		if *op != nil && dependsOn(*op, target, seen) {
			return true
		}
	}
	// loads: look at what was stored into the cell (or any part of it)
	var cellOf func(a ssa.Value) ssa.Value
	cellOf = func(a ssa.Value) ssa.Value {
		switch x := a.(type) {
		case *ssa.Alloc:
			return x
		case *ssa.IndexAddr:
			return cellOf(x.X)
		case *ssa.FieldAddr:
			return cellOf(x.X)
		}
		return nil
	}
	var addr ssa.Value
	if u, ok := v.(*ssa.UnOp); ok && u.Op == token.MUL {
		addr = u.X
	}
	if sl, ok := v.(*ssa.Slice); ok {
		// a slice of a local array (composite literal T{a, b}): its elements
		addr = sl.X
	}
	if addr != nil {
		if cell := cellOf(addr); cell != nil {
			var visit func(a ssa.Value) bool
			visit = func(a ssa.Value) bool {
				refs := a.Referrers()
				if refs == nil {
					return false
				}
				for _, ref := range *refs {
					switch x := ref.(type) {
					case *ssa.Store:
						if x.Addr == a && dependsOn(x.Val, target, seen) {
							return true
						}
					case *ssa.IndexAddr:
						if x.X == a && visit(x) {
							return true
						}
					case *ssa.FieldAddr:
						if x.X == a && visit(x) {
							return true
						}
					}
				}
				return false
			}
			if visit(cell) {
				return true
			}
		}
	}
	return false
}

// namespaceLoops returns the range loops of fn over a field named Namespaces: the Next instruction and the loop body.
func namespaceLoops(c *Ctx, fn *ssa.Function) (out []struct {
	next *ssa.Next
	body map[*ssa.BasicBlock]bool
}) {
	allInstrs(fn, func(in ssa.Instruction) {
		nx, ok := in.(*ssa.Next)
		if !ok {
			return
		}
		rg, ok := nx.Iter.(*ssa.Range)
		if !ok {
			return
		}
		u, ok := rg.X.(*ssa.UnOp)
		if !ok || u.Op != token.MUL {
			return
		}
		fa, ok := u.X.(*ssa.FieldAddr)
		if !ok || structFieldOf(fa) == nil || structFieldOf(fa).Name() != "Namespaces" {
			return
		}
		if len(nx.Block().Succs) < 1 {
			return
		}
		// the body: blocks reachable from the "has next" successor without passing the loop header
		var hasNext *ssa.BasicBlock
		if iff, ok := nx.Block().Instrs[len(nx.Block().Instrs)-1].(*ssa.If); ok && iff != nil {
			hasNext = nx.Block().Succs[0]
		} else {
			return
		}
		body := blockReach([]*ssa.BasicBlock{hasNext}, map[*ssa.BasicBlock]bool{nx.Block(): true})
		out = append(out, struct {
			next *ssa.Next
			body map[*ssa.BasicBlock]bool
		}{nx, body})
	})
	return
}

func ruleTab9(c *Ctx, r *Reporter) {
	n := 0
	for _, name := range []string{"BuildFile", "File.BuildCatalog"} {
		fn := c.lookupSSA(pkgLungo, name)
		if fn == nil {
			r.bad("anchor:"+name, "-", "not found")
			continue
		}
		loops := namespaceLoops(c, fn)
		if len(loops) == 0 {
			r.bad("anchor:"+name+":namespace loop", c.pos(fn.Pos()), "no range loop over a Namespaces table")
			continue
		}
		for _, lp := range loops {
			var loopKey ssa.Value
			if refs := lp.next.Referrers(); refs != nil {
				for _, ref := range *refs {
					if ex, ok := ref.(*ssa.Extract); ok && ex.Index == 1 {
						loopKey = ex
					}
				}
			}
			seenSite := map[string]int{}
			allInstrs(fn, func(in ssa.Instruction) {
				mu, ok := in.(*ssa.MapUpdate)
				if !ok || !lp.body[mu.Block()] {
					return
				}
				n++
				// where does the map come from?
				root := stripValue(mu.Map)
				desc := ""
				for i := 0; i < 8; i++ {
					switch x := root.(type) {
					case *ssa.UnOp:
						if x.Op == token.MUL {
							if fa, ok := x.X.(*ssa.FieldAddr); ok {
								desc = "." + structFieldOf(fa).Name() + desc
								root = stripValue(fa.X)
								continue
							}
							if cell, ok := x.X.(*ssa.Alloc); ok {
								// a local variable: single store?
								var val ssa.Value
								cnt := 0
								if refs := cell.Referrers(); refs != nil {
									for _, ref := range *refs {
										if st, ok := ref.(*ssa.Store); ok && st.Addr == cell {
											val = st.Val
											cnt++
										}
									}
								}
								if cnt == 1 {
									root = stripValue(val)
									continue
								}
							}
						}
					case *ssa.Phi:
						// a loop-carried map variable: look at the non-back edges only when all agree
					}
					break
				}
				what := "map"
				if in2, ok := root.(ssa.Instruction); ok {
					what = fmt.Sprintf("%T%s", root, desc)
					_ = in2
				}
				key := fmt.Sprintf("%s:map written in the namespace loop (%s)", name, trimSSAType(what))
				seenSite[key]++
				if seenSite[key] > 1 {
					key = fmt.Sprintf("%s #%d", key, seenSite[key])
				}
				ri, isInstr := root.(ssa.Instruction)
				switch {
				case isInstr && ri.Block() != nil && lp.body[ri.Block()] && !isPhi(root):
					r.ok(key, c.pos(mu.Pos()), "the map is created inside the loop: one per namespace")
				case loopKey != nil && dependsOn(mu.Key, loopKey, map[ssa.Value]bool{}):
					r.ok(key, c.pos(mu.Pos()), "the table of all namespaces, keyed by the loop's own key")
				default:
					r.bad(key, c.pos(mu.Pos()), "the map is created outside the namespace loop and is not keyed by the namespace: every namespace shares (and is persisted / rebuilt with) the union of all namespaces' entries")
				}
			})
		}
	}
	r.guard(n, 2, "map writes inside the namespace loops of BuildFile/BuildCatalog")
}

func isPhi(v ssa.Value) bool { _, ok := v.(*ssa.Phi); return ok }

func trimSSAType(s string) string {
	if len(s) > 5 && s[:5] == "*ssa." {
		return s[5:]
	}
	return s
}

func ruleTab8(c *Ctx, r *Reporter) {
	strFn := c.lookupSSA(pkgLungo, "Handle.String")
	valFn := c.lookupSSA(pkgLungo, "Handle.Validate")
	bf := c.lookupSSA(pkgLungo, "BuildFile")
	bc := c.lookupSSA(pkgLungo, "File.BuildCatalog")
	if strFn == nil || valFn == nil || bf == nil || bc == nil {
		r.bad("anchor:Handle.String/Handle.Validate/BuildFile/BuildCatalog", "-", "not found")
		return
	}
	stringsCall := func(in ssa.Instruction) (*ssa.Call, string) {
		call, ok := in.(*ssa.Call)
		if !ok {
			return nil, ""
		}
		f := calleeObj(&call.Call)
		if f == nil || f.Pkg() == nil || f.Pkg().Path() != "strings" {
			return nil, ""
		}
		return call, f.Name()
	}
	sepOf := func(v ssa.Value) (string, bool) {
		if s, ok := constString(v); ok {
			return s, true
		}
		if k, ok := constInt(v); ok {
			return string(rune(k)), true
		}
		return "", false
	}
	// 1. writer separator
	sep, haveSep := "", false
	allInstrs(strFn, func(in ssa.Instruction) {
		if call, name := stringsCall(in); call != nil && name == "Join" {
			sep, haveSep = sepOf(call.Call.Args[1])
		}
	})
	if !r.check(haveSep && sep != "", "Handle.String:separator", c.pos(strFn.Pos()), fmt.Sprintf("joins the two components with the constant %q", sep), "Handle.String does not join its components with a constant separator") {
		return
	}
	// 2. BuildFile keys by Handle.String of the loop key
	okKey := false
	for _, lp := range namespaceLoops(c, bf) {
		allInstrs(bf, func(in ssa.Instruction) {
			mu, ok := in.(*ssa.MapUpdate)
			if !ok || !lp.body[mu.Block()] {
				return
			}
			if call, ok := stripValue(mu.Key).(*ssa.Call); ok && call.Call.StaticCallee() == strFn {
				okKey = true
			}
		})
	}
	r.check(okKey, "BuildFile:namespace key", c.pos(bf.Pos()), "namespaces are keyed by Handle.String()", "BuildFile does not key a namespace by Handle.String()")
	// 3. BuildCatalog splits the key at the first separator into two parts
	nSplit := 0
	for _, lp := range namespaceLoops(c, bc) {
		var loopKey ssa.Value
		if refs := lp.next.Referrers(); refs != nil {
			for _, ref := range *refs {
				if ex, ok := ref.(*ssa.Extract); ok && ex.Index == 1 {
					loopKey = ex
				}
			}
		}
		allInstrs(bc, func(in ssa.Instruction) {
			call, name := stringsCall(in)
			if call == nil || !lp.body[call.Block()] || len(call.Call.Args) == 0 || loopKey == nil || !dependsOn(call.Call.Args[0], loopKey, map[ssa.Value]bool{}) {
				return
			}
			nSplit++
			key := "BuildCatalog:namespace key split (strings." + name + ")"
			s2, okS := "", false
			if len(call.Call.Args) > 1 {
				s2, okS = sepOf(call.Call.Args[1])
			}
			switch name {
			case "SplitN":
				k, okN := constInt(call.Call.Args[2])
				r.check(okS && s2 == sep && okN && k == 2, key, c.pos(call.Pos()), "splits at the first separator into two parts: the inverse of Handle.String for a database name without separator", "does not split at the first separator into exactly two parts: a collection name containing the separator does not survive a reload")
			case "Cut", "Index", "IndexByte", "IndexRune":
				r.check(okS && s2 == sep, key, c.pos(call.Pos()), "splits at the first separator", "splits at a different separator than Handle.String writes")
			default:
				r.bad(key, c.pos(call.Pos()), "the namespace key is not split at the first occurrence of the separator (expected SplitN(_, sep, 2), Cut or Index): a collection name containing the separator does not survive a reload")
			}
		})
	}
	r.guard(nSplit, 1, "split of the namespace key in BuildCatalog")
	// 4. Handle.Validate rejects the separator in the database name
	rejects := false
	allInstrs(valFn, func(in ssa.Instruction) {
		call, name := stringsCall(in)
		if call == nil || len(call.Call.Args) < 2 {
			return
		}
		s2, okS := sepOf(call.Call.Args[1])
		if !okS || s2 != sep {
			return
		}
		// the first argument is element 0 of the handle
		a0 := stripValue(call.Call.Args[0])
		isDB := false
		if u, ok := a0.(*ssa.UnOp); ok && u.Op == token.MUL {
			if ia, ok := u.X.(*ssa.IndexAddr); ok {
				if k, ok := constInt(ia.Index); ok && k == 0 {
					isDB = true
				}
			}
		}
		if ix, ok := a0.(*ssa.Index); ok {
			if k, ok := constInt(ix.Index); ok && k == 0 {
				isDB = true
			}
		}
		if !isDB {
			return
		}
		refs := call.Referrers()
		if refs == nil {
			return
		}
		var errBlocks []*ssa.BasicBlock
		for _, ref := range *refs {
			switch x := ref.(type) {
			case *ssa.If:
				if name == "Contains" || name == "ContainsRune" || name == "ContainsAny" {
					errBlocks = append(errBlocks, x.Block().Succs[0])
				}
			case *ssa.BinOp:
				// Index(...) >= 0, != -1, > -1
				k, okK := constInt(x.Y)
				if !okK || x.X != ssa.Value(call) {
					continue
				}
				if rr := x.Referrers(); rr != nil {
					for _, r2 := range *rr {
						if iff, ok := r2.(*ssa.If); ok {
							switch {
							case (x.Op == token.GEQ && k == 0) || (x.Op == token.NEQ && k == -1) || (x.Op == token.GTR && k == -1):
								errBlocks = append(errBlocks, iff.Block().Succs[0])
							case (x.Op == token.LSS && k == 0) || (x.Op == token.EQL && k == -1):
								errBlocks = append(errBlocks, iff.Block().Succs[1])
							}
						}
					}
				}
			}
		}
		for _, b := range errBlocks {
			if ret, ok := b.Instrs[len(b.Instrs)-1].(*ssa.Return); ok && len(ret.Results) == 1 && !isNilConst(ret.Results[0]) {
				rejects = true
			}
		}
	})
	r.check(rejects, "Handle.Validate:database name without separator", c.pos(valFn.Pos()), "a database name containing the separator is rejected with an error: Handle.String is injective on valid handles", "a database name may contain the separator: Handle.String maps (\"a.b\",\"c\") and (\"a\",\"b.c\") to the same key, and the namespace comes back under another database after a reload")
	// 5. every exported Transaction method with a Handle parameter validates it first
	txnT := c.lookupType(pkgLungo, "Transaction")
	handleT := c.lookupType(pkgLungo, "Handle")
	catF := c.field(pkgLungo, "Transaction", "catalog")
	nv := 0
	if txnT != nil && handleT != nil && catF != nil {
		for i := 0; i < txnT.NumMethods(); i++ {
			m := txnT.Method(i)
			fn := c.ssaFunc(m)
			if fn == nil || !m.Exported() {
				continue
			}
			var hp *ssa.Parameter
			for _, p := range fn.Params[1:] {
				if derefNamed(p.Type()) == handleT {
					hp = p
				}
			}
			if hp == nil {
				continue
			}
			nv++
			var vcall *ssa.Call
			allInstrs(fn, func(in ssa.Instruction) {
				call, ok := in.(*ssa.Call)
				if !ok || vcall != nil {
					return
				}
				if call.Call.StaticCallee() == valFn {
					vcall = call
					return
				}
				// a function of the package that validates the handle it is given before it can return nil
				h := staticFn(&call.Call)
				if h == nil || h.Blocks == nil || fnPkgPath(h) != pkgLungo {
					return
				}
				for i, a := range call.Call.Args {
					if stripValue(a) != ssa.Value(hp) || i >= len(h.Params) {
						continue
					}
					var inner *ssa.Call
					allInstrs(h, func(x ssa.Instruction) {
						if vc, ok := x.(*ssa.Call); ok && vc.Call.StaticCallee() == valFn && len(vc.Call.Args) > 0 && stripValue(vc.Call.Args[0]) == ssa.Value(h.Params[i]) {
							inner = vc
						}
					})
					if inner == nil {
						continue
					}
					good := false
					for _, ec := range errChecksOf(errorResult(inner)) {
						if failEdgeReturnsError(ec) {
							good = true
						}
					}
					for _, ret := range returnsOf(h) {
						if len(ret.Results) > 0 && isNilConst(retVal(ret, len(ret.Results)-1)) && !instrDominates(inner, ret) {
							good = false
						}
					}
					if good && len(errChecksOf(errorResult(call))) > 0 {
						vcall = call
					}
				}
			})
			key := funcName(fn) + ":validates its handle"
			if vcall == nil {
				r.bad(key, c.pos(fn.Pos()), "no Handle.Validate call")
				continue
			}
			bad := ""
			allInstrs(fn, func(in ssa.Instruction) {
				if fa, ok := in.(*ssa.FieldAddr); ok && structFieldOf(fa) == catF && !instrDominates(vcall, in) && bad == "" {
					bad = c.pos(fa.Pos())
				}
			})
			r.check(bad == "", key, c.pos(vcall.Pos()), "Validate runs before the catalog is touched", "the catalog is accessed at "+bad+" before / without Validate")
		}
	}
	r.guard(nv, 10, "exported Transaction methods with a Handle parameter")
}

// ---- IDX-6 ------------------------------------------------------------------------

func init() {
	register(&Rule{ID: "IDX-6", Doc: "multi-document index maintenance is two-phase: in every mongokit.Collection method that both removes documents from and adds documents to the indexes while iterating a list of documents, no index Add can be followed by an index Remove (all old versions leave the indexes before the first new version enters, so a key handed from one updated document to another is not reported as duplicate)", Run: ruleIdx6})
}

func ruleIdx6(c *Ctx, r *Reporter) {
	collT := c.lookupType(pkgMongokit, "Collection")
	addF := c.lookupFunc(pkgMongokit, "Index.Add")
	remF := c.lookupFunc(pkgMongokit, "Index.Remove")
	if collT == nil || addF == nil || remF == nil {
		r.bad("anchor:Collection/Index.Add/Index.Remove", "-", "not found")
		return
	}
	n, multi := 0, 0
	for i := 0; i < collT.NumMethods(); i++ {
		fn := c.ssaFunc(collT.Method(i))
		if fn == nil {
			continue
		}
		var adds, rems []*ssa.Call
		allInstrs(fn, func(in ssa.Instruction) {
			if call, ok := in.(*ssa.Call); ok {
				switch calleeObj(&call.Call) {
				case addF:
					adds = append(adds, call)
				case remF:
					rems = append(rems, call)
				}
			}
		})
		if len(adds) == 0 || len(rems) == 0 {
			continue
		}
		n++
		// is any removed document selected by a varying position (a range variable or a non-constant index)?
		varying := false
		for _, rc := range rems {
			doc := stripValue(rc.Call.Args[len(rc.Call.Args)-1])
			single := false
			if u, ok := doc.(*ssa.UnOp); ok && u.Op == token.MUL {
				if ia, ok := u.X.(*ssa.IndexAddr); ok {
					if _, ok := constInt(ia.Index); ok {
						single = true
					}
				}
			}
			if _, ok := doc.(*ssa.Parameter); ok {
				single = true
			}
			if !single {
				varying = true
			}
		}
		key := funcName(fn) + ":old versions leave the indexes before new versions enter"
		if !varying {
			r.ok(key, c.pos(fn.Pos()), "a single document is exchanged (constant position): per-index remove-then-add")
			continue
		}
		multi++
		bad := ""
		for _, a := range adds {
			for _, rc := range rems {
				if instrReaches(a, rc) && bad == "" {
					bad = fmt.Sprintf("Index.Add at %s can be followed by Index.Remove at %s", c.pos(a.Pos()), c.pos(rc.Pos()))
				}
			}
		}
		r.check(bad == "", key, c.pos(fn.Pos()), "no Index.Add can be followed by an Index.Remove", bad+": while some old versions are still indexed, a new version that takes over one of their keys is rejected as duplicate although the result has no duplicate")
	}
	r.guard(n, 2, "Collection methods that exchange documents in the indexes")
	r.guard(multi, 1, "multi-document exchanges")
}

// ---- LOCK-10: the semaphore hands out exactly the tokens it takes --------------------

func init() {
	register(&Rule{ID: "LOCK-10", Doc: "Semaphore.Acquire reports exactly what it took: every return that lies behind the receive from the token channel returns true unless the token was put back first, and every return that cannot be reached from that receive returns false (a false after taking a token loses the writer slot for good; a true without one admits a second writer)", Run: ruleLock10})
}

func ruleLock10(c *Ctx, r *Reporter) {
	fn := c.lookupSSA(pkgDbkit, "Semaphore.Acquire")
	tokF := c.field(pkgDbkit, "Semaphore", "tokens")
	relF := c.lookupFunc(pkgDbkit, "Semaphore.Release")
	if fn == nil || tokF == nil {
		r.bad("anchor:Semaphore.Acquire", "-", "not found")
		return
	}
	isTok := func(v ssa.Value) bool { return isLoadOf(stripValue(v), tokF) }
	// points after which the token is held: the first instruction of the select arm, or the instruction after a plain receive
	type heldPoint struct {
		b   *ssa.BasicBlock
		idx int
		arm bool
	}
	var held []heldPoint
	allInstrs(fn, func(in ssa.Instruction) {
		switch x := in.(type) {
		case *ssa.UnOp:
			if x.Op == token.ARROW && isTok(x.X) {
				held = append(held, heldPoint{x.Block(), instrIndex(x) + 1, false})
			}
		case *ssa.Select:
			for k, st := range x.States {
				if st.Dir != types.RecvOnly || !isTok(st.Chan) {
					continue
				}
				// find `extract #0 == k`
				refs := x.Referrers()
				if refs == nil {
					continue
				}
				for _, ref := range *refs {
					ex, ok := ref.(*ssa.Extract)
					if !ok || ex.Index != 0 || ex.Referrers() == nil {
						continue
					}
					for _, r2 := range *ex.Referrers() {
						bo, ok := r2.(*ssa.BinOp)
						if !ok || bo.Op != token.EQL {
							continue
						}
						if kk, ok := constInt(bo.Y); !ok || int(kk) != k {
							continue
						}
						if bo.Referrers() == nil {
							continue
						}
						for _, r3 := range *bo.Referrers() {
							if iff, ok := r3.(*ssa.If); ok {
								arm := iff.Block().Succs[0]
								if len(arm.Instrs) > 0 {
									held = append(held, heldPoint{arm, 0, true})
								}
							}
						}
					}
				}
			}
		}
	})
	if len(held) == 0 {
		r.bad("Semaphore.Acquire:token receive", c.pos(fn.Pos()), "no receive from the token channel found")
		return
	}
	isRelease := func(in ssa.Instruction) bool {
		switch x := in.(type) {
		case *ssa.Send:
			return isTok(x.Chan)
		case *ssa.Select:
			for _, st := range x.States {
				if st.Dir == types.SendOnly && isTok(st.Chan) {
					return true
				}
			}
		case *ssa.Call:
			return relF != nil && calleeObj(&x.Call) == relF
		}
		return false
	}
	// blocks reachable from a held point without passing a release
	heldBlocks := map[*ssa.BasicBlock]bool{}
	var walk func(b *ssa.BasicBlock, idx int)
	walk = func(b *ssa.BasicBlock, idx int) {
		for i := idx; i < len(b.Instrs); i++ {
			if isRelease(b.Instrs[i]) {
				return
			}
		}
		for _, s := range b.Succs {
			if !heldBlocks[s] {
				heldBlocks[s] = true
				walk(s, 0)
			}
		}
	}
	heldAtEnd := map[*ssa.BasicBlock]bool{}
	for _, h := range held {
		if h.arm {
			heldBlocks[h.b] = true
		} else {
			heldAtEnd[h.b] = true
		}
		walk(h.b, h.idx)
	}
	n, outcomes := 0, 0
	for _, ret := range returnsOf(fn) {
		if ret.Block() == fn.Recover {
			continue // the synthetic exit taken after a recovered panic
		}
		n++
		outcomes++
		b := ret.Block()
		key := fmt.Sprintf("Semaphore.Acquire:return #%d", n)
		v := retVal(ret, 0)
		val, isConst := constBool(v)
		holds := heldBlocks[b] || heldAtEnd[b]
		// is the block reachable ONLY through held points? (dominated by an arm / the receive)
		only := false
		for _, h := range held {
			hb := h.b
			if hb == b || hb.Dominates(b) {
				only = true
			}
		}
		if ph, ok := v.(*ssa.Phi); ok && !isConst {
			// a result variable merged from constant assignments: judge every incoming edge by the state of its source block
			allOK, decided := true, true
			why := ""
			outcomes += len(ph.Edges) - 1
			for i, e := range ph.Edges {
				ev, ec := constBool(e)
				pb := ph.Block().Preds[i]
				ph2 := heldBlocks[pb] || heldAtEnd[pb]
				po := false
				for _, h := range held {
					if h.b == pb || h.b.Dominates(pb) {
						po = true
					}
				}
				switch {
				case !ec || (ph2 && !po):
					decided = false
				case ph2 && !ev:
					allOK, why = false, "false is returned on a path that received a token and did not put it back"
				case !ph2 && ev:
					allOK, why = false, "true is returned on a path that received no token"
				}
			}
			if !decided {
				r.unk(key, c.pos(ret.Pos()), "the returned value cannot be related to the token state")
			} else {
				r.check(allOK, key, c.pos(ret.Pos()), "the merged result is true exactly on the paths that hold the token", why)
			}
			continue
		}
		switch {
		case !isConst:
			r.unk(key, c.pos(ret.Pos()), "the returned value is not a constant: cannot relate it to the token state")
		case holds && only:
			r.check(val, key, c.pos(ret.Pos()), "returns true while holding the token it received", "returns false after receiving a token that was not put back: the caller believes it holds nothing, the slot is lost and every later writer times out")
		case !holds:
			r.check(!val, key, c.pos(ret.Pos()), "returns false without having taken a token", "returns true although no token was received (or it was already put back): a second writer is admitted")
		default:
			r.unk(key, c.pos(ret.Pos()), "reachable both with and without a token")
		}
	}
	r.guard(outcomes, 2, "return outcomes of Semaphore.Acquire (constant returns and merged constants)")
}

// ---- RET-1: the retention predicate of Transaction.Clean ------------------------------

func init() {
	register(&Rule{ID: "RET-1", Doc: "retention protects the newest minSize events and events younger than minAge, and drops only what maxSize/maxAge force: on every path through the oplog loop of Transaction.Clean that counts an event as dropped, the decisions taken include i < len(oplog)-minSize (exactly, in any equivalent linear form), minAge == 0 or ts older than the minAge cutoff, and i < len(oplog)-maxSize (exactly) or ts older than the maxAge cutoff", Run: ruleRet1})
}

type decision struct {
	cond  ssa.Value
	taken bool
}

// enumPaths enumerates the acyclic paths from start until stop(b) holds or the function returns. Boolean
// phis used as branch conditions are resolved through the edge the path entered their block by.
var enumEndPreds []*ssa.BasicBlock     // predecessor through which each path of the last enumPaths call reached its end block
var enumPathBlocks [][]*ssa.BasicBlock // the blocks of each path of the last enumPaths call, in order (without the end block)
var enumWatch []ssa.Value              // boolean values to evaluate at the end of each path (set by the caller before the call)
var enumWatchVals [][]int8             // per path, per watched value: 1 true, 0 false, -1 unknown
var enumWatchV []ssa.Value             // values to resolve through phis along each path (the phi may sit in the end block)
var enumWatchVRes [][]ssa.Value        // per path, per watched value: the value that flows in on this path

func enumPaths(start *ssa.BasicBlock, entryPred *ssa.BasicBlock, stop func(*ssa.BasicBlock) bool, limit int) (paths [][]decision, ends []*ssa.BasicBlock, truncated bool) {
	enumEndPreds, enumPathBlocks, enumWatchVals, enumWatchVRes = nil, nil, nil, nil
	var cur []*ssa.BasicBlock
	predOf := map[*ssa.BasicBlock]*ssa.BasicBlock{}
	onPath := map[*ssa.BasicBlock]bool{}
	var decs []decision
	var eval func(v ssa.Value) (known, val bool, atom ssa.Value)
	eval = func(v ssa.Value) (bool, bool, ssa.Value) {
		switch x := v.(type) {
		case *ssa.Const:
			if b, ok := constBool(x); ok {
				return true, b, nil
			}
		case *ssa.UnOp:
			if x.Op == token.NOT {
				k, b, a := eval(x.X)
				return k, !b, a
			}
		case *ssa.Phi:
			p := predOf[x.Block()]
			for i, pb := range x.Block().Preds {
				if pb == p && onPath[x.Block()] {
					return eval(x.Edges[i])
				}
			}
		}
		for _, d := range decs {
			if d.cond == v {
				return true, d.taken, nil
			}
		}
		return false, false, v
	}
	emit := func(end, pred *ssa.BasicBlock) {
		paths = append(paths, append([]decision{}, decs...))
		ends = append(ends, end)
		enumEndPreds = append(enumEndPreds, pred)
		enumPathBlocks = append(enumPathBlocks, append([]*ssa.BasicBlock{}, cur...))
		var wv []int8
		for _, w := range enumWatch {
			k, v, _ := eval(w)
			switch {
			case !k:
				wv = append(wv, -1)
			case v:
				wv = append(wv, 1)
			default:
				wv = append(wv, 0)
			}
		}
		enumWatchVals = append(enumWatchVals, wv)
		var rv []ssa.Value
		for _, w := range enumWatchV {
			v := w
			for i := 0; i < 16; i++ {
				ph, ok := v.(*ssa.Phi)
				if !ok {
					break
				}
				var p *ssa.BasicBlock
				switch {
				case ph.Block() == end:
					p = pred
				case onPath[ph.Block()]:
					p = predOf[ph.Block()]
				}
				if p == nil {
					break
				}
				next := ssa.Value(nil)
				for j, pb := range ph.Block().Preds {
					if pb == p {
						next = ph.Edges[j]
					}
				}
				if next == nil || next == v || (next == w && i > 0) {
					if next != nil {
						v = next
					}
					break
				}
				v = next
				if v == w {
					break
				}
			}
			rv = append(rv, v)
		}
		enumWatchVRes = append(enumWatchVRes, rv)
	}
	var dfs func(b, pred *ssa.BasicBlock)
	dfs = func(b, pred *ssa.BasicBlock) {
		if truncated {
			return
		}
		if len(paths) >= limit {
			truncated = true
			return
		}
		if stop(b) || onPath[b] {
			emit(b, pred)
			return
		}
		onPath[b] = true
		predOf[b] = pred
		cur = append(cur, b)
		defer func() { onPath[b] = false; cur = cur[:len(cur)-1] }()
		last := b.Instrs[len(b.Instrs)-1]
		switch x := last.(type) {
		case *ssa.If:
			known, val, atom := eval(x.Cond)
			neg := false
			// the atom is the condition with leading negations removed
			c := x.Cond
			for {
				if u, ok := c.(*ssa.UnOp); ok && u.Op == token.NOT {
					c = u.X
					neg = !neg
					continue
				}
				break
			}
			_ = neg
			if known {
				if val {
					dfs(b.Succs[0], b)
				} else {
					dfs(b.Succs[1], b)
				}
				return
			}
			for _, tv := range []bool{true, false} {
				decs = append(decs, decision{atom, tv})
				k2, v2, _ := eval(x.Cond)
				if k2 {
					if v2 {
						dfs(b.Succs[0], b)
					} else {
						dfs(b.Succs[1], b)
					}
				}
				decs = decs[:len(decs)-1]
			}
		case *ssa.Jump:
			dfs(b.Succs[0], b)
		default:
			emit(nil, b)
		}
	}
	dfs(start, entryPred)
	return
}

type linForm struct {
	coef map[string]int64
	k    int64
}

func (l linForm) add(o linForm, sign int64) linForm {
	out := linForm{coef: map[string]int64{}, k: l.k + sign*o.k}
	for a, c := range l.coef {
		out.coef[a] += c
	}
	for a, c := range o.coef {
		out.coef[a] += sign * c
	}
	for a, c := range out.coef {
		if c == 0 {
			delete(out.coef, a)
		}
	}
	return out
}

func (l linForm) String() string {
	var keys []string
	for a := range l.coef {
		keys = append(keys, a)
	}
	sortStrings(keys)
	s := ""
	for _, a := range keys {
		s += fmt.Sprintf("%+d*%s ", l.coef[a], a)
	}
	return fmt.Sprintf("%s%+d", s, l.k)
}

func (l linForm) equal(o linForm) bool {
	if l.k != o.k || len(l.coef) != len(o.coef) {
		return false
	}
	for a, c := range l.coef {
		if o.coef[a] != c {
			return false
		}
	}
	return true
}

func linOf(v ssa.Value, atom func(ssa.Value) (string, bool), depth int) (linForm, bool) {
	v = stripIntConv(v)
	if a, ok := atom(v); ok {
		return linForm{coef: map[string]int64{a: 1}}, true
	}
	if k, ok := constInt(v); ok {
		return linForm{coef: map[string]int64{}, k: k}, true
	}
	if depth > 8 {
		return linForm{}, false
	}
	if bo, ok := v.(*ssa.BinOp); ok && (bo.Op == token.ADD || bo.Op == token.SUB) {
		l, ok1 := linOf(bo.X, atom, depth+1)
		r, ok2 := linOf(bo.Y, atom, depth+1)
		if ok1 && ok2 {
			sign := int64(1)
			if bo.Op == token.SUB {
				sign = -1
			}
			return l.add(r, sign), true
		}
	}
	return linForm{}, false
}

// strictForm: the decision (cmp taken/not taken) as  form < 0  over the integers.
func strictForm(cmp *ssa.BinOp, taken bool, atom func(ssa.Value) (string, bool)) (linForm, bool) {
	l, ok1 := linOf(cmp.X, atom, 0)
	r, ok2 := linOf(cmp.Y, atom, 0)
	if !ok1 || !ok2 {
		return linForm{}, false
	}
	op := cmp.Op
	if !taken {
		switch op {
		case token.LSS:
			op = token.GEQ
		case token.LEQ:
			op = token.GTR
		case token.GTR:
			op = token.LEQ
		case token.GEQ:
			op = token.LSS
		default:
			return linForm{}, false
		}
	}
	one := linForm{coef: map[string]int64{}, k: 1}
	switch op {
	case token.LSS:
		return l.add(r, -1), true
	case token.LEQ:
		return l.add(r, -1).add(one, -1), true
	case token.GTR:
		return r.add(l, -1), true
	case token.GEQ:
		return r.add(l, -1).add(one, -1), true
	}
	return linForm{}, false
}

func sortStrings(s []string) {
	for i := 1; i < len(s); i++ {
		for j := i; j > 0 && s[j] < s[j-1]; j-- {
			s[j], s[j-1] = s[j-1], s[j]
		}
	}
}

func ruleRet1(c *Ctx, r *Reporter) {
	fn := c.lookupSSA(pkgLungo, "Transaction.Clean")
	listF := c.field(pkgBsonkit, "Set", "List")
	cmpF := c.lookupFunc(pkgBsonkit, "Compare")
	if fn == nil || listF == nil || cmpF == nil || len(fn.Params) < 5 {
		r.bad("anchor:Transaction.Clean", "-", "not found")
		return
	}
	params := map[string]*ssa.Parameter{}
	for _, p := range fn.Params {
		params[p.Name()] = p
	}
	for _, n := range []string{"minSize", "maxSize", "minAge", "maxAge"} {
		if params[n] == nil {
			r.bad("anchor:Transaction.Clean parameter "+n, c.pos(fn.Pos()), "not found")
			return
		}
	}
	// the loop: an element load list[i] with list = <set>.List, and the counter increment in the same loop
	var idx ssa.Value
	var elem *ssa.IndexAddr
	coneInstrs(fn, func(in ssa.Instruction) {
		if ia, ok := in.(*ssa.IndexAddr); ok && isLoadOf(ia.X, listF) && elem == nil {
			if _, isConst := constInt(ia.Index); !isConst {
				elem, idx = ia, ia.Index
			}
		}
	})
	if elem == nil {
		r.bad("Clean:oplog loop", c.pos(fn.Pos()), "no loop over the oplog's document list found")
		return
	}
	if body := elem.Parent(); body != fn {
		// the loop lives in a private helper of Clean: its parameters stand for Clean's where the only call passes
		// them on unchanged
		for _, hp := range body.Params {
			root := resolveHelperValue(hp)
			for name, cp := range params {
				if root == ssa.Value(cp) && cp.Parent() == fn {
					params[name] = hp
				}
			}
		}
		for _, n := range []string{"minSize", "maxSize", "minAge", "maxAge"} {
			if params[n].Parent() != body {
				r.unk("Clean:oplog loop", c.pos(elem.Pos()), "the loop is in "+funcName(body)+", which does not receive Clean's "+n+" unchanged")
				return
			}
		}
		fn = body
	}
	paramName := func(p *ssa.Parameter) string {
		for name, q := range params {
			if q == p {
				return name
			}
		}
		return p.Name()
	}
	// loop header: the block of the index phi
	var hdr *ssa.BasicBlock
	if bo, ok := idx.(*ssa.BinOp); ok {
		if ph, ok := bo.X.(*ssa.Phi); ok {
			hdr = ph.Block()
		}
	}
	if ph, ok := idx.(*ssa.Phi); ok {
		hdr = ph.Block()
	}
	if hdr == nil {
		r.unk("Clean:oplog loop", c.pos(elem.Pos()), "loop index is not a range index")
		return
	}
	bodyStart := elem.Block()
	body := blockReach([]*ssa.BasicBlock{bodyStart}, map[*ssa.BasicBlock]bool{hdr: true})
	// the dropped counter: a phi at the header incremented by 1 in the body
	var incBlock *ssa.BasicBlock
	allInstrs(fn, func(in ssa.Instruction) {
		bo, ok := in.(*ssa.BinOp)
		if !ok || bo.Op != token.ADD || !body[bo.Block()] || ssa.Value(bo) == idx {
			return
		}
		if k, ok := constInt(bo.Y); !ok || k != 1 {
			return
		}
		if ph, ok := bo.X.(*ssa.Phi); ok && ph.Block() == hdr {
			incBlock = bo.Block()
		}
	})
	if incBlock == nil {
		r.bad("Clean:dropped counter", c.pos(elem.Pos()), "no counter incremented per dropped event in the oplog loop")
		return
	}
	atom := func(v ssa.Value) (string, bool) {
		if v == idx {
			return "i", true
		}
		if p, ok := v.(*ssa.Parameter); ok {
			return paramName(p), true
		}
		if call, ok := v.(*ssa.Call); ok {
			if b, ok := call.Call.Value.(*ssa.Builtin); ok && b.Name() == "len" && isLoadOf(call.Call.Args[0], listF) {
				return "len", true
			}
		}
		return "", false
	}
	var pred *ssa.BasicBlock
	if len(bodyStart.Preds) > 0 {
		pred = bodyStart.Preds[0]
	}
	paths, ends, trunc := enumPaths(bodyStart, pred, func(b *ssa.BasicBlock) bool { return b == incBlock || !body[b] }, 4096)
	if trunc {
		r.unk("Clean:paths", c.pos(elem.Pos()), "too many paths through the oplog loop")
		return
	}
	want := func(size string) linForm {
		return linForm{coef: map[string]int64{"i": 1, size: 1, "len": -1}}
	}
	olderThan := func(d decision, age string) bool {
		// bsonkit.Compare(ts, cutoff(age)) < 0 taken
		bo, ok := d.cond.(*ssa.BinOp)
		if !ok {
			return false
		}
		call, ok := bo.X.(*ssa.Call)
		if !ok || calleeObj(&call.Call) != cmpF {
			return false
		}
		k, okK := constInt(bo.Y)
		if !okK || k != 0 {
			return false
		}
		if !((bo.Op == token.LSS && d.taken) || (bo.Op == token.GEQ && !d.taken)) {
			return false
		}
		return dependsOn(call.Call.Args[1], params[age], map[ssa.Value]bool{}) && !dependsOn(call.Call.Args[0], params[age], map[ssa.Value]bool{})
	}
	ageOff := func(d decision, age string) bool {
		bo, ok := d.cond.(*ssa.BinOp)
		if !ok || stripIntConv(bo.X) != ssa.Value(params[age]) {
			return false
		}
		k, okK := constInt(bo.Y)
		return okK && k == 0 && ((bo.Op == token.EQL && d.taken) || (bo.Op == token.NEQ && !d.taken))
	}
	nDrop := 0
	var badMinSize, badMinAge, badForced string
	for pi, p := range paths {
		if ends[pi] != incBlock {
			continue
		}
		nDrop++
		hasMinSize, hasMinAge, hasForced := false, false, false
		var seenForms []string
		for _, d := range p {
			if bo, ok := d.cond.(*ssa.BinOp); ok {
				if f, ok := strictForm(bo, d.taken, atom); ok {
					seenForms = append(seenForms, f.String()+" < 0")
					if f.equal(want("minSize")) {
						hasMinSize = true
					}
					if f.equal(want("maxSize")) {
						hasForced = true
					}
				}
			}
			if ageOff(d, "minAge") || olderThan(d, "minAge") {
				hasMinAge = true
			}
			if olderThan(d, "maxAge") {
				hasForced = true
			}
		}
		if !hasMinSize && badMinSize == "" {
			badMinSize = fmt.Sprintf("a path counts event i as dropped under the integer facts %v, none of which is i + minSize - len < 0", seenForms)
		}
		if !hasMinAge && badMinAge == "" {
			badMinAge = "a path counts an event as dropped without minAge == 0 or Compare(ts, minAge cutoff) < 0"
		}
		if !hasForced && badForced == "" {
			badForced = fmt.Sprintf("a path counts an event as dropped without i + maxSize - len < 0 or Compare(ts, maxAge cutoff) < 0 (integer facts %v)", seenForms)
		}
	}
	if nDrop == 0 {
		r.bad("Clean:paths", c.pos(elem.Pos()), "no path through the loop reaches the dropped counter")
		return
	}
	pos := c.pos(elem.Pos())
	r.check(badMinSize == "", "Clean:minimum size protection", pos, fmt.Sprintf("all %d dropping paths decide i < len - minSize: the newest minSize events are never dropped and the one before them is no longer protected", nDrop), badMinSize+": the size protection covers a different number of events than configured")
	r.check(badMinAge == "", "Clean:minimum age protection", pos, "all dropping paths decide minAge == 0 or ts < minAge cutoff", badMinAge)
	r.check(badForced == "", "Clean:drop only when forced", pos, "all dropping paths decide i < len - maxSize or ts < maxAge cutoff", badForced)
	r.trivial("Clean:paths", pos, fmt.Sprintf("%d paths through the loop body enumerated, %d reach the dropped counter", len(paths), nDrop))
}

// ---- WATCH-1: the start-at position of a change stream --------------------------------

func init() {
	register(&Rule{ID: "WATCH-1", Doc: "a change stream started at an operation time is positioned just before the first retained event at or after that time: in the start-at loop of Engine.Watch the found condition is Compare(startAt, clusterTime) <= 0, and on every path that finds such an event the stream's last-delivered position becomes nil when it is the first retained event (i == 0) and the event with index i-1 otherwise", Run: ruleWatch1})
}

func ruleWatch1(c *Ctx, r *Reporter) {
	fn := c.lookupSSA(pkgLungo, "Engine.Watch")
	listF := c.field(pkgBsonkit, "Set", "List")
	cmpF := c.lookupFunc(pkgBsonkit, "Compare")
	getF := c.lookupFunc(pkgBsonkit, "Get")
	lastF := c.field(pkgLungo, "Stream", "last")
	if fn == nil || listF == nil || cmpF == nil || getF == nil || lastF == nil {
		r.bad("anchor:Engine.Watch", "-", "not found")
		return
	}
	var startAt *ssa.Parameter
	for _, p := range fn.Params {
		if p.Name() == "startAt" {
			startAt = p
		}
	}
	if startAt == nil {
		r.bad("anchor:Engine.Watch startAt", c.pos(fn.Pos()), "no startAt parameter")
		return
	}
	// the comparison of *startAt with an event's clusterTime
	var cmp *ssa.Call
	swapped := false
	allInstrs(fn, func(in ssa.Instruction) {
		call, ok := in.(*ssa.Call)
		if !ok || calleeObj(&call.Call) != cmpF {
			return
		}
		if dependsOn(call.Call.Args[0], startAt, map[ssa.Value]bool{}) {
			cmp, swapped = call, false
		} else if dependsOn(call.Call.Args[1], startAt, map[ssa.Value]bool{}) {
			cmp, swapped = call, true
		}
	})
	if cmp == nil {
		r.bad("Watch:start-at comparison", c.pos(fn.Pos()), "no bsonkit.Compare involving startAt")
		return
	}
	// the event and the loop index
	evArg := cmp.Call.Args[1]
	if swapped {
		evArg = cmp.Call.Args[0]
	}
	var idx ssa.Value
	var elem *ssa.IndexAddr
	var find func(v ssa.Value, depth int)
	find = func(v ssa.Value, depth int) {
		if depth > 6 || elem != nil {
			return
		}
		switch x := v.(type) {
		case *ssa.UnOp:
			if ia, ok := x.X.(*ssa.IndexAddr); ok && isLoadOf(ia.X, listF) {
				elem, idx = ia, ia.Index
				return
			}
			find(x.X, depth+1)
		case *ssa.Call:
			for _, a := range x.Call.Args {
				find(a, depth+1)
			}
		case *ssa.MakeInterface:
			find(x.X, depth+1)
		}
	}
	find(evArg, 0)
	if elem == nil {
		r.unk("Watch:start-at loop", c.pos(cmp.Pos()), "the compared value is not read from an element of the oplog list")
		return
	}
	var hdr *ssa.BasicBlock
	if bo, ok := idx.(*ssa.BinOp); ok {
		if ph, ok := bo.X.(*ssa.Phi); ok {
			hdr = ph.Block()
		}
	}
	if ph, ok := idx.(*ssa.Phi); ok {
		hdr = ph.Block()
	}
	if hdr == nil {
		r.unk("Watch:start-at loop", c.pos(elem.Pos()), "loop index is not a range index")
		return
	}
	bodyStart := elem.Block()
	body := blockReach([]*ssa.BasicBlock{bodyStart}, map[*ssa.BasicBlock]bool{hdr: true})
	// only the part of the body that does not leave the loop: blocks from which the header is reachable or that are inside
	inLoop := map[*ssa.BasicBlock]bool{}
	for b := range body {
		if b == hdr {
			continue
		}
		reach := blockReach([]*ssa.BasicBlock{b}, nil)
		if reach[hdr] || b == bodyStart {
			inLoop[b] = true
		}
	}
	// blocks that lie on a break path (cannot return to the header) but assign before leaving are still part of the decision region:
	// stop at the first block that holds the phi feeding Stream.last
	var lastStore *ssa.Store
	allInstrs(fn, func(in ssa.Instruction) {
		if st, ok := in.(*ssa.Store); ok {
			if fa, ok := st.Addr.(*ssa.FieldAddr); ok && structFieldOf(fa) == lastF {
				lastStore = st
			}
		}
	})
	if lastStore == nil {
		r.bad("Watch:stream position", c.pos(fn.Pos()), "Stream.last is not initialised in Watch")
		return
	}
	phi, ok := lastStore.Val.(*ssa.Phi)
	if !ok {
		r.unk("Watch:stream position", c.pos(lastStore.Pos()), "Stream.last is not a merge of the start positions")
		return
	}
	atom := func(v ssa.Value) (string, bool) {
		if v == idx {
			return "i", true
		}
		return "", false
	}
	var pred *ssa.BasicBlock
	if len(bodyStart.Preds) > 0 {
		pred = bodyStart.Preds[0]
	}
	paths, ends, trunc := enumPaths(bodyStart, pred, func(b *ssa.BasicBlock) bool { return b == phi.Block() || b == hdr }, 4096)
	endPreds := enumEndPreds
	if trunc {
		r.unk("Watch:paths", c.pos(elem.Pos()), "too many paths")
		return
	}
	// found decision
	isFound := func(d decision) (found, exact bool) {
		bo, ok := d.cond.(*ssa.BinOp)
		if !ok || bo.X != ssa.Value(cmp) {
			return false, false
		}
		k, okK := constInt(bo.Y)
		if !okK {
			return false, false
		}
		// normalise to the true-edge operator
		op := bo.Op
		if !d.taken {
			switch op {
			case token.LSS:
				op = token.GEQ
			case token.LEQ:
				op = token.GTR
			case token.GTR:
				op = token.LEQ
			case token.GEQ:
				op = token.LSS
			case token.EQL:
				op = token.NEQ
			case token.NEQ:
				op = token.EQL
			}
		}
		// at or after: Compare(startAt, ct) <= 0  (or < 1); swapped: Compare(ct, startAt) >= 0 (or > -1)
		if !swapped {
			switch {
			case (op == token.LEQ && k == 0) || (op == token.LSS && k == 1):
				return true, true
			case op == token.LSS || op == token.LEQ || op == token.EQL:
				return true, false
			}
		} else {
			switch {
			case (op == token.GEQ && k == 0) || (op == token.GTR && k == -1):
				return true, true
			case op == token.GTR || op == token.GEQ || op == token.EQL:
				return true, false
			}
		}
		return false, false
	}
	iZero := func(p []decision) (zero, nonzero bool) {
		for _, d := range p {
			bo, ok := d.cond.(*ssa.BinOp)
			if !ok || stripIntConv(bo.X) != idx {
				continue
			}
			k, okK := constInt(bo.Y)
			if !okK {
				continue
			}
			op := bo.Op
			if !d.taken {
				switch op {
				case token.LSS:
					op = token.GEQ
				case token.LEQ:
					op = token.GTR
				case token.GTR:
					op = token.LEQ
				case token.GEQ:
					op = token.LSS
				case token.EQL:
					op = token.NEQ
				case token.NEQ:
					op = token.EQL
				}
			}
			switch {
			case (op == token.EQL && k == 0) || (op == token.LEQ && k == 0) || (op == token.LSS && k == 1):
				zero = true
			case (op == token.NEQ && k == 0) || (op == token.GTR && k == 0) || (op == token.GEQ && k == 1):
				nonzero = true
			}
		}
		return
	}
	nFound := 0
	exactAll := true
	bad := ""
	for pi, p := range paths {
		if ends[pi] != phi.Block() {
			continue
		}
		found, exact := false, false
		for _, d := range p {
			if f, e := isFound(d); f {
				found, exact = true, e
			}
		}
		if !found {
			continue // the loop ran out of events: position stays at the newest entry
		}
		nFound++
		if !exact {
			exactAll = false
		}
		// the value merged into Stream.last on this path
		var v ssa.Value
		for i, pb := range phi.Block().Preds {
			if pb == endPreds[pi] {
				v = phi.Edges[i]
			}
		}
		zero, nonzero := iZero(p)
		okPath := false
		why := ""
		switch {
		case v == nil:
			why = "cannot relate the path to an edge of the position merge"
		case isNilConst(v):
			okPath = zero
			why = "the position is reset to nil (deliver everything retained) although the found event need not be the first retained one"
		default:
			if u, ok := v.(*ssa.UnOp); ok && u.Op == token.MUL {
				if ia, ok := u.X.(*ssa.IndexAddr); ok && isLoadOf(ia.X, listF) {
					if f, ok := linOf(ia.Index, atom, 0); ok && f.equal(linForm{coef: map[string]int64{"i": 1}, k: -1}) {
						okPath = nonzero
						why = "List[i-1] is used without excluding i == 0"
					} else {
						why = "the position is not the event just before the found one (index i-1)"
					}
				}
			}
			if why == "" {
				why = "when the found event is at position " + map[bool]string{true: "0", false: "i"}[zero] + " the position keeps an earlier value (the newest entry) instead of nil / List[i-1]: retained events at or after the start time are skipped"
			}
		}
		if !okPath && bad == "" {
			bad = why
		}
	}
	if nFound == 0 {
		r.bad("Watch:start-at paths", c.pos(elem.Pos()), "no path that finds an event at or after startAt reaches the stream construction")
		return
	}
	r.check(exactAll, "Watch:start-at found condition", c.pos(cmp.Pos()), "an event is found when Compare(startAt, clusterTime) <= 0: at or after the start time", "the found condition is not `at or after the start time`: the event committed exactly at startAt (or earlier ones) is treated differently")
	r.check(bad == "", "Watch:start-at position", c.pos(lastStore.Pos()), fmt.Sprintf("on all %d finding paths the position is nil for i == 0 and List[i-1] otherwise", nFound), bad)
	_ = inLoop
}

// ---- OWN-9: an index keeps its own copy of the key and filter documents ---------------

func init() {
	register(&Rule{ID: "OWN-9", Doc: "an index owns its specification: in mongokit.CreateIndex every document-valued field of the IndexConfig parameter (Key, Partial) is overwritten with a bsonkit copy (Clone/Convert/Transform) before the configuration is read for the Index that is returned, so the index never retains the caller's documents", Run: ruleOwn9})
}

func ruleOwn9(c *Ctx, r *Reporter) {
	fn := c.lookupSSA(pkgMongokit, "CreateIndex")
	cfgT := c.lookupType(pkgMongokit, "IndexConfig")
	idxCfgF := c.field(pkgMongokit, "Index", "config")
	if fn == nil || cfgT == nil || idxCfgF == nil {
		r.bad("anchor:mongokit.CreateIndex", "-", "not found")
		return
	}
	st, ok := cfgT.Underlying().(*types.Struct)
	if !ok {
		r.bad("anchor:mongokit.IndexConfig", "-", "not a struct")
		return
	}
	isCopy := func(v ssa.Value) bool {
		call, ok := stripValue(v).(*ssa.Call)
		if !ok {
			return false
		}
		fo := calleeObj(&call.Call)
		if fo == nil || fo.Pkg() == nil || fo.Pkg().Path() != pkgBsonkit {
			return false
		}
		sum, ok := bsonkitSummaries[fullShort(fo)]
		return ok && sum.result == "clean"
	}
	// fieldOK: is the document in field f of the IndexConfig held in cell `cell`, read at `at`, a bsonkit copy?
	var fieldOK func(cell ssa.Value, f *types.Var, at ssa.Instruction, depth int) (bool, string)
	// valueOK: is document value v (about to be retained) a bsonkit copy?
	var valueOK func(v ssa.Value, f *types.Var, at ssa.Instruction, depth int) (bool, string)
	valueOK = func(v ssa.Value, f *types.Var, at ssa.Instruction, depth int) (bool, string) {
		if isCopy(v) {
			return true, ""
		}
		if depth > 4 {
			return false, "too many indirections"
		}
		if u, ok := stripValue(v).(*ssa.UnOp); ok && u.Op == token.MUL {
			if fa, ok := u.X.(*ssa.FieldAddr); ok && structFieldOf(fa) != nil && structFieldOf(fa).Name() == f.Name() && derefNamed(fa.X.Type()) == cfgT {
				return fieldOK(fa.X, f, u, depth+1)
			}
		}
		return false, fmt.Sprintf("the value retained at %s is not a bsonkit copy", c.pos(at.Pos()))
	}
	fieldOK = func(cell ssa.Value, f *types.Var, at ssa.Instruction, depth int) (bool, string) {
		if _, ok := cell.(*ssa.Alloc); !ok {
			return false, "the configuration is retained as it was passed in"
		}
		dominated := false
		why := ""
		allInstrs(fn, func(in ssa.Instruction) {
			s, ok := in.(*ssa.Store)
			if !ok {
				return
			}
			fa, ok := s.Addr.(*ssa.FieldAddr)
			if !ok || fa.X != cell || structFieldOf(fa) == nil || structFieldOf(fa).Name() != f.Name() {
				return
			}
			if ok2, w := valueOK(s.Val, f, s, depth+1); !ok2 {
				why = w
				return
			}
			if instrDominates(s, at) {
				dominated = true
			}
		})
		if why != "" {
			return false, why
		}
		if !dominated {
			return false, fmt.Sprintf("the configuration is read at %s before (or without) the field being replaced by a copy: the index keeps the caller's document, and later changes to it silently change what the index covers", c.pos(at.Pos()))
		}
		return true, ""
	}
	sh := &Share{docish: map[types.Type]bool{}}
	n := 0
	for i := 0; i < st.NumFields(); i++ {
		f := st.Field(i)
		if !sh.isDocish(f.Type()) {
			continue
		}
		n++
		key := "CreateIndex:IndexConfig." + f.Name() + " is copied before it is retained"
		sites := 0
		bad := ""
		pos := c.pos(fn.Pos())
		allInstrs(fn, func(in ssa.Instruction) {
			s, ok := in.(*ssa.Store)
			if !ok {
				return
			}
			fa, ok := s.Addr.(*ssa.FieldAddr)
			if !ok {
				return
			}
			switch {
			case structFieldOf(fa) == idxCfgF:
				// the whole configuration is stored into Index.config
				sites++
				pos = c.pos(s.Pos())
				switch v := s.Val.(type) {
				case *ssa.UnOp:
					if ok2, w := fieldOK(v.X, f, v, 0); !ok2 && bad == "" {
						bad = w
					}
				default:
					if bad == "" {
						bad = "the parameter is stored into the index as it was passed in"
					}
				}
			case structFieldOf(fa) != nil && structFieldOf(fa).Name() == f.Name() && derefNamed(fa.X.Type()) == cfgT:
				// a field of Index.config written in place: &index.config.<f>
				if inner, ok := fa.X.(*ssa.FieldAddr); ok && structFieldOf(inner) == idxCfgF {
					sites++
					pos = c.pos(s.Pos())
					if ok2, w := valueOK(s.Val, f, s, 0); !ok2 && bad == "" {
						bad = w
					}
				}
			}
		})
		if sites == 0 {
			r.bad(key, pos, "no store of the configuration into Index.config found")
			continue
		}
		r.check(bad == "", key, pos, "replaced by a bsonkit copy on every path to the read that fills Index.config", bad)
	}
	r.guard(n, 2, "document-valued fields of mongokit.IndexConfig")
}

// ---- ATOM-4: a cloned collection that was written to is installed before the catalog is published ----

func init() {
	register(&Rule{ID: "ATOM-4", Doc: "copy-on-write is completed: in every method of *Transaction, a collection obtained from Collection.Clone / NewCollection that is handed to a mutating call is stored into the cloned catalog's Namespaces map on every path from that call's success edge to the store of t.catalog (otherwise the published catalog keeps the old collection and the change - e.g. the oplog entries of a TTL pass - is lost)", Run: ruleAtom4})
}

func ruleAtom4(c *Ctx, r *Reporter) {
	txnT := c.lookupType(pkgLungo, "Transaction")
	catF := c.field(pkgLungo, "Transaction", "catalog")
	cloneF := c.lookupFunc(pkgMongokit, "Collection.Clone")
	newF := c.lookupFunc(pkgMongokit, "NewCollection")
	if txnT == nil || catF == nil || cloneF == nil || newF == nil {
		r.bad("anchor:Transaction/Collection.Clone", "-", "not found")
		return
	}
	n := 0
	for i := 0; i < txnT.NumMethods(); i++ {
		fn := c.ssaFunc(txnT.Method(i))
		if fn == nil {
			continue
		}
		// does the method publish?
		var pubs []*ssa.Store
		allInstrs(fn, func(in ssa.Instruction) {
			if st, ok := in.(*ssa.Store); ok {
				if fa, ok := st.Addr.(*ssa.FieldAddr); ok && structFieldOf(fa) == catF {
					pubs = append(pubs, st)
				}
			}
		})
		if len(pubs) == 0 {
			continue
		}
		seenKey := map[string]int{}
		allInstrs(fn, func(in ssa.Instruction) {
			cl, ok := in.(*ssa.Call)
			if !ok {
				return
			}
			f := calleeObj(&cl.Call)
			if f != cloneF && f != newF {
				return
			}
			var same func(v ssa.Value, d int) bool
			same = func(v ssa.Value, d int) bool {
				v = stripValue(v)
				if v == ssa.Value(cl) {
					return true
				}
				if d > 3 {
					return false
				}
				if ph, ok := v.(*ssa.Phi); ok {
					for _, e := range ph.Edges {
						if same(e, d+1) {
							return true
						}
					}
				}
				return false
			}
			var derives func(v ssa.Value, d int) bool
			derives = func(v ssa.Value, d int) bool {
				if same(v, 0) {
					return true
				}
				if d > 4 {
					return false
				}
				switch x := stripValue(v).(type) {
				case *ssa.UnOp:
					if x.Op == token.MUL {
						return derives(x.X, d+1)
					}
				case *ssa.FieldAddr:
					return derives(x.X, d+1)
				}
				return false
			}
			isInstall := func(x ssa.Instruction) bool {
				mu, ok := x.(*ssa.MapUpdate)
				return ok && same(mu.Value, 0)
			}
			isUse := func(x ssa.Instruction) *ssa.Call {
				u, ok := x.(*ssa.Call)
				if !ok || u == cl {
					return nil
				}
				if _, ok := u.Call.Value.(*ssa.Builtin); ok {
					return nil
				}
				for _, a := range u.Call.Args {
					if derives(a, 0) {
						return u
					}
				}
				if u.Call.IsInvoke() && derives(u.Call.Value, 0) {
					return u
				}
				return nil
			}
			// walk (block, index, used?) forward from the clone, stopping at installs
			type st struct {
				b    *ssa.BasicBlock
				used bool
			}
			seen := map[st]bool{}
			var bad ssa.Instruction
			var badUse *ssa.Call
			uses := 0
			var walk func(b *ssa.BasicBlock, idx int, used bool, pending *ssa.Call, lastUse *ssa.Call)
			walk = func(b *ssa.BasicBlock, idx int, used bool, pending *ssa.Call, lastUse *ssa.Call) {
				if bad != nil {
					return
				}
				for i := idx; i < len(b.Instrs); i++ {
					x := b.Instrs[i]
					if isInstall(x) {
						return
					}
					if u := isUse(x); u != nil {
						uses++
						if errorResult(u) == nil {
							used, lastUse = true, u
						} else {
							pending = u
						}
					}
					if s, ok := x.(*ssa.Store); ok && used {
						if fa, ok := s.Addr.(*ssa.FieldAddr); ok && structFieldOf(fa) == catF {
							bad, badUse = x, lastUse
							return
						}
					}
					if iff, ok := x.(*ssa.If); ok && pending != nil {
						for _, ec := range errChecksOf(errorResult(pending)) {
							if ec.If == iff {
								k1 := st{ec.OkSucc, true}
								if !seen[k1] {
									seen[k1] = true
									walk(ec.OkSucc, 0, true, nil, pending)
								}
								k2 := st{ec.FailSucc, used}
								if !seen[k2] {
									seen[k2] = true
									walk(ec.FailSucc, 0, used, nil, lastUse)
								}
								return
							}
						}
					}
				}
				for _, s := range b.Succs {
					k := st{s, used}
					if !seen[k] {
						seen[k] = true
						walk(s, 0, used, pending, lastUse)
					}
				}
			}
			walk(cl.Block(), instrIndex(cl)+1, false, nil, nil)
			n++
			key := fmt.Sprintf("%s:%s result is installed before publishing", funcName(fn), f.Name())
			seenKey[key]++
			if seenKey[key] > 1 {
				key = fmt.Sprintf("%s #%d", key, seenKey[key])
			}
			if bad != nil {
				where := ""
				if badUse != nil {
					where = " after the write at " + c.pos(badUse.Pos())
				}
				r.bad(key, c.pos(cl.Pos()), fmt.Sprintf("t.catalog is stored at %s%s without the cloned collection having been put into the cloned catalog: the published catalog keeps the old collection and the write is lost", c.pos(bad.Pos()), where))
				return
			}
			r.ok(key, c.pos(cl.Pos()), "every path from a successful write on the clone to the store of t.catalog passes clone.Namespaces[...] = <the clone>")
		})
	}
	r.guard(n, 12, "collection clones in publishing Transaction methods")
}
