package main

import (
	"fmt"
	"go/constant"
	"go/token"
	"go/types"
	"math"
	"strings"

	"golang.org/x/tools/go/ssa"
)

// Rules added after the second half of round 2 (DESIGN 11.5): value-level clauses that have a
// structural necessary condition after all.

func init() {
	register(&Rule{ID: "SEM-8", Doc: "comparators relate their left operand to their right operand: in every two-parameter compare* function of bsonkit no relational test and no comparison call has both sides derived from the same parameter only (l against l can never order l against r: antisymmetry breaks)", Run: ruleSem8})
	register(&Rule{ID: "NUM-5", Doc: "numeric comparison is exact: in bsonkit's comparison code an int64 is converted to float64 only where dominating comparisons confine it to [-2^53, 2^53], and a float64 is converted to int64 only where they confine it to exactly [-2^63, 2^63); outside those ranges the conversion rounds and two different numbers compare equal (or the boundary value is misordered)", Run: ruleNum5})
}

func ruleSem8(c *Ctx, r *Reporter) {
	n, tests := 0, 0
	for _, fn := range c.repoFuncs() {
		if fnPkgPath(fn) != pkgBsonkit || fn.Parent() != nil || !strings.HasPrefix(strings.ToLower(fn.Name()), "compare") || len(fn.Params) != 2 {
			continue
		}
		n++
		p0, p1 := fn.Params[0], fn.Params[1]
		dep := func(v ssa.Value) (bool, bool) {
			return dependsOn(v, p0, map[ssa.Value]bool{}), dependsOn(v, p1, map[ssa.Value]bool{})
		}
		bad := ""
		nt := 0
		judge := func(x, y ssa.Value, pos token.Pos, what string) {
			if _, ok := x.(*ssa.Const); ok {
				return
			}
			if _, ok := y.(*ssa.Const); ok {
				return
			}
			xl, xr := dep(x)
			yl, yr := dep(y)
			if !(xl || xr) || !(yl || yr) {
				return // a counter or a local on one side
			}
			nt++
			if ((xl && !xr) && (yl && !yr)) || ((xr && !xl) && (yr && !yl)) {
				if bad == "" {
					which := "left"
					if xr {
						which = "right"
					}
					bad = fmt.Sprintf("%s at %s has both sides derived from the %s operand only", what, c.pos(pos), which)
				}
			}
		}
		allInstrs(fn, func(in ssa.Instruction) {
			switch x := in.(type) {
			case *ssa.BinOp:
				switch x.Op {
				case token.LSS, token.GTR, token.LEQ, token.GEQ, token.EQL, token.NEQ:
					judge(x.X, x.Y, x.Pos(), "the test "+x.Op.String())
				}
			case *ssa.Call:
				f := calleeObj(&x.Call)
				if f == nil {
					return
				}
				ln := strings.ToLower(f.Name())
				if !(strings.Contains(ln, "compare") || ln == "cmp" || ln == "equal") {
					return
				}
				args := x.Call.Args
				if len(args) == 2 {
					judge(args[0], args[1], x.Pos(), "the call "+f.Name())
				}
			}
		})
		tests += nt
		key := "bsonkit." + fn.Name() + ":left is related to right"
		r.check(bad == "", key, c.pos(fn.Pos()), fmt.Sprintf("%d relational tests / comparison calls, each relating left-derived to right-derived values", nt), bad+": the outcome cannot depend on how the two operands relate, so swapping them does not flip the sign")
	}
	r.guard(n, 12, "two-parameter compare* functions in bsonkit")
	r.guard(tests, 20, "relational tests between operand-derived values")
}

// numFacts derives bounds of value v (matched by same) on entry to block b from comparisons with constants on dominating edges.
type numBound struct {
	has    bool
	val    float64
	strict bool
}

func numBounds(fn *ssa.Function, same func(ssa.Value) bool, b *ssa.BasicBlock) (lo, hi numBound) {
	constOf := func(v ssa.Value) (float64, bool) {
		cst, ok := v.(*ssa.Const)
		if !ok || cst.Value == nil {
			return 0, false
		}
		switch cst.Value.Kind() {
		case constant.Int, constant.Float:
			f, _ := constant.Float64Val(constant.ToFloat(cst.Value))
			return f, true
		}
		return 0, false
	}
	for _, blk := range fn.Blocks {
		if len(blk.Instrs) == 0 {
			continue
		}
		iff, ok := blk.Instrs[len(blk.Instrs)-1].(*ssa.If)
		if !ok {
			continue
		}
		bo, ok := iff.Cond.(*ssa.BinOp)
		if !ok {
			continue
		}
		op := bo.Op
		var k float64
		switch {
		case same(bo.X):
			kk, ok := constOf(bo.Y)
			if !ok {
				continue
			}
			k = kk
		case same(bo.Y):
			kk, ok := constOf(bo.X)
			if !ok {
				continue
			}
			k = kk
			switch op {
			case token.LSS:
				op = token.GTR
			case token.LEQ:
				op = token.GEQ
			case token.GTR:
				op = token.LSS
			case token.GEQ:
				op = token.LEQ
			}
		default:
			continue
		}
		for i, s := range blk.Succs {
			if len(s.Preds) != 1 || !(s == b || s.Dominates(b)) {
				continue
			}
			eop := op
			if i == 1 {
				switch op {
				case token.LSS:
					eop = token.GEQ
				case token.LEQ:
					eop = token.GTR
				case token.GTR:
					eop = token.LEQ
				case token.GEQ:
					eop = token.LSS
				default:
					continue
				}
			}
			switch eop {
			case token.LSS, token.LEQ:
				nb := numBound{true, k, eop == token.LSS}
				if !hi.has || nb.val < hi.val || (nb.val == hi.val && nb.strict) {
					hi = nb
				}
			case token.GTR, token.GEQ:
				nb := numBound{true, k, eop == token.GTR}
				if !lo.has || nb.val > lo.val || (nb.val == lo.val && nb.strict) {
					lo = nb
				}
			}
		}
	}
	return
}

func (b numBound) String() string {
	if !b.has {
		return "none"
	}
	if b.strict {
		return fmt.Sprintf("strictly %g", b.val)
	}
	return fmt.Sprintf("%g inclusive", b.val)
}

func ruleNum5(c *Ctx, r *Reporter) {
	// scope: the functions reachable from bsonkit.Compare through static calls inside bsonkit
	root := c.lookupSSA(pkgBsonkit, "Compare")
	if root == nil {
		r.bad("anchor:bsonkit.Compare", "-", "not found")
		return
	}
	scope := map[*ssa.Function]bool{}
	var add func(fn *ssa.Function)
	add = func(fn *ssa.Function) {
		if fn == nil || scope[fn] || fn.Blocks == nil || fnPkgPath(fn) != pkgBsonkit {
			return
		}
		scope[fn] = true
		allInstrs(fn, func(in ssa.Instruction) {
			if ci, ok := in.(ssa.CallInstruction); ok {
				add(ci.Common().StaticCallee())
			}
		})
	}
	add(root)
	kind := func(t types.Type) types.BasicKind {
		if b, ok := t.Underlying().(*types.Basic); ok {
			return b.Kind()
		}
		return types.Invalid
	}
	two53 := math.Ldexp(1, 53)
	two63 := math.Ldexp(1, 63)
	nI2F, nF2I, nNarrow := 0, 0, 0
	seen := map[string]int{}
	var fns []*ssa.Function
	for fn := range scope {
		fns = append(fns, fn)
	}
	sortFuncs(fns)
	for _, fn := range fns {
		allInstrs(fn, func(in ssa.Instruction) {
			cv, ok := in.(*ssa.Convert)
			if !ok {
				return
			}
			if _, isConst := cv.X.(*ssa.Const); isConst {
				return
			}
			from, to := kind(cv.X.Type()), kind(cv.Type())
			same := func(v ssa.Value) bool { return sameSource(v, cv.X) }
			switch {
			case (from == types.Int64 || from == types.Int || from == types.Uint64) && to == types.Float64:
				nI2F++
				key := fmt.Sprintf("bsonkit.%s:int64 to float64", fn.Name())
				seen[key]++
				if seen[key] > 1 {
					key = fmt.Sprintf("%s #%d", key, seen[key])
				}
				lo, hi := numBounds(fn, same, cv.Block())
				ok := lo.has && lo.val >= -two53 && hi.has && hi.val <= two53
				r.check(ok, key, c.pos(cv.Pos()), "the operand is confined to [-2^53, 2^53]: every such integer is a float64", fmt.Sprintf("the operand is not confined to [-2^53, 2^53] (lower bound: %s, upper bound: %s): larger magnitudes are rounded, so an int64 and a number that differs from it compare equal", lo, hi))
			case intWidth(from) > 0 && intWidth(to) > 0 && intWidth(to) < intWidth(from):
				if fromLibraryCall(cv.X) {
					// e.g. the exponent returned by Decimal128.BigInt(): bounded by the library's own domain, not an operand
					return
				}
				nNarrow++
				key := fmt.Sprintf("bsonkit.%s:integer narrowing", fn.Name())
				seen[key]++
				if seen[key] > 1 {
					key = fmt.Sprintf("%s #%d", key, seen[key])
				}
				lo, hi := numBounds(fn, same, cv.Block())
				lim := math.Ldexp(1, intWidth(to)-1)
				ok := lo.has && lo.val >= -lim && hi.has && (hi.val < lim || (hi.val == lim && hi.strict))
				r.check(ok, key, c.pos(cv.Pos()), "the operand is confined to the range of the narrower type", fmt.Sprintf("a %d-bit integer is narrowed to %d bits without being confined to that range (lower bound: %s, upper bound: %s): large values wrap around and are ordered as small ones", intWidth(from), intWidth(to), lo, hi))
			case from == types.Float64 && (to == types.Int64 || to == types.Int):
				nF2I++
				key := fmt.Sprintf("bsonkit.%s:float64 to int64", fn.Name())
				seen[key]++
				if seen[key] > 1 {
					key = fmt.Sprintf("%s #%d", key, seen[key])
				}
				lo, hi := numBounds(fn, same, cv.Block())
				ok := lo.has && lo.val == -two63 && !lo.strict && hi.has && hi.val == two63 && hi.strict
				r.check(ok, key, c.pos(cv.Pos()), "the operand is confined to exactly [-2^63, 2^63): the range of int64", fmt.Sprintf("the operand is not confined to exactly [-2^63, 2^63) (lower bound: %s, upper bound: %s): either the conversion overflows or a boundary value is decided without being compared", lo, hi))
			}
		})
	}
	r.guard(nI2F, 1, "int64 to float64 conversions in the comparison code")
	r.guard(nF2I, 1, "float64 to int64 conversions in the comparison code")
	r.trivial("scope", "-", fmt.Sprintf("%d bsonkit functions reachable from Compare, %d narrowing integer conversions", len(scope), nNarrow))
}

func sortFuncs(fns []*ssa.Function) {
	for i := 1; i < len(fns); i++ {
		for j := i; j > 0 && funcName(fns[j]) < funcName(fns[j-1]); j-- {
			fns[j], fns[j-1] = fns[j-1], fns[j]
		}
	}
}

// ---- TAB-10: IndexConfig.Equal is complete on every path that answers true ------------

func init() {
	register(&Rule{ID: "TAB-10", Doc: "index definitions are equal only if every field is: on every path of IndexConfig.Equal that returns true, for each field of IndexConfig a decision was taken that establishes equality of that field of the receiver and of the argument (== on the two fields, or bsonkit.Compare of values read from the two fields being 0)", Run: ruleTab10})
}

// fieldCone: which (parameter, field) selections does v depend on?
func fieldCone(v ssa.Value, params []*ssa.Parameter, out map[[2]string]bool, seen map[ssa.Value]bool, depth int) {
	if v == nil || seen[v] || depth > 12 {
		return
	}
	seen[v] = true
	spillOf := func(a *ssa.Alloc) *ssa.Parameter {
		if refs := a.Referrers(); refs != nil {
			for _, ref := range *refs {
				if st, ok := ref.(*ssa.Store); ok && st.Addr == a {
					if p, ok := st.Val.(*ssa.Parameter); ok {
						return p
					}
				}
			}
		}
		return nil
	}
	switch x := v.(type) {
	case *ssa.Field:
		if p, ok := x.X.(*ssa.Parameter); ok {
			if st, ok := p.Type().Underlying().(*types.Struct); ok {
				out[[2]string{p.Name(), st.Field(x.Field).Name()}] = true
			}
			return
		}
	case *ssa.FieldAddr:
		if a, ok := x.X.(*ssa.Alloc); ok {
			if p := spillOf(a); p != nil {
				if f := structFieldOf(x); f != nil {
					out[[2]string{p.Name(), f.Name()}] = true
				}
				return
			}
		}
		if p, ok := x.X.(*ssa.Parameter); ok {
			if f := structFieldOf(x); f != nil {
				out[[2]string{p.Name(), f.Name()}] = true
			}
			return
		}
	}
	if in, ok := v.(ssa.Instruction); ok {
		for _, op := range in.Operands(nil) {
			if *op != nil {
				fieldCone(*op, params, out, seen, depth+1)
			}
		}
	}
	// loads from local cells: what was stored
	if u, ok := v.(*ssa.UnOp); ok && u.Op == token.MUL {
		if a, ok := u.X.(*ssa.Alloc); ok {
			if refs := a.Referrers(); refs != nil {
				for _, ref := range *refs {
					if st, ok := ref.(*ssa.Store); ok && st.Addr == a {
						fieldCone(st.Val, params, out, seen, depth+1)
					}
				}
			}
		}
	}
}

func ruleTab10(c *Ctx, r *Reporter) {
	fn := c.lookupSSA(pkgMongokit, "IndexConfig.Equal")
	cfgT := c.lookupType(pkgMongokit, "IndexConfig")
	cmpF := c.lookupFunc(pkgBsonkit, "Compare")
	if fn == nil || cfgT == nil || cmpF == nil || len(fn.Params) != 2 {
		r.bad("anchor:IndexConfig.Equal", "-", "not found")
		return
	}
	st := cfgT.Underlying().(*types.Struct)
	a, b := fn.Params[0].Name(), fn.Params[1].Name()
	paths, _, trunc := enumPaths(fn.Blocks[0], nil, func(*ssa.BasicBlock) bool { return false }, 8192)
	endBlocks := enumEndPreds
	if trunc {
		r.unk("IndexConfig.Equal:paths", c.pos(fn.Pos()), "too many paths")
		return
	}
	cone := func(v ssa.Value) map[[2]string]bool {
		out := map[[2]string]bool{}
		fieldCone(v, fn.Params, out, map[ssa.Value]bool{}, 0)
		return out
	}
	// which fields does decision d establish as equal?
	establishes := func(d decision) map[string]bool {
		res := map[string]bool{}
		bo, ok := d.cond.(*ssa.BinOp)
		if !ok {
			return res
		}
		eq := (bo.Op == token.EQL && d.taken) || (bo.Op == token.NEQ && !d.taken)
		if !eq {
			return res
		}
		x, y := bo.X, bo.Y
		if call, ok := bo.X.(*ssa.Call); ok && calleeObj(&call.Call) == cmpF {
			if k, ok := constInt(bo.Y); !ok || k != 0 {
				return res
			}
			x, y = call.Call.Args[0], call.Call.Args[1]
		}
		cx, cy := cone(x), cone(y)
		for i := 0; i < st.NumFields(); i++ {
			f := st.Field(i).Name()
			if (cx[[2]string{a, f}] && cy[[2]string{b, f}] && !cx[[2]string{b, f}] && !cy[[2]string{a, f}]) ||
				(cx[[2]string{b, f}] && cy[[2]string{a, f}] && !cx[[2]string{a, f}] && !cy[[2]string{b, f}]) {
				res[f] = true
			}
		}
		return res
	}
	nTrue := 0
	missing := map[string]string{}
	for pi, p := range paths {
		eb := endBlocks[pi]
		if eb == nil {
			continue
		}
		ret, ok := eb.Instrs[len(eb.Instrs)-1].(*ssa.Return)
		if !ok || len(ret.Results) != 1 {
			continue
		}
		val, isConst := constBool(retVal(ret, 0))
		if !isConst {
			r.unk("IndexConfig.Equal:result", c.pos(ret.Pos()), "a returned value is not a constant")
			return
		}
		if !val {
			continue
		}
		nTrue++
		est := map[string]bool{}
		for _, d := range p {
			for f := range establishes(d) {
				est[f] = true
			}
		}
		for i := 0; i < st.NumFields(); i++ {
			f := st.Field(i).Name()
			if !est[f] && missing[f] == "" {
				var ds []string
				for _, d := range p {
					ds = append(ds, fmt.Sprintf("%s=%v", d.cond.Name(), d.taken))
				}
				missing[f] = fmt.Sprintf("a path answers true without having compared %s.%s with %s.%s", a, f, b, f)
			}
		}
	}
	if nTrue == 0 {
		r.bad("IndexConfig.Equal:paths", c.pos(fn.Pos()), "no path returns true")
		return
	}
	for i := 0; i < st.NumFields(); i++ {
		f := st.Field(i).Name()
		r.check(missing[f] == "", "IndexConfig.Equal:field "+f, c.pos(fn.Pos()), fmt.Sprintf("compared on all %d paths that answer true", nTrue), missing[f]+": two definitions that differ in this field (for some shape of the other fields) are treated as the same index, so a conflicting CreateIndex is reported as a no-op")
	}
	r.guard(st.NumFields(), 4, "fields of IndexConfig")
}

// ---- IDX-7: an index is built from the very documents its collection holds ------------

func init() {
	register(&Rule{ID: "IDX-7", Doc: "indexes and collection share document identity: every Index.Build call receives the document list of the collection's own Set (a load of <collection>.Documents.List), or the same list value that is passed to the bsonkit.NewSet whose result becomes the collection's Documents in the same function (index entries are found by document pointer: an index built from copies cannot remove or replace the collection's documents)", Run: ruleIdx7})
	register(&Rule{ID: "IDX-8", Doc: "stored documents always carry an _id: every bsonkit.Set.Add / Set.Replace in a mongokit.Collection method is preceded - for the document being stored - by a test of bsonkit.Get(doc, \"_id\") against bsonkit.Missing (which either rejects the write or supplies an _id); bsonkit.Compare alone cannot stand in for it because Missing compares equal to null", Run: ruleIdx8})
}

func ruleIdx7(c *Ctx, r *Reporter) {
	buildF := c.lookupFunc(pkgMongokit, "Index.Build")
	newSetF := c.lookupFunc(pkgBsonkit, "NewSet")
	listF := c.field(pkgBsonkit, "Set", "List")
	docsF := c.field(pkgMongokit, "Collection", "Documents")
	if buildF == nil || newSetF == nil || listF == nil || docsF == nil {
		r.bad("anchor:Index.Build/NewSet", "-", "not found")
		return
	}
	n := 0
	for _, fn := range c.repoFuncs() {
		p := fnPkgPath(fn)
		if p != pkgMongokit && p != pkgLungo {
			continue
		}
		allInstrs(fn, func(in ssa.Instruction) {
			call, ok := in.(*ssa.Call)
			if !ok || calleeObj(&call.Call) != buildF {
				return
			}
			n++
			arg := call.Call.Args[len(call.Call.Args)-1]
			key := funcName(fn) + ":Index.Build list"
			fn := fn
			if rv := resolveHelperValue(stripValue(arg)); rv != stripValue(arg) {
				// the list is a parameter of a private helper: what its only caller passes
				arg = rv
				if in2, ok := rv.(ssa.Instruction); ok && in2.Parent() != nil {
					fn = in2.Parent()
				}
			}
			// (a) <x>.Documents.List
			if u, ok := stripValue(arg).(*ssa.UnOp); ok && u.Op == token.MUL {
				if fa, ok := u.X.(*ssa.FieldAddr); ok && structFieldOf(fa) == listF {
					if isLoadOf(fa.X, docsF) {
						r.ok(key, c.pos(call.Pos()), "the list of the collection's own document set")
						return
					}
				}
			}
			// (a') <set>.List where <set> is the value stored into some Collection.Documents in this function
			if u, ok := stripValue(arg).(*ssa.UnOp); ok && u.Op == token.MUL {
				if fa, ok := u.X.(*ssa.FieldAddr); ok && structFieldOf(fa) == listF {
					isDocs := false
					if refs := fa.X.Referrers(); refs != nil {
						for _, ref := range *refs {
							if st, ok := ref.(*ssa.Store); ok && st.Val == fa.X {
								if fa2, ok := st.Addr.(*ssa.FieldAddr); ok && structFieldOf(fa2) == docsF {
									isDocs = true
								}
							}
						}
					}
					if isDocs {
						r.ok(key, c.pos(call.Pos()), "the list of the set that becomes the collection's Documents")
						return
					}
				}
			}
			// (b) the same list goes into NewSet whose result is stored into Collection.Documents
			okB := false
			allInstrs(fn, func(x ssa.Instruction) {
				ns, ok := x.(*ssa.Call)
				if !ok || calleeObj(&ns.Call) != newSetF {
					return
				}
				sameField := func(a, b ssa.Value) bool {
					fa, ok1 := stripValue(a).(*ssa.Field)
					fb, ok2 := stripValue(b).(*ssa.Field)
					if ok1 && ok2 && fa.X == fb.X && fa.Field == fb.Field {
						return true
					}
					ua, ok3 := stripValue(a).(*ssa.UnOp)
					ub, ok4 := stripValue(b).(*ssa.UnOp)
					if ok3 && ok4 && ua.Op == token.MUL && ub.Op == token.MUL {
						xa, ok5 := ua.X.(*ssa.FieldAddr)
						xb, ok6 := ub.X.(*ssa.FieldAddr)
						return ok5 && ok6 && xa.X == xb.X && xa.Field == xb.Field
					}
					return false
				}
				if !(ns.Call.Args[0] == arg || sameSource(ns.Call.Args[0], arg) || sameField(ns.Call.Args[0], arg)) {
					return
				}
				if refs := ns.Referrers(); refs != nil {
					for _, ref := range *refs {
						if st, ok := ref.(*ssa.Store); ok {
							if fa, ok := st.Addr.(*ssa.FieldAddr); ok && structFieldOf(fa) == docsF {
								okB = true
							}
						}
					}
				}
			})
			r.check(okB, key, c.pos(call.Pos()), "the same list value is given to the NewSet that becomes the collection's Documents", "the index is built from a different list value than the one the collection's document set is made of (e.g. a copy): the index then holds document objects that are not in the collection, and every later update or delete of those documents fails to find them in the index")
		})
	}
	r.guard(n, 2, "Index.Build call sites")
}

func ruleIdx8(c *Ctx, r *Reporter) {
	collT := c.lookupType(pkgMongokit, "Collection")
	addF := c.lookupFunc(pkgBsonkit, "Set.Add")
	replF := c.lookupFunc(pkgBsonkit, "Set.Replace")
	getF := c.lookupFunc(pkgBsonkit, "Get")
	missing := c.lookupVar(pkgBsonkit, "Missing")
	if collT == nil || addF == nil || replF == nil || getF == nil || missing == nil {
		r.bad("anchor:Set.Add/Set.Replace/Get/Missing", "-", "not found")
		return
	}
	isMissing := func(v ssa.Value) bool {
		v = stripValue(v)
		if u, ok := v.(*ssa.UnOp); ok && u.Op == token.MUL {
			if g, ok := u.X.(*ssa.Global); ok && g.Object() == missing {
				return true
			}
		}
		return false
	}
	// element loads over the same slice are "the same document" for this rule
	sameDoc := func(a, b ssa.Value) bool {
		a, b = stripValue(a), stripValue(b)
		if a == b || sameSource(a, b) {
			return true
		}
		ua, ok1 := a.(*ssa.UnOp)
		ub, ok2 := b.(*ssa.UnOp)
		if ok1 && ok2 {
			ia, ok3 := ua.X.(*ssa.IndexAddr)
			ib, ok4 := ub.X.(*ssa.IndexAddr)
			if ok3 && ok4 && (ia.X == ib.X || sameSource(ia.X, ib.X)) {
				return true
			}
		}
		return false
	}
	n := 0
	for i := 0; i < collT.NumMethods(); i++ {
		fn := c.ssaFunc(collT.Method(i))
		if fn == nil {
			continue
		}
		allInstrs(fn, func(in ssa.Instruction) {
			call, ok := in.(*ssa.Call)
			if !ok {
				return
			}
			f := calleeObj(&call.Call)
			if f != addF && f != replF {
				return
			}
			n++
			doc := call.Call.Args[len(call.Call.Args)-1]
			key := fmt.Sprintf("%s:%s stores a document with _id", funcName(fn), f.Name())
			found := ""
			covers := false
			allInstrs(fn, func(x ssa.Instruction) {
				bo, ok := x.(*ssa.BinOp)
				if !ok || (bo.Op != token.EQL && bo.Op != token.NEQ) {
					return
				}
				var other ssa.Value
				switch {
				case isMissing(bo.X):
					other = bo.Y
				case isMissing(bo.Y):
					other = bo.X
				default:
					return
				}
				g, ok := stripValue(other).(*ssa.Call)
				if !ok || calleeObj(&g.Call) != getF {
					return
				}
				if p, ok := constString(g.Call.Args[1]); !ok || p != "_id" {
					return
				}
				if !sameDoc(g.Call.Args[0], doc) {
					return
				}
				found = c.pos(bo.Pos())
				// the test must lie before the store: its block dominates the store, or it sits in an earlier loop over the same list
				if bo.Block() == call.Block() && instrDominates(bo, call) || bo.Block().Dominates(call.Block()) {
					covers = true
					return
				}
				if !instrReaches(call, bo) && instrReaches(bo, call) {
					covers = true
				}
			})
			switch {
			case covers:
				r.ok(key, c.pos(call.Pos()), "the stored document's _id is tested against Missing at "+found)
			case found != "":
				r.bad(key, c.pos(call.Pos()), "an _id presence test exists at "+found+" but does not precede the store")
			default:
				r.bad(key, c.pos(call.Pos()), "no test of the stored document's _id against bsonkit.Missing: an update that removes _id from a document whose _id is null passes a Compare-only guard (Missing compares equal to null), the document is stored without _id and logging its key panics")
			}
		})
	}
	r.guard(n, 4, "Set.Add / Set.Replace sites in mongokit.Collection")
}

// ---- SEM-9: array fan-out is the same for all element-wise leaf operators --------------

func init() {
	register(&Rule{ID: "SEM-9", Doc: "leaf query operators agree on how a path fans out over arrays: every registered expression operator that goes through matchUnwind passes the same constant (merge, yieldMerge) flags as the operator registered as $eq - so that $in is the disjunction of equalities and $nin/$ne their negations on every document shape - with the single exception of $all, which must see each candidate array unmerged (false, true)", Run: ruleSem9})
	register(&Rule{ID: "FLAG-1", Doc: "no dead decision in operator code: in mongokit and bsonkit no branch condition is a constant or a flag variable that only ever holds one constant (a flag that is tested but never set means the branch it guards - e.g. a type promotion - can never run)", Run: ruleFlag1})
}

func ruleSem9(c *Ctx, r *Reporter) {
	uw := c.lookupSSA(pkgMongokit, "matchUnwind")
	regs := readRegistries(c)
	reg := regs["ExpressionQueryOperators"]
	if uw == nil || reg == nil || len(uw.Params) < 4 {
		r.bad("anchor:matchUnwind/ExpressionQueryOperators", "-", "not found")
		return
	}
	type flags struct {
		merge, yield bool
		ok           bool
		pos          token.Pos
	}
	flagsOf := func(fn *ssa.Function) []flags {
		var out []flags
		allInstrs(fn, func(in ssa.Instruction) {
			call, ok := in.(*ssa.Call)
			if !ok || call.Call.StaticCallee() != uw {
				return
			}
			m, ok1 := constBool(call.Call.Args[2])
			y, ok2 := constBool(call.Call.Args[3])
			out = append(out, flags{m, y, ok1 && ok2, call.Pos()})
		})
		return out
	}
	eq := reg["$eq"]
	if eq == nil {
		r.bad("anchor:$eq", "-", "not registered")
		return
	}
	ref := flagsOf(eq)
	if len(ref) != 1 || !ref[0].ok {
		r.unk("$eq:fan-out flags", c.pos(eq.Pos()), "the $eq operator does not call matchUnwind exactly once with constant flags")
		return
	}
	var names []string
	for name := range reg {
		names = append(names, name)
	}
	sortStrings(names)
	n := 0
	for _, name := range names {
		fn := reg[name]
		fl := flagsOf(fn)
		if len(fl) == 0 {
			continue
		}
		n++
		label := name
		if label == "" {
			label = "(implicit equality)"
		}
		key := "query operator " + label + ":array fan-out"
		for _, f := range fl {
			switch {
			case !f.ok:
				r.unk(key, c.pos(f.pos), "the flags are not constants")
			case name == "$all":
				r.check(!f.merge && f.yield, key, c.pos(f.pos), "(merge=false, yieldMerge=true): each candidate array is tested as a whole", "$all must pass (false, true): with merged arrays it would accept operands spread over different sub-documents")
			default:
				r.check(f.merge == ref[0].merge && f.yield == ref[0].yield, key, c.pos(f.pos), fmt.Sprintf("same flags as $eq (merge=%v, yieldMerge=%v)", ref[0].merge, ref[0].yield), fmt.Sprintf("(merge=%v, yieldMerge=%v) differs from $eq (merge=%v, yieldMerge=%v): on a dotted path through an array of sub-documents whose leaf is an array this operator sees other candidates than an equality does, so it is no longer the disjunction / negation of equalities", f.merge, f.yield, ref[0].merge, ref[0].yield))
			}
		}
	}
	r.guard(n, 10, "registered expression operators that fan out through matchUnwind")
}

func ruleFlag1(c *Ctx, r *Reporter) {
	n, bad := 0, 0
	defer positiveCheck(r, "FLAG-1 never-set flag", "DeadFlag", "LiveFlag", func(fn *ssa.Function) int {
		k := 0
		allInstrs(fn, func(in ssa.Instruction) {
			if iff, ok := in.(*ssa.If); ok {
				if _, isConst, _ := flagConst(iff.Cond, map[ssa.Value]bool{}); isConst {
					k++
				}
			}
		})
		return k
	})
	for _, fn := range c.repoFuncs() {
		p := fnPkgPath(fn)
		if p != pkgMongokit && p != pkgBsonkit {
			continue
		}
		allInstrs(fn, func(in ssa.Instruction) {
			iff, ok := in.(*ssa.If)
			if !ok {
				return
			}
			n++
			val, isConst, _ := flagConst(iff.Cond, map[ssa.Value]bool{})
			if !isConst {
				return
			}
			bad++
			pos := iff.Cond.Pos()
			for i := len(iff.Block().Instrs) - 1; i >= 0 && pos == token.NoPos; i-- {
				pos = iff.Block().Instrs[i].Pos()
			}
			for _, pb := range iff.Block().Preds {
				for i := len(pb.Instrs) - 1; i >= 0 && pos == token.NoPos; i-- {
					pos = pb.Instrs[i].Pos()
				}
			}
			r.bad(fmt.Sprintf("%s:constant decision", funcName(fn)), c.pos(pos), fmt.Sprintf("the branch condition is always %v: a flag that is tested here is never set to the other value, so one side of this decision is dead code", val))
		})
	}
	if bad == 0 {
		r.ok("mongokit+bsonkit:no constant decisions", "-", fmt.Sprintf("%d branch conditions examined, none is a constant or a never-set flag", n))
	}
	r.guard(n, 500, "branch conditions in mongokit and bsonkit")
}

// flagConst: is the branch condition a constant, or a flag (phi / local cell) that only ever holds one constant?
func flagConst(v ssa.Value, seen map[ssa.Value]bool) (val bool, isConst bool, viaFlag bool) {
	if seen[v] {
		return false, false, false
	}
	seen[v] = true
	switch x := v.(type) {
	case *ssa.Const:
		b, ok := constBool(x)
		return b, ok, false
	case *ssa.UnOp:
		if x.Op == token.NOT {
			b, ok, f := flagConst(x.X, seen)
			return !b, ok, f
		}
		if x.Op == token.MUL {
			// a flag kept in a local cell: all stores constant and equal
			if a, ok := x.X.(*ssa.Alloc); ok {
				refs := a.Referrers()
				if refs == nil {
					return false, false, false
				}
				first := true
				var val bool
				for _, ref := range *refs {
					switch y := ref.(type) {
					case *ssa.Store:
						if y.Addr != a {
							return false, false, false
						}
						b, ok := constBool(y.Val)
						if !ok || (!first && b != val) {
							return false, false, false
						}
						val, first = b, false
					case *ssa.UnOp:
					case *ssa.DebugRef:
					default:
						return false, false, false // address escapes
					}
				}
				if first {
					return false, true, true // never stored: zero value
				}
				return val, true, true
			}
		}
	case *ssa.Phi:
		first := true
		var val bool
		for _, e := range x.Edges {
			if e == ssa.Value(x) {
				continue
			}
			b, ok, _ := flagConst(e, seen)
			if !ok || (!first && b != val) {
				return false, false, false
			}
			val, first = b, false
		}
		if first {
			return false, false, false
		}
		return val, true, true
	}
	return false, false, false
}

// ---- WIN-4 / WIN-5: natural order and array sort keys ----------------------------------

func init() {
	register(&Rule{ID: "WIN-4", Doc: "a document set keeps insertion order: in the methods of bsonkit.Set no element of List is moved to another position (no store List[i] = List[j] other than a shift by one towards the front); documents leave by append/copy shifting, which preserves the relative order the stable sort and the natural order of find rely on", Run: ruleWin4})
	register(&Rule{ID: "WIN-5", Doc: "the sort key of an array is its extreme element: in bsonkit.sortKey the loop compares each element with the running best (Compare(item, best)) and, on every path through the loop body, replaces best by the element exactly when reverse && cmp > 0 or !reverse && cmp < 0, starting from element 0 and returning best", Run: ruleWin5})
}

func ruleWin4(c *Ctx, r *Reporter) {
	setT := c.lookupType(pkgBsonkit, "Set")
	listF := c.field(pkgBsonkit, "Set", "List")
	if setT == nil || listF == nil {
		r.bad("anchor:bsonkit.Set", "-", "not found")
		return
	}
	n, stores := 0, 0
	for i := 0; i < setT.NumMethods(); i++ {
		fn := c.ssaFunc(setT.Method(i))
		if fn == nil {
			continue
		}
		n++
		recv := fn.Params[0]
		onOwnList := func(v ssa.Value) (*ssa.IndexAddr, bool) {
			ia, ok := v.(*ssa.IndexAddr)
			if !ok {
				return nil, false
			}
			x := ia.X
			for {
				if sl, ok := x.(*ssa.Slice); ok {
					x = sl.X
					continue
				}
				break
			}
			if u, ok := x.(*ssa.UnOp); ok && u.Op == token.MUL {
				if fa, ok := u.X.(*ssa.FieldAddr); ok && structFieldOf(fa) == listF && fa.X == ssa.Value(recv) {
					return ia, true
				}
			}
			return nil, false
		}
		bad := ""
		allInstrs(fn, func(in ssa.Instruction) {
			st, ok := in.(*ssa.Store)
			if !ok {
				return
			}
			dst, ok := onOwnList(st.Addr)
			if !ok {
				return
			}
			stores++
			u, ok := stripValue(st.Val).(*ssa.UnOp)
			if !ok || u.Op != token.MUL {
				return
			}
			src, ok := onOwnList(u.X)
			if !ok {
				return
			}
			// a move inside the list: allowed only as a shift by one towards the front
			atom := func(v ssa.Value) (string, bool) {
				switch v.(type) {
				case *ssa.Phi, *ssa.Parameter, *ssa.Extract, *ssa.Lookup:
					return v.Name(), true
				}
				if call, ok := v.(*ssa.Call); ok {
					if b, ok := call.Call.Value.(*ssa.Builtin); ok && b.Name() == "len" {
						return "len", true
					}
				}
				return "", false
			}
			ls, ok1 := linOf(src.Index, atom, 0)
			ld, ok2 := linOf(dst.Index, atom, 0)
			if ok1 && ok2 && ls.add(ld, -1).equal(linForm{coef: map[string]int64{}, k: 1}) {
				return
			}
			if bad == "" {
				bad = fmt.Sprintf("List[...] = List[...] at %s moves a document to another position", c.pos(st.Pos()))
			}
		})
		key := "bsonkit.Set." + fn.Name() + ":keeps relative order"
		r.check(bad == "", key, c.pos(fn.Pos()), "no document is moved to another position of the list", bad+": the remaining documents are no longer in insertion order, so ties of a sort, the natural order of find and skip/limit windows change after a delete")
	}
	r.guard(n, 4, "methods of bsonkit.Set")
	r.guard(stores, 1, "element stores into Set.List")
}

func ruleWin5(c *Ctx, r *Reporter) {
	fn := c.lookupSSA(pkgBsonkit, "sortKey")
	cmpF := c.lookupFunc(pkgBsonkit, "Compare")
	if fn == nil || cmpF == nil || len(fn.Params) != 2 {
		r.bad("anchor:bsonkit.sortKey", "-", "not found")
		return
	}
	// the direction: a bool parameter, or the Reverse field of a Column the function receives
	isReverse := func(v ssa.Value) bool {
		switch x := v.(type) {
		case *ssa.Parameter:
			b, ok := x.Type().Underlying().(*types.Basic)
			return ok && b.Kind() == types.Bool
		case *ssa.Field:
			return structFieldOf(x).Name() == "Reverse"
		case *ssa.UnOp:
			if fa, ok := x.X.(*ssa.FieldAddr); ok && x.Op == token.MUL {
				return structFieldOf(fa).Name() == "Reverse"
			}
		}
		return false
	}
	// the comparison inside a loop
	var cmp *ssa.Call
	allInstrs(fn, func(in ssa.Instruction) {
		if call, ok := in.(*ssa.Call); ok && calleeObj(&call.Call) == cmpF {
			cmp = call
		}
	})
	if cmp == nil {
		// the library form: slices.MaxFunc(arr, Compare) when reverse, slices.MinFunc(arr, Compare) otherwise (both return
		// the first extreme element and compare (element, best) in that order)
		nLib, badLib := 0, ""
		allInstrs(fn, func(in ssa.Instruction) {
			call, ok := in.(*ssa.Call)
			if !ok {
				return
			}
			f := calleeObj(&call.Call)
			if f == nil || f.Pkg() == nil || f.Pkg().Path() != "slices" || (f.Name() != "MaxFunc" && f.Name() != "MinFunc") || len(call.Call.Args) != 2 {
				return
			}
			nLib++
			cf, _ := call.Call.Args[1].(*ssa.Function)
			if cf == nil {
				if ct, ok := call.Call.Args[1].(*ssa.ChangeType); ok {
					cf, _ = ct.X.(*ssa.Function)
				}
			}
			if cf == nil || cf.Object() != types.Object(cmpF) {
				badLib = "the extreme element is not chosen by bsonkit.Compare"
				return
			}
			// direction: MaxFunc only under reverse, MinFunc only under !reverse
			wantRev := f.Name() == "MaxFunc"
			decided := false
			for b := call.Block(); b != nil; b = b.Idom() {
				id := b.Idom()
				if id == nil || len(id.Instrs) == 0 {
					continue
				}
				iff, ok := id.Instrs[len(id.Instrs)-1].(*ssa.If)
				if !ok || !isReverse(iff.Cond) {
					continue
				}
				if id.Succs[0] == b || id.Succs[0].Dominates(b) {
					decided = wantRev
				} else if id.Succs[1] == b || id.Succs[1].Dominates(b) {
					decided = !wantRev
				}
			}
			if !decided && badLib == "" {
				badLib = "slices." + f.Name() + " is not reached exactly for the matching direction"
			}
		})
		if nLib == 2 {
			r.check(badLib == "", "sortKey:update table", c.pos(fn.Pos()), "slices.MaxFunc under reverse, slices.MinFunc otherwise, both by bsonkit.Compare", badLib+": arrays are not ranked by their smallest element ascending / largest descending")
			return
		}
		r.bad("sortKey:comparison", c.pos(fn.Pos()), "no bsonkit.Compare call")
		return
	}
	// the accumulator: a phi among the arguments of Compare; the element: a load from an IndexAddr
	var best *ssa.Phi
	var item ssa.Value
	swapped := false
	for i, a := range cmp.Call.Args {
		if ph, ok := a.(*ssa.Phi); ok {
			best = ph
			swapped = i == 0
		} else if u, ok := a.(*ssa.UnOp); ok && u.Op == token.MUL {
			if _, ok := u.X.(*ssa.IndexAddr); ok {
				item = a
			}
		}
	}
	pos := c.pos(cmp.Pos())
	if best == nil || item == nil {
		r.bad("sortKey:comparison operands", pos, "Compare is not called with the current element and the running best: the element is compared with something that does not change as better elements are found, so the result is not the extreme of the array")
		return
	}
	r.ok("sortKey:comparison operands", pos, "Compare(element, running best)")
	hdr := best.Block()
	// start value and result
	initOK := false
	for i, pb := range hdr.Preds {
		if !blockReach([]*ssa.BasicBlock{cmp.Block()}, nil)[pb] || pb == hdr {
			// an entry edge
			if u, ok := best.Edges[i].(*ssa.UnOp); ok && u.Op == token.MUL {
				if ia, ok := u.X.(*ssa.IndexAddr); ok {
					if k, ok := constInt(ia.Index); ok && k == 0 {
						initOK = true
					}
				}
			}
		}
	}
	r.check(initOK, "sortKey:start value", pos, "the running best starts as element 0", "the running best does not start as element 0 of the array")
	retOK := false
	for _, ret := range returnsOf(fn) {
		if retVal(ret, 0) == ssa.Value(best) {
			retOK = true
		}
	}
	r.check(retOK, "sortKey:result", pos, "the running best is returned", "the running best is not what is returned")
	// paths through the body
	enumWatchV = []ssa.Value{best}
	defer func() { enumWatchV = nil }()
	var pred *ssa.BasicBlock
	if len(cmp.Block().Preds) > 0 {
		pred = cmp.Block().Preds[0]
	}
	paths, ends, trunc := enumPaths(cmp.Block(), pred, func(b *ssa.BasicBlock) bool { return b == hdr }, 1024)
	res := enumWatchVRes
	if trunc {
		r.unk("sortKey:paths", pos, "too many paths")
		return
	}
	signOf := func(d decision) int { // +1: cmp > 0 holds, -1: cmp < 0 holds, 0: neither established
		bo, ok := d.cond.(*ssa.BinOp)
		if !ok || bo.X != ssa.Value(cmp) {
			return 0
		}
		k, okK := constInt(bo.Y)
		if !okK || k != 0 {
			return 0
		}
		switch {
		case (bo.Op == token.GTR && d.taken) || (bo.Op == token.LEQ && !d.taken):
			return 1
		case (bo.Op == token.LSS && d.taken) || (bo.Op == token.GEQ && !d.taken):
			return -1
		}
		return 0
	}
	nPaths := 0
	bad := ""
	for pi, p := range paths {
		if ends[pi] != hdr {
			continue
		}
		nPaths++
		rev, revKnown := false, false
		sign := 0
		for _, d := range p {
			if isReverse(d.cond) {
				rev, revKnown = d.taken, true
			}
			if s := signOf(d); s != 0 {
				sign = s
			}
		}
		if swapped {
			sign = -sign
		}
		newBest := res[pi][0]
		replaced := newBest == item
		kept := newBest == ssa.Value(best)
		if !replaced && !kept {
			if bad == "" {
				bad = "the running best becomes something other than the element or itself"
			}
			continue
		}
		if !revKnown {
			if replaced && bad == "" {
				bad = "the element replaces the running best on a path that does not consult the direction"
			}
			continue
		}
		want := (rev && sign > 0) || (!rev && sign < 0)
		if want != replaced && bad == "" {
			bad = fmt.Sprintf("for reverse=%v and comparison sign %d the running best is %s", rev, sign, map[bool]string{true: "replaced", false: "kept"}[replaced])
		}
	}
	if nPaths == 0 {
		r.bad("sortKey:update table", pos, "no path through the loop body returns to the loop header")
		return
	}
	r.check(bad == "", "sortKey:update table", pos, fmt.Sprintf("on all %d paths the best is replaced exactly for (reverse, cmp > 0) and (!reverse, cmp < 0)", nPaths), bad+": arrays are not ranked by their smallest element ascending / largest descending")
}

// ---- PROJ-2: what a plain 0/1 projection entry records ----------------------------------

func init() {
	register(&Rule{ID: "PROJ-2", Doc: "projection entries are classified correctly: on every successful path of projectCondition an including entry (1/true) is appended to the include list whatever its path (also for _id, which is what selects inclusion mode), an excluding entry for _id sets hideID, any other excluding entry is appended to the exclude list, and nothing else is recorded; failing paths record nothing", Run: ruleProj2})
}

func ruleProj2(c *Ctx, r *Reporter) {
	fn := c.lookupSSA(pkgMongokit, "projectCondition")
	stT := c.lookupType(pkgMongokit, "projectState")
	if fn == nil || stT == nil || len(fn.Params) < 5 {
		r.bad("anchor:mongokit.projectCondition", "-", "not found")
		return
	}
	pathParam := fn.Params[3]
	// the inclusion flag: a boolean phi merging constants (and the bool operand)
	var include *ssa.Phi
	allInstrs(fn, func(in ssa.Instruction) {
		ph, ok := in.(*ssa.Phi)
		if !ok || !types.Identical(ph.Type().Underlying(), types.Typ[types.Bool]) {
			return
		}
		hasT, hasF := false, false
		for _, e := range ph.Edges {
			if b, ok := constBool(e); ok {
				if b {
					hasT = true
				} else {
					hasF = true
				}
			}
		}
		if hasT && hasF && include == nil {
			include = ph
		}
	})
	if include == nil {
		r.unk("projectCondition:inclusion flag", c.pos(fn.Pos()), "no boolean variable merging true/false found")
		return
	}
	type eff struct {
		field string
		st    *ssa.Store
	}
	effectsIn := func(b *ssa.BasicBlock) []eff {
		var out []eff
		for _, in := range b.Instrs {
			st, ok := in.(*ssa.Store)
			if !ok {
				continue
			}
			fa, ok := st.Addr.(*ssa.FieldAddr)
			if !ok || derefNamed(fa.X.Type()) != stT {
				continue
			}
			out = append(out, eff{structFieldOf(fa).Name(), st})
		}
		return out
	}
	// watch: the flag and every value stored into hideID
	watch := []ssa.Value{include}
	var hideStores []*ssa.Store
	allInstrs(fn, func(in ssa.Instruction) {
		if st, ok := in.(*ssa.Store); ok {
			if fa, ok := st.Addr.(*ssa.FieldAddr); ok && derefNamed(fa.X.Type()) == stT && structFieldOf(fa).Name() == "hideID" {
				hideStores = append(hideStores, st)
				watch = append(watch, st.Val)
			}
		}
	})
	enumWatch = watch
	defer func() { enumWatch = nil }()
	paths, _, trunc := enumPaths(fn.Blocks[0], nil, func(*ssa.BasicBlock) bool { return false }, 8192)
	endBlocks, blocks, wvals := enumEndPreds, enumPathBlocks, enumWatchVals
	if trunc {
		r.unk("projectCondition:paths", c.pos(fn.Pos()), "too many paths")
		return
	}
	isIDTest := func(d decision) (is, eq bool) {
		bo, ok := d.cond.(*ssa.BinOp)
		if !ok || (bo.Op != token.EQL && bo.Op != token.NEQ) {
			return false, false
		}
		var other ssa.Value
		switch {
		case bo.X == ssa.Value(pathParam):
			other = bo.Y
		case bo.Y == ssa.Value(pathParam):
			other = bo.X
		default:
			return false, false
		}
		if s, ok := constString(other); !ok || s != "_id" {
			return false, false
		}
		return true, (bo.Op == token.EQL) == d.taken
	}
	nOK, nErr := 0, 0
	bad := ""
	for pi, p := range paths {
		eb := endBlocks[pi]
		if eb == nil {
			continue
		}
		ret, ok := eb.Instrs[len(eb.Instrs)-1].(*ssa.Return)
		if !ok {
			continue // panics (failed type assertion of the state)
		}
		var effs []string
		for _, b := range blocks[pi] {
			for _, e := range effectsIn(b) {
				switch e.field {
				case "hideID":
					v := int8(-1)
					for wi, w := range watch {
						if w == e.st.Val {
							v = wvals[pi][wi]
						}
					}
					effs = append(effs, fmt.Sprintf("hideID=%d", v))
				default:
					effs = append(effs, "append "+e.field)
				}
			}
		}
		got := strings.Join(effs, ",")
		if !isNilConst(retVal(ret, 0)) {
			nErr++
			if got != "" && bad == "" {
				bad = "a failing path records " + got
			}
			continue
		}
		nOK++
		inc := wvals[pi][0]
		idKnown, isID := false, false
		for _, d := range p {
			if is, eq := isIDTest(d); is {
				idKnown, isID = true, eq
			}
		}
		want := ""
		switch {
		case inc == 1:
			want = "append include"
		case inc == 0 && idKnown && isID:
			want = "hideID=1"
		case inc == 0 && idKnown && !isID:
			want = "append exclude"
		case inc == 0:
			want = "(a decision on path == \"_id\")"
		default:
			want = "(a decision on the inclusion flag)"
		}
		if got != want && bad == "" {
			desc := map[int8]string{1: "an including entry", 0: "an excluding entry", -1: "an entry whose kind was not consulted"}[inc]
			where := ""
			if idKnown {
				where = map[bool]string{true: " for _id", false: " for a path other than _id"}[isID]
			}
			bad = fmt.Sprintf("%s%s records [%s], expected [%s]", desc, where, got, want)
		}
	}
	if nOK == 0 {
		r.bad("projectCondition:paths", c.pos(fn.Pos()), "no successful path")
		return
	}
	r.check(bad == "", "projectCondition:classification", c.pos(fn.Pos()), fmt.Sprintf("%d successful and %d failing paths: include / hideID / exclude recorded as specified", nOK, nErr), bad+": an `_id: 1` projection must count as an inclusion (Project selects inclusion mode by a non-empty include list), otherwise the whole document is returned")
}

// ---- UPD-2: $addToSet de-duplicates against the array it is building --------------------

func init() {
	register(&Rule{ID: "UPD-2", Doc: "$addToSet is a set insertion: in the function registered as $addToSet the membership scan (bsonkit.Compare of an existing element with the candidate) ranges over the very array value that receives the appends and is stored with bsonkit.Put, so a value repeated inside $each is added once", Run: ruleUpd2})
}

func ruleUpd2(c *Ctx, r *Reporter) {
	regs := readRegistries(c)
	var fn *ssa.Function
	for _, reg := range regs {
		if f := reg["$addToSet"]; f != nil {
			fn = f
		}
	}
	putF := c.lookupFunc(pkgBsonkit, "Put")
	cmpF := c.lookupFunc(pkgBsonkit, "Compare")
	if fn == nil || putF == nil || cmpF == nil {
		r.bad("anchor:$addToSet", "-", "operator not registered")
		return
	}
	var put *ssa.Call
	var scans []*ssa.Call
	allInstrs(fn, func(in ssa.Instruction) {
		call, ok := in.(*ssa.Call)
		if !ok {
			return
		}
		switch calleeObj(&call.Call) {
		case putF:
			put = call
		case cmpF:
			scans = append(scans, call)
		}
	})
	// the library form of the scan: slices.ContainsFunc / IndexFunc(arr, func(e) bool { ... Compare(e, val) ... })
	libScanned := map[*ssa.Call]ssa.Value{}
	allInstrs(fn, func(in ssa.Instruction) {
		call, ok := in.(*ssa.Call)
		if !ok || len(call.Call.Args) != 2 {
			return
		}
		f := calleeObj(&call.Call)
		if f == nil || f.Pkg() == nil || f.Pkg().Path() != "slices" || (f.Name() != "ContainsFunc" && f.Name() != "IndexFunc") {
			return
		}
		mc, ok := call.Call.Args[1].(*ssa.MakeClosure)
		if !ok {
			return
		}
		pred, _ := mc.Fn.(*ssa.Function)
		if pred == nil || len(pred.Params) != 1 {
			return
		}
		allInstrs(pred, func(x ssa.Instruction) {
			cmp, ok := x.(*ssa.Call)
			if !ok || calleeObj(&cmp.Call) != cmpF {
				return
			}
			for _, a := range cmp.Call.Args {
				if stripValue(a) == ssa.Value(pred.Params[0]) {
					libScanned[cmp] = stripValue(call.Call.Args[0])
					scans = append(scans, cmp)
				}
			}
		})
	})
	if put == nil || len(scans) == 0 {
		r.bad("$addToSet:shape", c.pos(fn.Pos()), "no bsonkit.Put of the new array or no membership comparison found")
		return
	}
	stored := stripValue(put.Call.Args[2])
	n := 0
	for _, sc := range scans {
		// the scanned slice: an argument that is an element load
		var scanned ssa.Value
		for _, a := range sc.Call.Args {
			if u, ok := stripValue(a).(*ssa.UnOp); ok && u.Op == token.MUL {
				// the element of the innermost loop: loaded in the block of the comparison
				if ia, ok := u.X.(*ssa.IndexAddr); ok && u.Block() == sc.Block() {
					scanned = ia.X
				}
			}
		}
		if v, ok := libScanned[sc]; ok {
			scanned = v
		}
		if scanned == nil {
			continue
		}
		n++
		// the stored array must be grown from the scanned one by appends only
		grows := false
		if ph, ok := stored.(*ssa.Phi); ok {
			for _, e := range ph.Edges {
				if call, ok := e.(*ssa.Call); ok {
					if b, ok := call.Call.Value.(*ssa.Builtin); ok && b.Name() == "append" {
						grows = true
					}
				}
				if ph2, ok := e.(*ssa.Phi); ok {
					for _, e2 := range ph2.Edges {
						if call, ok := e2.(*ssa.Call); ok {
							if b, ok := call.Call.Value.(*ssa.Builtin); ok && b.Name() == "append" {
								grows = true
							}
						}
					}
				}
			}
		}
		r.check(scanned == stored && grows, "$addToSet:membership scan", c.pos(sc.Pos()), "the scan ranges over the array that is being grown and stored", "the membership scan does not range over the array that receives the appends and is stored: a value that occurs twice in $each (and is not yet in the field) is appended twice, so the result is not a set and re-applying the update is not idempotent")
	}
	r.guard(n, 1, "membership scans in $addToSet")
}

// ---- FLAG-2: a search flag is reset for every outer iteration ---------------------------

func init() {
	register(&Rule{ID: "FLAG-2", Doc: "search flags are per item: in mongokit and bsonkit no boolean that starts false, is set true inside an inner loop and is tested in the enclosing loop after that inner loop is carried over from one iteration of the enclosing loop to the next (the answer for one operand would otherwise be inherited from the previous one - the $all / $in / membership idiom)", Run: ruleFlag2})
}

// staleSearchFlags returns the tests (If instructions) inside a loop whose condition is a flag carried around that loop and set true in a nested inner loop.
func staleSearchFlags(fn *ssa.Function) []*ssa.If {
	var out []*ssa.If
	if fn.Blocks == nil {
		return nil
	}
	for _, hdr := range fn.Blocks {
		// a loop header: a block with a predecessor it dominates
		var latches []*ssa.BasicBlock
		for _, p := range hdr.Preds {
			if hdr.Dominates(p) {
				latches = append(latches, p)
			}
		}
		if len(latches) == 0 {
			continue
		}
		// loop body: blocks dominated by hdr that reach a latch
		body := map[*ssa.BasicBlock]bool{hdr: true}
		var back func(b *ssa.BasicBlock)
		back = func(b *ssa.BasicBlock) {
			if body[b] {
				return
			}
			body[b] = true
			for _, p := range b.Preds {
				back(p)
			}
		}
		for _, l := range latches {
			back(l)
		}
		for _, in := range hdr.Instrs {
			ph, ok := in.(*ssa.Phi)
			if !ok {
				break
			}
			if !types.Identical(ph.Type().Underlying(), types.Typ[types.Bool]) {
				continue
			}
			// entry value false; a back-edge value that may be true and comes from an inner loop
			entryFalse, carriedTrue := false, false
			for i, p := range hdr.Preds {
				if body[p] && hdr.Dominates(p) {
					if mayBeTrueFromInnerLoop(ph.Edges[i], ph, hdr, body, map[ssa.Value]bool{}) {
						carriedTrue = true
					}
				} else if b, ok := constBool(ph.Edges[i]); ok && !b {
					entryFalse = true
				}
			}
			if !entryFalse || !carriedTrue {
				continue
			}
			// tested inside the loop, through values that may still be the carried one
			for b := range body {
				if len(b.Instrs) == 0 {
					continue
				}
				iff, ok := b.Instrs[len(b.Instrs)-1].(*ssa.If)
				if !ok {
					continue
				}
				// the successor taken while the flag is true must stay in the loop (an "any" search that
				// leaves the loop as soon as the flag is set never meets a stale value)
				cond, neg := iff.Cond, false
				for {
					if u, ok := cond.(*ssa.UnOp); ok && u.Op == token.NOT {
						cond, neg = u.X, !neg
						continue
					}
					break
				}
				if !derivesFromPhi(cond, ph, map[ssa.Value]bool{}) {
					continue
				}
				whenTrue := b.Succs[0]
				if neg {
					whenTrue = b.Succs[1]
				}
				stays := whenTrue == hdr
				if body[whenTrue] && !stays {
					reach := blockReach([]*ssa.BasicBlock{whenTrue}, map[*ssa.BasicBlock]bool{hdr: true})
					for _, l := range latches {
						if reach[l] || l == whenTrue {
							stays = true
						}
					}
				}
				if stays {
					out = append(out, iff)
				}
			}
		}
	}
	return out
}

// mayBeTrueFromInnerLoop: can v be the constant true assigned in a loop nested inside the loop of hdr?
func mayBeTrueFromInnerLoop(v ssa.Value, carried *ssa.Phi, hdr *ssa.BasicBlock, body map[*ssa.BasicBlock]bool, seen map[ssa.Value]bool) bool {
	if seen[v] {
		return false
	}
	seen[v] = true
	ph, ok := v.(*ssa.Phi)
	if !ok {
		return false
	}
	if ph == carried {
		return false
	}
	for i, e := range ph.Edges {
		if b, ok := constBool(e); ok && b {
			// the assignment site: the predecessor block; is it inside a loop nested in ours?
			pb := ph.Block().Preds[i]
			if inNestedLoop(pb, hdr, body) || inNestedLoop(ph.Block(), hdr, body) {
				return true
			}
		}
		if mayBeTrueFromInnerLoop(e, carried, hdr, body, seen) {
			return true
		}
	}
	return false
}

// inNestedLoop: b lies lexically inside a loop nested in the loop of hdr: it is dominated by the
// body entry of an inner loop header (this includes blocks that leave the inner loop by break).
func inNestedLoop(b, hdr *ssa.BasicBlock, body map[*ssa.BasicBlock]bool) bool {
	for h := range body {
		if h == hdr {
			continue
		}
		var latches []*ssa.BasicBlock
		for _, p := range h.Preds {
			if h.Dominates(p) {
				latches = append(latches, p)
			}
		}
		if len(latches) == 0 {
			continue
		}
		for _, s := range h.Succs {
			if !(s == b || s.Dominates(b)) || s == h {
				continue
			}
			// s is a body entry if it reaches a latch of h without passing h
			reach := blockReach([]*ssa.BasicBlock{s}, map[*ssa.BasicBlock]bool{h: true})
			for _, l := range latches {
				if reach[l] || l == s {
					return true
				}
			}
		}
	}
	return false
}

func derivesFromPhi(v ssa.Value, target *ssa.Phi, seen map[ssa.Value]bool) bool {
	if seen[v] {
		return false
	}
	seen[v] = true
	switch x := v.(type) {
	case *ssa.Phi:
		if x == target {
			return true
		}
		for _, e := range x.Edges {
			if derivesFromPhi(e, target, seen) {
				return true
			}
		}
	case *ssa.UnOp:
		if x.Op == token.NOT {
			return derivesFromPhi(x.X, target, seen)
		}
	}
	return false
}

func ruleFlag2(c *Ctx, r *Reporter) {
	positiveCheck(r, "FLAG-2 stale search flag", "StaleFound", "FreshFound", func(fn *ssa.Function) int { return len(staleSearchFlags(fn)) })
	n, loops := 0, 0
	for _, fn := range c.repoFuncs() {
		p := fnPkgPath(fn)
		if p != pkgMongokit && p != pkgBsonkit {
			continue
		}
		n++
		for _, b := range fn.Blocks {
			for _, pb := range b.Preds {
				if b.Dominates(pb) {
					loops++
					break
				}
			}
		}
		for _, iff := range staleSearchFlags(fn) {
			pos := iff.Cond.Pos()
			for i := len(iff.Block().Instrs) - 1; i >= 0 && pos == token.NoPos; i-- {
				pos = iff.Block().Instrs[i].Pos()
			}
			for _, pb := range iff.Block().Preds {
				for i := len(pb.Instrs) - 1; i >= 0 && pos == token.NoPos; i-- {
					pos = pb.Instrs[i].Pos()
				}
			}
			r.bad(funcName(fn)+":search flag carried across iterations", c.pos(pos), "a flag that an inner search loop sets to true is tested in the enclosing loop but keeps its value from the previous iteration: once one item was found, every later item counts as found")
		}
	}
	r.ok("mongokit+bsonkit:search flags", "-", fmt.Sprintf("%d functions, %d loops examined", n, loops))
	r.guard(loops, 100, "loops in mongokit and bsonkit")
}

// ---- TXN-4: Begin hands out only transactions it has just created -----------------------

func init() {
	register(&Rule{ID: "TXN-4", Doc: "Engine.Begin never hands out an existing transaction: every successful return yields the result of a NewTransaction call made in Begin (directly, or via e.txn which was just assigned that result); a write begun inside a session transaction is refused, not joined - the direct Begin/Commit callers (index and drop calls) would otherwise commit the whole session transaction mid-way", Run: ruleTxn4})
}

func ruleTxn4(c *Ctx, r *Reporter) {
	fn := c.lookupSSA(pkgLungo, "Engine.Begin")
	newTxn := c.lookupFunc(pkgLungo, "NewTransaction")
	txnF := c.field(pkgLungo, "Engine", "txn")
	if fn == nil || newTxn == nil || txnF == nil {
		r.bad("anchor:Engine.Begin", "-", "not found")
		return
	}
	isNew := func(v ssa.Value) bool {
		call, ok := v.(*ssa.Call)
		return ok && calleeObj(&call.Call) == newTxn
	}
	n := 0
	// the returns of Begin; where Begin ends by returning what a private helper returns, that helper's returns
	var rets []*ssa.Return
	var collect func(g *ssa.Function, depth int)
	collect = func(g *ssa.Function, depth int) {
		for _, ret := range returnsOf(g) {
			if ret.Block() == g.Recover || len(ret.Results) != 2 {
				continue
			}
			if ex, ok := retVal(ret, 0).(*ssa.Extract); ok && depth < 3 {
				if call, ok := ex.Tuple.(*ssa.Call); ok {
					if h := privateHelperOf(&call.Call); h != nil {
						if ex1, ok := retVal(ret, 1).(*ssa.Extract); ok && ex1.Tuple == ex.Tuple {
							collect(h, depth+1)
							continue
						}
					}
				}
			}
			rets = append(rets, ret)
		}
	}
	collect(fn, 0)
	for _, ret := range rets {
		fn := ret.Parent()
		if !isNilConst(retVal(ret, 1)) {
			continue
		}
		n++
		v := retVal(ret, 0)
		key := fmt.Sprintf("Engine.Begin:successful return #%d", n)
		ok := isNew(v)
		if u, isLoad := v.(*ssa.UnOp); !ok && isLoad && u.Op == token.MUL {
			if fa, isFA := u.X.(*ssa.FieldAddr); isFA && structFieldOf(fa) == txnF {
				// the dominating store to e.txn closest to the load must store a NewTransaction result
				var last *ssa.Store
				allInstrs(fn, func(in ssa.Instruction) {
					if st, isSt := in.(*ssa.Store); isSt {
						if fa2, ok2 := st.Addr.(*ssa.FieldAddr); ok2 && structFieldOf(fa2) == txnF && instrDominates(st, u) {
							if last == nil || instrDominates(last, st) {
								last = st
							}
						}
					}
				})
				ok = last != nil && isNew(last.Val)
			}
		}
		r.check(ok, key, c.pos(ret.Pos()), "returns a transaction created by NewTransaction in this call", "returns a transaction that was not created in this call (e.g. the session's own transaction): its later Commit/Abort by the caller ends a transaction the caller does not own")
	}
	r.guard(n, 2, "successful returns of Engine.Begin")
}

func intWidth(k types.BasicKind) int {
	switch k {
	case types.Int8, types.Uint8:
		return 8
	case types.Int16, types.Uint16:
		return 16
	case types.Int32, types.Uint32:
		return 32
	case types.Int64, types.Uint64, types.Int, types.Uint:
		return 64
	}
	return 0
}

// ---- ASSUME-1: the modelling assumptions about unsafe and reflect still hold -----------

func init() {
	register(&Rule{ID: "ASSUME-1", Doc: "the analyses do not model unsafe and reflect; this rule pins down where the repository uses them: unsafe only as unsafe.Pointer converted to uintptr for the identity tie-break of bsonkit.Order/Index (never unsafe.String/Slice/Add or a conversion back to a pointer), reflect only in bsonkit.DecodeList and lungo.assertOptions", Run: ruleAssume1})
}

func ruleAssume1(c *Ctx, r *Reporter) {
	allowedReflect := map[string]string{
		pkgBsonkit + ".DecodeList":  "grows the caller's result slice; the documents themselves go through Decode/Transfer",
		pkgLungo + ".assertOptions": "nil-checks of option struct fields",
	}
	n := 0
	for _, fn := range c.repoFuncs() {
		top := outermost(fn)
		allInstrs(fn, func(in ssa.Instruction) {
			// conversions involving unsafe.Pointer
			if cv, ok := in.(*ssa.Convert); ok {
				fromU := isUnsafePointer(cv.X.Type())
				toU := isUnsafePointer(cv.Type())
				if fromU || toU {
					n++
					key := funcName(top) + ":unsafe.Pointer conversion"
					fromPtr := false
					if _, ok := cv.X.Type().Underlying().(*types.Pointer); ok {
						fromPtr = true
					}
					toUintptr := false
					if b, ok := cv.Type().Underlying().(*types.Basic); ok && b.Kind() == types.Uintptr {
						toUintptr = true
					}
					okUse := (toU && fromPtr) || (fromU && toUintptr)
					r.check(okUse, key, c.pos(cv.Pos()), "pointer -> unsafe.Pointer -> uintptr (an address used as an ordering key only)", "unsafe.Pointer is converted to something other than uintptr (or created from a non-pointer): memory is reinterpreted or aliased behind the back of every ownership and sharing rule")
				}
			}
			if call, ok := in.(ssa.CallInstruction); ok {
				if b, ok := call.Common().Value.(*ssa.Builtin); ok && (b.Name() == "String" || b.Name() == "StringData" || b.Name() == "Slice" || b.Name() == "SliceData" || b.Name() == "Add") {
					// the capitalised builtins are the functions of package unsafe (universe builtins are lower case)
					n++
					r.bad(funcName(top)+":unsafe."+b.Name(), c.pos(in.Pos()), "unsafe."+b.Name()+" creates a value that aliases memory owned by something else (e.g. a string over a reused buffer): the copy the surrounding code relies on is gone")
				}
				if f := calleeObj(call.Common()); f != nil && f.Pkg() != nil && f.Pkg().Path() == "reflect" {
					name := fnPkgPath(top) + "." + top.Name()
					if _, ok := allowedReflect[name]; !ok {
						n++
						r.bad(funcName(top)+":reflect."+f.Name(), c.pos(in.Pos()), "reflection outside the two listed helpers: the static analyses do not see what it reads or writes")
					}
				}
			}
		})
	}
	r.guard(n, 2, "unsafe.Pointer conversions")
}

func isUnsafePointer(t types.Type) bool {
	b, ok := t.Underlying().(*types.Basic)
	return ok && b.Kind() == types.UnsafePointer
}

// ---- TAB-11: every namespace is written and every stored namespace is read back ---------

func init() {
	register(&Rule{ID: "TAB-11", Doc: "no namespace is skipped by the file format: in BuildFile every iteration of the namespace loop reaches the store into file.Namespaces, and in File.BuildCatalog every iteration either fails the load or reaches the store into catalog.Namespaces (an empty collection still carries its index definitions)", Run: ruleTab11})
}

func ruleTab11(c *Ctx, r *Reporter) {
	n := 0
	for _, name := range []string{"BuildFile", "File.BuildCatalog"} {
		fn := c.lookupSSA(pkgLungo, name)
		if fn == nil {
			r.bad("anchor:"+name, "-", "not found")
			continue
		}
		for _, lp := range namespaceLoops(c, fn) {
			var loopKey ssa.Value
			if refs := lp.next.Referrers(); refs != nil {
				for _, ref := range *refs {
					if ex, ok := ref.(*ssa.Extract); ok && ex.Index == 1 {
						loopKey = ex
					}
				}
			}
			// the table store: a MapUpdate keyed by the loop key
			isTableStore := func(in ssa.Instruction) bool {
				mu, ok := in.(*ssa.MapUpdate)
				return ok && lp.body[mu.Block()] && loopKey != nil && dependsOn(mu.Key, loopKey, map[ssa.Value]bool{})
			}
			found := false
			allInstrs(fn, func(in ssa.Instruction) {
				if isTableStore(in) {
					found = true
				}
			})
			n++
			key := name + ":every namespace reaches the table"
			if !found {
				r.bad(key, c.pos(lp.next.Pos()), "no store into the namespace table keyed by the loop key")
				continue
			}
			// walk from the body entry: reaching the loop header again without the store is a skipped namespace
			hdr := lp.next.Block()
			start := hdr.Succs[0]
			skipped := false
			seen := map[*ssa.BasicBlock]bool{}
			var walk func(b *ssa.BasicBlock)
			walk = func(b *ssa.BasicBlock) {
				if skipped || seen[b] {
					return
				}
				seen[b] = true
				for _, in := range b.Instrs {
					if isTableStore(in) {
						return
					}
				}
				for _, s := range b.Succs {
					if s == hdr {
						skipped = true
						return
					}
					if lp.body[s] {
						walk(s)
					}
				}
			}
			walk(start)
			// the index definitions travel with the namespace: the loop over its Indexes is passed before the store
			noIdx := false
			seen2 := map[*ssa.BasicBlock]bool{}
			var walk2 func(b *ssa.BasicBlock)
			walk2 = func(b *ssa.BasicBlock) {
				if noIdx || seen2[b] {
					return
				}
				seen2[b] = true
				for _, in := range b.Instrs {
					if rg, ok := in.(*ssa.Range); ok {
						if u, ok := rg.X.(*ssa.UnOp); ok {
							if fa, ok := u.X.(*ssa.FieldAddr); ok && structFieldOf(fa).Name() == "Indexes" {
								return
							}
						}
					}
					if isTableStore(in) {
						noIdx = true
						return
					}
				}
				for _, s := range b.Succs {
					if lp.body[s] && s != hdr {
						walk2(s)
					}
				}
			}
			walk2(start)
			r.check(!noIdx, name+":indexes travel with the namespace", c.pos(lp.next.Pos()), "every path to the store of a namespace passes the loop over its Indexes", "a namespace can be stored without its indexes having been copied (a shortcut for some namespaces, e.g. empty ones): its index definitions - including unique and _id_ - are gone after a reload")
			r.check(!skipped, key, c.pos(lp.next.Pos()), "every iteration that continues the loop has stored its namespace", "an iteration can continue with the next namespace without storing this one: the skipped namespace (e.g. an empty collection with its unique and TTL indexes) is missing after a reload")
		}
	}
	r.guard(n, 2, "namespace loops in BuildFile/BuildCatalog")
}

// fromLibraryCall: the value is (a component of) the result of a call into a package outside the repository.
func fromLibraryCall(v ssa.Value) bool {
	if ex, ok := v.(*ssa.Extract); ok {
		v = ex.Tuple
	}
	call, ok := v.(*ssa.Call)
	if !ok {
		return false
	}
	f := calleeObj(&call.Call)
	return f != nil && f.Pkg() != nil && !strings.HasPrefix(f.Pkg().Path(), pkgLungo)
}

// ---- REC-1: mode flags survive recursion ------------------------------------------------

func init() {
	register(&Rule{ID: "REC-1", Doc: "path traversal modes are uniform along a path: every self-recursive function of bsonkit/mongokit (bsonkit.get, bsonkit.put) passes each of its boolean mode parameters (collect, compact, prepend) unchanged at every recursive call site, so a dotted path fans out over arrays the same way before and after a positional segment", Run: ruleRec1})
	register(&Rule{ID: "UPD-3", Doc: "$min and $max replace only on strict improvement: in the functions registered as $min/$max the bsonkit.Put of the operand is guarded by bsonkit.Compare(current, operand) > 0 resp. < 0 (strict), so an operand that compares equal - e.g. the same number in another numeric type - leaves the stored value and its type alone and the update reports no modification", Run: ruleUpd3})
	register(&Rule{ID: "WIN-6", Doc: "distinct collects element-wise: mongokit.Distinct calls bsonkit.Collect with compact, merge, flatten and distinct all true (missing values dropped, arrays of embedded documents merged, array elements individually, each value once in ascending order)", Run: ruleWin6})
}

func ruleRec1(c *Ctx, r *Reporter) {
	sites, params := 0, 0
	for _, fn := range c.repoFuncs() {
		p := fnPkgPath(fn)
		if fn.Parent() != nil || (p != pkgBsonkit && p != pkgMongokit) {
			continue
		}
		for pi, prm := range fn.Params {
			b, ok := prm.Type().Underlying().(*types.Basic)
			if !ok || b.Kind() != types.Bool {
				continue
			}
			n := 0
			bad := ""
			for _, g := range withClosures(fn) {
				allInstrs(g, func(in ssa.Instruction) {
					ci, ok := in.(ssa.CallInstruction)
					if !ok || ci.Common().StaticCallee() != fn || pi >= len(ci.Common().Args) {
						return
					}
					n++
					a := ci.Common().Args[pi]
					same := a == ssa.Value(prm)
					if fv, ok := a.(*ssa.FreeVar); ok && fv.Name() == prm.Name() {
						same = true
					}
					if !same && bad == "" {
						bad = fmt.Sprintf("the recursive call at %s passes %s for %s", c.pos(in.Pos()), a.Name(), prm.Name())
						if cst, ok := a.(*ssa.Const); ok {
							bad = fmt.Sprintf("the recursive call at %s passes the constant %s for %s", c.pos(in.Pos()), cst.Value, prm.Name())
						}
					}
				})
			}
			if n == 0 {
				continue
			}
			params++
			sites += n
			r.check(bad == "", fmt.Sprintf("%s:mode %s is passed down unchanged", funcName(fn), prm.Name()), c.pos(fn.Pos()), fmt.Sprintf("%d recursive call sites pass it unchanged", n), bad+": the rest of the path is traversed in another mode than its beginning")
		}
	}
	r.guard(params, 3, "boolean mode parameters of self-recursive functions")
	r.guard(sites, 8, "recursive call sites")
}

func ruleUpd3(c *Ctx, r *Reporter) {
	regs := readRegistries(c)
	putF := c.lookupFunc(pkgBsonkit, "Put")
	cmpF := c.lookupFunc(pkgBsonkit, "Compare")
	getF := c.lookupFunc(pkgBsonkit, "Get")
	if putF == nil || cmpF == nil || getF == nil {
		r.bad("anchor:bsonkit.Put/Compare/Get", "-", "not found")
		return
	}
	n := 0
	for _, it := range []struct {
		op   string
		sign int // sign of Compare(current, operand) that must hold for the replacement
	}{{"$min", 1}, {"$max", -1}} {
		var fn *ssa.Function
		for _, reg := range regs {
			if f := reg[it.op]; f != nil {
				fn = f
			}
		}
		if fn == nil || len(fn.Params) < 5 {
			r.bad("anchor:"+it.op, "-", "operator not registered")
			continue
		}
		operand := fn.Params[len(fn.Params)-1]
		// the comparison of the current value with the operand
		var cmp *ssa.Call
		swapped := false
		allInstrs(fn, func(in ssa.Instruction) {
			call, ok := in.(*ssa.Call)
			if !ok || calleeObj(&call.Call) != cmpF {
				return
			}
			a0, a1 := stripValue(call.Call.Args[0]), stripValue(call.Call.Args[1])
			isCur := func(v ssa.Value) bool {
				g, ok := v.(*ssa.Call)
				return ok && calleeObj(&g.Call) == getF
			}
			switch {
			case isCur(a0) && a1 == ssa.Value(operand):
				cmp, swapped = call, false
			case isCur(a1) && a0 == ssa.Value(operand):
				cmp, swapped = call, true
			}
		})
		key := it.op + ":replaces only on strict improvement"
		if cmp == nil {
			r.bad(key, c.pos(fn.Pos()), "no bsonkit.Compare of the current value with the operand")
			continue
		}
		want := it.sign
		if swapped {
			want = -want
		}
		// every path from the entry to a Put that follows the comparison in program order must have decided either
		// "the current value is Missing" or the strict sign test (this covers nested ifs, early returns and a || b)
		missing := c.lookupVar(pkgBsonkit, "Missing")
		isMissingV := func(v ssa.Value) bool {
			if u, ok := stripValue(v).(*ssa.UnOp); ok && u.Op == token.MUL {
				if g, ok := u.X.(*ssa.Global); ok && missing != nil && g.Object() == missing {
					return true
				}
			}
			return false
		}
		puts := 0
		bad := ""
		var putBlocks []*ssa.BasicBlock
		allInstrs(fn, func(in ssa.Instruction) {
			put, ok := in.(*ssa.Call)
			if !ok {
				return
			}
			isPut := calleeObj(&put.Call) == putF
			if h := staticFn(&put.Call); !isPut && h != nil && h.Blocks != nil && fnPkgPath(h) == pkgMongokit && len(callsIn(h, pkgBsonkit, "Put")) > 0 {
				// a function of the package that writes the document (set-and-record helper)
				isPut = true
			}
			if isPut {
				puts++
				putBlocks = append(putBlocks, put.Block())
			}
		})
		isPutBlock := func(b *ssa.BasicBlock) bool {
			for _, pb := range putBlocks {
				if pb == b {
					return true
				}
			}
			return false
		}
		paths, ends, trunc := enumPaths(fn.Blocks[0], nil, isPutBlock, 4096)
		if trunc {
			r.unk(key, c.pos(cmp.Pos()), "too many paths")
			continue
		}
		for pi, p := range paths {
			if ends[pi] == nil || !isPutBlock(ends[pi]) {
				continue
			}
			justified := false
			for _, d := range p {
				bo, ok := d.cond.(*ssa.BinOp)
				if !ok {
					continue
				}
				// current == Missing established
				if (bo.Op == token.EQL || bo.Op == token.NEQ) && (isMissingV(bo.X) || isMissingV(bo.Y)) && (bo.Op == token.EQL) == d.taken {
					justified = true
				}
				// strict sign of the comparison established
				if bo.X == ssa.Value(cmp) {
					if k, okK := constInt(bo.Y); okK {
						op := bo.Op
						if !d.taken {
							switch op {
							case token.LSS:
								op = token.GEQ
							case token.LEQ:
								op = token.GTR
							case token.GTR:
								op = token.LEQ
							case token.GEQ:
								op = token.LSS
							default:
								op = token.ILLEGAL
							}
						}
						pos := (op == token.GTR && k == 0) || (op == token.GEQ && k == 1)
						neg := (op == token.LSS && k == 0) || (op == token.LEQ && k == -1)
						if (want > 0 && pos) || (want < 0 && neg) {
							justified = true
						}
					}
				}
			}
			if !justified && bad == "" {
				bad = "a path reaches the Put without having established that the field is missing or that the comparison is strictly on the replacing side"
			}
		}
		n++
		if puts == 0 {
			r.bad(key, c.pos(cmp.Pos()), "no bsonkit.Put after the comparison")
			continue
		}
		r.check(bad == "", key, c.pos(cmp.Pos()), fmt.Sprintf("%d Put(s) behind the strict test", puts), bad+": an operand that compares equal (the same number in another numeric type) overwrites the stored value, changing its type and reporting a modification")
	}
	r.guard(n, 2, "$min/$max operators")
}

func ruleWin6(c *Ctx, r *Reporter) {
	fn := c.lookupSSA(pkgMongokit, "Distinct")
	collF := c.lookupFunc(pkgBsonkit, "Collect")
	if fn == nil || collF == nil {
		r.bad("anchor:mongokit.Distinct", "-", "not found")
		return
	}
	n := 0
	allInstrs(fn, func(in ssa.Instruction) {
		call, ok := in.(*ssa.Call)
		if !ok || calleeObj(&call.Call) != collF {
			return
		}
		n++
		sig := call.Call.Signature()
		for i := 2; i < len(call.Call.Args); i++ {
			name := sig.Params().At(i).Name()
			v, isConst := constBool(call.Call.Args[i])
			r.check(isConst && v, "mongokit.Distinct:Collect "+name, c.pos(call.Pos()), name+" = true", name+" is not the constant true: distinct no longer returns each value at the path (array elements individually, nested arrays merged) exactly once in ascending order")
		}
	})
	r.guard(n, 1, "bsonkit.Collect call in mongokit.Distinct")
}

// ---- PROJ-3: an inclusion projection copies every present value ---------------------------

func init() {
	register(&Rule{ID: "PROJ-3", Doc: "inclusion copies what is there: in the inclusion loop of mongokit.Project an iteration may go on to the next path without bsonkit.Put(res, path, Get(doc, path)) only when it established that the value is bsonkit.Missing or that the path is marked in state.skip; any other reason to skip (e.g. the value being null) drops a stored value from the result", Run: ruleProj3})
}

// innermostLoopHeader: the header of the innermost natural loop containing b (nil if none).
func innermostLoopHeader(b *ssa.BasicBlock) *ssa.BasicBlock {
	for h := b; h != nil; h = h.Idom() {
		isHdr := false
		for _, p := range h.Preds {
			if h.Dominates(p) {
				isHdr = true
			}
		}
		if !isHdr {
			continue
		}
		// b must reach h again without leaving: b reaches one of h's latches
		reach := blockReach([]*ssa.BasicBlock{b}, map[*ssa.BasicBlock]bool{h: true})
		for _, p := range h.Preds {
			if h.Dominates(p) && (reach[p] || p == b) {
				return h
			}
		}
	}
	return nil
}

func ruleProj3(c *Ctx, r *Reporter) {
	fn := c.lookupSSA(pkgMongokit, "Project")
	putF := c.lookupFunc(pkgBsonkit, "Put")
	getF := c.lookupFunc(pkgBsonkit, "Get")
	missing := c.lookupVar(pkgBsonkit, "Missing")
	if fn == nil || putF == nil || getF == nil || missing == nil {
		r.bad("anchor:mongokit.Project", "-", "not found")
		return
	}
	isMissing := func(v ssa.Value) bool {
		if u, ok := stripValue(v).(*ssa.UnOp); ok && u.Op == token.MUL {
			if g, ok := u.X.(*ssa.Global); ok && g.Object() == missing {
				return true
			}
		}
		return false
	}
	// the copying Put: value is the result of Get(doc, <same path>)
	var put *ssa.Call
	var get *ssa.Call
	coneInstrs(fn, func(in ssa.Instruction) {
		call, ok := in.(*ssa.Call)
		if !ok || calleeObj(&call.Call) != putF {
			return
		}
		g, ok := stripValue(call.Call.Args[2]).(*ssa.Call)
		if !ok || calleeObj(&g.Call) != getF {
			return
		}
		if innermostLoopHeader(call.Block()) != nil && (g.Call.Args[1] == call.Call.Args[1] || sameSource(g.Call.Args[1], call.Call.Args[1])) {
			put, get = call, g
		}
	})
	if put == nil {
		r.bad("Project:inclusion copy", c.pos(fn.Pos()), "no Put(res, path, Get(doc, path)) inside a loop found")
		return
	}
	hdr := innermostLoopHeader(put.Block())
	// body entry: the successor of the header that dominates the Get
	var start *ssa.BasicBlock
	for _, s := range hdr.Succs {
		if s == get.Block() || s.Dominates(get.Block()) {
			start = s
		}
	}
	if start == nil {
		r.unk("Project:inclusion copy", c.pos(put.Pos()), "cannot locate the loop body")
		return
	}
	paths, ends, trunc := enumPaths(start, hdr, func(b *ssa.BasicBlock) bool { return b == hdr || b == put.Block() }, 4096)
	if trunc {
		r.unk("Project:inclusion copy", c.pos(put.Pos()), "too many paths")
		return
	}
	nSkip, nCopy := 0, 0
	bad := ""
	for pi, p := range paths {
		switch ends[pi] {
		case put.Block():
			nCopy++
			continue
		case hdr:
		default:
			continue
		}
		nSkip++
		justified := false
		var why []string
		for _, d := range p {
			// value == Missing established
			if bo, ok := d.cond.(*ssa.BinOp); ok && (bo.Op == token.EQL || bo.Op == token.NEQ) {
				var other ssa.Value
				switch {
				case isMissing(bo.X):
					other = bo.Y
				case isMissing(bo.Y):
					other = bo.X
				}
				if other != nil && stripValue(other) == ssa.Value(get) && (bo.Op == token.EQL) == d.taken {
					justified = true
				}
				if other == nil && (stripValue(bo.X) == ssa.Value(get) || stripValue(bo.Y) == ssa.Value(get)) && (bo.Op == token.EQL) == d.taken {
					why = append(why, "the value equals something other than Missing")
				}
			}
			// state.skip[path] (a map lookup used as condition) true
			v := d.cond
			if ex, ok := v.(*ssa.Extract); ok {
				v = ex.Tuple
			}
			if lk, ok := v.(*ssa.Lookup); ok && d.taken {
				if _, isMap := lk.X.Type().Underlying().(*types.Map); isMap {
					justified = true
				}
			}
		}
		if !justified && bad == "" {
			bad = "an iteration goes on without copying the value although it is neither Missing nor marked to be skipped"
			if len(why) > 0 {
				bad += " (" + why[0] + ")"
			}
		}
	}
	if nCopy == 0 {
		r.bad("Project:inclusion copy", c.pos(put.Pos()), "no path through the loop body reaches the copy")
		return
	}
	r.check(bad == "", "Project:inclusion copy", c.pos(put.Pos()), fmt.Sprintf("%d copying and %d skipping paths; every skip is justified by Missing or state.skip", nCopy, nSkip), bad+": an included field that holds such a value (null) is absent from the projected document")
}

// ---- PROJ-4: what a projecting call hands out has been through the projection ------------

func init() {
	register(&Rule{ID: "PROJ-4", Doc: "no result path bypasses the projection: in every driver Collection method that calls mongokit.Project / ProjectList, each document (list) stored into the returned SingleResult.doc / Cursor.list is the variable the projection result is assigned to (its phi cone contains the projection call's result), so no branch - e.g. the upsert branch of FindOneAndUpdate - returns the unprojected stored document", Run: ruleProj4})
}

func ruleProj4(c *Ctx, r *Reporter) {
	collT := c.lookupType(pkgLungo, "Collection")
	projF := c.lookupFunc(pkgMongokit, "Project")
	projLF := c.lookupFunc(pkgMongokit, "ProjectList")
	docF := c.field(pkgLungo, "SingleResult", "doc")
	listF := c.field(pkgLungo, "Cursor", "list")
	if collT == nil || projF == nil || projLF == nil || docF == nil || listF == nil {
		r.bad("anchor:Collection/Project/SingleResult.doc/Cursor.list", "-", "not found")
		return
	}
	n := 0
	for i := 0; i < collT.NumMethods(); i++ {
		fn := c.ssaFunc(collT.Method(i))
		if fn == nil {
			continue
		}
		var proj *ssa.Call
		allInstrs(fn, func(in ssa.Instruction) {
			if call, ok := in.(*ssa.Call); ok {
				if f := calleeObj(&call.Call); f == projF || f == projLF {
					proj = call
				}
			}
		})
		if proj == nil {
			continue
		}
		projRes := tupleResult(proj, 0)
		var inCone func(v ssa.Value, seen map[ssa.Value]bool) bool
		inCone = func(v ssa.Value, seen map[ssa.Value]bool) bool {
			if v == nil || seen[v] {
				return false
			}
			seen[v] = true
			if v == projRes || v == ssa.Value(proj) {
				return true
			}
			switch x := v.(type) {
			case *ssa.Phi:
				for _, e := range x.Edges {
					if inCone(e, seen) {
						return true
					}
				}
			case *ssa.UnOp:
				// an element of the projected list
				if ia, ok := x.X.(*ssa.IndexAddr); ok && x.Op == token.MUL {
					return inCone(ia.X, seen)
				}
				// a local cell: any store of the projection result into it
				if a, ok := x.X.(*ssa.Alloc); ok && x.Op == token.MUL {
					if refs := a.Referrers(); refs != nil {
						for _, ref := range *refs {
							if st, ok := ref.(*ssa.Store); ok && st.Addr == a && inCone(st.Val, seen) {
								return true
							}
						}
					}
				}
			}
			return false
		}
		stores := 0
		bad := ""
		allInstrs(fn, func(in ssa.Instruction) {
			st, ok := in.(*ssa.Store)
			if !ok {
				return
			}
			fa, ok := st.Addr.(*ssa.FieldAddr)
			if !ok || (structFieldOf(fa) != docF && structFieldOf(fa) != listF) || isNilConst(st.Val) {
				return
			}
			stores++
			if !inCone(st.Val, map[ssa.Value]bool{}) && bad == "" {
				bad = fmt.Sprintf("the result built at %s carries a value that never went through the projection", c.pos(st.Pos()))
			}
		})
		n++
		key := funcName(fn) + ":results are projected"
		if stores == 0 {
			r.bad(key, c.pos(proj.Pos()), "the method projects but stores no document into its result")
			continue
		}
		r.check(bad == "", key, c.pos(proj.Pos()), fmt.Sprintf("%d result store(s), each of the variable that receives the projection", stores), bad+": that branch returns the full stored document (and accepts projections that should be rejected)")
	}
	r.guard(n, 5, "driver methods that apply a projection")
}

// ---- IDX-9: multi-key index maintenance visits every tuple -------------------------------

func init() {
	register(&Rule{ID: "IDX-9", Doc: "multi-key entries are added and removed completely: in bsonkit.Index.Add and Index.Remove the loop that calls btree Set / Delete for the document's tuples has no early exit (no return or break inside it) - equal tuples of one document (an array holding the same value twice) collapse to one entry, so a missed Delete on a later tuple is normal and must not abort the removal", Run: ruleIdx9})
	register(&Rule{ID: "TTL-2", Doc: "an expiry pass publishes what it deleted: in Transaction.Expire the counter that decides whether the cloned catalog is installed accumulates over all namespaces (every update inside the namespace loop is counter + something), so deletions in one namespace are not forgotten when a later namespace has nothing to expire", Run: ruleTTL2})
}

func ruleIdx9(c *Ctx, r *Reporter) {
	n := 0
	for _, it := range [][2]string{{"Index.Add", "Set"}, {"Index.Remove", "Delete"}} {
		fn := c.lookupSSA(pkgBsonkit, it[0])
		if fn == nil {
			r.bad("anchor:bsonkit."+it[0], "-", "not found")
			continue
		}
		var call ssa.CallInstruction
		allInstrs(fn, func(in ssa.Instruction) {
			if ci, ok := in.(ssa.CallInstruction); ok {
				if f := calleeObj(ci.Common()); f != nil && f.Name() == it[1] && f.Pkg() != nil && strings.Contains(f.Pkg().Path(), "btree") {
					call = ci
				}
			}
		})
		key := "bsonkit." + it[0] + ":every tuple is visited"
		if call == nil {
			r.bad(key, c.pos(fn.Pos()), "no btree."+it[1]+" call")
			continue
		}
		hdr := innermostLoopHeader(call.Block())
		if hdr == nil {
			r.bad(key, c.pos(call.Pos()), "btree."+it[1]+" is not called in a loop over the document's tuples")
			continue
		}
		n++
		// body: blocks dominated by the body entry (lexically inside the loop)
		var entry *ssa.BasicBlock
		for _, s := range hdr.Succs {
			if s == call.Block() || s.Dominates(call.Block()) {
				entry = s
			}
		}
		bad := ""
		if entry != nil {
			for _, b := range fn.Blocks {
				if !(b == entry || entry.Dominates(b)) {
					continue
				}
				last := b.Instrs[len(b.Instrs)-1]
				if _, ok := last.(*ssa.Return); ok && bad == "" {
					bad = fmt.Sprintf("a return at %s inside the loop", c.pos(last.Pos()))
				}
				for _, s := range b.Succs {
					if s != hdr && !(s == entry || entry.Dominates(s)) && bad == "" {
						bad = "a break out of the loop"
					}
				}
			}
		}
		r.check(bad == "", key, c.pos(call.Pos()), "the loop over the tuples has no early exit", bad+" ends the maintenance before all tuples were handled: a document whose array holds the same value twice cannot be removed (the second Delete misses), and everything that must remove it - update, delete, TTL expiry - fails")
	}
	r.guard(n, 2, "tuple loops in bsonkit.Index.Add/Remove")
}

func ruleTTL2(c *Ctx, r *Reporter) {
	fn := c.lookupSSA(pkgLungo, "Transaction.Expire")
	catF := c.field(pkgLungo, "Transaction", "catalog")
	if fn == nil || catF == nil {
		r.bad("anchor:Transaction.Expire", "-", "not found")
		return
	}
	// the store of t.catalog and the test that guards it
	var pub *ssa.Store
	allInstrs(fn, func(in ssa.Instruction) {
		if st, ok := in.(*ssa.Store); ok {
			if fa, ok := st.Addr.(*ssa.FieldAddr); ok && structFieldOf(fa) == catF {
				pub = st
			}
		}
	})
	if pub == nil {
		r.bad("Expire:publish", c.pos(fn.Pos()), "Expire never stores t.catalog")
		return
	}
	var guard *ssa.If
	for b := pub.Block(); b != nil && guard == nil; b = b.Idom() {
		for _, p := range b.Preds {
			if iff, ok := p.Instrs[len(p.Instrs)-1].(*ssa.If); ok && p.Succs[0] == b && len(b.Preds) == 1 {
				guard = iff
			}
		}
	}
	if guard == nil {
		r.bad("Expire:publish guard", c.pos(pub.Pos()), "the store of t.catalog is not guarded by a test")
		return
	}
	bo, ok := guard.Cond.(*ssa.BinOp)
	if !ok {
		r.unk("Expire:publish guard", c.pos(guard.Pos()), "the guard is not a comparison")
		return
	}
	ph, ok := bo.X.(*ssa.Phi)
	if !ok {
		r.bad("Expire:deletion counter", c.pos(guard.Pos()), "the guard does not test a counter that is carried through the namespace loop")
		return
	}
	// every incoming value of the counter phi (transitively through phis) is 0 at entry, the phi itself, or phi + x
	bad := ""
	adds := 0
	seen := map[ssa.Value]bool{}
	var visit func(v ssa.Value)
	visit = func(v ssa.Value) {
		if seen[v] {
			return
		}
		seen[v] = true
		switch x := v.(type) {
		case *ssa.Phi:
			for _, e := range x.Edges {
				visit(e)
			}
		case *ssa.Const:
			if k, ok := constInt(x); !ok || k != 0 {
				bad = "the counter is set to a non-zero constant"
			}
		case *ssa.BinOp:
			carried := func(y ssa.Value) bool {
				_, isPhi := y.(*ssa.Phi)
				return isPhi && seen[y]
			}
			if x.Op == token.ADD && (carried(x.X) || carried(x.Y)) {
				adds++
				return
			}
			bad = fmt.Sprintf("the counter is assigned %s at %s, which does not include its previous value", x.Op, c.pos(x.Pos()))
		default:
			bad = fmt.Sprintf("the counter is overwritten at %s with a value that does not include its previous value", c.pos(v.Pos()))
		}
	}
	visit(ph)
	if adds == 0 && bad == "" {
		bad = "the counter is never increased"
	}
	r.check(bad == "", "Expire:deletion counter accumulates", c.pos(guard.Pos()), fmt.Sprintf("%d update(s), each counter + n", adds), bad+": when the namespace visited last has nothing to expire the pass discards the deletions (and delete events) of all other namespaces")
}

// ---- PANIC-6: trimming both ends of a string needs both shape tests -----------------------

func init() {
	register(&Rule{ID: "PANIC-6", Doc: "a string is cut at both ends only after both ends were checked: every slice expression s[a : len(s)-b] with constants a, b > 0 in the repository is dominated by the success of strings.HasPrefix(s, p) and strings.HasSuffix(s, q) with len(p) >= a, len(q) >= b and p, q unable to overlap (or by a length test len(s) >= a+b); with only one of them a short input such as \"$]\" makes the bounds cross and the slice panics", Run: rulePanic6})
	register(&Rule{ID: "LOG-5", Doc: "$push records element-wise changes only for an append at the end: in the function registered as $push the Changes.Record calls whose path ends in a computed index are dominated by the true edge of an equality between the insertion position and len(original array); an insertion elsewhere shifts elements, so only the whole array describes the change", Run: ruleLog5})
}

// panic6Scan examines the double-ended cuts s[a : len(s)-b] of one function: how many there are and which are unguarded.
func panic6Scan(fn *ssa.Function, report func(sl *ssa.Slice, a, b int64, safe bool, prefixes, suffixes []string)) {
	allInstrs(fn, func(in ssa.Instruction) {
		sl, ok := in.(*ssa.Slice)
		if !ok || sl.Low == nil || sl.High == nil {
			return
		}
		a, okA := constInt(sl.Low)
		if !okA || a <= 0 {
			return
		}
		hb, ok := sl.High.(*ssa.BinOp)
		if !ok || hb.Op != token.SUB {
			return
		}
		b, okB := constInt(hb.Y)
		lc, okL := hb.X.(*ssa.Call)
		if !okB || b <= 0 || !okL {
			return
		}
		if bi, ok := lc.Call.Value.(*ssa.Builtin); !ok || bi.Name() != "len" || !(lc.Call.Args[0] == sl.X || sameSource(lc.Call.Args[0], sl.X)) {
			return
		}
		var prefixes, suffixes []string
		for _, blk := range fn.Blocks {
			iff, ok := blk.Instrs[len(blk.Instrs)-1].(*ssa.If)
			if !ok {
				continue
			}
			for i, s := range blk.Succs {
				if len(s.Preds) != 1 || !(s == sl.Block() || s.Dominates(sl.Block())) {
					continue
				}
				cond, neg := iff.Cond, i == 1
				for {
					if u, ok := cond.(*ssa.UnOp); ok && u.Op == token.NOT {
						cond, neg = u.X, !neg
						continue
					}
					break
				}
				if call, ok := cond.(*ssa.Call); ok && !neg {
					if f := calleeObj(&call.Call); f != nil && f.Pkg() != nil && f.Pkg().Path() == "strings" && len(call.Call.Args) == 2 && (call.Call.Args[0] == sl.X || sameSource(call.Call.Args[0], sl.X)) {
						if p, ok := constString(call.Call.Args[1]); ok {
							switch f.Name() {
							case "HasPrefix":
								prefixes = append(prefixes, p)
							case "HasSuffix":
								suffixes = append(suffixes, p)
							}
						}
					}
				}
			}
		}
		lo, _ := lenInterval(fn, func(v ssa.Value) bool { return v == sl.X || sameSource(v, sl.X) }, sl.Block())
		safe := lo >= a+b
		for _, p := range prefixes {
			for _, q := range suffixes {
				if int64(len(p)) < a || int64(len(q)) < b {
					continue
				}
				overlap := false
				for k := 1; k <= len(p) && k <= len(q); k++ {
					if p[len(p)-k:] == q[:k] {
						overlap = true
					}
				}
				if !overlap {
					safe = true
				}
			}
		}
		report(sl, a, b, safe, prefixes, suffixes)
	})
}

func rulePanic6(c *Ctx, r *Reporter) {
	n := 0
	for _, fn := range c.repoFuncs() {
		panic6Scan(fn, func(sl *ssa.Slice, a, b int64, safe bool, prefixes, suffixes []string) {
			n++
			key := fmt.Sprintf("%s:slice [%d : len-%d]", funcName(fn), a, b)
			r.check(safe, key, c.pos(sl.Pos()), "reached only after both the prefix and the suffix test succeeded (they cannot overlap), so len(s) >= a+b", fmt.Sprintf("not dominated by both a HasPrefix (found %q) and a HasSuffix (found %q) success nor by a length test: an input shorter than %d characters that passes the remaining test makes the bounds cross and the slice panics", prefixes, suffixes, a+b))
		})
	}
	// the number of such cuts may legitimately be zero (strings.CutPrefix/CutSuffix need no bounds): the rule's
	// eyesight is checked on an embedded example instead of a count
	r.trivial("double-ended string cuts", "-", fmt.Sprintf("%d found", n))
	positiveCheck(r, "PANIC-6 unguarded double-ended cut", "CutBothBad", "CutBothGood", func(fn *ssa.Function) int {
		k := 0
		panic6Scan(fn, func(_ *ssa.Slice, _, _ int64, safe bool, _, _ []string) {
			if !safe {
				k++
			}
		})
		return k
	})
}

func ruleLog5(c *Ctx, r *Reporter) {
	regs := readRegistries(c)
	var fn *ssa.Function
	for _, reg := range regs {
		if f := reg["$push"]; f != nil {
			fn = f
		}
	}
	recF := c.lookupFunc(pkgMongokit, "Changes.Record")
	if fn == nil || recF == nil {
		r.bad("anchor:$push/Changes.Record", "-", "not found")
		return
	}
	n := 0
	allInstrs(fn, func(in ssa.Instruction) {
		call, ok := in.(*ssa.Call)
		if !ok || calleeObj(&call.Call) != recF {
			return
		}
		// element-wise record: the path argument is a concatenation that involves strconv.Itoa
		pathArg := call.Call.Args[1]
		isElem := false
		var walk func(v ssa.Value, d int)
		walk = func(v ssa.Value, d int) {
			if d > 4 {
				return
			}
			switch x := v.(type) {
			case *ssa.BinOp:
				walk(x.X, d+1)
				walk(x.Y, d+1)
			case *ssa.Call:
				if f := calleeObj(&x.Call); f != nil && f.Pkg() != nil && f.Pkg().Path() == "strconv" {
					isElem = true
				}
			}
		}
		walk(pathArg, 0)
		if !isElem {
			return
		}
		n++
		// a dominating true edge of  <int> == len(<array>)
		okEq := false
		for _, blk := range fn.Blocks {
			iff, ok := blk.Instrs[len(blk.Instrs)-1].(*ssa.If)
			if !ok {
				continue
			}
			bo, ok := iff.Cond.(*ssa.BinOp)
			if !ok || (bo.Op != token.EQL && bo.Op != token.NEQ) {
				continue
			}
			isLen := func(v ssa.Value) bool {
				lc, ok := v.(*ssa.Call)
				if !ok {
					return false
				}
				bi, ok := lc.Call.Value.(*ssa.Builtin)
				return ok && bi.Name() == "len"
			}
			isInt := func(v ssa.Value) bool {
				b, ok := v.Type().Underlying().(*types.Basic)
				return ok && b.Info()&types.IsInteger != 0
			}
			if !((isLen(bo.X) && isInt(bo.Y)) || (isLen(bo.Y) && isInt(bo.X))) {
				continue
			}
			idx := 0
			if bo.Op == token.NEQ {
				idx = 1
			}
			s := blk.Succs[idx]
			if len(s.Preds) == 1 && (s == call.Block() || s.Dominates(call.Block())) {
				okEq = true
			}
		}
		r.check(okEq, "$push:element-wise change records", c.pos(call.Pos()), "taken only when the insertion position equals len(array)", "the element-wise records are not behind an equality of the insertion position with len(array): an insertion at the front or in the middle is recorded as an overwrite of single elements, and applying the event's updated fields to the previous document no longer yields the new one")
	})
	r.guard(n, 1, "element-wise Changes.Record calls in $push")
}

// ---- SCH-1: $jsonSchema keywords are evaluated independently of their order ---------------

func init() {
	register(&Rule{ID: "SCH-1", Doc: "$jsonSchema does not depend on the order of its keywords: in every method of bsonkit.Schema, inside a loop over the schema document no variable that the loop itself assigns (a value carried from one keyword to the next) is used by a computation of the same loop; modifiers such as exclusiveMinimum are collected in a loop of their own before the keywords they modify are evaluated", Run: ruleSch1})
}

func ruleSch1(c *Ctx, r *Reporter) {
	schT := c.lookupType(pkgBsonkit, "Schema")
	docF := c.field(pkgBsonkit, "Schema", "Doc")
	if schT == nil || docF == nil {
		r.bad("anchor:bsonkit.Schema", "-", "not found")
		return
	}
	loops := 0
	for i := 0; i < schT.NumMethods(); i++ {
		fn := c.ssaFunc(schT.Method(i))
		if fn == nil {
			continue
		}
		for _, g := range withClosures(fn) {
			for _, hdr := range g.Blocks {
				var latches []*ssa.BasicBlock
				for _, p := range hdr.Preds {
					if hdr.Dominates(p) {
						latches = append(latches, p)
					}
				}
				if len(latches) == 0 {
					continue
				}
				// a loop over s.Doc: some element load from the Doc field inside the loop
				body := map[*ssa.BasicBlock]bool{hdr: true}
				var back func(b *ssa.BasicBlock)
				back = func(b *ssa.BasicBlock) {
					if body[b] {
						return
					}
					body[b] = true
					for _, p := range b.Preds {
						back(p)
					}
				}
				for _, l := range latches {
					back(l)
				}
				overDoc := false
				for b := range body {
					for _, in := range b.Instrs {
						if ia, ok := in.(*ssa.IndexAddr); ok && isLoadOf(ia.X, docF) {
							overDoc = true
						}
					}
				}
				if !overDoc {
					continue
				}
				loops++
				bad := ""
				for _, in := range hdr.Instrs {
					ph, ok := in.(*ssa.Phi)
					if !ok {
						break
					}
					if ph.Comment == "rangeindex" {
						continue
					}
					// assigned in the loop: a back-edge value other than itself
					assigned := false
					for k, p := range hdr.Preds {
						if hdr.Dominates(p) && ph.Edges[k] != ssa.Value(ph) {
							assigned = true
						}
					}
					if !assigned {
						continue
					}
					// used in the loop by something that is not just carrying it on
					var used ssa.Instruction
					var visit func(v ssa.Value, seen map[ssa.Value]bool)
					visit = func(v ssa.Value, seen map[ssa.Value]bool) {
						if seen[v] || used != nil {
							return
						}
						seen[v] = true
						refs := v.Referrers()
						if refs == nil {
							return
						}
						for _, ref := range *refs {
							if ref.Block() == nil || !body[ref.Block()] {
								continue
							}
							if ph2, ok := ref.(*ssa.Phi); ok {
								visit(ph2, seen)
								continue
							}
							used = ref
							return
						}
					}
					visit(ph, map[ssa.Value]bool{})
					if used != nil && bad == "" {
						pos := used.Pos()
						for k := len(used.Block().Instrs) - 1; k >= 0 && pos == token.NoPos; k-- {
							pos = used.Block().Instrs[k].Pos()
						}
						name := ph.Comment
						if name == "" {
							name = ph.Name()
						}
						bad = fmt.Sprintf("%s is assigned by the loop over the keywords and used in the same loop at %s", name, c.pos(pos))
					}
				}
				pos := token.NoPos
				for _, in := range hdr.Instrs {
					if in.Pos() != token.NoPos {
						pos = in.Pos()
					}
				}
				for _, p := range hdr.Preds {
					for k := len(p.Instrs) - 1; k >= 0 && pos == token.NoPos; k-- {
						pos = p.Instrs[k].Pos()
					}
				}
				key := fmt.Sprintf("%s:keyword loop #%d is order independent", funcName(g), loops)
				r.check(bad == "", key, c.pos(pos), "no value is carried from one keyword to the next within the loop", bad+": the result of validating a value depends on whether the modifying keyword comes before or after the keyword it modifies, so two spellings of the same schema select different documents")
			}
		}
	}
	r.guard(loops, 4, "loops over the schema document in bsonkit.Schema")
}

// ---- LOCK-11: the commit is one critical section and keeps the token to its end -----------

func init() {
	register(&Rule{ID: "LOCK-11", Doc: "a commit keeps the writer token until it has published: in Engine.Commit no non-deferred Semaphore.Release can be followed by the e.store.Store call or by the store of e.catalog (the token is given up when the function returns); otherwise the next writer begins from the catalog this commit is about to replace and one of the two acknowledged writes is lost", Run: ruleLock11})
}

func ruleLock11(c *Ctx, r *Reporter) {
	fn := c.lookupSSA(pkgLungo, "Engine.Commit")
	relF := c.lookupFunc(pkgDbkit, "Semaphore.Release")
	storeF := c.field(pkgLungo, "Engine", "store")
	catF := c.field(pkgLungo, "Engine", "catalog")
	if fn == nil || relF == nil || storeF == nil || catF == nil {
		r.bad("anchor:Engine.Commit", "-", "not found")
		return
	}
	var targets []ssa.Instruction
	allInstrs(fn, func(in ssa.Instruction) {
		switch x := in.(type) {
		case *ssa.Call:
			if x.Call.IsInvoke() && x.Call.Method.Name() == "Store" && isLoadOf(x.Call.Value, storeF) {
				targets = append(targets, in)
			}
		case *ssa.Store:
			if fa, ok := x.Addr.(*ssa.FieldAddr); ok && structFieldOf(fa) == catF {
				targets = append(targets, in)
			}
		}
	})
	if len(targets) < 2 {
		r.bad("Engine.Commit:persist and publish", c.pos(fn.Pos()), "the Store call or the store of e.catalog was not found")
		return
	}
	n := 0
	allInstrs(fn, func(in ssa.Instruction) {
		call, ok := in.(*ssa.Call) // deferred calls are *ssa.Defer and run at the exits
		if !ok {
			return
		}
		f := calleeObj(&call.Call)
		what := ""
		switch {
		case f == relF:
			what = "the writer token is released"
		}
		if what == "" {
			return
		}
		n++
		for _, t := range targets {
			if instrReaches(call, t) {
				r.bad("Engine.Commit:exclusive until published", c.pos(call.Pos()), fmt.Sprintf("%s at %s and the commit goes on to persist / publish at %s: another writer can begin in between, from the catalog this commit replaces", what, c.pos(call.Pos()), c.pos(t.Pos())))
				return
			}
		}
	})
	defers := 0
	allInstrs(fn, func(in ssa.Instruction) {
		if d, ok := in.(*ssa.Defer); ok {
			if f := calleeObj(&d.Call); f == relF {
				defers++
			}
		}
	})
	r.ok("Engine.Commit:exclusive until published:summary", c.pos(fn.Pos()), fmt.Sprintf("%d inline and %d deferred token release sites examined", n, defers))
	r.guard(n+defers, 1, "token release sites in Engine.Commit")
}

// ---- ERR-1: no status result is dropped ----------------------------------------------------

func init() {
	register(&Rule{ID: "ERR-1", Doc: "no outcome is ignored: every error result, and every bool result of a repository function (the `ok` of Set.Add/Replace/Remove, Index.Add/Remove/Build, Semaphore.Acquire, ...), is used by its caller, except at the listed clean-up sites (closing or removing something on a path that already failed or is shutting down); a dropped result turns a rejected or failed step into a silent success", Run: ruleErr1})
}

// statusBool: repository functions whose bool result says whether the step took effect (not a mode or a property of the value).
var statusBool = map[string]bool{"Add": true, "Remove": true, "Replace": true, "Build": true, "Acquire": true}

// droppable: "caller function -> callee" pairs whose dropped result is deliberate, with the reason.
var err1Allowed = map[string]string{
	"dbkit.AtomicWriteFile -> File.Close":         "deferred close of the directory handle after its fsync was checked",
	"dbkit.AtomicWriteFile$closure -> File.Close": "clean-up of the temporary file on a path that already failed",
	"dbkit.AtomicWriteFile$closure -> os.Remove":  "clean-up of the temporary file on a path that already failed",
	"bsonkit.NewSet -> Set.Add":                   "a document listed twice is kept once: the duplicate is ignored by design",
	"lungo.Transaction.Clean -> Set.Remove":       "removes List[0] of the cloned oplog, which is always present (LOG-3 checks the operand)",
	"lungo.Stream.ResumeToken -> bson.Marshal":    "marshalling a document produced by the library itself",
}

// err1AnyCaller: clean-up calls whose error carries no information the caller could act on, wherever they are made.
var err1AnyCaller = map[string]string{
	"Session.AbortTransaction": "aborting is idempotent; used to make sure a transaction is gone after the work is done or failed",
	"UploadStream.Abort":       "best-effort removal of a failed upload; the original error is what the caller reports",
	"ICursor.Close":            "closing a read cursor",
	"Tomb.Wait":                "returns the kill reason, which is nil by construction",
}

func ruleErr1(c *Ctx, r *Reporter) {
	n, dropped := 0, 0
	used := map[string]bool{}
	for _, fn := range c.repoFuncs() {
		allInstrs(fn, func(in ssa.Instruction) {
			var cc *ssa.CallCommon
			var val ssa.Value
			deferred := false
			switch x := in.(type) {
			case *ssa.Call:
				cc, val = &x.Call, x
			case *ssa.Defer:
				cc, deferred = &x.Call, true
			case *ssa.Go:
				return
			default:
				return
			}
			if _, ok := cc.Value.(*ssa.Builtin); ok {
				return
			}
			sig := cc.Signature()
			if sig == nil || sig.Results().Len() == 0 {
				return
			}
			f := calleeObj(cc)
			repoCallee := f != nil && f.Pkg() != nil && strings.HasPrefix(f.Pkg().Path(), pkgLungo)
			// which result components matter
			var idxs []int
			for i := 0; i < sig.Results().Len(); i++ {
				t := sig.Results().At(i).Type()
				if isErrorType(t) {
					idxs = append(idxs, i)
				} else if b, ok := t.Underlying().(*types.Basic); ok && b.Kind() == types.Bool && repoCallee && statusBool[f.Name()] {
					idxs = append(idxs, i)
				}
			}
			if len(idxs) == 0 {
				return
			}
			n++
			isUsed := func(i int) bool {
				if deferred || val == nil {
					return false
				}
				refs := val.Referrers()
				if refs == nil {
					return false
				}
				if sig.Results().Len() == 1 {
					if deadDeferredStoresOnly(val, fn) {
						return false
					}
					for _, ref := range *refs {
						if _, isDbg := ref.(*ssa.DebugRef); !isDbg {
							return true
						}
					}
					return false
				}
				for _, ref := range *refs {
					if ex, ok := ref.(*ssa.Extract); ok && ex.Index == i {
						if deadDeferredStoresOnly(ex, fn) {
							return false
						}
						if rr := ex.Referrers(); rr != nil && len(*rr) > 0 {
							return true
						}
					}
				}
				return false
			}
			for _, i := range idxs {
				if isUsed(i) {
					continue
				}
				dropped++
				callee := "?"
				if f != nil {
					callee = fullShort(f)
					if f.Pkg() != nil && !strings.HasPrefix(f.Pkg().Path(), pkgLungo) {
						callee = f.Pkg().Name() + "." + f.Name()
						if recv := f.Type().(*types.Signature).Recv(); recv != nil {
							if nm := derefNamed(recv.Type()); nm != nil {
								callee = nm.Obj().Name() + "." + f.Name()
							}
						}
					}
				} else if cc.IsInvoke() {
					callee = cc.Method.Name()
					if nm := derefNamed(cc.Value.Type()); nm != nil {
						callee = nm.Obj().Name() + "." + cc.Method.Name()
					}
				}
				caller := strings.TrimPrefix(strings.TrimPrefix(funcName(fn), "(*"), "(")
				caller = strings.Replace(caller, ")", "", 1)
				pair := closureNeutral(caller) + " -> " + callee
				key := "dropped result: " + pair
				if ci, ok := in.(ssa.CallInstruction); ok && isReadOnlyHandleClose(ci) {
					r.ok(key, c.pos(in.Pos()), "closing a handle obtained from os.Open (read-only): nothing to lose")
					continue
				}
				if f != nil && f.Pkg() != nil && (f.Pkg().Path() == "strings" && strings.HasPrefix(callee, "Builder.Write") || f.Pkg().Path() == "bytes" && strings.HasPrefix(callee, "Buffer.Write")) {
					r.ok(key, c.pos(in.Pos()), "in-memory writer of the standard library: the error result is documented to be always nil")
					continue
				}
				if reason, ok := err1AnyCaller[callee]; ok {
					r.ok(key, c.pos(in.Pos()), "best-effort clean-up call: "+reason)
					continue
				}
				if reason, ok := err1Allowed[pair]; ok {
					used[pair] = true
					r.ok(key, c.pos(in.Pos()), "listed clean-up site: "+reason)
					continue
				}
				// the listed site may have moved into a private helper of the listed function
				moved := false
				plain := func(g *ssa.Function) string {
					up := strings.TrimPrefix(strings.TrimPrefix(funcName(g), "(*"), "(")
					return strings.Replace(up, ")", "", 1)
				}
				for _, up := range ownerNames(fn, plain)[1:] {
					if reason, ok := err1Allowed[up+" -> "+callee]; ok && !moved {
						used[up+" -> "+callee] = true
						r.ok(key, c.pos(in.Pos()), "listed clean-up site (in a private helper of "+up+"): "+reason)
						moved = true
					}
				}
				if moved {
					continue
				}
				kind := "error"
				if !isErrorType(sig.Results().At(i).Type()) {
					kind = "bool"
				}
				r.bad(key, c.pos(in.Pos()), fmt.Sprintf("the %s result of %s is not used: a failed or rejected step is treated as success", kind, callee))
			}
		})
	}
	r.ok("summary", "-", fmt.Sprintf("%d calls with an error / status result examined, %d results dropped (all listed)", n, dropped))
	r.guard(n, 300, "calls with an error or status result")
}

// deadDeferredStoresOnly: v is used for nothing but being stored, inside a deferred function literal, into a variable
// of the enclosing function that is not one of its named results. Deferred functions run after the results have been
// set, so such a store reaches nobody: `defer func() { err = commit() }()` in a function with unnamed results drops
// the error although it looks assigned.
func deadDeferredStoresOnly(v ssa.Value, fn *ssa.Function) bool {
	par := fn.Parent()
	if par == nil || v.Referrers() == nil {
		return false
	}
	deferred := false
	allInstrs(par, func(in ssa.Instruction) {
		if d, ok := in.(*ssa.Defer); ok {
			if mc, ok := d.Call.Value.(*ssa.MakeClosure); ok && mc.Fn == ssa.Value(fn) {
				deferred = true
			}
		}
	})
	if !deferred {
		return false
	}
	n := 0
	for _, ref := range *v.Referrers() {
		switch x := ref.(type) {
		case *ssa.DebugRef:
		case *ssa.Store:
			fv, ok := x.Addr.(*ssa.FreeVar)
			if !ok || x.Val != v {
				return false
			}
			// named result of the parent?
			res := par.Signature.Results()
			for i := 0; i < res.Len(); i++ {
				if res.At(i).Name() != "" && res.At(i).Name() == fv.Name() {
					return false
				}
			}
			n++
		default:
			return false
		}
	}
	return n > 0
}
