package main

import (
	"fmt"
	"go/token"
	"go/types"
	"sort"
	"strings"

	"golang.org/x/tools/go/ssa"
)

// Rules added after the fifth round of seeded changes (changes that cross a function boundary).

func init() {
	register(&Rule{ID: "ATOM-6", Doc: "a write is adopted whenever it changed something: in every Transaction method that runs the logging helpers (insert/replace/update/delete) and installs its working catalog under a condition, that condition depends - through counters, flags and helper functions - on every result component by which the helpers it calls report a change (Modified and Upserted for replace/update, Modified for insert, Matched for delete)", Run: ruleAtom6})
	register(&Rule{ID: "NIL-1", Doc: "no nil array enters a document: no value of a slice type that may be the nil constant (a `var x bson.A` that is only appended to under conditions, the result of a function that may return it) is stored into a document through bsonkit.Put or a bson.E literal in mongokit (the codec writes a nil slice as null, so an emptied array would come back from a reload as null)", Run: ruleNil1})
	register(&Rule{ID: "IDX-10", Doc: "building an index honours its partial filter: in mongokit.Index.Build every document handed to the base index went through Index.Add (which gates on the filter, IDX-4), or - when the base is built from a list - on every path on which config.Partial is set that list is the result of Filter(list, config.Partial, ...)", Run: ruleIdx10})
	register(&Rule{ID: "SEM-12", Doc: "matchUnwind leaves the verdict to the operator: every return of matchUnwind is the result of calling the operator callback, the error or nil such a call produced, or ErrNotMatched on a path that established a merged multi-value (multi && !yieldMerge) or exhausted the array loop; in particular a missing field is passed to the callback (null operands match missing fields)", Run: ruleSem12})
	register(&Rule{ID: "UPD-5", Doc: "$pullAll removes by equality: the function registered for $pullAll (with its function literals) selects elements with bsonkit.Compare(...) == 0 and never reaches the query matcher (pullMatches / Match), which would read a listed document as a condition", Run: ruleUpd5})
	register(&Rule{ID: "REC-2", Doc: "continuations stay in the recursion: a func-typed parameter of a self-recursive function of bsonkit/mongokit (resolve's callback, put's setter) is only called by that function or handed on to its own recursive calls (directly or through a function literal that does so); it is never passed to another function, which would end the expansion of the remaining path early", Run: ruleRec2})
	register(&Rule{ID: "PANIC-8", Doc: "constant indices are guarded: in package lungo every x[k] with constant k on a slice taken from a transaction Result (Matched, Modified, ...) is dominated by a test that establishes len(x) > k for that same slice", Run: rulePanic8})
	register(&Rule{ID: "GFS-6", Doc: "Suspend flushes what a flush would write: on every successful path of UploadStream.Suspend (followed into the functions of the package it calls, with constant arguments bound) that does not run upload, the tests on the path establish that upload(false) would have written nothing - the buffer is empty, or it holds less than a chunk and the upload marker already exists (upload inserts the marker of a tracked upload on its first run, and Resume needs it)", Run: ruleGfs6})
	register(&Rule{ID: "GFS-5", Doc: "a successful seek leaves a cursor behind the data: in DownloadStream.seek, after the old cursor has been dropped (s.cursor = nil), every path to a nil return that leaves a non-nil read buffer also stores a fresh cursor into s.cursor (next() takes a nil cursor for end of file)", Run: ruleGfs5})
}

// ---- ATOM-6 ----------------------------------------------------------------------------

// resultFieldDeps: the fields of lungo.Result the value v depends on - through arithmetic, phis (including the
// conditions that select between their edges), local cells, len(), and the results of lungo functions it is computed by.
func resultFieldDeps(c *Ctx, v ssa.Value, resT *types.Named, seen map[ssa.Value]bool, out map[string]bool, depth int) {
	if v == nil || seen[v] || depth > 24 {
		return
	}
	seen[v] = true
	fieldOf := func(a ssa.Value) (string, bool) {
		switch x := a.(type) {
		case *ssa.FieldAddr:
			if derefNamed(x.X.Type()) == resT {
				return structFieldOf(x).Name(), true
			}
		case *ssa.Field:
			if derefNamed(x.X.Type()) == resT {
				return structFieldOf(x).Name(), true
			}
		}
		return "", false
	}
	switch x := v.(type) {
	case *ssa.Const, *ssa.Parameter, *ssa.Global, *ssa.FreeVar:
		return
	case *ssa.Field:
		if f, ok := fieldOf(x); ok {
			out[f] = true
			return
		}
		resultFieldDeps(c, x.X, resT, seen, out, depth+1)
	case *ssa.UnOp:
		if x.Op == token.MUL {
			if f, ok := fieldOf(x.X); ok {
				out[f] = true
				return
			}
			// a local cell: what was stored into it
			if al, ok := x.X.(*ssa.Alloc); ok && al.Referrers() != nil {
				for _, ref := range *al.Referrers() {
					if st, ok := ref.(*ssa.Store); ok && st.Addr == ssa.Value(al) {
						resultFieldDeps(c, st.Val, resT, seen, out, depth+1)
					}
				}
				return
			}
			if fa, ok := x.X.(*ssa.FieldAddr); ok {
				// a field of a local struct (result.Modified of an accumulating Result handled above); other structs: the stores
				if al, ok := fa.X.(*ssa.Alloc); ok && al.Referrers() != nil {
					for _, ref := range *al.Referrers() {
						if fa2, ok := ref.(*ssa.FieldAddr); ok && fa2.Field == fa.Field && fa2.Referrers() != nil {
							for _, r2 := range *fa2.Referrers() {
								if st, ok := r2.(*ssa.Store); ok {
									resultFieldDeps(c, st.Val, resT, seen, out, depth+1)
								}
							}
						}
					}
				}
			}
			return
		}
		resultFieldDeps(c, x.X, resT, seen, out, depth+1)
	case *ssa.Phi:
		for _, e := range x.Edges {
			resultFieldDeps(c, e, resT, seen, out, depth+1)
		}
		// the conditions that decide which edge is taken: every test between the phi's dominator and the phi
		b := x.Block()
		if d := b.Idom(); d != nil {
			reach := blockReach([]*ssa.BasicBlock{d}, map[*ssa.BasicBlock]bool{})
			for blk := range reach {
				if blk == b && !b.Dominates(blk) {
					continue
				}
				if !d.Dominates(blk) || len(blk.Instrs) == 0 {
					continue
				}
				if !blockReach(blk.Succs, nil)[b] && blk != d {
					continue
				}
				if iff, ok := blk.Instrs[len(blk.Instrs)-1].(*ssa.If); ok {
					resultFieldDeps(c, iff.Cond, resT, seen, out, depth+1)
				}
			}
			if len(d.Instrs) > 0 {
				if iff, ok := d.Instrs[len(d.Instrs)-1].(*ssa.If); ok {
					resultFieldDeps(c, iff.Cond, resT, seen, out, depth+1)
				}
			}
		}
	case *ssa.Call:
		if b, ok := x.Call.Value.(*ssa.Builtin); ok {
			for _, a := range x.Call.Args {
				resultFieldDeps(c, a, resT, seen, out, depth+1)
			}
			_ = b
			return
		}
		if h := staticFn(&x.Call); h != nil && h.Blocks != nil && fnPkgPath(h) == pkgLungo {
			// what the function's results are computed from (its own parameters' fields included)
			for _, ret := range returnsOf(h) {
				for i := range ret.Results {
					resultFieldDeps(c, retVal(ret, i), resT, seen, out, depth+1)
				}
				// and the conditions under which this return is chosen
				for blk := ret.Block(); blk != nil; blk = blk.Idom() {
					if id := blk.Idom(); id != nil && len(id.Instrs) > 0 {
						if iff, ok := id.Instrs[len(id.Instrs)-1].(*ssa.If); ok {
							resultFieldDeps(c, iff.Cond, resT, seen, out, depth+1)
						}
					}
				}
			}
			return
		}
		for _, a := range x.Call.Args {
			resultFieldDeps(c, a, resT, seen, out, depth+1)
		}
	default:
		if in, ok := v.(ssa.Instruction); ok {
			for _, op := range in.Operands(nil) {
				if op != nil && *op != nil {
					resultFieldDeps(c, *op, resT, seen, out, depth+1)
				}
			}
		}
	}
}

func ruleAtom6(c *Ctx, r *Reporter) {
	txnT := c.lookupType(pkgLungo, "Transaction")
	resT := c.lookupType(pkgLungo, "Result")
	catF := c.field(pkgLungo, "Transaction", "catalog")
	if txnT == nil || resT == nil || catF == nil {
		r.bad("anchor:Transaction/Result", "-", "not found")
		return
	}
	helpers := loggingHelpers(c)
	// what each helper reports a change by: the fields of the Result literals it returns
	signals := map[*ssa.Function][]string{}
	for _, h := range helpers {
		set := map[string]bool{}
		allInstrs(h, func(in ssa.Instruction) {
			st, ok := in.(*ssa.Store)
			if !ok {
				return
			}
			fa, ok := st.Addr.(*ssa.FieldAddr)
			if !ok || derefNamed(fa.X.Type()) != resT {
				return
			}
			if _, isAlloc := fa.X.(*ssa.Alloc); isAlloc {
				set[structFieldOf(fa).Name()] = true
			}
		})
		var sig []string
		for _, f := range []string{"Modified", "Upserted"} {
			if set[f] {
				sig = append(sig, f)
			}
		}
		if len(sig) == 0 && set["Matched"] {
			sig = []string{"Matched"}
		}
		signals[h] = sig
	}
	isHelper := func(f *ssa.Function) bool {
		for _, h := range helpers {
			if h == f {
				return true
			}
		}
		return false
	}
	n := 0
	for i := 0; i < txnT.NumMethods(); i++ {
		m := txnT.Method(i)
		fn := c.ssaFunc(m)
		if fn == nil || !m.Exported() {
			continue
		}
		// helpers run by this method (directly, or by a private helper of it)
		need := map[string][]string{}
		coneInstrs(fn, func(in ssa.Instruction) {
			if call, ok := in.(*ssa.Call); ok {
				if h := staticFn(&call.Call); h != nil && isHelper(h) {
					for _, f := range signals[h] {
						need[f] = append(need[f], h.Name())
					}
				}
			}
		})
		if len(need) == 0 {
			continue
		}
		// the store(s) of t.catalog and their guards
		var guards []ssa.Value
		stores := 0
		unconditional := false
		addGuards := func(st ssa.Instruction) {
			conds := controlConds(st.Block(), 2)
			guards = append(guards, conds...)
			if len(conds) == 0 {
				unconditional = true
			}
		}
		allInstrs(fn, func(in ssa.Instruction) {
			switch x := in.(type) {
			case *ssa.Store:
				if fa, ok := x.Addr.(*ssa.FieldAddr); ok && structFieldOf(fa) == catF {
					stores++
					addGuards(in)
				}
			case *ssa.Call:
				// the install step in an unexported method of the transaction: its bool arguments are the guard
				h := staticFn(&x.Call)
				if h == nil || h.Blocks == nil || isHelper(h) || h.Object() == nil || h.Object().Exported() || h.Signature.Recv() == nil || derefNamed(h.Signature.Recv().Type()) != txnT {
					return
				}
				storesCat := false
				allInstrs(h, func(y ssa.Instruction) {
					if st, ok := y.(*ssa.Store); ok {
						if fa, ok := st.Addr.(*ssa.FieldAddr); ok && structFieldOf(fa) == catF {
							storesCat = true
						}
					}
				})
				if !storesCat {
					return
				}
				stores++
				any := false
				for _, a := range x.Call.Args {
					if b, ok := a.Type().Underlying().(*types.Basic); ok && b.Kind() == types.Bool {
						guards = append(guards, a)
						any = true
					}
				}
				addGuards(in)
				if any {
					unconditional = false
				}
			}
		})
		if stores == 0 {
			continue
		}
		n++
		key := funcName(fn) + ":adoption condition"
		if unconditional && len(guards) == 0 {
			r.ok(key, c.pos(fn.Pos()), "the working catalog is installed unconditionally")
			continue
		}
		deps := map[string]bool{}
		seen := map[ssa.Value]bool{}
		for _, g := range guards {
			resultFieldDeps(c, g, resT, seen, deps, 0)
		}
		var missing []string
		for f, hs := range need {
			if !deps[f] {
				sort.Strings(hs)
				missing = append(missing, fmt.Sprintf("Result.%s (how %s reports a change)", f, strings.Join(dedupe(hs), "/")))
			}
		}
		sort.Strings(missing)
		var have []string
		for f := range deps {
			have = append(have, f)
		}
		sort.Strings(have)
		r.check(len(missing) == 0, key, c.pos(fn.Pos()), fmt.Sprintf("the condition depends on %v, which covers what the helpers it runs report", have), fmt.Sprintf("the condition under which the working catalog is installed depends on %v but not on %s: an operation that only changes that component is acknowledged and then discarded", have, strings.Join(missing, ", ")))
	}
	r.guard(n, 5, "Transaction methods that install the catalog after running logging helpers")
}

func dedupe(in []string) []string {
	var out []string
	for i, s := range in {
		if i == 0 || s != in[i-1] {
			out = append(out, s)
		}
	}
	return out
}

// postDominates: every path from block y to an exit of the function passes block s.
func postDominates(s, y *ssa.BasicBlock) bool {
	if s == y {
		return true
	}
	seen := map[*ssa.BasicBlock]bool{s: true}
	work := []*ssa.BasicBlock{y}
	for len(work) > 0 {
		b := work[len(work)-1]
		work = work[:len(work)-1]
		if seen[b] {
			continue
		}
		seen[b] = true
		if len(b.Succs) == 0 {
			return false
		}
		work = append(work, b.Succs...)
	}
	return true
}

// controlConds: the conditions block blk is control dependent on (a test one of whose outcomes always leads to blk
// while the other may avoid it), transitively up to the given depth.
func controlConds(blk *ssa.BasicBlock, depth int) []ssa.Value {
	var out []ssa.Value
	seen := map[*ssa.BasicBlock]bool{}
	var visit func(s *ssa.BasicBlock, d int)
	visit = func(s *ssa.BasicBlock, d int) {
		for _, x := range s.Parent().Blocks {
			if len(x.Instrs) == 0 || seen[x] {
				continue
			}
			iff, ok := x.Instrs[len(x.Instrs)-1].(*ssa.If)
			if !ok || postDominates(s, x) {
				continue
			}
			dep := false
			for _, succ := range x.Succs {
				if postDominates(s, succ) {
					dep = true
				}
			}
			if !dep {
				continue
			}
			seen[x] = true
			out = append(out, iff.Cond)
			if d > 0 {
				visit(x, d-1)
			}
		}
	}
	visit(blk, depth)
	return out
}

// ---- NIL-1 -------------------------------------------------------------------------------

// mayBeNilSlice: v may be the nil constant of its slice type (an explicit nil flowing through phis, spread-appends,
// re-slicing, local cells and the results of repo functions). Values of unknown origin are not nil constants.
func mayBeNilSlice(v ssa.Value, seen map[ssa.Value]bool, depth int) bool {
	if v == nil || seen[v] || depth > 12 {
		return false
	}
	seen[v] = true
	if _, ok := v.Type().Underlying().(*types.Slice); !ok {
		return false
	}
	fromFn := func(h *ssa.Function, idx int) bool {
		if h == nil || h.Blocks == nil || !strings.HasPrefix(fnPkgPath(h), pkgLungo) {
			return false
		}
		for _, ret := range returnsOf(h) {
			if idx >= len(ret.Results) {
				continue
			}
			// a return that reports an error: the caller does not use the other results
			if n := len(ret.Results); n > 1 && isErrorType(h.Signature.Results().At(n-1).Type()) && !isNilConst(retVal(ret, n-1)) {
				continue
			}
			if mayBeNilSlice(retVal(ret, idx), seen, depth+1) {
				return true
			}
		}
		return false
	}
	switch x := v.(type) {
	case *ssa.Const:
		return x.IsNil()
	case *ssa.Phi:
		for _, e := range x.Edges {
			if mayBeNilSlice(e, seen, depth+1) {
				return true
			}
		}
	case *ssa.ChangeType:
		return mayBeNilSlice(x.X, seen, depth+1)
	case *ssa.Convert:
		return mayBeNilSlice(x.X, seen, depth+1)
	case *ssa.Slice:
		return mayBeNilSlice(x.X, seen, depth+1)
	case *ssa.UnOp:
		if al, ok := x.X.(*ssa.Alloc); ok && x.Op == token.MUL && al.Referrers() != nil {
			for _, ref := range *al.Referrers() {
				if st, ok := ref.(*ssa.Store); ok && st.Addr == ssa.Value(al) && mayBeNilSlice(st.Val, seen, depth+1) {
					return true
				}
			}
		}
	case *ssa.Extract:
		if call, ok := x.Tuple.(*ssa.Call); ok {
			return fromFn(staticFn(&call.Call), x.Index)
		}
	case *ssa.Call:
		if b, ok := x.Call.Value.(*ssa.Builtin); ok {
			if b.Name() != "append" || len(x.Call.Args) != 2 {
				return false
			}
			// append(x, a, b): the elements sit in a fresh array; append(x, ys...): nothing may be added
			if sl, ok := x.Call.Args[1].(*ssa.Slice); ok {
				if _, fresh := sl.X.(*ssa.Alloc); fresh {
					return false
				}
			}
			return mayBeNilSlice(x.Call.Args[0], seen, depth+1)
		}
		return fromFn(staticFn(&x.Call), 0)
	}
	return false
}

func ruleNil1(c *Ctx, r *Reporter) {
	putF := c.lookupFunc(pkgBsonkit, "Put")
	if putF == nil {
		r.bad("anchor:bsonkit.Put", "-", "not found")
		return
	}
	n := 0
	for _, fn := range c.repoFuncs() {
		if fnPkgPath(fn) != pkgMongokit {
			continue
		}
		allInstrs(fn, func(in ssa.Instruction) {
			var val ssa.Value
			what := ""
			switch x := in.(type) {
			case *ssa.Call:
				if calleeObj(&x.Call) == putF && len(x.Call.Args) >= 3 {
					val, what = x.Call.Args[2], "bsonkit.Put"
				}
			case *ssa.Store:
				if fa, ok := x.Addr.(*ssa.FieldAddr); ok && structFieldOf(fa).Name() == "Value" && typeKey(derefType(fa.X.Type())) == "primitive.E" {
					val, what = x.Val, "bson.E literal"
				}
			case *ssa.MapUpdate:
				if typeKey(x.Map.Type()) == "bson.M" || typeKey(x.Map.Type()) == "primitive.M" {
					val, what = x.Value, "bson.M update"
				}
			}
			if val == nil {
				return
			}
			mi, ok := val.(*ssa.MakeInterface)
			if !ok {
				return
			}
			if _, isSlice := mi.X.Type().Underlying().(*types.Slice); !isSlice {
				return
			}
			n++
			key := fmt.Sprintf("%s:%s of a %s", funcName(fn), what, typeKey(mi.X.Type()))
			r.check(!mayBeNilSlice(mi.X, map[ssa.Value]bool{}, 0), key, c.pos(in.Pos()), "the stored slice is built by make / a literal / an append that adds elements", "the stored slice may be the nil constant (declared without a value and only extended under conditions, or returned so by a helper): the codec writes a nil slice as null, so after a reload the field is null instead of an empty array")
		})
	}
	r.guard(n, 8, "slice values stored into documents in mongokit")
}

func derefType(t types.Type) types.Type {
	if p, ok := t.Underlying().(*types.Pointer); ok {
		return p.Elem()
	}
	return t
}

// ---- IDX-10 ------------------------------------------------------------------------------

func ruleIdx10(c *Ctx, r *Reporter) {
	fn := c.lookupSSA(pkgMongokit, "Index.Build")
	addF := c.lookupFunc(pkgMongokit, "Index.Add")
	filterF := c.lookupFunc(pkgMongokit, "Filter")
	if fn == nil || addF == nil || filterF == nil || len(fn.Params) < 2 {
		r.bad("anchor:mongokit.Index.Build", "-", "not found")
		return
	}
	isPartialLoad := func(v ssa.Value) bool {
		u, ok := stripValue(v).(*ssa.UnOp)
		if !ok || u.Op != token.MUL {
			return false
		}
		fa, ok := u.X.(*ssa.FieldAddr)
		return ok && structFieldOf(fa).Name() == "Partial"
	}
	n := 0
	allInstrs(fn, func(in ssa.Instruction) {
		call, ok := in.(*ssa.Call)
		if !ok {
			return
		}
		f := calleeObj(&call.Call)
		if f == nil {
			return
		}
		if f == addF {
			n++
			r.ok("Index.Build:feeds the base through Index.Add", c.pos(call.Pos()), "every document goes through the gated Add (IDX-4)")
			return
		}
		if f.Pkg() == nil || f.Pkg().Path() != pkgBsonkit || !strings.HasPrefix(fullShort(f), "Index.") || (f.Name() != "Build" && f.Name() != "Add") {
			return
		}
		n++
		key := "Index.Build:base." + f.Name() + " argument"
		arg := call.Call.Args[len(call.Call.Args)-1]
		// the value of the argument on every path from the entry to this call
		enumWatchV = []ssa.Value{arg}
		paths, ends, trunc := enumPaths(fn.Blocks[0], nil, func(b *ssa.BasicBlock) bool { return b == call.Block() }, 2048)
		res := enumWatchVRes
		enumWatchV = nil
		if trunc {
			r.unk(key, c.pos(call.Pos()), "too many paths")
			return
		}
		bad := ""
		np := 0
		for pi, p := range paths {
			if ends[pi] != call.Block() {
				continue
			}
			np++
			partialSet, known := false, false
			for _, d := range p {
				bo, ok := d.cond.(*ssa.BinOp)
				if !ok || (bo.Op != token.NEQ && bo.Op != token.EQL) {
					continue
				}
				if (isPartialLoad(bo.X) && isNilConst(bo.Y)) || (isPartialLoad(bo.Y) && isNilConst(bo.X)) {
					known = true
					partialSet = (bo.Op == token.NEQ) == d.taken
				}
			}
			if known && !partialSet {
				continue // no filter: everything is indexed
			}
			// filter set (or not tested at all): the list must be what Filter returned for it
			v := stripValue(res[pi][0])
			filtered := false
			// a single document fed to base.Add: gated like Index.Add gates it (Match(doc, Partial) came out true)
			if f.Name() == "Add" {
				for _, d := range p {
					if ex, ok := d.cond.(*ssa.Extract); ok && ex.Index == 0 && d.taken {
						if mc, ok := ex.Tuple.(*ssa.Call); ok && calleeFull(&mc.Call) == pkgMongokit+".Match" && len(mc.Call.Args) == 2 && stripValue(mc.Call.Args[0]) == stripValue(arg) && isPartialLoad(mc.Call.Args[1]) {
							filtered = true
						}
					}
				}
			}
			if ex, ok := v.(*ssa.Extract); ok && ex.Index == 0 {
				if fc, ok := ex.Tuple.(*ssa.Call); ok && calleeObj(&fc.Call) == filterF && len(fc.Call.Args) >= 2 && isPartialLoad(fc.Call.Args[1]) {
					filtered = true
				}
			}
			if !filtered && bad == "" {
				if known {
					bad = "on a path on which config.Partial is set the base index is built from a list that is not the result of Filter(list, config.Partial)"
				} else {
					bad = "the base index is built from a list without config.Partial having been consulted"
				}
			}
		}
		r.check(bad == "" && np > 0, key, c.pos(call.Pos()), fmt.Sprintf("on all %d paths the list is filtered when a partial filter is set", np), bad+": documents outside the partial filter enter the index (Add/Remove gate on the filter, so they are never taken out again and occupy their keys)")
	})
	r.guard(n, 1, "feeds of the base index in mongokit.Index.Build")
}

// ---- SEM-12 ------------------------------------------------------------------------------

func ruleSem12(c *Ctx, r *Reporter) {
	fn := c.lookupSSA(pkgMongokit, "matchUnwind")
	notMatched := c.lookupVar(pkgMongokit, "ErrNotMatched")
	if fn == nil || notMatched == nil || len(fn.Params) < 5 {
		r.bad("anchor:mongokit.matchUnwind", "-", "not found")
		return
	}
	var op, yieldMerge *ssa.Parameter
	for _, p := range fn.Params {
		if _, isFunc := p.Type().Underlying().(*types.Signature); isFunc {
			op = p
		}
		if p.Name() == "yieldMerge" {
			yieldMerge = p
		}
	}
	if op == nil || yieldMerge == nil {
		r.bad("anchor:mongokit.matchUnwind parameters", c.pos(fn.Pos()), "no operator callback / yieldMerge parameter")
		return
	}
	isOpCall := func(v ssa.Value) bool {
		call, ok := v.(*ssa.Call)
		return ok && !call.Call.IsInvoke() && call.Call.Value == ssa.Value(op)
	}
	// multi: the second result of bsonkit.All
	isMulti := func(v ssa.Value) bool {
		ex, ok := v.(*ssa.Extract)
		if !ok || ex.Index != 1 {
			return false
		}
		call, ok := ex.Tuple.(*ssa.Call)
		return ok && calleeFull(&call.Call) == pkgBsonkit+".All"
	}
	isSentinel := func(v ssa.Value) bool {
		u, ok := v.(*ssa.UnOp)
		if !ok || u.Op != token.MUL {
			return false
		}
		g, ok := u.X.(*ssa.Global)
		return ok && g.Object() == notMatched
	}
	paths, ends, trunc := enumPaths(fn.Blocks[0], nil, func(b *ssa.BasicBlock) bool {
		_, isRet := b.Instrs[len(b.Instrs)-1].(*ssa.Return)
		return isRet
	}, 4096)
	if trunc {
		r.unk("matchUnwind:verdicts", c.pos(fn.Pos()), "too many paths")
		return
	}
	n := 0
	bad := ""
	for pi, p := range paths {
		end := ends[pi]
		if end == nil {
			continue
		}
		ret, ok := end.Instrs[len(end.Instrs)-1].(*ssa.Return)
		if !ok {
			continue
		}
		n++
		v := retVal(ret, 0)
		// a phi in the return block: the value that flows in on this path
		if ph, isPhi := v.(*ssa.Phi); isPhi && ph.Block() == end && enumEndPreds[pi] != nil {
			for j, pb := range end.Preds {
				if pb == enumEndPreds[pi] {
					v = ph.Edges[j]
				}
			}
		}
		opDecided, multiTrue, yieldFalse := false, false, false
		for _, d := range p {
			if isMulti(d.cond) && d.taken {
				multiTrue = true
			}
			if d.cond == ssa.Value(yieldMerge) && !d.taken {
				yieldFalse = true
			}
			if bo, ok := d.cond.(*ssa.BinOp); ok && (isOpCall(bo.X) || isOpCall(bo.Y)) {
				opDecided = true
			}
		}
		switch {
		case isOpCall(v):
		case isNilConst(v) && opDecided:
		case isSentinel(v) && multiTrue && yieldFalse:
		case isSentinel(v) && opDecided:
			// the array loop ran and every element was rejected by the operator
		default:
			if bad == "" {
				what := "a value"
				if isSentinel(v) {
					what = "ErrNotMatched"
				} else if isNilConst(v) {
					what = "nil (matched)"
				}
				bad = fmt.Sprintf("the return at %s yields %s on a path on which neither the operator was consulted nor a merged multi-value (multi && !yieldMerge) was established", c.pos(ret.Pos()), what)
			}
		}
	}
	r.check(bad == "" && n > 0, "matchUnwind:verdicts", c.pos(fn.Pos()), fmt.Sprintf("all %d paths end in the operator's verdict or the merged-multi rejection", n), bad+": matchUnwind decides a case itself that the operators decide differently (a missing field must reach the operator: {a: null} matches documents without a)")
}

// ---- UPD-5 -------------------------------------------------------------------------------

func ruleUpd5(c *Ctx, r *Reporter) {
	regs := readRegistries(c)
	var fn *ssa.Function
	for _, reg := range regs {
		if f := reg["$pullAll"]; f != nil {
			fn = f
		}
	}
	cmpF := c.lookupFunc(pkgBsonkit, "Compare")
	if fn == nil || cmpF == nil {
		r.bad("anchor:$pullAll", "-", "operator not registered")
		return
	}
	// the operator's own code: the registered function, the function literals written in it, and the functions of the
	// package it calls that are not operators themselves and that only it uses (an extracted membership test)
	own := withClosures(fn)
	for _, g := range withClosures(fn) {
		allInstrs(g, func(in ssa.Instruction) {
			if call, ok := in.(*ssa.Call); ok {
				if h := staticFn(&call.Call); h != nil && h.Parent() == nil && h.Blocks != nil && fnPkgPath(h) == pkgMongokit && h != fn {
					if callers, complete := allCallers(h); complete {
						onlyMine := true
						for _, ci := range callers {
							if outermost(ci.Parent()) != fn {
								onlyMine = false
							}
						}
						if onlyMine {
							own = append(own, withClosures(h)...)
						}
					}
				}
			}
		})
	}
	eqTests, queryCalls := 0, []string{}
	for _, g := range own {
		allInstrs(g, func(in ssa.Instruction) {
			call, ok := in.(*ssa.Call)
			if !ok {
				return
			}
			f := calleeObj(&call.Call)
			if f == nil {
				return
			}
			if f == cmpF && call.Referrers() != nil {
				for _, ref := range *call.Referrers() {
					if bo, ok := ref.(*ssa.BinOp); ok && (bo.Op == token.EQL || bo.Op == token.NEQ) {
						if k, ok := constInt(bo.Y); ok && k == 0 {
							eqTests++
						}
					}
				}
			}
			if f.Pkg() != nil && f.Pkg().Path() == pkgMongokit && (f.Name() == "Match" || f.Name() == "pullMatches" || f.Name() == "Process" || f.Name() == "Filter") {
				queryCalls = append(queryCalls, f.Name()+" at "+c.pos(call.Pos()))
			}
		})
	}
	r.check(eqTests > 0, "$pullAll:selects by equality", c.pos(fn.Pos()), "elements are selected with bsonkit.Compare(...) == 0", "the operator registered for $pullAll does not compare elements with bsonkit.Compare(...) == 0")
	r.check(len(queryCalls) == 0, "$pullAll:no query semantics", c.pos(fn.Pos()), "the operator never evaluates a listed value as a query", "the operator evaluates listed values with the query matcher ("+strings.Join(queryCalls, ", ")+"): a listed document removes every element that satisfies it as a condition instead of the elements equal to it")
}

// ---- REC-2 -------------------------------------------------------------------------------

func ruleRec2(c *Ctx, r *Reporter) {
	n := 0
	for _, fn := range c.repoFuncs() {
		p := fnPkgPath(fn)
		if (p != pkgBsonkit && p != pkgMongokit) || fn.Parent() != nil {
			continue
		}
		// self-recursive: calls itself, in its own body or in one of its function literals
		recursive := false
		for _, g := range withClosures(fn) {
			allInstrs(g, func(in ssa.Instruction) {
				if ci, ok := in.(ssa.CallInstruction); ok && staticFn(ci.Common()) == fn {
					recursive = true
				}
			})
		}
		if !recursive {
			continue
		}
		for idx, prm := range fn.Params {
			if _, isFunc := prm.Type().Underlying().(*types.Signature); !isFunc {
				continue
			}
			n++
			key := fmt.Sprintf("%s:continuation %s", funcName(fn), prm.Name())
			bad := ""
			var uses func(v ssa.Value, depth int)
			inHelper := map[ssa.Value]bool{} // values that live in a helper the continuation was handed to: may be passed on, not called
			uses = func(v ssa.Value, depth int) {
				if v.Referrers() == nil || depth > 6 {
					return
				}
				for _, ref := range *v.Referrers() {
					switch x := ref.(type) {
					case ssa.CallInstruction:
						cc := x.Common()
						if !cc.IsInvoke() && cc.Value == v {
							if inHelper[v] && bad == "" {
								bad = fmt.Sprintf("called by %s at %s, outside %s", funcName(x.Parent()), c.pos(x.Pos()), fn.Name())
							}
							continue // called
						}
						// a function of the package that only hands it back to the recursion
						if h := staticFn(cc); h != nil && h != fn && h.Blocks != nil && h.Parent() == nil && fnPkgPath(h) == fnPkgPath(fn) {
							handled := false
							for i, a := range cc.Args {
								if a == v && i < len(h.Params) {
									inHelper[h.Params[i]] = true
									uses(h.Params[i], depth+1)
									handled = true
								}
							}
							if handled {
								continue
							}
						}
						okArg := staticFn(cc) == fn
						if okArg {
							for i, a := range cc.Args {
								if a == v && i != idx {
									okArg = false
								}
							}
						}
						if !okArg && bad == "" {
							bad = fmt.Sprintf("handed to %s at %s", calleeFull(cc), c.pos(x.Pos()))
						}
					case *ssa.MakeClosure:
						if cl, ok := x.Fn.(*ssa.Function); ok {
							for i, b := range x.Bindings {
								if b == v && i < len(cl.FreeVars) {
									inHelper[cl.FreeVars[i]] = inHelper[v]
									uses(cl.FreeVars[i], depth+1)
								}
							}
						}
					case *ssa.Store:
						// the parameter's own cell (captured by a function literal)
						if x.Addr == v {
							continue // a write into the cell we are following
						}
						if al, ok := x.Addr.(*ssa.Alloc); ok && x.Val == v {
							inHelper[al] = inHelper[v]
							uses(al, depth+1)
						} else if bad == "" {
							bad = "stored at " + c.pos(x.Pos())
						}
					case *ssa.UnOp:
						if x.Op == token.MUL {
							inHelper[x] = inHelper[v]
							uses(x, depth+1)
						}
					case *ssa.BinOp, *ssa.DebugRef, *ssa.If:
					case *ssa.Phi:
						inHelper[x] = inHelper[v]
						uses(x, depth+1)
					default:
						if bad == "" {
							bad = fmt.Sprintf("used by %T at %s", ref, c.pos(ref.Pos()))
						}
					}
				}
			}
			uses(prm, 0)
			r.check(bad == "", key, c.pos(fn.Pos()), "only called here or passed on to the recursion", "the continuation leaves the recursion ("+bad+"): the rest of the path is no longer expanded by "+fn.Name()+" for the elements that go that way")
		}
	}
	r.guard(n, 2, "func-typed parameters of self-recursive functions in bsonkit/mongokit")
}

// ---- PANIC-8 -----------------------------------------------------------------------------

// sameSlice: two values denote the same slice: the same SSA value, or loads of the same field of the same base.
func sameSlice(a, b ssa.Value) bool {
	a, b = stripValue(a), stripValue(b)
	if a == b {
		return true
	}
	ua, ok1 := a.(*ssa.UnOp)
	ub, ok2 := b.(*ssa.UnOp)
	if ok1 && ok2 && ua.Op == token.MUL && ub.Op == token.MUL {
		fa, ok3 := ua.X.(*ssa.FieldAddr)
		fb, ok4 := ub.X.(*ssa.FieldAddr)
		if ok3 && ok4 && fa.Field == fb.Field && (fa.X == fb.X || sameSlice(fa.X, fb.X)) {
			return true
		}
	}
	return false
}

// lenFactAt: is len(sl) >= need established at block b by dominating tests on len of the same slice?
func lenAtLeast(fn *ssa.Function, sl ssa.Value, need int64, b *ssa.BasicBlock) bool {
	lo, _ := lenInterval(fn, func(v ssa.Value) bool { return sameSlice(v, sl) }, b)
	return lo >= need
}

func rulePanic8(c *Ctx, r *Reporter) {
	resT := c.lookupType(pkgLungo, "Result")
	mkResT := c.lookupType(pkgMongokit, "Result")
	if resT == nil || mkResT == nil {
		r.bad("anchor:Result", "-", "not found")
		return
	}
	n := 0
	for _, fn := range c.repoFuncs() {
		if fnPkgPath(fn) != pkgLungo || isBucketFile(c, fn) {
			continue
		}
		allInstrs(fn, func(in ssa.Instruction) {
			ia, ok := in.(*ssa.IndexAddr)
			if !ok {
				return
			}
			k, isConst := constInt(ia.Index)
			if !isConst {
				return
			}
			if _, isSlice := ia.X.Type().Underlying().(*types.Slice); !isSlice {
				return
			}
			// a list taken from an operation result
			u, ok := stripValue(ia.X).(*ssa.UnOp)
			if !ok || u.Op != token.MUL {
				return
			}
			fa, ok := u.X.(*ssa.FieldAddr)
			if !ok {
				return
			}
			if t := derefNamed(fa.X.Type()); t != resT && t != mkResT {
				return
			}
			n++
			key := fmt.Sprintf("%s:%s[%d]", funcName(fn), structFieldOf(fa).Name(), k)
			r.check(lenAtLeast(fn, ia.X, k+1, ia.Block()), key, c.pos(ia.Pos()), fmt.Sprintf("dominated by a test establishing len >= %d", k+1), fmt.Sprintf("element %d of Result.%s is taken without a dominating test that the list has that many elements: an operation that matched a document but did not modify it (or matched none) yields an empty list here and the call panics", k, structFieldOf(fa).Name()))
		})
	}
	r.guard(n, 3, "constant indices into Result lists in package lungo")
}

// ---- GFS-5 -------------------------------------------------------------------------------

func ruleGfs5(c *Ctx, r *Reporter) {
	fn := c.lookupSSA(pkgLungo, "DownloadStream.seek")
	dsT := c.lookupType(pkgLungo, "DownloadStream")
	if fn == nil || dsT == nil {
		r.bad("anchor:DownloadStream.seek", "-", "not found")
		return
	}
	var cursorSet, cursorNil []*ssa.Store
	for _, st := range storesToField(fn, dsT, "cursor") {
		if isNilConst(st.Val) {
			cursorNil = append(cursorNil, st)
		} else {
			cursorSet = append(cursorSet, st)
		}
	}
	if len(cursorNil) == 0 {
		r.ok("seek:cursor after seek", c.pos(fn.Pos()), "seek never drops the cursor")
		return
	}
	n := 0
	for _, bst := range storesToField(fn, dsT, "buffer") {
		if isNilConst(bst.Val) {
			continue
		}
		n++
		good := false
		for _, cs := range cursorSet {
			if !instrDominates(cs, bst) {
				continue
			}
			dropped := false
			for _, cn := range cursorNil {
				if instrReaches(cs, cn) && instrReaches(cn, bst) {
					dropped = true
				}
			}
			if !dropped {
				good = true
			}
		}
		r.check(good, "seek:cursor after seek", c.pos(bst.Pos()), "the read buffer is set only after a fresh cursor was stored", "the read buffer is set to data on a path on which s.cursor was dropped (set to nil) and not replaced: next() takes the nil cursor for end of file, so reading stops at the end of this chunk although the file goes on")
	}
	r.guard(n, 1, "stores of a non-nil read buffer in DownloadStream.seek")
}

// ---- GFS-6 -------------------------------------------------------------------------------

func ruleGfs6(c *Ctx, r *Reporter) {
	fn := c.lookupSSA(pkgLungo, "UploadStream.Suspend")
	up := c.lookupSSA(pkgLungo, "UploadStream.upload")
	if fn == nil || up == nil {
		r.bad("anchor:UploadStream.Suspend/upload", "-", "not found")
		return
	}
	var reaches func(h *ssa.Function, depth int) bool
	reaches = func(h *ssa.Function, depth int) bool {
		if h == up {
			return true
		}
		if h == nil || h.Blocks == nil || fnPkgPath(h) != pkgLungo || depth > 2 {
			return false
		}
		found := false
		allInstrs(h, func(in ssa.Instruction) {
			if call, ok := in.(*ssa.Call); ok && !found {
				if g := staticFn(&call.Call); g != nil && g != h && reaches(g, depth+1) {
					found = true
				}
			}
		})
		return found
	}
	isField := func(v ssa.Value, name string) bool {
		p, ok := fieldPath(stripIntConv(v))
		return ok && (p == name || strings.HasSuffix(p, "."+name))
	}
	// what the decisions of a path establish
	justified := func(decs []decision) bool {
		empty, short, marker := false, false, false
		for _, d := range decs {
			bo, ok := d.cond.(*ssa.BinOp)
			if !ok {
				continue
			}
			op := bo.Op
			if !d.taken {
				switch op {
				case token.GTR:
					op = token.LEQ
				case token.GEQ:
					op = token.LSS
				case token.LSS:
					op = token.GEQ
				case token.LEQ:
					op = token.GTR
				case token.EQL:
					op = token.NEQ
				case token.NEQ:
					op = token.EQL
				}
			}
			if isField(bo.X, "bufLen") {
				if k, isK := constInt(bo.Y); isK {
					if (op == token.LEQ && k <= 0) || (op == token.EQL && k == 0) || (op == token.LSS && k <= 1) {
						empty = true
					}
				}
				if isField(bo.Y, "chunkSize") && op == token.LSS {
					short = true
				}
			}
			if isField(bo.Y, "bufLen") && isField(bo.X, "chunkSize") && op == token.GTR {
				short = true
			}
			if isField(bo.X, "marker") && isNilConst(bo.Y) && op == token.NEQ {
				marker = true
			}
		}
		return empty || (short && marker)
	}
	type pathInfo struct {
		decs   []decision
		blocks []*ssa.BasicBlock
		end    *ssa.BasicBlock
	}
	successPaths := func(g *ssa.Function) ([]pathInfo, bool) {
		paths, ends, trunc := enumPaths(g.Blocks[0], nil, func(b *ssa.BasicBlock) bool {
			_, isRet := b.Instrs[len(b.Instrs)-1].(*ssa.Return)
			return isRet
		}, 4096)
		if trunc {
			return nil, false
		}
		blocks := enumPathBlocks
		var out []pathInfo
		for i := range paths {
			if ends[i] == nil {
				continue
			}
			ret, ok := ends[i].Instrs[len(ends[i].Instrs)-1].(*ssa.Return)
			if !ok || len(ret.Results) == 0 || !isNilConst(retVal(ret, len(ret.Results)-1)) {
				continue
			}
			out = append(out, pathInfo{paths[i], append(append([]*ssa.BasicBlock{}, blocks[i]...), ends[i]), ends[i]})
		}
		return out, true
	}
	// does the path run upload? if it calls a function that may, which one
	classify := func(p pathInfo) (runs bool, via []*ssa.Call) {
		for _, b := range p.blocks {
			for _, in := range b.Instrs {
				call, ok := in.(*ssa.Call)
				if !ok {
					continue
				}
				g := staticFn(&call.Call)
				if g == up {
					return true, nil
				}
				if g != nil && reaches(g, 0) {
					via = append(via, call)
				}
			}
		}
		return false, via
	}
	var check func(g *ssa.Function, outer []decision, bind map[ssa.Value]bool, depth int) string
	check = func(g *ssa.Function, outer []decision, bind map[ssa.Value]bool, depth int) string {
		paths, ok := successPaths(g)
		if !ok {
			return "too many paths in " + funcName(g)
		}
		for _, p := range paths {
			// paths that contradict the constant arguments do not exist for this call
			feasible := true
			for _, d := range p.decs {
				if want, bound := bind[d.cond]; bound && want != d.taken {
					feasible = false
				}
			}
			if !feasible {
				continue
			}
			runs, via := classify(p)
			if runs {
				continue
			}
			all := append(append([]decision{}, outer...), p.decs...)
			if len(via) == 0 {
				if !justified(all) {
					return fmt.Sprintf("a successful path through %s (to %s) neither runs upload nor establishes that there is nothing to write", funcName(g), c.pos(p.end.Instrs[len(p.end.Instrs)-1].Pos()))
				}
				continue
			}
			if depth >= 2 {
				return "upload is reached through more than two levels of helpers"
			}
			for _, call := range via {
				h := staticFn(&call.Call)
				b2 := map[ssa.Value]bool{}
				for i, a := range call.Call.Args {
					if v, isConst := constBool(a); isConst && i < len(h.Params) {
						b2[h.Params[i]] = v
					}
				}
				if why := check(h, all, b2, depth+1); why != "" {
					return why
				}
			}
		}
		return ""
	}
	why := check(fn, nil, map[ssa.Value]bool{}, 0)
	r.check(why == "", "Suspend:flushes what upload(false) would write", c.pos(fn.Pos()), "every successful path runs upload or has established an empty buffer (or a partial one with the marker present)", why+": a tracked upload suspended with a partial first chunk has no marker, and Resume fails")
}
