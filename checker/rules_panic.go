package main

import (
	"fmt"
	"go/constant"
	"go/token"
	"go/types"
	"sort"
	"strings"

	"golang.org/x/tools/go/ssa"
)

func init() {
	register(&Rule{ID: "PANIC-1", Doc: "no comparison of two BSON-carrying interface values: every ==/!= (and map key) with two interface operands has one side that is nil, a comparable concrete value, or a package-level error sentinel", Run: rulePanic1})
	register(&Rule{ID: "PANIC-2", Doc: "every unchecked (single-value) type assertion is discharged: class=>type tables, ctx.Value registries, result type of the called repo function / useTransaction closure, a dominating comma-ok assertion, or a listed structural invariant", Run: rulePanic2})
	register(&Rule{ID: "PANIC-3", Doc: "every integer division/modulo with a non-constant divisor is dominated by a non-zero test of that divisor", Run: rulePanic3})
	register(&Rule{ID: "PANIC-4", Doc: "every explicit panic is classified: documented nil-argument/unsupported/not-implemented guards in driver methods, unreachable by the type tables, MustConvert*, Semaphore over-release, constant configuration", Run: rulePanic4})
	register(&Rule{ID: "NUM-1", Doc: "allocation sizes are not caller-controlled: make() size operands are built from constants and len() of existing values, or are clamped against such an expression on every path", Run: ruleNum1})
	register(&Rule{ID: "NUM-4", Doc: "bounds of counting loops whose body appends/allocates are built from constants and len() of existing values or clamped (no caller-controlled back-fill)", Run: ruleNum4})
}

func isBucketFile(c *Ctx, fn *ssa.Function) bool { return c.fileOf(fn.Pos()) == "bucket.go" }

// ---- PANIC-1 -----------------------------------------------------------------------

func isIface(t types.Type) bool {
	_, ok := t.Underlying().(*types.Interface)
	return ok
}

// safeIfaceOperand: value cannot make an interface comparison panic regardless of the other side.
func safeIfaceOperand(v ssa.Value) (bool, string) {
	if isNilConst(v) {
		return true, "nil"
	}
	switch x := v.(type) {
	case *ssa.MakeInterface:
		t := x.X.Type()
		if types.Comparable(t) && !isIface(t) {
			return true, "comparable concrete " + typeKey(t)
		}
	case *ssa.UnOp:
		if g, ok := x.X.(*ssa.Global); ok && x.Op == token.MUL {
			if isErrorType(g.Type().(*types.Pointer).Elem()) {
				return true, "error sentinel " + g.Name()
			}
		}
	}
	return false, ""
}

func ifaceComparisons(fn *ssa.Function, visit func(in ssa.Instruction, okk bool, why string)) {
	allInstrs(fn, func(in ssa.Instruction) {
		switch x := in.(type) {
		case *ssa.BinOp:
			if x.Op != token.EQL && x.Op != token.NEQ {
				return
			}
			if !isIface(x.X.Type()) || !isIface(x.Y.Type()) {
				return
			}
			if ok, why := safeIfaceOperand(x.X); ok {
				visit(in, true, why)
				return
			}
			if ok, why := safeIfaceOperand(x.Y); ok {
				visit(in, true, why)
				return
			}
			// errors compared with errors (err == ctx.Err()) are pointer-like in practice; only
			// flag interfaces that can carry BSON: empty interfaces
			if isErrorType(x.X.Type()) && isErrorType(x.Y.Type()) {
				visit(in, true, "two error values")
				return
			}
			visit(in, false, "")
		case *ssa.Lookup:
			if m, ok := x.X.Type().Underlying().(*types.Map); ok && isIface(m.Key()) && !isErrorType(m.Key()) {
				if ok, why := safeIfaceOperand(x.Index); ok {
					visit(in, true, why)
				} else {
					visit(in, false, "map lookup with an interface key")
				}
			}
		case *ssa.MapUpdate:
			if m, ok := x.Map.Type().Underlying().(*types.Map); ok && isIface(m.Key()) && !isErrorType(m.Key()) {
				if ok, why := safeIfaceOperand(x.Key); ok {
					visit(in, true, why)
				} else {
					visit(in, false, "map update with an interface key")
				}
			}
		}
	})
}

func rulePanic1(c *Ctx, r *Reporter) {
	n := 0
	for _, fn := range c.repoFuncs() {
		ifaceComparisons(fn, func(in ssa.Instruction, okk bool, why string) {
			n++
			key := fmt.Sprintf("%s:iface compare", funcName(fn))
			if okk {
				r.ok(key, c.pos(in.Pos()), "one operand is "+why)
			} else {
				r.bad(key, c.pos(in.Pos()), "both operands are interface values that may hold bson.D/bson.A/Binary: the comparison panics at run time (use bsonkit.Compare)")
			}
		})
	}
	r.guard(n, 60, "interface/interface comparisons")
	positiveCheck(r, "PANIC-1", "IfaceEq", "IfaceEqOK", func(fn *ssa.Function) int {
		k := 0
		ifaceComparisons(fn, func(in ssa.Instruction, okk bool, why string) {
			if !okk {
				k++
			}
		})
		return k
	})
}

// ---- PANIC-2 -----------------------------------------------------------------------

func rulePanic2(c *Ctx, r *Reporter) {
	classOfType, comparatorOf := inspectTables(c)
	typesOfClass := map[string][]string{}
	for t, cl := range classOfType {
		typesOfClass[cl] = append(typesOfClass[cl], t)
	}
	classOfComparator := map[string]string{}
	for cl, f := range comparatorOf {
		classOfComparator[f] = cl
	}
	classConstName := map[int64]string{}
	if classT := c.lookupType(pkgBsonkit, "Class"); classT != nil {
		scope := c.Pkgs[pkgBsonkit].Types.Scope()
		for _, n := range scope.Names() {
			if k, ok := scope.Lookup(n).(*types.Const); ok && types.Identical(k.Type(), classT) {
				v, _ := constant.Int64Val(k.Val())
				classConstName[v] = n
			}
		}
	}
	valueF := c.field(pkgMongokit, "Context", "Value")
	regs := readRegistries(c)
	inRegistry := func(fn *ssa.Function) bool {
		for _, reg := range regs {
			for _, f := range reg {
				if f == outermost(fn) {
					return true
				}
			}
		}
		return false
	}
	// ctxRegistry: the registry whose operators (alone) run fn with their own Context: fn is a registered operator,
	// or an unexported function all of whose callers are such functions of one registry and hand it their own ctx
	var ctxRegistry func(fn *ssa.Function, depth int) string
	ctxRegistry = func(fn *ssa.Function, depth int) string {
		for name, reg := range regs {
			for _, f := range reg {
				if f == outermost(fn) {
					return name
				}
			}
		}
		if depth > 2 || fn.Parent() != nil {
			return ""
		}
		callers, ok := allCallers(fn)
		if !ok || len(callers) == 0 {
			return ""
		}
		ctxIdx := -1
		for i, p := range fn.Params {
			if n := derefNamed(p.Type()); n != nil && n.Obj().Name() == "Context" && n.Obj().Pkg().Path() == pkgMongokit {
				ctxIdx = i
			}
		}
		if ctxIdx < 0 {
			return ""
		}
		name := ""
		for _, ci := range callers {
			g := ci.Parent()
			arg, isParam := ci.Common().Args[ctxIdx].(*ssa.Parameter)
			if !isParam || arg.Parent() != g {
				return ""
			}
			rn := ctxRegistry(g, depth+1)
			if rn == "" || (name != "" && rn != name) {
				return ""
			}
			name = rn
		}
		return name
	}
	useTxn := c.lookupFunc(pkgLungo, "useTransaction")
	counts := map[string]int{}
	total := 0
	for _, fn := range c.repoFuncs() {
		if isBucketFile(c, fn) {
			continue
		}
		allInstrs(fn, func(in ssa.Instruction) {
			ta, ok := in.(*ssa.TypeAssert)
			if !ok || ta.CommaOk {
				return
			}
			total++
			at := typeKey(ta.AssertedType)
			key := fmt.Sprintf("%s:.(%s)", funcName(fn), at)
			how, okk := "", false
			disc := func(kind, detail string) {
				okk, how = true, kind+": "+detail
				counts[kind]++
			}
			// (a) comparator of Compare
			if cl, ok := classOfComparator[fn.Name()]; ok && fnPkgPath(fn) == pkgBsonkit {
				if _, isParam := ta.X.(*ssa.Parameter); isParam && len(typesOfClass[cl]) == 1 && typesOfClass[cl][0] == at {
					disc("class-table", "Compare only calls "+fn.Name()+" for class "+cl+" and Inspect maps exactly "+at+" to it (TAB-1)")
				}
			}
			// (b) guarded by class == K with class = Inspect(X)
			if !okk {
				allInstrs(fn, func(x ssa.Instruction) {
					iff, isIf := x.(*ssa.If)
					if !isIf || okk {
						return
					}
					bo, isBo := iff.Cond.(*ssa.BinOp)
					if !isBo || bo.Op != token.EQL {
						return
					}
					k, isConst := constInt(bo.Y)
					ex, isEx := bo.X.(*ssa.Extract)
					if !isConst || !isEx || ex.Index != 0 {
						return
					}
					call, isCall := ex.Tuple.(*ssa.Call)
					if !isCall || calleeFull(&call.Call) != pkgBsonkit+".Inspect" || call.Call.Args[0] != ta.X {
						return
					}
					t := iff.Block().Succs[0]
					if !(t == ta.Block() || t.Dominates(ta.Block())) {
						return
					}
					cl := classConstName[k]
					if len(typesOfClass[cl]) == 1 && typesOfClass[cl][0] == at {
						disc("class-guard", "dominated by Inspect(x) == "+cl+", which only "+at+" maps to")
					}
				})
			}
			// (c) ctx.Value in a registered operator (TAB-2 checks the type)
			if !okk && valueF != nil && (inRegistry(fn) || ctxRegistry(fn, 0) != "") {
				src := ta.X
				isValue := false
				switch x := src.(type) {
				case *ssa.Field:
					isValue = structFieldOf(x) == valueF
				case *ssa.UnOp:
					if fa, ok := x.X.(*ssa.FieldAddr); ok {
						isValue = structFieldOf(fa) == valueF
					}
				}
				if isValue {
					disc("ctx-value", "ctx.Value of a registered operator; TAB-2 ties the asserted type to the registry's only Process site")
				}
			}
			// (d) result of a repo function / useTransaction closure
			if !okk {
				if ex, isEx := ta.X.(*ssa.Extract); isEx && ex.Index == 0 {
					if call, isCall := ex.Tuple.(*ssa.Call); isCall {
						var producer *ssa.Function
						if calleeObj(&call.Call) == useTxn {
							if mc, ok := call.Call.Args[3].(*ssa.MakeClosure); ok {
								producer, _ = mc.Fn.(*ssa.Function)
							}
						} else if sf := staticFn(&call.Call); sf != nil && c.isRepoPkg(fnPkgPath(sf)) {
							producer = sf
						}
						if producer != nil && returnsOnly(producer, ta.AssertedType) && dominatedByNilErr(call, ta) {
							disc("result-type", "every successful return of "+funcName(producer)+" yields a "+at+"; the assertion follows the err == nil edge")
						}
					}
				}
			}
			// (e) dominating comma-ok assertion through a boolean flag
			if !okk && flagGuardedAssert(ta) {
				disc("comma-ok", "only reached when an earlier comma-ok assertion of the same value to the same type succeeded")
			}
			// (f) listed invariants with their own structural sub-check
			if !okk {
				if why, good := listedAssertInvariant(c, fn, ta); good {
					disc("invariant", why)
				} else if why != "" {
					how = why
				}
			}
			if okk {
				r.ok(key, c.pos(in.Pos()), how)
			} else {
				if how == "" {
					how = "no discharge argument applies"
				}
				r.bad(key, c.pos(in.Pos()), "unchecked type assertion can panic: "+how)
			}
		})
	}
	r.guard(total, 60, "unchecked type assertions outside bucket.go")
	r.guard(counts["class-table"], 16, "assertions discharged by the class table")
	r.guard(counts["ctx-value"], 20, "assertions discharged by ctx.Value registries")
	r.guard(counts["result-type"], 18, "assertions discharged by result types")
}

// returnsOnly: every return of fn yields, in slot 0, a value of type t (possibly wrapped in an
// interface) - or nil together with a non-nil error.
func returnsOnly(fn *ssa.Function, t types.Type) bool {
	rets := returnsOf(fn)
	if len(rets) == 0 {
		return false
	}
	for _, ret := range rets {
		v := retVal(ret, 0)
		if v == nil {
			return false
		}
		if isNilConst(v) {
			if len(ret.Results) < 2 || isNilConst(retVal(ret, len(ret.Results)-1)) {
				return false
			}
			continue
		}
		if !valueHasType(v, t, 0) {
			return false
		}
	}
	return true
}

func valueHasType(v ssa.Value, t types.Type, depth int) bool {
	if depth > 4 {
		return false
	}
	switch x := v.(type) {
	case *ssa.MakeInterface:
		return types.Identical(x.X.Type(), t)
	case *ssa.Phi:
		for _, e := range x.Edges {
			if !isNilConst(e) && !valueHasType(e, t, depth+1) {
				return false
			}
		}
		return true
	case *ssa.Extract:
		// result of another call: follow static repo callees (useTransaction returning fn's result)
		if call, ok := x.Tuple.(*ssa.Call); ok {
			if sf := staticFn(&call.Call); sf != nil && sf.Blocks != nil {
				return returnsOnly(sf, t)
			}
		}
	}
	return types.Identical(v.Type(), t)
}

// dominatedByNilErr: the assertion is only reached on the err == nil edge of the call's error.
func dominatedByNilErr(call *ssa.Call, at ssa.Instruction) bool {
	ev := errorResult(call)
	if ev == nil {
		return false
	}
	for _, chk := range errChecksOf(ev) {
		if chk.OkSucc == at.Block() || chk.OkSucc.Dominates(at.Block()) {
			return true
		}
	}
	return false
}

// flagGuardedAssert: `ok := false; if _, is := x.(T); is { ... ok = true }; if ok { x.(T) }`
func flagGuardedAssert(ta *ssa.TypeAssert) bool {
	fn := ta.Parent()
	found := false
	allInstrs(fn, func(in ssa.Instruction) {
		iff, ok := in.(*ssa.If)
		if !ok || found {
			return
		}
		t := iff.Block().Succs[0]
		if !(t == ta.Block() || t.Dominates(ta.Block())) {
			return
		}
		phi, ok := iff.Cond.(*ssa.Phi)
		if !ok {
			return
		}
		allGood := true
		anyTrue := false
		var visit func(p *ssa.Phi, depth int)
		visit = func(p *ssa.Phi, depth int) {
			for i, e := range p.Edges {
				if b, isConst := constBool(e); isConst {
					if !b {
						continue
					}
					anyTrue = true
					pred := p.Block().Preds[i]
					if !dominatedByOkAssert(pred, ta) {
						allGood = false
					}
					continue
				}
				if q, ok := e.(*ssa.Phi); ok && depth < 4 {
					visit(q, depth+1)
					continue
				}
				allGood = false
			}
		}
		visit(phi, 0)
		if allGood && anyTrue {
			found = true
		}
	})
	return found
}

func dominatedByOkAssert(b *ssa.BasicBlock, ta *ssa.TypeAssert) bool {
	fn := ta.Parent()
	res := false
	allInstrs(fn, func(in ssa.Instruction) {
		other, ok := in.(*ssa.TypeAssert)
		if !ok || !other.CommaOk || other.X != ta.X || !types.Identical(other.AssertedType, ta.AssertedType) {
			return
		}
		// ok := extract #1 ; if ok -> T
		if refs := other.Referrers(); refs != nil {
			for _, ref := range *refs {
				if ex, ok := ref.(*ssa.Extract); ok && ex.Index == 1 {
					if rr := ex.Referrers(); rr != nil {
						for _, y := range *rr {
							if iff, ok := y.(*ssa.If); ok {
								t := iff.Block().Succs[0]
								if t == b || t.Dominates(b) {
									res = true
								}
							}
						}
					}
				}
			}
		}
	})
	return res
}

// listedAssertInvariant: the seven internal invariants of DESIGN 4.8, each with a structural sub-check.
func listedAssertInvariant(c *Ctx, fn *ssa.Function, ta *ssa.TypeAssert) (string, bool) {
	name := funcName(fn)
	at := typeKey(ta.AssertedType)
	switch {
	case name == "bsonkit.NewPathNode" && at == "bsonkit.PathNode":
		// everything put into / created by pathNodePool is a PathNode
		good := true
		n := 0
		for _, f := range c.repoFuncs() {
			if fnPkgPath(f) != pkgBsonkit {
				continue
			}
			allInstrs(f, func(in ssa.Instruction) {
				if call, ok := in.(*ssa.Call); ok && calleeFull(&call.Call) == "sync.Pool.Put" {
					n++
					if mi, ok := call.Call.Args[1].(*ssa.MakeInterface); !ok || typeKey(mi.X.Type()) != at {
						good = false
					}
				}
			})
			if strings.HasPrefix(f.Name(), "init$") {
				for _, ret := range returnsOf(f) {
					if mi, ok := retVal(ret, 0).(*ssa.MakeInterface); ok {
						n++
						if typeKey(mi.X.Type()) != at {
							good = false
						}
					}
				}
			}
		}
		if good && n >= 2 {
			return "pathNodePool only ever holds PathNode values (pool.New and every Put checked)", true
		}
		return "something other than a PathNode may be put into pathNodePool", false
	case (name == "(bsonkit.PathNode).Lookup" || name == "(bsonkit.PathNode).Recycle") && at == "bsonkit.PathNode":
		// all stores into a PathNode map: key PathEnd (any value) or value PathNode
		good := true
		n := 0
		for _, f := range c.repoFuncs() {
			allInstrs(f, func(in ssa.Instruction) {
				mu, ok := in.(*ssa.MapUpdate)
				if !ok || typeKey(mu.Map.Type()) != "bsonkit.PathNode" {
					return
				}
				n++
				keyIsEnd := false
				if u, ok := mu.Key.(*ssa.UnOp); ok {
					if g, ok := u.X.(*ssa.Global); ok && g.Name() == "PathEnd" {
						keyIsEnd = true
					}
				}
				valIsNode := false
				if mi, ok := mu.Value.(*ssa.MakeInterface); ok && typeKey(mi.X.Type()) == "bsonkit.PathNode" {
					valIsNode = true
				}
				if !keyIsEnd && !valIsNode {
					good = false
				}
			})
		}
		if good && n >= 2 {
			return "PathNode tree shape: the only map stores are n[PathEnd]=value and n[segment]=PathNode (segments cannot equal PathEnd: NUL is not a valid BSON key byte)", true
		}
		return "a non-PathNode value may be stored under a segment key of a PathNode", false
	case fnPkgPath(fn) == pkgBsonkit && at == "bson.D" && fn.Parent() != nil && isPutRootSetter(c, fn):
		// the root callback of put: put is entered with a bson.D and a non-end path, so set() receives the re-sliced document
		put := c.lookupSSA(pkgBsonkit, "put")
		if put == nil {
			return "bsonkit.put not found", false
		}
		// in the bson.D branch of put every set(...) argument is a bson.D (append results)
		good := true
		n := 0
		allInstrs(put, func(in ssa.Instruction) {
			call, ok := in.(*ssa.Call)
			if !ok || call.Call.IsInvoke() || resolveCell(call.Call.Value) != ssa.Value(put.Params[4]) {
				return
			}
			n++
			arg := call.Call.Args[0]
			if mi, ok := arg.(*ssa.MakeInterface); ok {
				t := typeKey(mi.X.Type())
				if t != "bson.D" && t != "bson.A" {
					good = false
				}
			}
		})
		if good && n >= 3 {
			return "root callback of put(): a bson.D goes in (path is not PathEnd for valid BSON keys) and put only hands containers it re-sliced back to set()", true
		}
		return "put() may hand a non-container to the root callback", false
	case name == "bsonkit.Clone" && at == "bson.D":
		// cloneValue's bson.D clause returns a bson.D
		cv := c.lookupSSA(pkgBsonkit, "cloneValue")
		if cv == nil {
			return "cloneValue not found", false
		}
		good := false
		for _, ret := range returnsOf(cv) {
			if mi, ok := retVal(ret, 0).(*ssa.MakeInterface); ok && typeKey(mi.X.Type()) == "bson.D" {
				good = true
			}
		}
		if call, ok := ta.X.(*ssa.Call); ok && staticFn(&call.Call) == cv && good {
			if mi, ok := call.Call.Args[0].(*ssa.MakeInterface); ok && typeKey(mi.X.Type()) == "bson.D" {
				return "cloneValue is called with a bson.D and its bson.D clause returns a bson.D", true
			}
		}
		return "cloneValue's result for a bson.D is not known to be a bson.D", false
	case name == "(*lungo.Database).ListCollectionNames" && at == "string":
		// Transaction.ListCollections writes {name: <string>}
		lc := c.lookupSSA(pkgLungo, "Transaction.ListCollections")
		good := false
		if lc != nil {
			allInstrs(lc, func(in ssa.Instruction) {
				st, ok := in.(*ssa.Store)
				if !ok {
					return
				}
				fa, ok := st.Addr.(*ssa.FieldAddr)
				if !ok || structFieldOf(fa).Name() != "Value" {
					return
				}
				// sibling Key store == "name"
				if refs := fa.X.Referrers(); refs != nil {
					for _, ref := range *refs {
						if fk, ok := ref.(*ssa.FieldAddr); ok && structFieldOf(fk).Name() == "Key" {
							if fr := fk.Referrers(); fr != nil {
								for _, y := range *fr {
									if ks, ok := y.(*ssa.Store); ok {
										if s, ok := constString(ks.Val); ok && s == "name" {
											if mi, ok := st.Val.(*ssa.MakeInterface); ok && typeKey(mi.X.Type()) == "string" {
												good = true
											}
										}
									}
								}
							}
						}
					}
				}
			})
		}
		if good {
			return "Transaction.ListCollections itself writes the \"name\" field as a string", true
		}
		return "the \"name\" field written by ListCollections is not known to be a string", false
	}
	return "", false
}

// ---- PANIC-3 -----------------------------------------------------------------------

// sameSource: two SSA values denote the same run-time integer (same value, or assertions /
// loads of the same source with the same type).
func sameSource(a, b ssa.Value) bool {
	a, b = stripIntConv(a), stripIntConv(b)
	if a == b {
		return true
	}
	ta, ok1 := assertSource(a)
	tb, ok2 := assertSource(b)
	if ok1 && ok2 && ta.X == tb.X && types.Identical(ta.AssertedType, tb.AssertedType) {
		return true
	}
	if sameLoad(a, b) {
		return true
	}
	return false
}

func stripIntConv(v ssa.Value) ssa.Value {
	for {
		cv, ok := v.(*ssa.Convert)
		if !ok {
			return v
		}
		fb, ok1 := cv.X.Type().Underlying().(*types.Basic)
		tb, ok2 := cv.Type().Underlying().(*types.Basic)
		if !ok1 || !ok2 || fb.Info()&types.IsInteger == 0 || tb.Info()&types.IsInteger == 0 {
			return v
		}
		v = cv.X
	}
}

func assertSource(v ssa.Value) (*ssa.TypeAssert, bool) {
	switch x := v.(type) {
	case *ssa.TypeAssert:
		return x, true
	case *ssa.Extract:
		if ta, ok := x.Tuple.(*ssa.TypeAssert); ok && x.Index == 0 {
			return ta, true
		}
	}
	return nil, false
}

// nonZeroGuarded: `at` is only reachable when divisor != 0.
func nonZeroGuarded(fn *ssa.Function, divisor ssa.Value, at ssa.Instruction) bool {
	guarded := false
	allInstrs(fn, func(in ssa.Instruction) {
		iff, ok := in.(*ssa.If)
		if !ok || guarded {
			return
		}
		bo, ok := iff.Cond.(*ssa.BinOp)
		if !ok {
			return
		}
		var k int64
		var isConst bool
		var x ssa.Value
		if kk, okc := constInt(bo.Y); okc {
			k, isConst, x = kk, true, bo.X
		} else if kk, okc := constInt(bo.X); okc {
			k, isConst, x = kk, true, bo.Y
		}
		if !isConst || k != 0 || !sameSource(x, divisor) {
			return
		}
		var nz *ssa.BasicBlock
		switch bo.Op {
		case token.EQL:
			nz = iff.Block().Succs[1]
		case token.NEQ:
			nz = iff.Block().Succs[0]
		case token.LEQ: // x <= 0 false => x > 0
			if x == bo.X {
				nz = iff.Block().Succs[1]
			}
		case token.GTR:
			if x == bo.X {
				nz = iff.Block().Succs[0]
			}
		}
		if nz == nil {
			return
		}
		zero := iff.Block().Succs[0]
		if zero == nz {
			zero = iff.Block().Succs[1]
		}
		// the zero edge must not reach `at`
		if !blockReach([]*ssa.BasicBlock{zero}, map[*ssa.BasicBlock]bool{nz: true})[at.Block()] && (nz == at.Block() || nz.Dominates(at.Block()) || iff.Block().Dominates(at.Block())) {
			guarded = true
		}
	})
	return guarded
}

func divisions(fn *ssa.Function, visit func(bo *ssa.BinOp)) {
	allInstrs(fn, func(in ssa.Instruction) {
		bo, ok := in.(*ssa.BinOp)
		if !ok || (bo.Op != token.QUO && bo.Op != token.REM) {
			return
		}
		if _, isC := bo.Y.(*ssa.Const); isC {
			return
		}
		if b, ok := bo.X.Type().Underlying().(*types.Basic); !ok || b.Info()&types.IsInteger == 0 {
			return
		}
		visit(bo)
	})
}

func divisionGuarded(fn *ssa.Function, bo *ssa.BinOp) bool {
	if nonZeroGuarded(fn, bo.Y, bo) {
		return true
	}
	if zeroPredicateGuarded(fn, bo) {
		return true
	}
	// divisor captured from the enclosing function: the guard must dominate the closure creation
	y := stripIntConv(bo.Y)
	if u, ok := y.(*ssa.UnOp); ok && u.Op == token.MUL {
		if fv, ok := u.X.(*ssa.FreeVar); ok && fn.Parent() != nil {
			idx := -1
			for i, f := range fn.FreeVars {
				if f == fv {
					idx = i
				}
			}
			parent := fn.Parent()
			okAll, n := true, 0
			allInstrs(parent, func(in ssa.Instruction) {
				mc, ok := in.(*ssa.MakeClosure)
				if !ok || mc.Fn != ssa.Value(fn) || idx < 0 {
					return
				}
				n++
				cell := mc.Bindings[idx]
				// a load of the cell that is zero-tested before the closure is made
				found := false
				if refs := cell.Referrers(); refs != nil {
					for _, ref := range *refs {
						if ld, ok := ref.(*ssa.UnOp); ok && ld.Op == token.MUL {
							if nonZeroGuarded(parent, ld, mc) {
								found = true
							}
						}
					}
				}
				if !found {
					okAll = false
				}
			})
			return okAll && n > 0
		}
	}
	return false
}

func rulePanic3(c *Ctx, r *Reporter) {
	n := 0
	for _, fn := range c.repoFuncs() {
		divisions(fn, func(bo *ssa.BinOp) {
			key := fmt.Sprintf("%s:%s by variable", funcName(fn), bo.Op)
			if isBucketFile(c, fn) {
				r.trivial(key, c.pos(bo.Pos()), "GridFS chunk arithmetic: chunk sizes come from bucket options / file records, outside C20's input domain (C18 not applicable)")
				return
			}
			n++
			r.check(divisionGuarded(fn, bo), key, c.pos(bo.Pos()), "dominated by a non-zero test of the divisor", "integer division/modulo by a value that is not known to be non-zero: a zero operand panics")
		})
	}
	r.guard(n, 5, "integer divisions by a variable outside bucket.go")
	positiveCheck(r, "PANIC-3", "Div", "", func(fn *ssa.Function) int {
		k := 0
		divisions(fn, func(bo *ssa.BinOp) {
			if !divisionGuarded(fn, bo) {
				k++
			}
		})
		return k
	})
}

// ---- PANIC-4 -----------------------------------------------------------------------

func rulePanic4(c *Ctx, r *Reporter) {
	byDesign := map[string]string{
		"bsonkit.Compare":            "unreachable: every Class has a case (TAB-1)",
		"bsonkit.compareNumbers":     "unreachable: 4x4 numeric cases (TAB-1)",
		"bsonkit.Inspect":            "only for types ConvertValue never produces (TAB-1)",
		"bsonkit.cloneValue":         "only for types ConvertValue never produces (TAB-1); documented on Clone",
		"bsonkit.MustConvert":        "Must* helper: panics by contract; callers pass literals of supported types",
		"bsonkit.MustConvertList":    "Must* helper: panics by contract",
		"bsonkit.MustConvertValue":   "Must* helper: panics by contract; callers pass stored (already converted) values",
		"(*dbkit.Semaphore).Release": "over-release only; excluded by the token typestate (LOCK-4)",
		"mongokit.NewCollection":     "CreateIndex on a constant, valid _id configuration",
		"lungo.assertOptions":        "documented: unsupported driver option",
	}
	driverTypes := map[string]bool{"Collection": true, "Database": true, "Client": true, "IndexView": true, "Session": true, "Bucket": true, "UploadStream": true, "DownloadStream": true, "MongoClient": true, "MongoSession": true, "Cursor": true, "Stream": true}
	n := 0
	for _, fn := range c.repoFuncs() {
		allInstrs(fn, func(in ssa.Instruction) {
			p, ok := in.(*ssa.Panic)
			if !ok || !p.Pos().IsValid() {
				return
			}
			n++
			key := funcName(fn) + ":panic"
			if why, ok := byDesign[funcName(outermost(fn))]; ok {
				r.ok(key, c.pos(in.Pos()), why)
				return
			}
			// documented guards in exported driver methods: the whole body is the panic, or the panic is
			// the direct consequence of a nil / empty / unsupported-argument test on a parameter
			top := outermost(fn)
			if recv := top.Signature.Recv(); recv != nil && fnPkgPath(top) == pkgLungo {
				if nm := derefNamed(recv.Type()); nm != nil && driverTypes[nm.Obj().Name()] && top.Object() != nil && top.Object().Exported() && fn == top {
					if len(fn.Blocks) == 1 {
						r.ok(key, c.pos(in.Pos()), "documented: driver method is not implemented")
						return
					}
					if argumentGuard(fn, p) {
						r.ok(key, c.pos(in.Pos()), "documented: nil / missing / unsupported argument guard on a parameter")
						return
					}
				}
			}
			r.bad(key, c.pos(in.Pos()), "explicit panic that is neither a documented argument guard nor covered by a table: well-formed input may reach it")
		})
	}
	r.guard(n, 40, "explicit panics")
}

// argumentGuard: the panic's block is entered directly from a test that involves only
// parameters (nil check, emptiness, len == 0) - possibly of a value derived from a parameter
// by a pure transformation (len(filter) of the transformed pipeline).
func argumentGuard(fn *ssa.Function, p *ssa.Panic) bool {
	b := p.Block()
	if len(b.Preds) == 0 {
		return false
	}
	for _, pred := range b.Preds {
		iff, ok := pred.Instrs[len(pred.Instrs)-1].(*ssa.If)
		if !ok {
			return false
		}
		if !derivesFromParams(iff.Cond, 0) {
			return false
		}
	}
	return true
}

func derivesFromParams(v ssa.Value, depth int) bool {
	if depth > 8 {
		return false
	}
	switch x := v.(type) {
	case *ssa.Parameter, *ssa.Const:
		return true
	case *ssa.BinOp:
		return derivesFromParams(x.X, depth+1) && derivesFromParams(x.Y, depth+1)
	case *ssa.UnOp:
		return derivesFromParams(x.X, depth+1)
	case *ssa.Call:
		if b, ok := x.Call.Value.(*ssa.Builtin); ok && b.Name() == "len" {
			return derivesFromParams(x.Call.Args[0], depth+1)
		}
		// pure transformations of parameters (bsonkit.TransformList(pipeline))
		name := calleeFull(&x.Call)
		if strings.HasPrefix(name, pkgBsonkit+".Transform") {
			for _, a := range x.Call.Args {
				if !derivesFromParams(a, depth+1) {
					return false
				}
			}
			return true
		}
		return false
	case *ssa.Extract:
		return derivesFromParams(x.Tuple, depth+1)
	case *ssa.MakeInterface:
		return derivesFromParams(x.X, depth+1)
	case *ssa.Phi:
		for _, e := range x.Edges {
			if !derivesFromParams(e, depth+1) {
				return false
			}
		}
		return true
	case *ssa.Slice:
		return derivesFromParams(x.X, depth+1)
	case *ssa.FieldAddr:
		return derivesFromParams(x.X, depth+1)
	case *ssa.IndexAddr:
		return derivesFromParams(x.X, depth+1)
	}
	return false
}

// ---- NUM-1 -----------------------------------------------------------------------

type boundCtx struct {
	fn   *ssa.Function
	seen map[ssa.Value]bool
	why  string
}

var explicitCapacityParams = map[string]string{
	"bsonkit.NewPathBuilder:buffer": "explicit buffer size argument of an exported helper; the only repo caller passes len(head)+22+len(tail)",
	"dbkit.NewSemaphore:capacity":   "explicit capacity argument; the engine passes the constant 1",
}

// bounded: v is built from constants and lengths of existing values (or clamped against such).
func (bc *boundCtx) bounded(v ssa.Value) bool {
	if bc.seen[v] {
		return true
	}
	bc.seen[v] = true
	switch x := v.(type) {
	case *ssa.Const:
		return true
	case *ssa.Call:
		if b, ok := x.Call.Value.(*ssa.Builtin); ok && (b.Name() == "len" || b.Name() == "cap" || b.Name() == "min") {
			if b.Name() == "min" {
				for _, a := range x.Call.Args {
					if bc.bounded(a) {
						return true
					}
				}
				return false
			}
			return true
		}
		name := calleeFull(&x.Call)
		if strings.HasSuffix(name, ".Len") {
			return true
		}
		bc.why = "result of " + name
		return false
	case *ssa.BinOp:
		switch x.Op {
		case token.ADD, token.SUB, token.MUL, token.QUO, token.REM, token.SHL, token.SHR, token.AND:
			return bc.bounded(x.X) && bc.bounded(x.Y)
		}
		bc.why = "operator " + x.Op.String()
		return false
	case *ssa.Convert:
		return bc.bounded(x.X)
	case *ssa.ChangeType:
		return bc.bounded(x.X)
	case *ssa.Phi:
		for i, e := range x.Edges {
			if bc.bounded(e) {
				continue
			}
			if clampedOnEdge(x.Block().Preds[i], x.Block(), e, bc) {
				continue
			}
			return false
		}
		return true
	case *ssa.Parameter:
		key := funcName(bc.fn) + ":" + x.Name()
		if _, ok := explicitCapacityParams[key]; ok {
			return true
		}
		bc.why = "parameter " + x.Name()
		return false
	case *ssa.Extract:
		if call, ok := x.Tuple.(*ssa.Call); ok {
			bc.why = "result of " + calleeFull(&call.Call)
		} else {
			bc.why = "extracted value " + x.String()
		}
		return false
	case *ssa.UnOp:
		if x.Op == token.MUL {
			if fa, ok := x.X.(*ssa.FieldAddr); ok {
				bc.why = "field " + structFieldOf(fa).Name()
				return false
			}
			// local cell
			if cell, ok := x.X.(*ssa.Alloc); ok {
				okAll := true
				if refs := cell.Referrers(); refs != nil {
					for _, ref := range *refs {
						if st, ok := ref.(*ssa.Store); ok && st.Addr == cell && !bc.bounded(st.Val) {
							okAll = false
						}
					}
				}
				return okAll
			}
		}
		if x.Op == token.SUB {
			return bc.bounded(x.X)
		}
	case *ssa.TypeAssert:
		bc.why = "value taken out of an interface (caller supplied number)"
		return false
	}
	if bc.why == "" {
		bc.why = fmt.Sprintf("%T", v)
	}
	return false
}

// clampedOnEdge: on the CFG edge pred->blk the value e is known to be <= some bounded expression.
func clampedOnEdge(pred, blk *ssa.BasicBlock, e ssa.Value, bc *boundCtx) bool {
	if len(pred.Instrs) == 0 {
		return false
	}
	iff, ok := pred.Instrs[len(pred.Instrs)-1].(*ssa.If)
	if !ok {
		// the edge may come from a block dominated by such a test
		return dominatedUpperBound(pred, e, bc)
	}
	bo, ok := iff.Cond.(*ssa.BinOp)
	if !ok {
		return false
	}
	isTrueEdge := pred.Succs[0] == blk
	return upperBoundByTest(bo, isTrueEdge, e, bc) || dominatedUpperBound(pred, e, bc)
}

// upperBoundByTest: taking the given edge of `bo` implies e <= K for a bounded K.
func upperBoundByTest(bo *ssa.BinOp, trueEdge bool, e ssa.Value, bc *boundCtx) bool {
	sub := &boundCtx{fn: bc.fn, seen: map[ssa.Value]bool{}}
	switch {
	case bo.X == e && sub.bounded(bo.Y):
		// e < K / e <= K on the true edge; e > K / e >= K on the false edge
		if trueEdge && (bo.Op == token.LSS || bo.Op == token.LEQ) {
			return true
		}
		if !trueEdge && (bo.Op == token.GTR || bo.Op == token.GEQ) {
			return true
		}
	case bo.Y == e && sub.bounded(bo.X):
		if trueEdge && (bo.Op == token.GTR || bo.Op == token.GEQ) {
			return true
		}
		if !trueEdge && (bo.Op == token.LSS || bo.Op == token.LEQ) {
			return true
		}
	}
	return false
}

func dominatedUpperBound(b *ssa.BasicBlock, e ssa.Value, bc *boundCtx) bool {
	res := false
	allInstrs(bc.fn, func(in ssa.Instruction) {
		iff, ok := in.(*ssa.If)
		if !ok || res {
			return
		}
		bo, ok := iff.Cond.(*ssa.BinOp)
		if !ok {
			return
		}
		for i, s := range iff.Block().Succs {
			if (s == b || s.Dominates(b)) && len(s.Preds) == 1 && upperBoundByTest(bo, i == 0, e, bc) {
				res = true
			}
		}
	})
	return res
}

type num1Finding struct {
	in   ssa.Instruction
	what string
	why  string
}

func num1Scan(fn *ssa.Function) (checked int, findings []num1Finding) {
	return num1ScanHook(fn, nil)
}

func num1ScanHook(fn *ssa.Function, hook func(what string)) (checked int, findings []num1Finding) {
	chk := func(in ssa.Instruction, what string, v ssa.Value) {
		if v == nil {
			return
		}
		checked++
		if hook != nil {
			hook(what)
		}
		bc := &boundCtx{fn: fn, seen: map[ssa.Value]bool{}}
		if !bc.bounded(v) {
			findings = append(findings, num1Finding{in, what, bc.why})
		}
	}
	allInstrs(fn, func(in ssa.Instruction) {
		switch x := in.(type) {
		case *ssa.MakeSlice:
			chk(in, "make slice len", x.Len)
			chk(in, "make slice cap", x.Cap)
		case *ssa.MakeMap:
			chk(in, "make map size", x.Reserve)
		case *ssa.MakeChan:
			chk(in, "make chan size", x.Size)
		case *ssa.If:
			// counting loop whose body allocates: `i < X` with i an induction phi in this block
			bo, ok := x.Cond.(*ssa.BinOp)
			if !ok || !inLoop(x.Block()) {
				return
			}
			var bound ssa.Value
			isInduction := func(v ssa.Value) bool {
				phi, ok := v.(*ssa.Phi)
				if !ok || phi.Block() != x.Block() {
					return false
				}
				for _, e := range phi.Edges {
					if b, ok := e.(*ssa.BinOp); ok && b.Op == token.ADD && (b.X == ssa.Value(phi) || b.Y == ssa.Value(phi)) {
						return true
					}
				}
				return false
			}
			switch {
			case (bo.Op == token.LSS || bo.Op == token.LEQ) && isInduction(bo.X):
				bound = bo.Y
			case (bo.Op == token.GTR || bo.Op == token.GEQ) && isInduction(bo.Y):
				bound = bo.X
			default:
				return
			}
			// does the loop body grow something?
			body := blockReach([]*ssa.BasicBlock{x.Block().Succs[0]}, map[*ssa.BasicBlock]bool{x.Block(): true})
			grows := false
			for b := range body {
				for _, y := range b.Instrs {
					if call, ok := y.(*ssa.Call); ok {
						if bi, ok := call.Call.Value.(*ssa.Builtin); ok && bi.Name() == "append" {
							grows = true
						}
					}
					if _, ok := y.(*ssa.MakeSlice); ok {
						grows = true
					}
				}
			}
			if grows {
				var at ssa.Instruction = bo
				chk(at, "bound of an appending loop", bound)
			}
		}
	})
	return
}

func ruleNum1(c *Ctx, r *Reporter) { ruleNum(c, r, false) }
func ruleNum4(c *Ctx, r *Reporter) { ruleNum(c, r, true) }

func ruleNum(c *Ctx, r *Reporter, loops bool) {
	total := 0
	for _, fn := range c.repoFuncs() {
		if isBucketFile(c, fn) {
			continue
		}
		n0, all := num1Scan(fn)
		var findings []num1Finding
		n := 0
		for _, f := range all {
			if strings.HasPrefix(f.what, "bound of") == loops {
				findings = append(findings, f)
			}
		}
		// count the operands of this kind
		if loops {
			n = countLoopBounds(fn)
		} else {
			n = n0 - countLoopBounds(fn)
		}
		total += n
		sort.Slice(findings, func(i, j int) bool { return findings[i].in.Pos() < findings[j].in.Pos() })
		for _, f := range findings {
			r.bad(fmt.Sprintf("%s:%s", funcName(fn), f.what), c.pos(f.in.Pos()), "size is caller-controlled ("+f.why+") and not clamped: a huge value panics (makeslice) or exhausts memory")
		}
		if n > 0 && len(findings) == 0 {
			r.ok(funcName(fn)+":allocation sizes", c.pos(fn.Pos()), fmt.Sprintf("%d size operand(s) built from constants / len() / clamped values", n))
		}
	}
	if loops {
		r.guard(total, 3, "bounds of appending counting loops")
		positiveCheck(r, "NUM-4 loop", "Backfill", "", func(fn *ssa.Function) int {
			_, f := num1Scan(fn)
			return len(f)
		})
		return
	}
	r.guard(total, 60, "allocation size operands")
	for k, why := range explicitCapacityParams {
		r.trivial("exception "+k, "-", why)
	}
	positiveCheck(r, "NUM-1 make", "MakeN", "MakeClamped", func(fn *ssa.Function) int {
		_, f := num1Scan(fn)
		return len(f)
	})
}

func countLoopBounds(fn *ssa.Function) int {
	n := 0
	_, _ = num1ScanHook(fn, func(what string) {
		if strings.HasPrefix(what, "bound of") {
			n++
		}
	})
	return n
}

// zeroPredicateGuarded: the divisor is the integer held by an interface value x (x.(K)), and the division is dominated
// by the false edge of a test H(x) where H is a repository predicate that returns `v == 0` for x.(K).
func zeroPredicateGuarded(fn *ssa.Function, bo *ssa.BinOp) bool {
	y := stripIntConv(bo.Y)
	var x ssa.Value
	var kT types.Type
	switch v := y.(type) {
	case *ssa.TypeAssert:
		x, kT = v.X, v.AssertedType
	case *ssa.Extract:
		if ta, ok := v.Tuple.(*ssa.TypeAssert); ok && v.Index == 0 {
			x, kT = ta.X, ta.AssertedType
		}
	}
	if x == nil {
		return false
	}
	for _, b := range fn.Blocks {
		iff, ok := b.Instrs[len(b.Instrs)-1].(*ssa.If)
		if !ok {
			continue
		}
		cond, neg := iff.Cond, false
		if u, ok := cond.(*ssa.UnOp); ok && u.Op == token.NOT {
			cond, neg = u.X, true
		}
		call, ok := cond.(*ssa.Call)
		if !ok || len(call.Call.Args) != 1 || call.Call.Args[0] != x {
			continue
		}
		h := call.Call.StaticCallee()
		if h == nil || h.Blocks == nil || !strings.HasPrefix(fnPkgPath(h), pkgLungo) || len(h.Params) != 1 {
			continue
		}
		// the edge on which H(x) is false
		notZero := b.Succs[1]
		if neg {
			notZero = b.Succs[0]
		}
		if !(len(notZero.Preds) == 1 && (notZero == bo.Block() || notZero.Dominates(bo.Block()))) {
			continue
		}
		// H returns v == 0 for param.(K)
		okPred := false
		allInstrs(h, func(in ssa.Instruction) {
			ret, isRet := in.(*ssa.Return)
			if !isRet || len(ret.Results) != 1 {
				return
			}
			cmp, ok := retVal(ret, 0).(*ssa.BinOp)
			if !ok || cmp.Op != token.EQL {
				return
			}
			if k, ok := constInt(cmp.Y); !ok || k != 0 {
				return
			}
			var ta *ssa.TypeAssert
			switch v := stripIntConv(cmp.X).(type) {
			case *ssa.TypeAssert:
				ta = v
			case *ssa.Extract:
				ta, _ = v.Tuple.(*ssa.TypeAssert)
			}
			if ta != nil && ta.X == ssa.Value(h.Params[0]) && types.Identical(ta.AssertedType, kT) {
				okPred = true
			}
		})
		if okPred {
			return true
		}
	}
	return false
}

// isPutRootSetter: fn is a function literal used for nothing but the `set` callback (5th argument) of bsonkit.put -
// written at the call, or returned by an unexported function whose every result goes there.
func isPutRootSetter(c *Ctx, fn *ssa.Function) bool {
	put := c.lookupSSA(pkgBsonkit, "put")
	if put == nil || fn.Parent() == nil || len(put.Params) < 5 {
		return false
	}
	toPut := func(v ssa.Value) bool {
		refs := v.Referrers()
		if refs == nil || len(*refs) == 0 {
			return false
		}
		for _, ref := range *refs {
			call, ok := ref.(*ssa.Call)
			if !ok || staticFn(&call.Call) != put || len(call.Call.Args) < 5 || call.Call.Args[4] != v {
				return false
			}
		}
		return true
	}
	n := 0
	good := true
	allInstrs(fn.Parent(), func(in ssa.Instruction) {
		mc, ok := in.(*ssa.MakeClosure)
		if !ok || mc.Fn != ssa.Value(fn) {
			return
		}
		n++
		if toPut(mc) {
			return
		}
		// returned by the enclosing function: all its calls feed put
		refs := mc.Referrers()
		if refs == nil {
			good = false
			return
		}
		for _, ref := range *refs {
			if _, isRet := ref.(*ssa.Return); !isRet {
				good = false
				return
			}
		}
		callers, complete := allCallers(fn.Parent())
		if !complete || len(callers) == 0 {
			good = false
			return
		}
		for _, ci := range callers {
			v, ok := ci.(*ssa.Call)
			if !ok || !toPut(v) {
				good = false
			}
		}
	})
	return n > 0 && good
}
