package main

import (
	"fmt"
	"sort"
	"strings"

	"golang.org/x/tools/go/ssa"
)

func init() {
	register(&Rule{ID: "OWN-4", Doc: "stored documents and caller arguments are never mutated in place: at every in-place mutation in mongokit/lungo (bsonkit.Put/Unset/Increment/Multiply/Push/Pop/Sort, raw element stores, copy, append into a shared backing array, sort.Slice*) the mutated container(s) - outermost only for single-key writes, everything reachable otherwise - are fresh in the sharing analysis", Run: ruleOwn4})
	register(&Rule{ID: "OWN-5", Doc: "arguments enter by copy: containers of driver-level arguments (documents, filters, updates, option documents, write models) reach nothing but Transform/TransformList/Decode, other driver methods and assertOptions", Run: ruleOwn5})
	register(&Rule{ID: "OWN-6", Doc: "results leave by copy: no value returned by a driver method (or by an accessor of Cursor/SingleResult/Stream) shares containers with stored state", Run: ruleOwn6})
	register(&Rule{ID: "OWN-7", Doc: "engine-level inserts, replacements and updates are cloned: no container of a Transaction-level argument becomes part of a stored document (bsonkit.Set.Add/Replace/NewSet operands share nothing with API arguments)", Run: ruleOwn7})
}

func shareEventKey(c *Ctx, e shareEvent) string {
	return fmt.Sprintf("%s:%s %s", funcName(e.fn), e.kind, e.what)
}

func ruleOwn4(c *Ctx, r *Reporter) {
	s := shareAnalysis(c)
	n := 0
	counts := map[string]int{}
	evs := append([]shareEvent{}, s.events...)
	sort.SliceStable(evs, func(i, j int) bool { return evs[i].in.Pos() < evs[j].in.Pos() })
	for _, e := range evs {
		var bad uint8
		switch e.kind {
		case "mutate-shallow", "permute":
			bad = e.target.top &^ tID
		case "mutate-deep":
			bad = (e.target.deep | e.target.top) &^ tID
		default:
			continue
		}
		n++
		counts[e.kind]++
		key := shareEventKey(c, e)
		if bad == 0 {
			r.ok(key, c.pos(e.in.Pos()), "target is fresh (a clone / a container built here)")
			continue
		}
		what := "the outermost container"
		if e.kind == "mutate-deep" {
			what = "a container reachable from the target"
		}
		r.bad(key, c.pos(e.in.Pos()), fmt.Sprintf("%s may be shared with %s: an in-place write would change a committed document / the caller's value", what, taintStr(bad)))
	}
	r.guard(n, 40, "in-place mutation sites in mongokit and lungo")
	r.guard(counts["mutate-deep"], 15, "deep (path) mutations")
	r.guard(counts["permute"], 4, "in-place sorts")
	r.trivial("analysis", "-", fmt.Sprintf("sharing analysis: %d functions, %d passes to fixpoint", s.stats.funcs, s.stats.passes))
}

var pdSinks = map[string]string{
	"lungo.assertOptions": "reflective nil-check of option fields; reads only",
}

func ruleOwn5(c *Ctx, r *Reporter) {
	s := shareAnalysis(c)
	nDriver, nParams := 0, 0
	for _, fn := range s.funcs {
		if s.boundaryKind(fn) == tPD {
			nDriver++
			// every docish parameter is examined through its uses: summarise per method
			leaks := []string{}
			for _, g := range withClosures(fn) {
				for _, fv := range g.FreeVars {
					if s.free[fv].deep&tPD != 0 {
						leaks = append(leaks, "closure captures the raw argument via "+fv.Name())
					}
				}
			}
			key := funcName(fn) + ":arguments"
			docish := 0
			for i, p := range fn.Params {
				if i > 0 && s.isDocish(p.Type()) {
					docish++
				}
			}
			if docish == 0 {
				continue
			}
			nParams += docish
			r.check(len(leaks) == 0, key, c.pos(fn.Pos()), fmt.Sprintf("%d document-carrying parameter(s) only reach copying functions", docish), strings.Join(leaks, "; "))
		}
	}
	// nothing beyond the driver layer ever sees a driver argument
	for _, fn := range s.funcs {
		if s.boundaryKind(fn) == tPD {
			continue
		}
		if _, ok := pdSinks[funcName(fn)]; ok {
			continue
		}
		// an unexported method of a driver type is part of the driver layer (the body of an exported method moved
		// into a helper both it and a sibling use): what it does with the argument is examined through the
		// transfer/mutate events below like that of an exported method
		if recv := fn.Signature.Recv(); recv != nil && fn.Parent() == nil && fnPkgPath(fn) == pkgLungo && !isBucketFile(c, fn) {
			if n := derefNamed(recv.Type()); n != nil && driverTypeNames[n.Obj().Name()] {
				continue
			}
		}
		// a function literal written inside a driver method is part of that method
		if fn.Parent() != nil && s.boundaryKind(outermost(fn)) == tPD {
			continue
		}
		for _, p := range fn.Params {
			if s.param[p].deep&tPD != 0 {
				r.bad(funcName(fn)+":receives driver argument "+p.Name(), c.pos(fn.Pos()), "a container owned by the caller of a driver method reaches this function without passing Transform: it could be retained or modified")
			}
		}
	}
	var fs []string
	for f, t := range s.field {
		if t.deep&tPD != 0 {
			fs = append(fs, f.Name())
			r.bad("field "+f.Name()+" holds a driver argument", c.pos(f.Pos()), "a caller-owned container is stored in a struct field")
		}
	}
	for _, e := range s.events {
		if (e.kind == "transfer" || strings.HasPrefix(e.kind, "mutate") || e.kind == "permute") && (e.target.deep|e.target.top)&tPD != 0 {
			r.bad(shareEventKey(c, e)+" on a driver argument", c.pos(e.in.Pos()), "a caller-owned container is mutated or stored")
		}
	}
	r.guard(nDriver, 30, "exported driver methods")
	r.guard(nParams, 40, "document-carrying driver parameters")
	for k, why := range pdSinks {
		r.trivial("allowed sink "+k, "-", why)
	}
}

func ruleOwn6(c *Ctx, r *Reporter) {
	s := shareAnalysis(c)
	n := 0
	seen := map[string]bool{}
	evs := append([]shareEvent{}, s.events...)
	sort.SliceStable(evs, func(i, j int) bool { return evs[i].in.Pos() < evs[j].in.Pos() })
	for _, e := range evs {
		if e.kind != "return" {
			continue
		}
		n++
		key := funcName(e.fn) + ":" + e.what
		bad := (e.target.deep | e.target.top) & (tS | tID)
		if bad != 0 {
			r.bad(key, c.pos(e.in.Pos()), "the returned value shares containers with stored documents: the caller could modify committed data through it (copy with ConvertValue / Decode)")
			continue
		}
		if !seen[key] {
			seen[key] = true
			r.ok(key, c.pos(e.in.Pos()), "shares nothing with stored state (copy, count, or wrapper whose accessors copy)")
		}
	}
	r.guard(n, 25, "document-carrying results of driver methods and wrapper accessors")
	// wrappers do not expose their document fields
	for _, tn := range []string{"Cursor", "SingleResult", "Stream"} {
		t := c.lookupType(pkgLungo, tn)
		if t == nil {
			r.bad("anchor:"+tn, "-", "wrapper type not found")
			continue
		}
		for i := 0; i < t.NumMethods(); i++ {
			m := t.Method(i)
			if !m.Exported() {
				continue
			}
			fn := c.ssaFunc(m)
			if fn == nil {
				continue
			}
			for _, ret := range returnsOf(fn) {
				for k := range ret.Results {
					rv := retVal(ret, k)
					if u, ok := rv.(*ssa.UnOp); ok {
						if fa, ok := u.X.(*ssa.FieldAddr); ok && s.isDocish(rv.Type()) && s.repoStruct(fa.X.Type()) {
							r.bad(tn+"."+m.Name()+":exposes field "+structFieldOf(fa).Name(), c.pos(ret.Pos()), "a wrapper accessor returns its internal document field directly")
						}
					}
				}
			}
		}
	}
}

func ruleOwn7(c *Ctx, r *Reporter) {
	s := shareAnalysis(c)
	n := 0
	evs := append([]shareEvent{}, s.events...)
	sort.SliceStable(evs, func(i, j int) bool { return evs[i].in.Pos() < evs[j].in.Pos() })
	for _, e := range evs {
		if e.kind != "transfer" {
			continue
		}
		n++
		key := shareEventKey(c, e)
		bad := (e.target.deep | e.target.top) & (tPD | tPE)
		r.check(bad == 0, key, c.pos(e.in.Pos()), "the document that becomes stored state shares nothing with an API argument (it is a clone)", "the stored document may share containers with "+taintStr(bad)+": the caller can change committed data by modifying its argument afterwards")
	}
	r.guard(n, 5, "operations that turn a document into stored state")
}
