package main

import (
	"fmt"
	"go/token"
	"go/types"
	"sort"
	"strings"

	"golang.org/x/tools/go/ssa"
)

// GFS rules (C18): the chunk arithmetic of bucket.go as identities between linear forms.
//
// What a download returns for what was uploaded is a relation over runtime values and is not
// decided. What is decided is the bookkeeping the byte-exactness rests on, which is visible in the
// shape of the code: how a chunk's number, its data window, the step of the cutting loop and the
// three counters (bufLen, chunks, length) are computed from each other, which values the file
// record is filled from, how a position is split into (chunk number, offset) when seeking, in which
// order chunks are fetched and checked, how Read advances, and that removing a file removes its
// chunks. Every quantity is normalised to a linear form over atoms (receiver fields, parameters,
// loop variables, len(x)); two spellings of the same computation give the same form.

func init() {
	register(&Rule{ID: "GFS-1", Doc: "upload bookkeeping: in UploadStream.upload a chunk is numbered s.chunks + len(chunks so far), its data is buffer[i : i+size] with size = min(bufLen-i, chunkSize), the cutting loop advances by chunkSize, a partial chunk is cut only when final, and afterwards bufLen -= chunked bytes (the remainder is moved to the front), chunks += len(chunks), length += chunked bytes; the cut chunks are what InsertMany receives", Run: ruleGfs1})
	register(&Rule{ID: "GFS-2", Doc: "file records state what was uploaded: the BucketFile / BucketMarker written by UploadStream.Close take Length from s.length, ChunkSize from s.chunkSize and the id from s.id; Resume restores chunks and length from the stored chunks, accepting only chunk numbers 0,1,2,... of full size", Run: ruleGfs2})
	register(&Rule{ID: "GFS-3", Doc: "download arithmetic: DownloadStream.seek fetches chunks of the file sorted by n ascending skipping position/chunkSize, requires the first to carry that number, and starts reading at offset position - number*chunkSize (or position % chunkSize) of its data; next requires consecutive numbers; load computes ceil(length/chunkSize) chunks; Read reports EOF at position >= length and advances position, the output cursor and the buffer by the number of bytes copied; Seek computes the position per whence from 0, the current position or the file length and stores it only after seek succeeded", Run: ruleGfs3})
	register(&Rule{ID: "GFS-4", Doc: "no chunks are left behind: Bucket.Delete (untracked) deletes the chunks with files_id = id on every path that reports success after deleting the file record, and UploadStream.Abort deletes the chunks with files_id = s.id whenever chunks were written, before it reports success", Run: ruleGfs4})
}

// ---- linear forms over field atoms ---------------------------------------------------------

// fieldPath: v is a load of recv.f1.f2... (pointer fields and embedded structs followed); returns "f1.f2".
func fieldPath(v ssa.Value) (string, bool) {
	u, ok := v.(*ssa.UnOp)
	if !ok || u.Op != token.MUL {
		return "", false
	}
	return addrPath(u.X)
}

func addrPath(a ssa.Value) (string, bool) {
	fa, ok := a.(*ssa.FieldAddr)
	if !ok {
		return "", false
	}
	name := structFieldOf(fa).Name()
	switch x := fa.X.(type) {
	case *ssa.Parameter:
		return name, true
	case *ssa.FieldAddr:
		if p, ok := addrPath(x); ok {
			return p + "." + name, true
		}
	case *ssa.UnOp:
		if p, ok := fieldPath(x); ok {
			return p + "." + name, true
		}
	case *ssa.Alloc:
		return x.Name() + "." + name, true
	case *ssa.Extract, *ssa.Call:
		// the result of a private method of the same receiver that returns a receiver field on every successful
		// path (`file, err := s.load()` for `s.file`)
		if p, ok := helperFieldResult(x); ok {
			return p + "." + name, true
		}
	}
	return "", false
}

// helperFieldResult: v is the (i-th) result of a call recv.h(...) of a private helper h on the caller's own receiver, and
// every return of h that yields a nil error returns, at that index, a load of one and the same field path of h's receiver.
func helperFieldResult(v ssa.Value) (string, bool) {
	var call *ssa.Call
	idx := 0
	switch x := v.(type) {
	case *ssa.Extract:
		c, ok := x.Tuple.(*ssa.Call)
		if !ok {
			return "", false
		}
		call, idx = c, x.Index
	case *ssa.Call:
		call = x
	}
	if call == nil {
		return "", false
	}
	// any unexported method with a body will do (it may have several callers: what is read is its own returns)
	if call.Call.IsInvoke() {
		return "", false
	}
	h, _ := call.Call.Value.(*ssa.Function)
	if h == nil || len(h.Blocks) == 0 || h.Signature.Recv() == nil || len(call.Call.Args) == 0 || len(h.Params) == 0 {
		return "", false
	}
	if obj, ok := h.Object().(*types.Func); !ok || obj.Exported() {
		return "", false
	}
	if _, isParam := call.Call.Args[0].(*ssa.Parameter); !isParam {
		return "", false
	}
	res := h.Signature.Results()
	errLast := res.Len() >= 2 && isErrorType(res.At(res.Len()-1).Type())
	path := ""
	for _, ret := range returnsOf(h) {
		if len(ret.Results) != res.Len() || idx >= res.Len() {
			return "", false
		}
		if errLast && !isNilConst(retVal(ret, res.Len()-1)) {
			continue
		}
		rv := retVal(ret, idx)
		p, ok := fieldPath(rv)
		if !ok || rootParam(rv) != h.Params[0] {
			return "", false
		}
		if path != "" && p != path {
			return "", false
		}
		path = p
	}
	return path, path != ""
}

// rootParam: the parameter a load of recv.f1.f2 starts from.
func rootParam(v ssa.Value) *ssa.Parameter {
	for d := 0; d < 8; d++ {
		switch x := v.(type) {
		case *ssa.UnOp:
			v = x.X
		case *ssa.FieldAddr:
			v = x.X
		case *ssa.Parameter:
			return x
		default:
			return nil
		}
	}
	return nil
}

// valName: the register name of a value, qualified by its function (forms may mix values of a function and of its
// private helpers).
func valName(v ssa.Value) string {
	if in, ok := v.(ssa.Instruction); ok && in.Parent() != nil {
		return v.Name() + "@" + in.Parent().Name()
	}
	if p, ok := v.(*ssa.Parameter); ok && p.Parent() != nil {
		return v.Name() + "@" + p.Parent().Name()
	}
	return v.Name()
}

func gfsAtom(v ssa.Value) (string, bool) {
	if r := resolveHelperValue(v); r != v {
		// the value crosses the boundary of a private helper: an atom only if what it stands for is one
		if a, ok := gfsAtom(stripIntConv(r)); ok {
			return a, true
		}
		return "", false
	}
	if p, ok := fieldPath(v); ok {
		return "f:" + p, true
	}
	switch x := v.(type) {
	case *ssa.Parameter:
		return "p:" + valName(x), true
	case *ssa.Phi:
		return "phi:" + valName(x), true
	case *ssa.Call:
		if b, ok := x.Call.Value.(*ssa.Builtin); ok && b.Name() == "len" {
			if a, ok := gfsAtom(x.Call.Args[0]); ok {
				return "len(" + a + ")", true
			}
			return "len(" + valName(x.Call.Args[0]) + ")", true
		}
		return "v:" + valName(x), true
	case *ssa.Extract, *ssa.UnOp, *ssa.Index, *ssa.Lookup, *ssa.TypeAssert, *ssa.Field:
		return "v:" + valName(v), true
	case *ssa.BinOp:
		if x.Op != token.ADD && x.Op != token.SUB {
			return "v:" + valName(v), true
		}
	}
	return "", false
}

func gfsLin(v ssa.Value) linForm {
	f, ok := gfsLinOf(v, 0)
	if !ok {
		return linForm{coef: map[string]int64{"v:" + valName(v): 1}}
	}
	return f
}

// gfsLinOf: linOf over gfsAtom that also looks through private helpers (a helper parameter bound to i+1 is i+1).
func gfsLinOf(v ssa.Value, depth int) (linForm, bool) {
	v = stripIntConv(v)
	if r := resolveHelperValue(v); r != v && depth < 8 {
		return gfsLinOf(r, depth+1)
	}
	if a, ok := gfsAtom(v); ok {
		return linForm{coef: map[string]int64{a: 1}}, true
	}
	if k, ok := constInt(v); ok {
		return linForm{coef: map[string]int64{}, k: k}, true
	}
	if depth > 8 {
		return linForm{}, false
	}
	if bo, ok := v.(*ssa.BinOp); ok && (bo.Op == token.ADD || bo.Op == token.SUB) {
		l, ok1 := gfsLinOf(bo.X, depth+1)
		r, ok2 := gfsLinOf(bo.Y, depth+1)
		if ok1 && ok2 {
			sign := int64(1)
			if bo.Op == token.SUB {
				sign = -1
			}
			return l.add(r, sign), true
		}
	}
	return linForm{}, false
}

func lf(k int64, terms ...interface{}) linForm {
	out := linForm{coef: map[string]int64{}, k: k}
	for i := 0; i+1 < len(terms); i += 2 {
		out.coef[terms[i].(string)] += int64(terms[i+1].(int))
	}
	for a, c := range out.coef {
		if c == 0 {
			delete(out.coef, a)
		}
	}
	return out
}

func atomOf(v ssa.Value) string {
	a, ok := gfsAtom(stripIntConv(v))
	if !ok {
		return "v:" + valName(v)
	}
	return a
}

// storesTo: the stores into field `name` of a value of named type tn (a literal under construction or the receiver).
func storesToField(fn *ssa.Function, tn *types.Named, name string) []*ssa.Store {
	var out []*ssa.Store
	coneInstrs(fn, func(in ssa.Instruction) {
		st, ok := in.(*ssa.Store)
		if !ok {
			return
		}
		fa, ok := st.Addr.(*ssa.FieldAddr)
		if !ok || derefNamed(fa.X.Type()) != tn || structFieldOf(fa).Name() != name {
			return
		}
		out = append(out, st)
	})
	return out
}

func ruleGfs1(c *Ctx, r *Reporter) {
	fn := c.lookupSSA(pkgLungo, "UploadStream.upload")
	chunkT := c.lookupType(pkgLungo, "BucketChunk")
	upT := c.lookupType(pkgLungo, "UploadStream")
	if fn == nil || chunkT == nil || upT == nil || len(fn.Params) < 2 {
		r.bad("anchor:UploadStream.upload", "-", "not found")
		return
	}
	pos := c.pos(fn.Pos())
	final := fn.Params[1]
	// the append of a chunk and the slice it appends to
	var app *ssa.Call
	coneInstrs(fn, func(in ssa.Instruction) {
		if call, ok := in.(*ssa.Call); ok {
			if b, ok := call.Call.Value.(*ssa.Builtin); ok && b.Name() == "append" && innermostLoopHeader(call.Block()) != nil {
				app = call
			}
		}
	})
	if app == nil {
		r.bad("upload:chunk loop", pos, "no append inside a loop")
		return
	}
	chunksPhi, ok := app.Call.Args[0].(*ssa.Phi)
	if !ok {
		r.unk("upload:chunk loop", c.pos(app.Pos()), "the chunk list is not a loop variable")
		return
	}
	lenChunks := "len(" + atomOf(chunksPhi) + ")"
	hdr := chunksPhi.Block()
	// (1) number
	nums := storesToField(fn, chunkT, "Num")
	if len(nums) != 1 {
		r.bad("upload:chunk number", pos, "BucketChunk.Num is not assigned exactly once")
	} else {
		got := gfsLin(nums[0].Val)
		want := lf(0, "f:chunks", 1, lenChunks, 1)
		r.check(got.equal(want), "upload:chunk number", c.pos(nums[0].Pos()), "n = s.chunks + len(chunks)", fmt.Sprintf("n = %s, expected s.chunks + len(chunks): chunks are not numbered 0..n-1 across buffer flushes", got))
	}
	// (2) data window and the size variable
	datas := storesToField(fn, chunkT, "Data")
	var sizeV ssa.Value
	var idx ssa.Value
	if len(datas) != 1 {
		r.bad("upload:chunk data", pos, "BucketChunk.Data is not assigned exactly once")
	} else if sl, ok := datas[0].Val.(*ssa.Slice); !ok || sl.Low == nil || sl.High == nil {
		r.bad("upload:chunk data", c.pos(datas[0].Pos()), "the chunk data is not a window buffer[i:j]")
	} else {
		bufOK := false
		if p, ok := fieldPath(sl.X); ok && p == "buffer" {
			bufOK = true
		}
		idx = sl.Low
		width := gfsLin(sl.High).add(gfsLin(sl.Low), -1)
		// the width must be a single variable: the size
		if len(width.coef) == 1 && width.k == 0 {
			for a, cf := range width.coef {
				if cf == 1 {
					// find the value with that atom
					coneInstrs(fn, func(in ssa.Instruction) {
						if v, ok := in.(ssa.Value); ok && sizeV == nil && atomOf(v) == a {
							sizeV = v
						}
					})
				}
			}
		}
		_, lowIsPhi := sl.Low.(*ssa.Phi)
		r.check(bufOK && sizeV != nil && lowIsPhi, "upload:chunk data", c.pos(datas[0].Pos()), "data = s.buffer[i : i+size]", fmt.Sprintf("the chunk data is not s.buffer[i : i+size] with the loop variable i (width %s)", width))
	}
	// (3) size = min(bufLen - i, chunkSize)
	if sp, ok := sizeV.(*ssa.Phi); ok && idx != nil {
		var forms []string
		for _, e := range sp.Edges {
			forms = append(forms, gfsLin(e).String())
		}
		sort.Strings(forms)
		w1 := lf(0, "f:bufLen", 1, atomOf(idx), -1).String()
		w2 := lf(0, "f:chunkSize", 1).String()
		want := []string{w1, w2}
		sort.Strings(want)
		r.check(len(forms) == 2 && forms[0] == want[0] && forms[1] == want[1], "upload:chunk size", c.pos(sp.Pos()), "size is bufLen-i or chunkSize", fmt.Sprintf("size is one of %v, expected bufLen-i and chunkSize", forms))
		// the clamp: chunkSize is chosen when bufLen-i > chunkSize
		clampOK := false
		for k, e := range sp.Edges {
			if gfsLin(e).String() != w2 {
				continue
			}
			pb := sp.Block().Preds[k]
			for _, pp := range pb.Preds {
				if iff, ok := pp.Instrs[len(pp.Instrs)-1].(*ssa.If); ok && pp.Succs[0] == pb {
					if bo, ok := iff.Cond.(*ssa.BinOp); ok {
						d := gfsLin(bo.X).add(gfsLin(bo.Y), -1)
						w := lf(0, "f:bufLen", 1, atomOf(idx), -1, "f:chunkSize", -1)
						if (bo.Op == token.GTR && d.equal(w)) || (bo.Op == token.LSS && d.equal(w.add(w, -2))) {
							clampOK = true
						}
					}
				}
			}
		}
		r.check(clampOK, "upload:chunk size clamp", c.pos(sp.Pos()), "chunkSize is taken when bufLen-i > chunkSize", "the clamp of the chunk size is not `bufLen-i > chunkSize`")
	} else {
		r.bad("upload:chunk size", pos, "the chunk size is not a clamped variable")
	}
	// (4) loop step and byte counter
	var chunkedPhi *ssa.Phi
	for _, in := range hdr.Instrs {
		ph, ok := in.(*ssa.Phi)
		if !ok {
			break
		}
		if ph == chunksPhi || !isIntType(ph.Type()) {
			continue
		}
		for k, p := range hdr.Preds {
			if !hdr.Dominates(p) {
				continue
			}
			step := gfsLin(ph.Edges[k]).add(lf(0, atomOf(ph), 1), -1)
			switch {
			case ssa.Value(ph) == idx:
				r.check(step.equal(lf(0, "f:chunkSize", 1)), "upload:loop step", c.pos(ph.Pos()), "i += chunkSize", fmt.Sprintf("the cutting loop advances by %s, expected chunkSize", step))
			case sizeV != nil && step.equal(lf(0, atomOf(sizeV), 1)):
				chunkedPhi = ph
			}
		}
	}
	if chunkedPhi == nil {
		r.bad("upload:chunked bytes", pos, "no counter that grows by the size of every cut chunk")
	} else {
		r.ok("upload:chunked bytes", c.pos(chunkedPhi.Pos()), "chunkedBytes += size per cut chunk")
	}
	// (5) a partial chunk is cut only when final
	partialOK := false
	coneInstrs(fn, func(in ssa.Instruction) {
		iff, ok := in.(*ssa.If)
		if !ok || resolveHelperValue(iff.Cond) != ssa.Value(final) {
			return
		}
		b := iff.Block()
		toAppend := b.Succs[0] == app.Block() || b.Succs[0].Dominates(app.Block())
		leaves := !blockReach([]*ssa.BasicBlock{b.Succs[1]}, map[*ssa.BasicBlock]bool{hdr: true})[app.Block()]
		// reached only for a partial chunk: the predecessor tests size < chunkSize
		partial := false
		for _, pp := range b.Preds {
			if i2, ok := pp.Instrs[len(pp.Instrs)-1].(*ssa.If); ok && pp.Succs[0] == b {
				if bo, ok := i2.Cond.(*ssa.BinOp); ok && sizeV != nil {
					d := gfsLin(bo.X).add(gfsLin(bo.Y), -1)
					if bo.Op == token.LSS && d.equal(lf(0, atomOf(sizeV), 1, "f:chunkSize", -1)) {
						partial = true
					}
				}
			}
		}
		if toAppend && leaves && partial {
			partialOK = true
		}
	})
	r.check(partialOK, "upload:partial chunk only when final", pos, "size < chunkSize && !final leaves the loop, && final cuts the chunk", "a partial chunk is not handled as `size < chunkSize: cut it iff final`: either all-but-the-last chunks may be short or the tail of the upload is dropped")
	// (6) counters after the loop
	if chunkedPhi != nil {
		cb := atomOf(chunkedPhi)
		for _, it := range []struct {
			field string
			want  linForm
			text  string
		}{
			{"bufLen", lf(0, "f:bufLen", 1, cb, -1), "bufLen - chunkedBytes"},
			{"chunks", lf(0, "f:chunks", 1, lenChunks, 1), "chunks + len(chunks)"},
			{"length", lf(0, "f:length", 1, cb, 1), "length + chunkedBytes"},
		} {
			sts := storesToField(fn, upT, it.field)
			key := "upload:counter " + it.field
			if len(sts) != 1 {
				r.bad(key, pos, fmt.Sprintf("s.%s is assigned %d times in upload, expected once", it.field, len(sts)))
				continue
			}
			got := gfsLin(sts[0].Val)
			r.check(got.equal(it.want), key, c.pos(sts[0].Pos()), "s."+it.field+" = "+it.text, fmt.Sprintf("s.%s = %s, expected %s", it.field, got, it.text))
		}
		// (7) remainder moved to the front
		moved := false
		coneInstrs(fn, func(in ssa.Instruction) {
			call, ok := in.(*ssa.Call)
			if !ok {
				return
			}
			b, ok := call.Call.Value.(*ssa.Builtin)
			if !ok || b.Name() != "copy" {
				return
			}
			src, ok2 := call.Call.Args[1].(*ssa.Slice)
			if !ok2 || src.Low == nil {
				return
			}
			// the destination: s.buffer or s.buffer[0:]
			pd, dl := "", int64(0)
			if dst, ok := call.Call.Args[0].(*ssa.Slice); ok {
				pd, _ = fieldPath(dst.X)
				if dst.Low != nil {
					dl, _ = constInt(dst.Low)
					if _, isConst := constInt(dst.Low); !isConst {
						dl = -1
					}
				}
			} else {
				pd, _ = fieldPath(call.Call.Args[0])
			}
			ps, _ := fieldPath(src.X)
			lowOK := gfsLin(src.Low).equal(lf(0, cb, 1))
			// the source window may extend beyond the valid bytes (copying more is harmless), but not end before them
			highOK := src.High == nil || gfsLin(src.High).equal(lf(0, "f:bufLen", 1))
			if pd == "buffer" && ps == "buffer" && dl == 0 && lowOK && highOK {
				moved = true
			}
		})
		r.check(moved, "upload:remainder carried over", pos, "copy(buffer[0:], buffer[chunkedBytes:bufLen])", "the unchunked remainder is not moved to the front of the buffer as buffer[chunkedBytes : bufLen]: bytes are lost or repeated at a flush boundary")
	}
	// (8) the cut chunks are inserted
	ins := false
	coneInstrs(fn, func(in ssa.Instruction) {
		if call, ok := in.(*ssa.Call); ok && call.Call.IsInvoke() && call.Call.Method.Name() == "InsertMany" {
			for _, a := range call.Call.Args {
				if resolveHelperValue(a) == ssa.Value(chunksPhi) {
					ins = true
				}
			}
		}
	})
	r.check(ins, "upload:chunks inserted", pos, "InsertMany receives the cut chunks", "the list of cut chunks is not what InsertMany receives")
	// (9) the chunk data are windows into s.buffer: they must be written out before the buffer is rearranged
	var insCall, moveCall ssa.Instruction
	coneInstrs(fn, func(in ssa.Instruction) {
		call, ok := in.(*ssa.Call)
		if !ok {
			return
		}
		if call.Call.IsInvoke() && call.Call.Method.Name() == "InsertMany" {
			insCall = in
		}
		if b, ok := call.Call.Value.(*ssa.Builtin); ok && b.Name() == "copy" {
			if p, ok := fieldPath(sliceBase(call.Call.Args[0])); ok && p == "buffer" {
				moveCall = in
			}
		}
	})
	if insCall != nil && moveCall != nil {
		r.check(!instrReaches(moveCall, insCall), "upload:chunks written before the buffer is rearranged", c.pos(insCall.Pos()), "no path moves the remainder before InsertMany has taken the chunk data", "the remainder is moved to the front of s.buffer before InsertMany runs: the chunk data are windows into that buffer, so the first bytes of the first chunk of the flush are overwritten with the tail")
	}
}

func sliceBase(v ssa.Value) ssa.Value {
	for {
		sl, ok := v.(*ssa.Slice)
		if !ok {
			return v
		}
		v = sl.X
	}
}

func ruleGfs2(c *Ctx, r *Reporter) {
	closeFn := c.lookupSSA(pkgLungo, "UploadStream.Close")
	resume := c.lookupSSA(pkgLungo, "UploadStream.Resume")
	fileT := c.lookupType(pkgLungo, "BucketFile")
	markerT := c.lookupType(pkgLungo, "BucketMarker")
	upT := c.lookupType(pkgLungo, "UploadStream")
	chunkT := c.lookupType(pkgLungo, "BucketChunk")
	if closeFn == nil || resume == nil || fileT == nil || markerT == nil || upT == nil || chunkT == nil {
		r.bad("anchor:UploadStream.Close/Resume", "-", "not found")
		return
	}
	n := 0
	for _, it := range []struct {
		t     *types.Named
		field string
		want  string
	}{
		{fileT, "Length", "length"}, {fileT, "ChunkSize", "chunkSize"}, {fileT, "ID", "id"},
		{markerT, "Length", "length"}, {markerT, "ChunkSize", "chunkSize"}, {markerT, "File", "id"},
	} {
		sts := storesToField(closeFn, it.t, it.field)
		key := fmt.Sprintf("Close:%s.%s", it.t.Obj().Name(), it.field)
		if len(sts) == 0 {
			r.bad(key, c.pos(closeFn.Pos()), "the field is not filled in by Close")
			continue
		}
		for _, st := range sts {
			n++
			p, ok := fieldPath(stripValue(st.Val))
			r.check(ok && p == it.want, key, c.pos(st.Pos()), "taken from s."+it.want, fmt.Sprintf("not taken from s.%s: the record does not state what was uploaded", it.want))
		}
	}
	r.guard(n, 6, "record fields filled by Close")
	// ClaimUpload: the file record is what the marker states
	if claim := c.lookupSSA(pkgLungo, "Bucket.ClaimUpload"); claim == nil {
		r.bad("anchor:Bucket.ClaimUpload", "-", "not found")
	} else {
		for _, it := range [][2]string{{"Length", "Length"}, {"ChunkSize", "ChunkSize"}} {
			sts := storesToField(claim, fileT, it[0])
			key := "ClaimUpload:BucketFile." + it[0]
			if len(sts) == 0 {
				r.bad(key, c.pos(claim.Pos()), "the field is not filled in by ClaimUpload")
				continue
			}
			for _, st := range sts {
				okM := false
				if u, ok := stripValue(st.Val).(*ssa.UnOp); ok && u.Op == token.MUL {
					if fa, ok := u.X.(*ssa.FieldAddr); ok && derefNamed(fa.X.Type()) == markerT && structFieldOf(fa).Name() == it[1] {
						okM = true
					}
				}
				r.check(okM, key, c.pos(st.Pos()), "taken from the upload marker", "not taken from the upload marker's "+it[1]+": the claimed file record does not describe the chunks that were stored (a per-upload chunk size is replaced by the bucket default)")
			}
		}
	}
	// Resume: counters from the stored chunks
	var expected, length *ssa.Phi
	for _, b := range resume.Blocks {
		isHdr := false
		for _, p := range b.Preds {
			if b.Dominates(p) {
				isHdr = true
			}
		}
		if !isHdr {
			continue
		}
		for _, in := range b.Instrs {
			ph, ok := in.(*ssa.Phi)
			if !ok {
				break
			}
			if !isIntType(ph.Type()) {
				continue
			}
			for k, p := range b.Preds {
				if !b.Dominates(p) {
					continue
				}
				step := gfsLin(ph.Edges[k]).add(lf(0, atomOf(ph), 1), -1)
				if step.equal(lf(1)) {
					expected = ph
				} else if len(step.coef) == 1 && step.k == 0 {
					for a := range step.coef {
						if strings.HasPrefix(a, "len(") {
							length = ph
						}
					}
				}
			}
		}
	}
	pos := c.pos(resume.Pos())
	if expected == nil || length == nil {
		r.bad("Resume:counters", pos, "no chunk counter (+1 per chunk) and byte counter (+len(data) per chunk) found")
		return
	}
	for _, it := range []struct {
		field string
		ph    *ssa.Phi
	}{{"chunks", expected}, {"length", length}} {
		sts := storesToField(resume, upT, it.field)
		okS := len(sts) == 1 && sts[0].Val == ssa.Value(it.ph)
		r.check(okS, "Resume:s."+it.field, pos, "restored from the counter over the stored chunks", "s."+it.field+" is not restored from the counter over the stored chunks")
	}
	// the number check: chunk.Num != expected leads to an error return
	numOK := false
	allInstrs(resume, func(in ssa.Instruction) {
		bo, ok := in.(*ssa.BinOp)
		if !ok || bo.Op != token.NEQ {
			return
		}
		px, okx := fieldPath(bo.X)
		if okx && strings.HasSuffix(px, ".Num") && bo.Y == ssa.Value(expected) {
			numOK = true
		}
	})
	r.check(numOK, "Resume:chunk numbers", pos, "chunk.Num != expected is rejected", "stored chunks are not required to be numbered 0,1,2,...")
}

// chunkNumTests: the values a fetched chunk's number is tested against with != in fn - written in fn itself
// (chunk.Num != y) or in a repo function fn hands the chunk to and whose error it examines (check(&chunk, y) with
// `c.Num != n` inside: y is the argument bound to n).
func chunkNumTests(fn *ssa.Function) []ssa.Value {
	var out []ssa.Value
	allInstrs(fn, func(in ssa.Instruction) {
		switch x := in.(type) {
		case *ssa.BinOp:
			if x.Op != token.NEQ {
				return
			}
			if px, ok := fieldPath(x.X); ok && strings.HasSuffix(px, ".Num") {
				out = append(out, x.Y)
			}
		case *ssa.Call:
			h := staticFn(&x.Call)
			if h == nil || h.Blocks == nil || h.Pkg != fn.Pkg || len(errChecksOf(errorResult(x))) == 0 {
				return
			}
			allInstrs(h, func(hin ssa.Instruction) {
				bo, ok := hin.(*ssa.BinOp)
				if !ok || bo.Op != token.NEQ {
					return
				}
				ld, ok := bo.X.(*ssa.UnOp)
				if !ok || ld.Op != token.MUL {
					return
				}
				fa, ok := ld.X.(*ssa.FieldAddr)
				if !ok || structFieldOf(fa).Name() != "Num" {
					return
				}
				if _, isParam := fa.X.(*ssa.Parameter); !isParam {
					return
				}
				py, ok := bo.Y.(*ssa.Parameter)
				if !ok {
					return
				}
				// the test must reject: its true edge leads to a non-nil error
				rejects := false
				if refs := bo.Referrers(); refs != nil {
					for _, ref := range *refs {
						if iff, ok := ref.(*ssa.If); ok && failEdgeReturnsError(errCheck{If: iff, FailSucc: iff.Block().Succs[0], OkSucc: iff.Block().Succs[1]}) {
							rejects = true
						}
					}
				}
				if !rejects {
					return
				}
				for i, p := range h.Params {
					if p == py && i < len(x.Call.Args) {
						out = append(out, x.Call.Args[i])
					}
				}
			})
		}
	})
	return out
}

func ruleGfs3(c *Ctx, r *Reporter) {
	seek := c.lookupSSA(pkgLungo, "DownloadStream.seek")
	next := c.lookupSSA(pkgLungo, "DownloadStream.next")
	load := c.lookupSSA(pkgLungo, "DownloadStream.load")
	read := c.lookupSSA(pkgLungo, "DownloadStream.Read")
	seekPub := c.lookupSSA(pkgLungo, "DownloadStream.Seek")
	dsT := c.lookupType(pkgLungo, "DownloadStream")
	if seek == nil || next == nil || load == nil || read == nil || seekPub == nil || dsT == nil {
		r.bad("anchor:DownloadStream", "-", "not found")
		return
	}
	// ---- seek ----
	position := seek.Params[1]
	pos := c.pos(seek.Pos())
	var num *ssa.BinOp
	allInstrs(seek, func(in ssa.Instruction) {
		if bo, ok := in.(*ssa.BinOp); ok && bo.Op == token.QUO && bo.X == ssa.Value(position) {
			if p, ok := fieldPath(bo.Y); ok && p == "file.ChunkSize" {
				num = bo
			}
		}
	})
	if !r.check(num != nil, "seek:chunk number", pos, "num = position / file.ChunkSize", "the chunk number is not position / file.ChunkSize") {
		return
	}
	// skip and sort
	skipOK, sortOK, filterOK := false, false, false
	allInstrs(seek, func(in ssa.Instruction) {
		switch x := in.(type) {
		case *ssa.Call:
			if f := calleeObj(&x.Call); f != nil && f.Name() == "SetSkip" && len(x.Call.Args) == 2 && stripIntConv(x.Call.Args[1]) == ssa.Value(num) {
				skipOK = true
			}
		case *ssa.MapUpdate:
			if k, ok := constString(x.Key); ok {
				if k == "n" {
					if v, ok := constInt(stripValue(x.Value)); ok && v == 1 {
						sortOK = true
					}
				}
				if k == "files_id" {
					if p, ok := fieldPath(stripValue(x.Value)); ok && p == "file.ID" {
						filterOK = true
					}
				}
			}
		}
	})
	r.check(skipOK, "seek:skip", pos, "the cursor skips num chunks", "the chunk cursor does not skip exactly position/chunkSize chunks")
	r.check(sortOK, "seek:order", pos, "chunks are fetched sorted by n ascending", "the chunk cursor is not sorted by n ascending")
	r.check(filterOK, "seek:file filter", pos, "chunks are selected by files_id = file.ID", "the chunk cursor is not restricted to files_id = file.ID")
	// number check
	numChk := false
	for _, y := range chunkNumTests(seek) {
		if y == ssa.Value(num) {
			numChk = true
		}
	}
	r.check(numChk, "seek:first chunk number", pos, "chunk.Num != num is rejected", "the fetched chunk is not required to carry the computed number")
	// offset and buffer
	bufs := storesToField(seek, dsT, "buffer")
	offOK := false
	for _, st := range bufs {
		sl, ok := st.Val.(*ssa.Slice)
		if !ok || sl.Low == nil || sl.High != nil {
			continue
		}
		if p, ok := fieldPath(sl.X); !ok || !strings.HasSuffix(p, ".Data") {
			continue
		}
		switch o := sl.Low.(type) {
		case *ssa.BinOp:
			if o.Op == token.SUB && o.X == ssa.Value(position) {
				if m, ok := o.Y.(*ssa.BinOp); ok && m.Op == token.MUL {
					isCS := func(v ssa.Value) bool { p, ok := fieldPath(v); return ok && p == "file.ChunkSize" }
					if (m.X == ssa.Value(num) && isCS(m.Y)) || (m.Y == ssa.Value(num) && isCS(m.X)) {
						offOK = true
					}
				}
			}
			if o.Op == token.REM && o.X == ssa.Value(position) {
				if p, ok := fieldPath(o.Y); ok && p == "file.ChunkSize" {
					offOK = true
				}
			}
		}
	}
	r.check(offOK, "seek:offset", pos, "buffer = chunk.Data[position - num*chunkSize :]", "the read buffer does not start at offset position - num*chunkSize (position % chunkSize) of the chunk")
	// past the end: buffer nil
	endOK := false
	allInstrs(seek, func(in ssa.Instruction) {
		if bo, ok := in.(*ssa.BinOp); ok && bo.Op == token.GEQ && bo.X == ssa.Value(position) {
			if p, ok := fieldPath(bo.Y); ok && p == "file.Length" {
				endOK = true
			}
		}
	})
	r.check(endOK, "seek:past the end", pos, "position >= file.Length leaves nothing to read", "a position at or beyond the file length is not recognised as end of file")
	// ---- next ----
	consec := false
	for _, y := range chunkNumTests(next) {
		d := gfsLin(y)
		if d.k == 1 && len(d.coef) == 1 {
			for a, cf := range d.coef {
				if cf == 1 && strings.HasSuffix(a, "chunk.Num") {
					consec = true
				}
			}
		}
	}
	r.check(consec, "next:consecutive numbers", c.pos(next.Pos()), "chunk.Num != s.chunk.Num+1 is rejected", "the next chunk is not required to carry the previous number + 1")
	// ---- load ----
	quo, rem := false, false
	allInstrs(load, func(in ssa.Instruction) {
		if bo, ok := in.(*ssa.BinOp); ok {
			px, _ := fieldPath(bo.X)
			py, _ := fieldPath(bo.Y)
			if px == "file.Length" && py == "file.ChunkSize" {
				if bo.Op == token.QUO {
					quo = true
				}
				if bo.Op == token.REM {
					rem = true
				}
			}
		}
	})
	r.check(quo && rem, "load:chunk count", c.pos(load.Pos()), "chunks = length / chunkSize, +1 for a remainder", "the number of chunks is not ceil(length / chunkSize)")
	// ---- Read ----
	rpos := c.pos(read.Pos())
	eof := false
	allInstrs(read, func(in ssa.Instruction) {
		if bo, ok := in.(*ssa.BinOp); ok && bo.Op == token.GEQ {
			px, _ := fieldPath(bo.X)
			py, _ := fieldPath(bo.Y)
			if px == "position" && py == "file.Length" {
				eof = true
			}
		}
	})
	r.check(eof, "Read:end of file", rpos, "position >= file.Length reports EOF", "Read does not report EOF at position >= file.Length")
	var cp *ssa.Call
	allInstrs(read, func(in ssa.Instruction) {
		if call, ok := in.(*ssa.Call); ok {
			if b, ok := call.Call.Value.(*ssa.Builtin); ok && b.Name() == "copy" {
				cp = call
			}
		}
	})
	if cp == nil {
		r.bad("Read:copy", rpos, "no copy into the caller's buffer")
	} else {
		n := atomOf(cp)
		dst, ok1 := cp.Call.Args[0].(*ssa.Slice)
		srcP, ok2 := fieldPath(cp.Call.Args[1])
		var readPhi *ssa.Phi
		if ok1 && dst.Low != nil {
			readPhi, _ = dst.Low.(*ssa.Phi)
		}
		r.check(ok1 && ok2 && srcP == "buffer" && readPhi != nil && dst.X == ssa.Value(read.Params[1]), "Read:copy", c.pos(cp.Pos()), "n = copy(buf[read:], s.buffer)", "the copy is not buf[read:] <- s.buffer")
		// position += n, buffer = buffer[n:], read += n
		posOK, bufOK, readOK := false, false, false
		for _, st := range storesToField(read, dsT, "position") {
			if gfsLin(st.Val).equal(lf(0, "f:position", 1, n, 1)) {
				posOK = true
			}
		}
		for _, st := range storesToField(read, dsT, "buffer") {
			if sl, ok := st.Val.(*ssa.Slice); ok && sl.Low == ssa.Value(cp) && sl.High == nil {
				if p, ok := fieldPath(sl.X); ok && p == "buffer" {
					bufOK = true
				}
			}
		}
		if readPhi != nil {
			for k, p := range readPhi.Block().Preds {
				if readPhi.Block().Dominates(p) {
					if gfsLin(readPhi.Edges[k]).equal(lf(0, atomOf(readPhi), 1, n, 1)) {
						readOK = true
					}
				}
			}
		}
		r.check(posOK, "Read:position advances", c.pos(cp.Pos()), "s.position += n", "the position does not advance by the number of bytes copied")
		r.check(bufOK, "Read:buffer advances", c.pos(cp.Pos()), "s.buffer = s.buffer[n:]", "the chunk buffer does not advance by the number of bytes copied")
		r.check(readOK, "Read:output cursor advances", c.pos(cp.Pos()), "read += n", "the output cursor does not advance by the number of bytes copied")
	}
	// ---- Seek ----
	spos := c.pos(seekPub.Pos())
	offset := seekPub.Params[1]
	var seekCall *ssa.Call
	allInstrs(seekPub, func(in ssa.Instruction) {
		if call, ok := in.(*ssa.Call); ok && call.Call.StaticCallee() == seek {
			seekCall = call
		}
	})
	if seekCall == nil {
		r.bad("Seek:delegation", spos, "Seek does not call seek")
		return
	}
	pphi, ok := seekCall.Call.Args[1].(*ssa.Phi)
	if !ok {
		r.unk("Seek:whence table", c.pos(seekCall.Pos()), "the target position is not selected by a switch on whence")
		return
	}
	off := atomOf(offset)
	want := map[string]string{
		lf(0, off, 1).String():                     "start",
		lf(0, "f:position", 1, off, 1).String():    "current",
		lf(0, "f:file.Length", 1, off, 1).String(): "end",
	}
	seen := map[string]bool{}
	extra := ""
	for _, e := range pphi.Edges {
		if k, ok := constInt(e); ok && k == 0 {
			continue // the zero value for an unknown whence
		}
		f := gfsLin(e).String()
		if w, ok := want[f]; ok {
			seen[w] = true
		} else {
			extra = f
		}
	}
	r.check(len(seen) == 3 && extra == "", "Seek:whence table", c.pos(seekCall.Pos()), "offset / position+offset / file.Length+offset", fmt.Sprintf("the target position is not offset, s.position+offset, file.Length+offset for the three whence values (found %v, unexpected %q)", seen, extra))
	// s.position = position after a successful seek
	stored := false
	for _, st := range storesToField(seekPub, dsT, "position") {
		if st.Val == ssa.Value(pphi) && instrDominates(seekCall, st) {
			stored = true
		}
	}
	r.check(stored, "Seek:position stored", c.pos(seekCall.Pos()), "s.position = position after seek succeeded", "the new position is not stored after the seek (or is stored before it can fail)")
}

func ruleGfs4(c *Ctx, r *Reporter) {
	del := c.lookupSSA(pkgLungo, "Bucket.Delete")
	abort := c.lookupSSA(pkgLungo, "UploadStream.Abort")
	if del == nil || abort == nil {
		r.bad("anchor:Bucket.Delete/UploadStream.Abort", "-", "not found")
		return
	}
	// calls <recv>.<coll>.<Method>(ctx, bson.M{key: v})
	type collCall struct {
		call *ssa.Call
		coll string
		key  string
		val  ssa.Value
	}
	find := func(fn *ssa.Function, method string) []collCall {
		var out []collCall
		allInstrs(fn, func(in ssa.Instruction) {
			call, ok := in.(*ssa.Call)
			if !ok || !call.Call.IsInvoke() || call.Call.Method.Name() != method {
				return
			}
			coll, _ := fieldPath(call.Call.Value)
			cc := collCall{call: call, coll: coll}
			// the filter: a map literal made in this function
			if len(call.Call.Args) >= 2 {
				m := stripValue(call.Call.Args[1])
				allInstrs(fn, func(x ssa.Instruction) {
					if mu, ok := x.(*ssa.MapUpdate); ok && stripValue(mu.Map) == m {
						if k, ok := constString(mu.Key); ok {
							cc.key, cc.val = k, stripValue(mu.Value)
						}
					}
				})
			}
			out = append(out, cc)
		})
		return out
	}
	// ---- Delete ----
	idParam := del.Params[2]
	var fileDel, chunkDel *ssa.Call
	for _, cc := range find(del, "DeleteOne") {
		if strings.HasSuffix(cc.coll, "files") && cc.key == "_id" && cc.val == ssa.Value(idParam) {
			fileDel = cc.call
		}
	}
	for _, cc := range find(del, "DeleteMany") {
		if strings.HasSuffix(cc.coll, "chunks") && cc.key == "files_id" && cc.val == ssa.Value(idParam) {
			chunkDel = cc.call
		}
	}
	pos := c.pos(del.Pos())
	if fileDel == nil || chunkDel == nil {
		r.bad("Delete:chunks removed with the file", pos, "no files.DeleteOne({_id: id}) followed by chunks.DeleteMany({files_id: id})")
	} else {
		// from the success edge of files.DeleteOne every way out - also "file not found" - passes the chunk deletion:
		// chunks without a file record (an interrupted delete, an abandoned upload) are removed as well
		var bad ssa.Instruction
		checks := errChecksOf(errorResult(fileDel))
		if len(checks) == 0 {
			bad = fileDel
		}
		for _, ec := range checks {
			if len(ec.OkSucc.Instrs) == 0 {
				continue
			}
			first := ec.OkSucc.Instrs[0]
			if first == ssa.Instruction(chunkDel) {
				continue
			}
			if _, isRet := first.(*ssa.Return); isRet {
				bad = first
				continue
			}
			if b := exitWithoutPassing(first, func(in ssa.Instruction) bool { return in == ssa.Instruction(chunkDel) }, nil); b != nil {
				bad = b
			}
		}
		if bad != nil {
			r.bad("Delete:chunks removed with the file", c.pos(fileDel.Pos()), fmt.Sprintf("the exit at %s is reached after files.DeleteOne succeeded without deleting the chunks with that files_id: chunks whose file record is already gone stay behind", c.pos(bad.Pos())))
		} else {
			r.ok("Delete:chunks removed with the file", c.pos(chunkDel.Pos()), "every way out after a successful files.DeleteOne passes chunks.DeleteMany({files_id: id})")
		}
		// the error of the chunk deletion is checked
		r.check(len(errChecksOf(errorResult(chunkDel))) > 0, "Delete:chunk deletion error", c.pos(chunkDel.Pos()), "the error of DeleteMany is examined", "the error of the chunk deletion is dropped")
	}
	// ---- Cleanup: files, chunks and markers are addressed by the right ids of the marker ----
	if cleanup := c.lookupSSA(pkgLungo, "Bucket.Cleanup"); cleanup == nil {
		r.bad("anchor:Bucket.Cleanup", "-", "not found")
	} else {
		markerT := c.lookupType(pkgLungo, "BucketMarker")
		isMarkerField := func(v ssa.Value, name string) bool {
			u, ok := v.(*ssa.UnOp)
			if !ok || u.Op != token.MUL {
				return false
			}
			fa, ok := u.X.(*ssa.FieldAddr)
			return ok && derefNamed(fa.X.Type()) == markerT && structFieldOf(fa).Name() == name
		}
		nc := 0
		for _, m := range []string{"DeleteMany", "DeleteOne"} {
			for _, cc := range find(cleanup, m) {
				want := ""
				switch {
				case strings.HasSuffix(cc.coll, "chunks") && cc.key == "files_id":
					want = "File"
				case strings.HasSuffix(cc.coll, "files") && cc.key == "_id":
					want = "File"
				case strings.HasSuffix(cc.coll, "markers") && cc.key == "_id":
					want = "ID"
				default:
					continue
				}
				nc++
				key := fmt.Sprintf("Cleanup:%s %s by marker.%s", cc.coll[strings.LastIndex(cc.coll, ".")+1:], m, want)
				r.check(isMarkerField(cc.val, want), key, c.pos(cc.call.Pos()), "filtered by marker."+want, fmt.Sprintf("the %s filter is not marker.%s: the call matches nothing (or something else) and the chunks / records of the cleaned-up upload stay behind", cc.key, want))
			}
		}
		r.guard(nc, 3, "delete calls in Bucket.Cleanup")
	}
	// ---- Abort ----
	var abDel *ssa.Call
	for _, cc := range find(abort, "DeleteMany") {
		if p, ok := fieldPath(cc.val); strings.HasSuffix(cc.coll, "chunks") && cc.key == "files_id" && ok && p == "id" {
			abDel = cc.call
		}
	}
	apos := c.pos(abort.Pos())
	if abDel == nil {
		r.bad("Abort:chunks removed", apos, "no chunks.DeleteMany({files_id: s.id})")
		return
	}
	// reached whenever s.chunks > 0: the guarding test is on s.chunks with constant 0
	guardOK := false
	for b := abDel.Block(); b != nil && !guardOK; b = b.Idom() {
		for _, p := range b.Preds {
			iff, ok := p.Instrs[len(p.Instrs)-1].(*ssa.If)
			if !ok || len(b.Preds) != 1 {
				continue
			}
			bo, ok := iff.Cond.(*ssa.BinOp)
			if !ok {
				continue
			}
			px, _ := fieldPath(bo.X)
			k, okK := constInt(bo.Y)
			if px == "chunks" && okK && k == 0 && ((bo.Op == token.GTR && p.Succs[0] == b) || (bo.Op == token.NEQ && p.Succs[0] == b) || (bo.Op == token.LEQ && p.Succs[1] == b) || (bo.Op == token.EQL && p.Succs[1] == b)) {
				guardOK = true
			}
		}
	}
	// or unconditional
	if abDel.Block().Dominates(returnsOf(abort)[len(returnsOf(abort))-1].Block()) {
		guardOK = true
	}
	r.check(guardOK, "Abort:chunks removed", c.pos(abDel.Pos()), "chunks are deleted whenever s.chunks > 0 (or always)", "the chunk deletion in Abort is not taken exactly when chunks were written")
	// and no other way to success: every path to a nil return passes the deletion or has found s.chunks to be zero
	{
		paths, ends, trunc := enumPaths(abort.Blocks[0], nil, func(b *ssa.BasicBlock) bool {
			_, isRet := b.Instrs[len(b.Instrs)-1].(*ssa.Return)
			return isRet
		}, 4096)
		blocks := enumPathBlocks
		bad := ""
		n := 0
		if trunc {
			bad = "too many paths"
		}
		for pi, p := range paths {
			end := ends[pi]
			if end == nil {
				continue
			}
			ret, ok := end.Instrs[len(end.Instrs)-1].(*ssa.Return)
			if !ok || ret.Block() == abort.Recover || len(ret.Results) != 1 || !isNilConst(retVal(ret, 0)) {
				continue
			}
			n++
			passes := false
			for _, b := range append(append([]*ssa.BasicBlock{}, blocks[pi]...), end) {
				if b == abDel.Block() {
					passes = true
				}
			}
			none := false
			for _, d := range p {
				bo, ok := d.cond.(*ssa.BinOp)
				if !ok {
					continue
				}
				px, _ := fieldPath(bo.X)
				k, okK := constInt(bo.Y)
				if px != "chunks" || !okK || k != 0 {
					continue
				}
				if (bo.Op == token.GTR && !d.taken) || (bo.Op == token.NEQ && !d.taken) || (bo.Op == token.EQL && d.taken) || (bo.Op == token.LEQ && d.taken) {
					none = true
				}
			}
			if !passes && !none && bad == "" {
				bad = fmt.Sprintf("the successful return at %s is reached without deleting the chunks and without s.chunks having been found zero", c.pos(ret.Pos()))
			}
		}
		r.check(bad == "" && n > 0, "Abort:no success without the deletion", apos, fmt.Sprintf("all %d successful paths delete the chunks or found none written", n), bad+": an aborted upload that has flushed chunks (on an untracked bucket no marker exists) leaves them behind")
	}
	// success (closed = true; return nil) only after the deletion was attempted and did not fail
	r.check(len(errChecksOf(errorResult(abDel))) > 0, "Abort:chunk deletion error", c.pos(abDel.Pos()), "the error of DeleteMany is examined", "the error of the chunk deletion is dropped")
}
