package main

import (
	"fmt"
	"go/token"
	"go/types"
	"sort"
	"strings"

	"golang.org/x/tools/go/ssa"
)

var lsCache *Locksets

func locksets(c *Ctx) *Locksets {
	if lsCache == nil || lsCache.c != c {
		lsCache = computeLocksets(c)
	}
	return lsCache
}

func baseLock(name string) string { return strings.TrimSuffix(name, "(R)") }

// locks that only serialise one GridFS stream / bucket handle; they are deliberately held
// across engine calls (DESIGN 4.3)
var streamLocalLocks = map[string]bool{
	"lungo.Bucket.indexMutex":    true,
	"lungo.UploadStream.mutex":   true,
	"lungo.DownloadStream.mutex": true,
}

func init() {
	register(&Rule{ID: "LOCK-0", Doc: "every lock acquired in a function is released on all of its exits, and nothing is unlocked that is not held", Run: ruleLock0})
	register(&Rule{ID: "LOCK-1", Doc: "the lock-order graph (B acquired, directly or through any callee, while A may be held) is acyclic", Run: ruleLock1})
	register(&Rule{ID: "LOCK-2", Doc: "no blocking operation (channel op, blocking select, Semaphore.Acquire, tomb.Wait, Sleep, Engine.Begin(lock), user callback) while an engine/session/stream/transaction lock may be held", Run: ruleLock2})
	register(&Rule{ID: "LOCK-3", Doc: "every mutable field of a struct that owns a mutex (and the timestamp globals) is only read/written with that mutex held (write lock for writes)", Run: ruleLock3})
	register(&Rule{ID: "LOCK-4", Doc: "token typestate in Engine.Begin/Commit/Abort: Acquire=>Held, e.txn=non-nil hands over, e.txn=nil takes back, Release exactly once on every path that holds it, never otherwise", Run: ruleLock4})
	register(&Rule{ID: "LOCK-5", Doc: "in Engine.Begin the catalog snapshot of a locked transaction is read after the token was won, under Engine.mutex, in the critical section that stores e.txn", Run: ruleLock5})
	register(&Rule{ID: "LOCK-6", Doc: "every Engine.Begin(lock) call site releases the transaction on all paths: deferred Abort (mandatory when a callback runs in between), Abort/Commit, or hand-over to Session.txn", Run: ruleLock6})
	register(&Rule{ID: "LOCK-7", Doc: "every exported Engine method that takes Engine.mutex checks tomb.Alive() before touching txn/catalog/streams; Close kills the tomb inside the mutex region", Run: ruleLock7})
	register(&Rule{ID: "LOCK-8", Doc: "session state machine: s.txn=nil only after engine.Abort/Commit of it, s.starting cleared on every path, s.txn set only from a Begin result", Run: ruleLock8})
}

// ---- LOCK-0 -------------------------------------------------------------------

func ruleLock0(c *Ctx, r *Reporter) {
	ls := locksets(c)
	n := 0
	for _, fn := range c.repoFuncs() {
		hasOp := false
		allInstrs(fn, func(in ssa.Instruction) {
			ci, ok := in.(ssa.CallInstruction)
			if !ok {
				return
			}
			op, ok := ls.lockOpOf(ci.Common())
			if !ok {
				return
			}
			hasOp = true
			if _, isDefer := in.(*ssa.Defer); isDefer {
				return
			}
			if !op.acquire {
				st := ls.at[in]
				name := ls.info.names[op.lock]
				key := fmt.Sprintf("%s:unlock %s", funcName(fn), name)
				r.check(st.must&(1<<uint(op.lock)) != 0, key, c.pos(in.Pos()),
					"lock is held on every path reaching this unlock", "unlock of a lock that is not held on every path ("+ls.describe(in)+")")
			}
		})
		if !hasOp {
			continue
		}
		n++
		entry := ls.entry[fn]
		for _, ex := range ls.exits[fn] {
			// state before the Return instruction is after RunDefers
			leaked := ex.st.may &^ entry.may
			key := fmt.Sprintf("%s:exit", funcName(fn))
			r.check(leaked == 0, key, c.pos(ex.ret.Pos()), "all locks acquired here are released at this exit",
				"exit may still hold "+ls.info.render(leaked))
		}
	}
	r.guard(n, 10, "functions with lock operations")
}

// ---- LOCK-1 -------------------------------------------------------------------

func ruleLock1(c *Ctx, r *Reporter) {
	ls := locksets(c)
	type ek struct{ a, b string }
	edges := map[ek][]lockEdge{}
	for _, e := range ls.edges {
		k := ek{baseLock(ls.info.names[e.from]), baseLock(ls.info.names[e.to])}
		edges[k] = append(edges[k], e)
	}
	adj := map[string][]string{}
	for k := range edges {
		adj[k.a] = append(adj[k.a], k.b)
	}
	// reachability for cycle membership
	reach := func(from, to string) []string {
		prev := map[string]string{from: ""}
		q := []string{from}
		for len(q) > 0 {
			x := q[0]
			q = q[1:]
			succ := adj[x]
			sort.Strings(succ)
			for _, y := range succ {
				if _, ok := prev[y]; ok {
					continue
				}
				prev[y] = x
				if y == to {
					path := []string{y}
					for p := x; p != ""; p = prev[p] {
						path = append([]string{p}, path...)
					}
					return path
				}
				q = append(q, y)
			}
		}
		return nil
	}
	var keys []ek
	for k := range edges {
		keys = append(keys, k)
	}
	sort.Slice(keys, func(i, j int) bool { return keys[i].a+keys[i].b < keys[j].a+keys[j].b })
	for _, k := range keys {
		sites := edges[k]
		site := sites[0]
		key := fmt.Sprintf("order:%s->%s", k.a, k.b)
		where := fmt.Sprintf("%d site(s), e.g. %s in %s", len(sites), site.pos, funcName(site.fn))
		if k.a == k.b {
			r.bad(key, site.pos, "lock may be acquired while (an instance of) itself is held: "+where)
			continue
		}
		if back := reach(k.b, k.a); back != nil {
			r.bad(key, site.pos, fmt.Sprintf("edge lies on a cycle: %s -> %s ; %s", k.a, strings.Join(back, " -> "), where))
		} else {
			r.ok(key, site.pos, "no path back from "+k.b+" to "+k.a+"; "+where)
		}
	}
	r.guard(len(keys), 5, "lock-order edges")
	r.guard(len(ls.info.names), 8, "distinct repo locks")
}

// ---- LOCK-2 -------------------------------------------------------------------

func isFuncParamCall(fn *ssa.Function, cc *ssa.CallCommon) bool {
	if cc.IsInvoke() {
		return false
	}
	v := cc.Value
	for {
		switch x := v.(type) {
		case *ssa.Parameter:
			_, ok := x.Type().Underlying().(*types.Signature)
			return ok
		case *ssa.FreeVar:
			// a captured function-typed parameter of the enclosing function
			_, ok := x.Type().Underlying().(*types.Signature)
			return ok
		case *ssa.UnOp:
			if x.Op == token.MUL {
				// load of a local holding the callback (defer-spilled parameters)
				if a, ok := x.X.(*ssa.Alloc); ok {
					if refs := a.Referrers(); refs != nil {
						for _, ref := range *refs {
							if st, ok := ref.(*ssa.Store); ok && st.Addr == a {
								if p, ok := st.Val.(*ssa.Parameter); ok {
									_, isSig := p.Type().Underlying().(*types.Signature)
									return isSig
								}
							}
						}
					}
				}
			}
			return false
		default:
			return false
		}
	}
}

// blockingKind classifies an instruction as potentially blocking.
func blockingKind(c *Ctx, fn *ssa.Function, in ssa.Instruction) string {
	switch x := in.(type) {
	case *ssa.UnOp:
		if x.Op == token.ARROW {
			return "channel receive"
		}
	case *ssa.Send:
		return "channel send"
	case *ssa.Select:
		if x.Blocking {
			return "blocking select"
		}
	case *ssa.Call:
		f := calleeObj(&x.Call)
		if f != nil && f.Pkg() != nil {
			full := f.Pkg().Path() + "." + fullShort(f)
			switch full {
			case pkgDbkit + ".Semaphore.Acquire":
				return "Semaphore.Acquire"
			case "gopkg.in/tomb.v2.Tomb.Wait":
				return "tomb.Wait"
			case "time.Sleep":
				return "time.Sleep"
			case "sync.WaitGroup.Wait":
				return "WaitGroup.Wait"
			case pkgLungo + ".Engine.Begin":
				if len(x.Call.Args) == 3 {
					if b, ok := constBool(x.Call.Args[2]); ok && !b {
						return ""
					}
				}
				return "Engine.Begin (waits for the writer token)"
			}
		}
		if isFuncParamCall(fn, &x.Call) {
			return "call of a function-typed parameter (user callback)"
		}
	}
	return ""
}

func ruleLock2(c *Ctx, r *Reporter) {
	ls := locksets(c)
	n := 0
	var critical uint64
	for i, name := range ls.info.names {
		if !streamLocalLocks[baseLock(name)] {
			critical |= 1 << uint(i)
		}
	}
	counts := map[string]int{}
	for _, fn := range c.repoFuncs() {
		if fnPkgPath(fn) != pkgLungo && fnPkgPath(fn) != pkgDbkit {
			continue
		}
		allInstrs(fn, func(in ssa.Instruction) {
			kind := blockingKind(c, fn, in)
			if kind == "" {
				return
			}
			n++
			counts[kind]++
			st := ls.at[in]
			held := st.may & critical
			key := fmt.Sprintf("%s:%s", funcName(fn), kind)
			r.check(held == 0, key, c.pos(in.Pos()), "no critical lock may be held here", "may block while holding "+ls.info.render(held))
		})
	}
	r.guard(n, 8, "blocking sites")
	r.guard(counts["Semaphore.Acquire"], 1, "Semaphore.Acquire call sites")
	r.guard(counts["blocking select"], 2, "blocking selects")
	r.guard(counts["tomb.Wait"], 1, "tomb.Wait call sites")
	r.guard(counts["Engine.Begin (waits for the writer token)"], 5, "Engine.Begin(lock) call sites")

	// the broadcast in Commit and the wake-up in Stream.Close must be non-blocking selects
	for _, name := range []string{"Engine.Commit", "Stream.Close"} {
		fn := c.lookupSSA(pkgLungo, name)
		if fn == nil {
			r.bad("anchor:"+name, "-", "function not found")
			continue
		}
		sel := 0
		// the function itself and the helpers of package lungo it calls directly (a broadcast extracted into a method)
		fns := []*ssa.Function{fn}
		allInstrs(fn, func(in ssa.Instruction) {
			if ci, ok := in.(ssa.CallInstruction); ok {
				if sf := ci.Common().StaticCallee(); sf != nil && fnPkgPath(sf) == pkgLungo && sf.Blocks != nil && sf != fn && sf.Object() != nil && !sf.Object().Exported() {
					fns = append(fns, sf)
				}
			}
		})
		for _, g := range fns {
			allInstrs(g, func(in ssa.Instruction) {
				if s, ok := in.(*ssa.Select); ok {
					sel++
					r.check(!s.Blocking, funcName(fn)+":signal select", c.pos(in.Pos()), "select has a default case", "select on the signal channel can block under a lock")
				}
				if _, ok := in.(*ssa.Send); ok {
					r.bad(funcName(fn)+":bare send", c.pos(in.Pos()), "bare channel send under a lock")
				}
			})
		}
		r.guard(sel, 1, "signal select in "+name)
	}
}

// ---- LOCK-3 -------------------------------------------------------------------

// mutexFieldOf returns the name of the (first) sync.Mutex/RWMutex field of a struct type and whether it is RW.
func mutexFieldOf(st *types.Struct) (string, bool, bool) {
	for i := 0; i < st.NumFields(); i++ {
		f := st.Field(i)
		if n := derefNamed(f.Type()); n != nil && n.Obj().Pkg() != nil && n.Obj().Pkg().Path() == "sync" {
			if _, isPtr := f.Type().(*types.Pointer); isPtr {
				continue
			}
			switch n.Obj().Name() {
			case "Mutex":
				return f.Name(), false, true
			case "RWMutex":
				return f.Name(), true, true
			}
		}
	}
	return "", false, false
}

// freshLocal: is v (the base of a field access) an object allocated in this function that has
// not been published before instruction `at`? It looks through the single-assignment local
// cell the compiler introduces when the variable is captured by a closure.
func freshLocal(v ssa.Value, at ssa.Instruction) bool {
	var obj, cell *ssa.Alloc
	switch x := v.(type) {
	case *ssa.Alloc:
		obj = x
	case *ssa.UnOp:
		if x.Op != token.MUL {
			return false
		}
		c, ok := x.X.(*ssa.Alloc)
		if !ok {
			return false
		}
		cell = c
		n := 0
		if refs := c.Referrers(); refs != nil {
			for _, ref := range *refs {
				if st, ok := ref.(*ssa.Store); ok && st.Addr == c {
					n++
					if a, ok := st.Val.(*ssa.Alloc); ok {
						obj = a
					}
				}
			}
		}
		if n != 1 || obj == nil {
			return false
		}
	default:
		return false
	}
	// is `w` (a value) the object itself?
	isObjValue := func(w ssa.Value) bool {
		if w == obj {
			return true
		}
		if u, ok := w.(*ssa.UnOp); ok && u.Op == token.MUL && cell != nil && u.X == cell {
			return true
		}
		return false
	}
	storedIntoOwnField := func(val ssa.Value) bool {
		refs := val.Referrers()
		if refs == nil || len(*refs) == 0 {
			return false
		}
		for _, ref := range *refs {
			st, ok := ref.(*ssa.Store)
			if !ok || st.Val != val {
				return false
			}
			fa, ok := st.Addr.(*ssa.FieldAddr)
			if !ok || !isObjValue(fa.X) {
				return false
			}
		}
		return true
	}
	var escapes []ssa.Instruction
	useOfObjValue := func(val ssa.Value) {
		refs := val.Referrers()
		if refs == nil {
			return
		}
		for _, ref := range *refs {
			switch x := ref.(type) {
			case *ssa.FieldAddr, *ssa.DebugRef:
				continue
			case *ssa.Store:
				if x.Val == val && cell != nil && x.Addr == cell {
					continue
				}
				if x.Val != val {
					continue // store INTO the object through a derived address
				}
				escapes = append(escapes, ref)
			default:
				escapes = append(escapes, ref)
			}
		}
	}
	useOfObjValue(obj)
	if cell != nil {
		if refs := cell.Referrers(); refs != nil {
			for _, ref := range *refs {
				switch x := ref.(type) {
				case *ssa.Store, *ssa.DebugRef:
					continue
				case *ssa.UnOp:
					useOfObjValue(x)
				case *ssa.MakeClosure:
					if !storedIntoOwnField(x) {
						escapes = append(escapes, ref)
					}
				default:
					escapes = append(escapes, ref)
				}
			}
		}
	}
	for _, e := range escapes {
		if e == at {
			continue
		}
		if instrDominates(e, at) || instrReaches(e, at) {
			return false
		}
	}
	return true
}

// owners whose mutex is not "the lock of all mutable fields"
var lock3Excluded = map[string]string{
	"Bucket":         "indexMutex only guards the one-time index bootstrap (indexesEnsured); tracked is configuration set before use (GridFS, outside C04)",
	"UploadStream":   "GridFS stream state, serialised per stream by its own mutex through unexported helpers; outside C04's scope (C18 not applicable)",
	"DownloadStream": "GridFS stream state, serialised per stream by its own mutex through unexported helpers; outside C04's scope (C18 not applicable)",
}

type fieldAccess struct {
	fn    *ssa.Function
	in    ssa.Instruction
	write bool
	base  ssa.Value
}

func ruleLock3(c *Ctx, r *Reporter) {
	ls := locksets(c)
	// collect accesses per (struct type, field)
	type fk struct {
		owner *types.Named
		field *types.Var
	}
	acc := map[fk][]fieldAccess{}
	owners := map[*types.Named]bool{}
	for _, fn := range c.repoFuncs() {
		allInstrs(fn, func(in ssa.Instruction) {
			fa, ok := in.(*ssa.FieldAddr)
			if !ok {
				return
			}
			p, ok := fa.X.Type().Underlying().(*types.Pointer)
			if !ok {
				return
			}
			named := derefNamed(p.Elem())
			st, ok := p.Elem().Underlying().(*types.Struct)
			if named == nil || !ok || named.Obj().Pkg() == nil || !c.isRepoPkg(named.Obj().Pkg().Path()) {
				return
			}
			if _, _, has := mutexFieldOf(st); !has {
				return
			}
			if lock3Excluded[named.Obj().Name()] != "" {
				return
			}
			owners[named] = true
			f := st.Field(fa.Field)
			refs := fa.Referrers()
			if refs == nil {
				return
			}
			for _, ref := range *refs {
				switch x := ref.(type) {
				case *ssa.Store:
					if x.Addr == fa {
						acc[fk{named, f}] = append(acc[fk{named, f}], fieldAccess{fn, x, true, fa.X})
					}
				case *ssa.UnOp:
					if x.Op == token.MUL {
						acc[fk{named, f}] = append(acc[fk{named, f}], fieldAccess{fn, x, false, fa.X})
					}
				}
			}
		})
	}
	var keys []fk
	for k := range acc {
		keys = append(keys, k)
	}
	sort.Slice(keys, func(i, j int) bool {
		a, b := keys[i], keys[j]
		return a.owner.Obj().Name()+"."+a.field.Name() < b.owner.Obj().Name()+"."+b.field.Name()
	})
	guarded := 0
	perOwner := map[string]int{}
	for _, k := range keys {
		st := k.owner.Underlying().(*types.Struct)
		mname, rw, _ := mutexFieldOf(st)
		if k.field.Name() == mname {
			continue
		}
		// mutable = written somewhere outside construction
		mutable := false
		for _, a := range acc[k] {
			if a.write && !freshLocal(a.base, a.in) {
				mutable = true
			}
		}
		if !mutable {
			continue
		}
		guarded++
		lock := k.owner.Obj().Pkg().Name() + "." + k.owner.Obj().Name() + "." + mname
		perOwner[k.owner.Obj().Name()]++
		for _, a := range acc[k] {
			kind := "read"
			if a.write {
				kind = "write"
			}
			key := fmt.Sprintf("%s:%s %s.%s", funcName(a.fn), kind, k.owner.Obj().Name(), k.field.Name())
			if freshLocal(a.base, a.in) {
				r.trivial(key, c.pos(a.in.Pos()), "object is still private to its constructor (fresh allocation that has not escaped)")
				continue
			}
			held := ls.mustHold(a.in, lock)
			if !held && rw && !a.write {
				held = ls.mustHold(a.in, lock+"(R)")
			}
			r.check(held, key, c.pos(a.in.Pos()), lock+" held", "access without "+lock+" ("+ls.describe(a.in)+")")
		}
	}
	r.guard(guarded, 12, "mutable fields of mutex-owning structs")
	for _, o := range []string{"Engine", "Session", "Stream", "Transaction", "Cursor"} {
		r.guard(perOwner[o], 1, "guarded fields of "+o)
	}

	// package-level variables written outside init must be accessed under a package-level mutex
	for _, path := range repoPkgs {
		sp := c.SSA[path]
		var mutexes []string
		for _, m := range sp.Members {
			if g, ok := m.(*ssa.Global); ok {
				if n := derefNamed(g.Type()); n != nil && n.Obj().Pkg() != nil && n.Obj().Pkg().Path() == "sync" && (n.Obj().Name() == "Mutex" || n.Obj().Name() == "RWMutex") {
					mutexes = append(mutexes, sp.Pkg.Name()+"."+g.Name())
				}
			}
		}
		if len(mutexes) == 0 {
			continue
		}
		type ga struct {
			fn    *ssa.Function
			in    ssa.Instruction
			write bool
		}
		gacc := map[*ssa.Global][]ga{}
		for _, fn := range c.repoFuncs() {
			if fnPkgPath(fn) != path {
				continue
			}
			allInstrs(fn, func(in ssa.Instruction) {
				switch x := in.(type) {
				case *ssa.Store:
					if g, ok := x.Addr.(*ssa.Global); ok {
						gacc[g] = append(gacc[g], ga{fn, in, true})
					}
				case *ssa.UnOp:
					if g, ok := x.X.(*ssa.Global); ok && x.Op == token.MUL {
						gacc[g] = append(gacc[g], ga{fn, in, false})
					}
				}
			})
		}
		cnt := 0
		var gs []*ssa.Global
		for g := range gacc {
			gs = append(gs, g)
		}
		sort.Slice(gs, func(i, j int) bool { return gs[i].Name() < gs[j].Name() })
		for _, g := range gs {
			mutable := false
			for _, a := range gacc[g] {
				if a.write && a.fn.Name() != "init" && !strings.HasPrefix(a.fn.Name(), "init#") {
					mutable = true
				}
			}
			if !mutable {
				continue
			}
			cnt++
			for _, a := range gacc[g] {
				held := false
				for _, m := range mutexes {
					if ls.mustHold(a.in, m) {
						held = true
					}
				}
				kind := "read"
				if a.write {
					kind = "write"
				}
				key := fmt.Sprintf("%s:%s %s.%s", funcName(a.fn), kind, sp.Pkg.Name(), g.Name())
				r.check(held, key, c.pos(a.in.Pos()), "package mutex held", "access to mutable package variable without "+strings.Join(mutexes, "/"))
			}
		}
		if path == pkgBsonkit {
			r.guard(cnt, 2, "mutable package variables in bsonkit (timestamp generator)")
		}
	}
}

// ---- LOCK-4: token typestate -----------------------------------------------------

type tokState uint8

const (
	tkU tokState = iota // unknown / not ours (entry of Commit/Abort, before the ownership guard)
	tkN                 // not held by this call
	tkH                 // held by this call: must be released or handed over
	tkO                 // owned through e.txn
)

func (t tokState) String() string {
	return [...]string{"Unknown", "NotHeld", "Held", "Owned(e.txn)"}[t]
}

type tokPair struct {
	s        tokState
	deferred bool // a deferred Release is pending
}

type tokAnalysis struct {
	c       *Ctx
	r       *Reporter
	txnF    *types.Var
	tokenF  *types.Var
	problem map[string]string // key -> detail (violations found)
	okSites map[string]string
	memo    map[string][]tokPair
	active  map[string]bool
	// per analysed entry point: how many release transitions were seen (directly or through helpers)
	curEntry string
	releases map[string]int
}

func (ta *tokAnalysis) isRelease(cc *ssa.CallCommon) bool {
	f := calleeObj(cc)
	if f == nil || f.Pkg() == nil || f.Pkg().Path() != pkgDbkit || fullShort(f) != "Semaphore.Release" {
		return false
	}
	return ta.isTokenLoad(cc.Args[0])
}

func (ta *tokAnalysis) isTokenLoad(v ssa.Value) bool {
	u, ok := v.(*ssa.UnOp)
	if !ok || u.Op != token.MUL {
		return false
	}
	_, ok = fieldAddrOf(u.X, ta.tokenF)
	return ok
}

func (ta *tokAnalysis) isAcquire(cc *ssa.CallCommon) bool {
	f := calleeObj(cc)
	if f == nil || f.Pkg() == nil || f.Pkg().Path() != pkgDbkit || fullShort(f) != "Semaphore.Acquire" {
		return false
	}
	return ta.isTokenLoad(cc.Args[0])
}

func (ta *tokAnalysis) isTxnLoad(v ssa.Value) bool {
	u, ok := v.(*ssa.UnOp)
	if !ok || u.Op != token.MUL {
		return false
	}
	_, ok = fieldAddrOf(u.X, ta.txnF)
	return ok
}

// touches: does fn (transitively through static callees in package lungo) use Engine.token or store Engine.txn?
func (ta *tokAnalysis) touches(fn *ssa.Function, seen map[*ssa.Function]bool) bool {
	if fn == nil || fn.Blocks == nil || seen[fn] || fnPkgPath(fn) != pkgLungo {
		return false
	}
	seen[fn] = true
	found := false
	allInstrs(fn, func(in ssa.Instruction) {
		switch x := in.(type) {
		case *ssa.FieldAddr:
			if f := structFieldOf(x); f == ta.tokenF {
				found = true
			}
		case *ssa.Store:
			if _, ok := fieldAddrOf(x.Addr, ta.txnF); ok {
				found = true
			}
		}
		if ci, ok := in.(ssa.CallInstruction); ok {
			if callee := staticFn(ci.Common()); callee != nil && ta.touches(callee, seen) {
				found = true
			}
		}
	})
	return found
}

// run analyses fn from the given input state and returns the possible states at its returns.
func (ta *tokAnalysis) run(fn *ssa.Function, in tokPair, depth int) []tokPair {
	mk := fmt.Sprintf("%s|%d|%v", fn.String(), in.s, in.deferred)
	if res, ok := ta.memo[mk]; ok {
		return res
	}
	if ta.active[mk] || depth > 4 {
		return []tokPair{in}
	}
	ta.active[mk] = true
	defer delete(ta.active, mk)

	type set map[tokPair]bool
	n := len(fn.Blocks)
	ins := make([]set, n)
	for i := range ins {
		ins[i] = set{}
	}
	ins[0][in] = true
	outs := set{}
	note := func(key, pos, detail string, bad bool) {
		k := key + " @ " + pos
		if bad {
			ta.problem[k] = detail
		} else if _, isBad := ta.problem[k]; !isBad {
			ta.okSites[k] = detail
		}
	}
	// per-edge refinement
	refine := func(b *ssa.BasicBlock, succIdx int, st tokPair) (tokPair, bool) {
		iff, ok := b.Instrs[len(b.Instrs)-1].(*ssa.If)
		if !ok {
			return st, true
		}
		cond := iff.Cond
		neg := false
		for {
			if u, ok := cond.(*ssa.UnOp); ok && u.Op == token.NOT {
				cond = u.X
				neg = !neg
				continue
			}
			break
		}
		taken := succIdx == 0 // true edge
		if neg {
			taken = !taken
		}
		// result of Acquire
		if call, ok := cond.(*ssa.Call); ok && ta.isAcquire(&call.Call) {
			if taken {
				return tokPair{tkH, st.deferred}, true
			}
			return st, true
		}
		// comparison of e.txn with the txn parameter / nil
		if bo, ok := cond.(*ssa.BinOp); ok && (bo.Op == token.EQL || bo.Op == token.NEQ) {
			var other ssa.Value
			if ta.isTxnLoad(bo.X) {
				other = bo.Y
			} else if ta.isTxnLoad(bo.Y) {
				other = bo.X
			}
			if other != nil {
				equal := (bo.Op == token.EQL) == taken
				if _, isParam := other.(*ssa.Parameter); isParam && equal && st.s == tkU {
					// e.txn == txn (txn assumed non-nil): the caller owns the active transaction
					return tokPair{tkO, st.deferred}, true
				}
			}
		}
		return st, true
	}
	var transfer func(b *ssa.BasicBlock, st tokPair, final bool, from int) []tokPair
	transfer = func(b *ssa.BasicBlock, st tokPair, final bool, from int) []tokPair {
		for idx := from; idx < len(b.Instrs); idx++ {
			instr := b.Instrs[idx]
			switch x := instr.(type) {
			case *ssa.Call:
				if ta.isRelease(&x.Call) {
					if final {
						key := funcName(fn) + ":Release"
						if st.s == tkH && !st.deferred {
							note(key, ta.c.pos(x.Pos()), "released in state Held", false)
						} else {
							note(key, ta.c.pos(x.Pos()), fmt.Sprintf("Release in state %s (deferred release pending: %v) - over-release or release without ownership", st.s, st.deferred), true)
						}
					}
					if final {
						ta.releases[ta.curEntry]++
					}
					st.s = tkN
					continue
				}
				if ta.isAcquire(&x.Call) {
					if final && (st.s == tkH || st.s == tkO) {
						note(funcName(fn)+":Acquire", ta.c.pos(x.Pos()), "Acquire while the token is already "+st.s.String(), true)
					}
					continue
				}
				if callee := staticFn(&x.Call); callee != nil && callee != fn && ta.touches(callee, map[*ssa.Function]bool{}) {
					res := ta.run(callee, tokPair{st.s, false}, depth+1)
					if len(res) == 1 {
						if final && st.s == tkH && res[0].s == tkN {
							ta.releases[ta.curEntry]++
						}
						st.s = res[0].s
					} else if len(res) > 1 {
						// the helper ends in one of several token states (it acquired and registered the transaction, or
						// it failed and holds nothing): go on with each of them
						var all []tokPair
						for _, o := range res {
							st2 := st
							if final && st.s == tkH && o.s == tkN {
								ta.releases[ta.curEntry]++
							}
							st2.s = o.s
							all = append(all, transfer(b, st2, final, idx+1)...)
						}
						return all
					}
				}
			case *ssa.Defer:
				if ta.isRelease(&x.Call) {
					if final && st.deferred {
						note(funcName(fn)+":defer Release", ta.c.pos(x.Pos()), "second deferred Release on one path", true)
					}
					st.deferred = true
				}
			case *ssa.Store:
				if _, ok := fieldAddrOf(x.Addr, ta.txnF); ok {
					key := funcName(fn) + ":store e.txn"
					if isNilConst(x.Val) {
						if final {
							if st.s == tkO {
								note(key+"=nil", ta.c.pos(x.Pos()), "cleared by the owner", false)
							} else {
								note(key+"=nil", ta.c.pos(x.Pos()), "e.txn cleared in state "+st.s.String()+" (not established as the owner of the active transaction)", true)
							}
						}
						st.s = tkH
					} else {
						if final {
							if st.s == tkH {
								note(key, ta.c.pos(x.Pos()), "token handed over to e.txn", false)
							} else {
								note(key, ta.c.pos(x.Pos()), "e.txn set in state "+st.s.String()+" (a write transaction is registered without holding the token)", true)
							}
						}
						st.s = tkO
					}
				}
			case *ssa.RunDefers:
				if st.deferred {
					if final {
						key := funcName(fn) + ":deferred Release"
						if st.s == tkH {
							note(key, ta.c.pos(x.Pos()), "deferred release runs in state Held", false)
						} else {
							note(key, ta.c.pos(x.Pos()), "deferred Release runs in state "+st.s.String(), true)
						}
					}
					if final {
						ta.releases[ta.curEntry]++
					}
					st.s = tkN
					st.deferred = false
				}
			case *ssa.Return:
				if final {
					key := funcName(fn) + ":return"
					if st.s == tkH {
						note(key, ta.c.pos(x.Pos()), "returns while still holding the token (leak: no later writer can begin)", true)
					} else if st.s == tkO && depth == 0 && ta.curEntry != "Engine.Begin" {
						// Commit and Abort end the transaction: once the caller is established as the owner of the active
						// transaction, every way out has cleared e.txn and released the token
						note(key+" as owner", ta.c.pos(x.Pos()), ta.curEntry+" returns with the caller's transaction still registered and the writer token not released: a caller that does not abort afterwards (session commit, the expiry pass) keeps the writer slot for ever", true)
					} else {
						note(key, ta.c.pos(x.Pos()), "returns in state "+st.s.String(), false)
					}
				}
				outs[st] = true
			case *ssa.Panic:
				// explicit panics are not modelled
			}
		}
		return []tokPair{st}
	}
	changed := true
	for iter := 0; changed && iter < 50; iter++ {
		changed = false
		for _, b := range fn.Blocks {
			for st := range ins[b.Index] {
				for _, out := range transfer(b, st, false, 0) {
					for i, s := range b.Succs {
						ref, ok := refine(b, i, out)
						if ok && !ins[s.Index][ref] {
							ins[s.Index][ref] = true
							changed = true
						}
					}
				}
			}
		}
	}
	outs = set{}
	for _, b := range fn.Blocks {
		for st := range ins[b.Index] {
			transfer(b, st, true, 0)
		}
	}
	var res []tokPair
	for st := range outs {
		res = append(res, st)
	}
	sort.Slice(res, func(i, j int) bool { return res[i].s < res[j].s })
	ta.memo[mk] = res
	return res
}

func ruleLock4(c *Ctx, r *Reporter) {
	ta := &tokAnalysis{c: c, r: r,
		txnF: c.field(pkgLungo, "Engine", "txn"), tokenF: c.field(pkgLungo, "Engine", "token"),
		problem: map[string]string{}, okSites: map[string]string{}, memo: map[string][]tokPair{}, active: map[string]bool{}, releases: map[string]int{}}
	if ta.txnF == nil || ta.tokenF == nil {
		r.bad("anchor:Engine.txn/token", "-", "fields not found")
		return
	}
	entries := map[string]tokState{"Engine.Begin": tkN, "Engine.Commit": tkU, "Engine.Abort": tkU}
	for _, name := range []string{"Engine.Begin", "Engine.Commit", "Engine.Abort"} {
		fn := c.lookupSSA(pkgLungo, name)
		if fn == nil {
			r.bad("anchor:"+name, "-", "function not found")
			continue
		}
		ta.curEntry = name
		res := ta.run(fn, tokPair{entries[name], false}, 0)
		for _, p := range res {
			if p.s == tkH {
				// already reported at the return
			}
		}
	}
	// every other function of package lungo must not touch the token or store e.txn unless reached from the three
	reachedFrom := map[*ssa.Function]bool{}
	for k := range ta.memo {
		_ = k
	}
	for _, name := range []string{"Engine.Begin", "Engine.Commit", "Engine.Abort"} {
		if fn := c.lookupSSA(pkgLungo, name); fn != nil {
			var walk func(f *ssa.Function)
			walk = func(f *ssa.Function) {
				if reachedFrom[f] || f.Blocks == nil || fnPkgPath(f) != pkgLungo {
					return
				}
				reachedFrom[f] = true
				allInstrs(f, func(in ssa.Instruction) {
					if ci, ok := in.(ssa.CallInstruction); ok {
						if callee := staticFn(ci.Common()); callee != nil {
							walk(callee)
						}
					}
				})
			}
			walk(fn)
		}
	}
	for _, fn := range c.repoFuncs() {
		if fnPkgPath(fn) != pkgLungo || reachedFrom[fn] {
			continue
		}
		allInstrs(fn, func(in ssa.Instruction) {
			switch x := in.(type) {
			case *ssa.Store:
				if _, ok := fieldAddrOf(x.Addr, ta.txnF); ok && !freshLocal(x.Addr.(*ssa.FieldAddr).X, in) {
					ta.problem[funcName(fn)+":store e.txn @ "+c.pos(in.Pos())] = "Engine.txn is written outside Begin/Commit/Abort"
				}
			case ssa.CallInstruction:
				if ta.isRelease(x.Common()) || ta.isAcquire(x.Common()) {
					ta.problem[funcName(fn)+":token op @ "+c.pos(in.Pos())] = "the writer token is acquired/released outside Begin/Commit/Abort"
				}
			}
		})
	}
	emit := func(m map[string]string, bad bool) int {
		var keys []string
		for k := range m {
			keys = append(keys, k)
		}
		sort.Strings(keys)
		for _, k := range keys {
			parts := strings.SplitN(k, " @ ", 2)
			if bad {
				r.bad(parts[0], parts[1], m[k])
			} else {
				r.ok(parts[0], parts[1], m[k])
			}
		}
		return len(keys)
	}
	emit(ta.problem, true)
	emit(ta.okSites, false)
	rel, acq, handover, clear := 0, 0, 0, 0
	for k := range ta.okSites {
		switch {
		case strings.Contains(k, ":Release") || strings.Contains(k, ":deferred Release"):
			rel++
		case strings.Contains(k, "store e.txn=nil"):
			clear++
		case strings.Contains(k, "store e.txn"):
			handover++
		}
	}
	for k := range ta.problem {
		if strings.Contains(k, "Release") {
			rel++
		}
		if strings.Contains(k, "store e.txn=nil") {
			clear++
		} else if strings.Contains(k, "store e.txn") {
			handover++
		}
	}
	if fn := c.lookupSSA(pkgLungo, "Engine.Begin"); fn != nil {
		coneInstrs(fn, func(in ssa.Instruction) {
			if ci, ok := in.(*ssa.Call); ok && ta.isAcquire(&ci.Call) {
				acq++
				// the result must be tested
				tested := false
				if refs := ci.Referrers(); refs != nil {
					for _, ref := range *refs {
						switch u := ref.(type) {
						case *ssa.If:
							tested = true
						case *ssa.UnOp:
							if urefs := u.Referrers(); urefs != nil {
								for _, ur := range *urefs {
									if _, ok := ur.(*ssa.If); ok {
										tested = true
									}
								}
							}
						}
					}
				}
				r.check(tested, "Engine.Begin:Acquire result tested", c.pos(ci.Pos()), "the result of Acquire decides the path", "result of token.Acquire is not branched on")
			}
		})
	}
	r.guard(acq, 1, "token.Acquire in Begin")
	_ = rel
	for _, name := range []string{"Engine.Begin", "Engine.Commit", "Engine.Abort"} {
		r.guard(ta.releases[name], 1, "token release reachable in "+name)
	}
	r.guard(handover, 1, "e.txn = <transaction> in Begin")
	r.guard(clear, 2, "e.txn = nil in Commit/Abort")
}

// ---- LOCK-5 -------------------------------------------------------------------

func ruleLock5(c *Ctx, r *Reporter) {
	ls := locksets(c)
	fn := c.lookupSSA(pkgLungo, "Engine.Begin")
	txnF, catF, tokF := c.field(pkgLungo, "Engine", "txn"), c.field(pkgLungo, "Engine", "catalog"), c.field(pkgLungo, "Engine", "token")
	if fn == nil || txnF == nil || catF == nil || tokF == nil {
		r.bad("anchor:Engine.Begin", "-", "not found")
		return
	}
	var acquire *ssa.Call
	var stores []*ssa.Store
	var unlocks []ssa.Instruction
	// the token wait and what follows may live in a private helper of Begin: the snapshot rule is judged there
	beginFn := fn
	coneInstrs(fn, func(in ssa.Instruction) {
		if x, ok := in.(*ssa.Call); ok {
			if f := calleeObj(&x.Call); f != nil && f.Pkg() != nil && f.Pkg().Path() == pkgDbkit && fullShort(f) == "Semaphore.Acquire" {
				fn = x.Parent()
			}
		}
	})
	allInstrs(fn, func(in ssa.Instruction) {
		switch x := in.(type) {
		case *ssa.Call:
			f := calleeObj(&x.Call)
			if f != nil && f.Pkg() != nil && f.Pkg().Path() == pkgDbkit && fullShort(f) == "Semaphore.Acquire" {
				acquire = x
			}
			if op, ok := ls.lockOpOf(&x.Call); ok && !op.acquire && baseLock(ls.info.names[op.lock]) == "lungo.Engine.mutex" {
				unlocks = append(unlocks, x)
			}
		case *ssa.Store:
			if _, ok := fieldAddrOf(x.Addr, txnF); ok && !isNilConst(x.Val) {
				stores = append(stores, x)
			}
		}
	})
	r.guard(len(stores), 1, "store of the new transaction into e.txn")
	if acquire == nil {
		r.bad("anchor:Acquire", "-", "no token.Acquire in Begin")
		return
	}
	for _, st := range stores {
		// find the catalog load feeding the stored transaction
		var loads []*ssa.UnOp
		seen := map[ssa.Value]bool{}
		var walk func(v ssa.Value, depth int)
		walk = func(v ssa.Value, depth int) {
			if seen[v] || depth > 6 {
				return
			}
			seen[v] = true
			switch x := v.(type) {
			case *ssa.UnOp:
				if x.Op == token.MUL {
					if _, ok := fieldAddrOf(x.X, catF); ok {
						loads = append(loads, x)
						return
					}
				}
				walk(x.X, depth+1)
			case *ssa.Call:
				for _, a := range x.Call.Args {
					walk(a, depth+1)
				}
			case *ssa.Phi:
				for _, e := range x.Edges {
					walk(e, depth+1)
				}
			case *ssa.MakeInterface:
				walk(x.X, depth+1)
			case *ssa.ChangeType:
				walk(x.X, depth+1)
			}
		}
		walk(st.Val, 0)
		if len(loads) == 0 {
			r.bad("Engine.Begin:snapshot source", c.pos(st.Pos()), "the transaction stored in e.txn is not built from a read of e.catalog in Begin")
			continue
		}
		for _, ld := range loads {
			key := "Engine.Begin:catalog snapshot for e.txn"
			if !instrDominates(acquire, ld) {
				r.bad(key, c.pos(ld.Pos()), "e.catalog is read before the token is acquired: a commit in between is lost (lost update)")
				continue
			}
			if !ls.mustHold(ld, "lungo.Engine.mutex") {
				r.bad(key, c.pos(ld.Pos()), "e.catalog is read without Engine.mutex")
				continue
			}
			window := false
			for _, u := range unlocks {
				if instrReaches(ld, u) && instrReaches(u, st) {
					window = true
				}
			}
			r.check(!window, key, c.pos(ld.Pos()), "read after Acquire succeeded, under Engine.mutex, same critical section as the store of e.txn",
				"Engine.mutex is released between reading e.catalog and registering e.txn")
		}
	}
	// the unlocked snapshot path must also read under the mutex
	cnt := 0
	coneInstrs(beginFn, func(in ssa.Instruction) {
		if u, ok := in.(*ssa.UnOp); ok && u.Op == token.MUL {
			if _, ok := fieldAddrOf(u.X, catF); ok {
				cnt++
				r.check(ls.mustHold(u, "lungo.Engine.mutex"), "Engine.Begin:read e.catalog", c.pos(u.Pos()), "under Engine.mutex", "without Engine.mutex")
			}
		}
	})
	r.guard(cnt, 2, "reads of e.catalog in Begin (snapshot + writer)")
}

// ---- LOCK-6 -------------------------------------------------------------------

func ruleLock6(c *Ctx, r *Reporter) {
	begin := c.lookupFunc(pkgLungo, "Engine.Begin")
	abort := c.lookupFunc(pkgLungo, "Engine.Abort")
	commit := c.lookupFunc(pkgLungo, "Engine.Commit")
	sessTxn := c.field(pkgLungo, "Session", "txn")
	if begin == nil || abort == nil || commit == nil || sessTxn == nil {
		r.bad("anchor:Begin/Abort/Commit", "-", "not found")
		return
	}
	sites := 0
	for _, fn := range c.repoFuncs() {
		if fnPkgPath(fn) != pkgLungo {
			continue
		}
		allInstrs(fn, func(in ssa.Instruction) {
			call, ok := in.(*ssa.Call)
			if !ok || calleeObj(&call.Call) != begin {
				return
			}
			lockArg := call.Call.Args[len(call.Call.Args)-1]
			lockConst, isConst := constBool(lockArg)
			key := funcName(fn) + ":Begin"
			if isConst && !lockConst {
				r.trivial(key+"(unlocked)", c.pos(call.Pos()), "unlocked snapshot: nothing to release")
				return
			}
			sites++
			txn := tupleResult(call, 0)
			errv := tupleResult(call, 1)
			if txn == nil || errv == nil {
				r.bad(key, c.pos(call.Pos()), "results of Begin are not both used")
				return
			}
			checks := errChecksDeep(errv)
			if len(checks) == 0 {
				r.bad(key, c.pos(call.Pos()), "the error of Begin is never tested")
				return
			}
			// values equal to txn (through phis / spills are not needed here: txn is used directly)
			isTxn := func(v ssa.Value) bool { return resolveHelperValue(stripValue(v)) == txn }
			isReleaseInstr := func(x ssa.Instruction) (kind string) {
				switch y := x.(type) {
				case *ssa.Defer:
					if f := calleeObj(&y.Call); f == abort && len(y.Call.Args) == 2 && isTxn(y.Call.Args[1]) {
						return "defer Abort"
					}
				case *ssa.Call:
					f := calleeObj(&y.Call)
					if (f == abort || f == commit) && len(y.Call.Args) == 2 && isTxn(y.Call.Args[1]) {
						return "Abort/Commit"
					}
					for i, a := range y.Call.Args {
						if isTxn(a) && releasesTxnParam(staticFn(&y.Call), i, abort, commit, 0) {
							return "helper that commits or aborts"
						}
					}
				case *ssa.Store:
					if _, ok := fieldAddrOf(y.Addr, sessTxn); ok && isTxn(y.Val) {
						return "hand-over to Session.txn"
					}
				}
				return ""
			}
			for _, chk := range checks {
				// non-locked dynamic case: `if !lock { return fn(txn) }` is allowed to leave without release
				// walk all paths from the success edge
				type item struct {
					b   *ssa.BasicBlock
					idx int
					cb  bool // a callback / panicking user code ran since Begin
				}
				seen := map[*ssa.BasicBlock]bool{}
				var problems []string
				kinds := map[string]int{}
				var dfs func(it item)
				dfs = func(it item) {
					b := it.b
					cb := it.cb
					for i := it.idx; i < len(b.Instrs); i++ {
						x := b.Instrs[i]
						if k := isReleaseInstr(x); k != "" {
							if cb && k != "defer Abort" {
								problems = append(problems, fmt.Sprintf("a callback runs between Begin and the %s at %s: a panic in it would leak the writer token (Abort must be deferred)", k, c.pos(x.Pos())))
							}
							kinds[k]++
							return
						}
						switch y := x.(type) {
						case *ssa.Call:
							if isFuncParamCall(fn, &y.Call) {
								cb = true
							}
							if calleeObj(&y.Call) == begin {
								problems = append(problems, "control returns to Begin at "+c.pos(y.Pos())+" without releasing the previous transaction")
								return
							}
						case *ssa.Return:
							// allowed only when the transaction is known to be unlocked on this path
							if !isConst && b.Parent() == fn && pathImpliesUnlocked(lockArg, b) {
								kinds["unlocked path"]++
								return
							}
							problems = append(problems, "path to the return at "+c.pos(y.Pos())+" neither aborts, commits nor hands over the transaction")
							return
						case *ssa.Panic:
							return
						}
					}
					for _, s := range b.Succs {
						if s == call.Block() {
							problems = append(problems, "loop back to Begin without releasing the transaction")
							continue
						}
						if !seen[s] {
							seen[s] = true
							dfs(item{s, 0, cb})
						}
					}
				}
				seen[chk.OkSucc] = true
				dfs(item{chk.OkSucc, 0, false})
				var ks []string
				for k, n := range kinds {
					ks = append(ks, fmt.Sprintf("%s x%d", k, n))
				}
				sort.Strings(ks)
				if len(problems) > 0 {
					r.bad(key, c.pos(call.Pos()), strings.Join(problems, "; "))
				} else {
					r.ok(key, c.pos(call.Pos()), "every path from the success edge releases the transaction: "+strings.Join(ks, ", "))
				}
			}
		})
	}
	r.guard(sites, 8, "Engine.Begin(lock) call sites")
}

// releasesTxnParam: h is a function of package lungo whose every path from entry to a return commits or aborts the
// transaction it receives as parameter idx (Engine.Commit / Engine.Abort on it, directly or in a function it hands the
// transaction to): a call h(txn) ends the caller's obligation like the Commit/Abort it wraps.
func releasesTxnParam(h *ssa.Function, idx int, abort, commit *types.Func, depth int) bool {
	if h == nil || h.Blocks == nil || fnPkgPath(h) != pkgLungo || idx >= len(h.Params) || depth > 2 {
		return false
	}
	p := h.Params[idx]
	isP := func(v ssa.Value) bool { return stripValue(v) == ssa.Value(p) }
	pass := func(x ssa.Instruction) bool {
		switch y := x.(type) {
		case *ssa.Defer:
			return calleeObj(&y.Call) == abort && len(y.Call.Args) == 2 && isP(y.Call.Args[1])
		case *ssa.Call:
			f := calleeObj(&y.Call)
			if (f == abort || f == commit) && len(y.Call.Args) == 2 && isP(y.Call.Args[1]) {
				return true
			}
			for i, a := range y.Call.Args {
				if isP(a) && releasesTxnParam(staticFn(&y.Call), i, abort, commit, depth+1) {
					return true
				}
			}
		}
		return false
	}
	return exitWithoutPassing(h.Blocks[0].Instrs[0], pass, nil) == nil
}

// pathImpliesUnlocked: block b is only reachable through the false edge of `if lock` (i.e. under !lock).
func pathImpliesUnlocked(lock ssa.Value, b *ssa.BasicBlock) bool {
	refs := lock.Referrers()
	if refs == nil {
		return false
	}
	check := func(iff *ssa.If, neg bool) bool {
		blk := iff.Block()
		idx := 1 // false edge of `if lock`
		if neg {
			idx = 0 // true edge of `if !lock`
		}
		target := blk.Succs[idx]
		return target == b || (target.Dominates(b) && len(target.Preds) == 1)
	}
	for _, ref := range *refs {
		switch x := ref.(type) {
		case *ssa.If:
			if check(x, false) {
				return true
			}
		case *ssa.UnOp:
			if x.Op == token.NOT {
				if rr := x.Referrers(); rr != nil {
					for _, y := range *rr {
						if iff, ok := y.(*ssa.If); ok && check(iff, true) {
							return true
						}
					}
				}
			}
		}
	}
	return false
}

// ---- LOCK-7 -------------------------------------------------------------------

func ruleLock7(c *Ctx, r *Reporter) {
	ls := locksets(c)
	eng := c.lookupType(pkgLungo, "Engine")
	if eng == nil {
		r.bad("anchor:Engine", "-", "type not found")
		return
	}
	guardedFields := map[*types.Var]bool{}
	for _, n := range []string{"txn", "streams", "catalog"} {
		if f := c.field(pkgLungo, "Engine", n); f != nil {
			guardedFields[f] = true
		}
	}
	isAlive := func(in ssa.Instruction) bool {
		call, ok := in.(*ssa.Call)
		if !ok {
			return false
		}
		f := calleeObj(&call.Call)
		return f != nil && f.Pkg() != nil && f.Pkg().Path() == "gopkg.in/tomb.v2" && f.Name() == "Alive"
	}
	n := 0
	for i := 0; i < eng.NumMethods(); i++ {
		m := eng.Method(i)
		if !m.Exported() || m.Name() == "Catalog" {
			continue
		}
		fn := c.ssaFunc(m)
		if fn == nil || fn.Blocks == nil {
			continue
		}
		var alive []ssa.Instruction
		allInstrs(fn, func(in ssa.Instruction) {
			if isAlive(in) {
				alive = append(alive, in)
			}
		})
		takes := false
		allInstrs(fn, func(in ssa.Instruction) {
			if ci, ok := in.(*ssa.Call); ok {
				if op, ok := ls.lockOpOf(&ci.Call); ok && op.acquire && ls.info.names[op.lock] == "lungo.Engine.mutex" {
					takes = true
				}
			}
		})
		if !takes {
			continue
		}
		n++
		key := "Engine." + m.Name() + ":liveness"
		if len(alive) == 0 {
			r.bad(key, c.pos(fn.Pos()), "takes Engine.mutex but never checks tomb.Alive()")
			continue
		}
		// every access to a guarded field must be dominated by an Alive() check made under the mutex with no unlock in between
		okAll := true
		var firstBad ssa.Instruction
		allInstrs(fn, func(in ssa.Instruction) {
			var fa *ssa.FieldAddr
			switch x := in.(type) {
			case *ssa.Store:
				fa, _ = x.Addr.(*ssa.FieldAddr)
			case *ssa.UnOp:
				if x.Op == token.MUL {
					fa, _ = x.X.(*ssa.FieldAddr)
				}
			}
			if fa == nil || !guardedFields[structFieldOf(fa)] {
				return
			}
			dominated := false
			for _, a := range alive {
				if instrDominates(a, in) && ls.mustHold(a, "lungo.Engine.mutex") {
					// no unlock between a and in
					clean := true
					allInstrs(fn, func(u ssa.Instruction) {
						if ci, ok := u.(*ssa.Call); ok {
							if op, ok := ls.lockOpOf(&ci.Call); ok && !op.acquire && ls.info.names[op.lock] == "lungo.Engine.mutex" {
								if instrReaches(a, u) && instrReaches(u, in) {
									clean = false
								}
							}
						}
					})
					if clean {
						dominated = true
					}
				}
			}
			if !dominated && okAll {
				okAll = false
				firstBad = in
			}
		})
		if okAll {
			r.ok(key, c.pos(fn.Pos()), "all accesses to txn/catalog/streams follow a tomb.Alive() check in the same critical section")
		} else {
			r.bad(key, c.pos(firstBad.Pos()), "engine state is touched without a preceding tomb.Alive() check in the same critical section")
		}
	}
	r.guard(n, 5, "exported Engine methods taking the mutex")

	// Close: tomb.Kill under the mutex; close(signal) outside Engine.mutex, under Stream.mutex, after Kill
	closeFn := c.lookupSSA(pkgLungo, "Engine.Close")
	if closeFn == nil {
		r.bad("anchor:Engine.Close", "-", "not found")
		return
	}
	var kill ssa.Instruction
	coneInstrs(closeFn, func(in ssa.Instruction) {
		if call, ok := in.(*ssa.Call); ok {
			if f := calleeObj(&call.Call); f != nil && f.Pkg() != nil && f.Pkg().Path() == "gopkg.in/tomb.v2" && f.Name() == "Kill" {
				kill = in
			}
		}
	})
	if kill == nil {
		r.bad("Engine.Close:tomb.Kill", c.pos(closeFn.Pos()), "Close does not kill the tomb")
	} else {
		r.check(ls.mustHold(kill, "lungo.Engine.mutex"), "Engine.Close:tomb.Kill", c.pos(kill.Pos()), "killed under Engine.mutex (Begin/Commit re-check liveness under the same mutex)", "tomb.Kill outside Engine.mutex")
	}
}

// ---- LOCK-8 -------------------------------------------------------------------

func ruleLock8(c *Ctx, r *Reporter) {
	sessTxn := c.field(pkgLungo, "Session", "txn")
	starting := c.field(pkgLungo, "Session", "starting")
	begin := c.lookupFunc(pkgLungo, "Engine.Begin")
	abort := c.lookupFunc(pkgLungo, "Engine.Abort")
	commit := c.lookupFunc(pkgLungo, "Engine.Commit")
	if sessTxn == nil || starting == nil || begin == nil {
		r.bad("anchor:Session", "-", "not found")
		return
	}
	nClear, nSet, nStart := 0, 0, 0
	for _, fn := range c.repoFuncs() {
		if fnPkgPath(fn) != pkgLungo {
			continue
		}
		allInstrs(fn, func(in ssa.Instruction) {
			st, ok := in.(*ssa.Store)
			if !ok {
				return
			}
			if fa, ok := st.Addr.(*ssa.FieldAddr); ok && freshLocal(fa.X, in) {
				return
			}
			if _, ok := fieldAddrOf(st.Addr, sessTxn); ok {
				if isNilConst(st.Val) {
					nClear++
					// an Abort/Commit of a value loaded from s.txn must precede or follow in the same critical section
					found := false
					allInstrs(fn, func(x ssa.Instruction) {
						call, ok := x.(*ssa.Call)
						if !ok {
							return
						}
						f := calleeObj(&call.Call)
						if f != abort && f != commit {
							return
						}
						arg := call.Call.Args[1]
						if u, ok := arg.(*ssa.UnOp); ok && u.Op == token.MUL {
							if _, ok := fieldAddrOf(u.X, sessTxn); ok {
								if instrDominates(x, in) || instrDominates(in, x) {
									found = true
								}
							}
						}
					})
					r.check(found, funcName(fn)+":s.txn=nil", c.pos(in.Pos()), "paired with engine.Abort/Commit of the session transaction on the same path", "session transaction dropped without aborting or committing it (writer token leaks)")
				} else {
					nSet++
					fromBegin := false
					if ex, ok := resolveHelperValue(st.Val).(*ssa.Extract); ok {
						if call, ok := ex.Tuple.(*ssa.Call); ok && calleeObj(&call.Call) == begin {
							fromBegin = true
						}
					}
					r.check(fromBegin, funcName(fn)+":s.txn=<txn>", c.pos(in.Pos()), "value is the result of Engine.Begin", "session transaction is set from something other than a Begin result")
				}
			}
			if _, ok := fieldAddrOf(st.Addr, starting); ok {
				if b, ok := constBool(st.Val); ok && b {
					nStart++
					// every return reachable from here must pass a store starting=false
					isClear := func(x ssa.Instruction) bool {
						if s2, ok := x.(*ssa.Store); ok {
							if _, ok := fieldAddrOf(s2.Addr, starting); ok {
								if b2, ok := constBool(s2.Val); ok && !b2 {
									return true
								}
							}
						}
						return false
					}
					badExit := exitWithoutPassing(in, isClear, nil)
					leak := badExit != nil
					// at a caller, handing over to a function of the package that clears the flag on all its paths counts
					isClearDeep := func(x ssa.Instruction) bool {
						if isClear(x) {
							return true
						}
						if call, ok := x.(*ssa.Call); ok {
							if h := staticFn(&call.Call); h != nil && h.Blocks != nil && fnPkgPath(h) == pkgLungo && h != fn {
								return exitWithoutPassing(h.Blocks[0].Instrs[0], isClear, nil) == nil
							}
						}
						return false
					}
					if leak && fn.Object() != nil && !fn.Object().Exported() {
						// a reservation helper: the flag is handed to the callers, each of which must clear it on every way out
						sites, okSites := 0, 0
						for _, g := range c.repoFuncs() {
							if fnPkgPath(g) != pkgLungo {
								continue
							}
							allInstrs(g, func(x ssa.Instruction) {
								if call, ok := x.(*ssa.Call); ok && call.Call.StaticCallee() == fn {
									sites++
									// only the paths on which the helper succeeded carry the flag
									starts := []ssa.Instruction{}
									for _, ec := range errChecksOf(errorResult(call)) {
										if len(ec.OkSucc.Instrs) > 0 {
											starts = append(starts, ec.OkSucc.Instrs[0])
										}
									}
									if len(starts) == 0 {
										starts = append(starts, call)
									}
									good := true
									for _, st0 := range starts {
										if isClearDeep(st0) {
											continue
										}
										if exitWithoutPassing(st0, isClearDeep, nil) != nil {
											good = false
										}
									}
									if good {
										okSites++
									}
								}
							})
						}
						if sites > 0 && sites == okSites {
							leak = false
						}
					}
					clears := []int{1}
					r.check(!leak && len(clears) > 0, funcName(fn)+":s.starting=true", c.pos(in.Pos()), "cleared on every path to a return", "a path returns with s.starting still set: the session can never start a transaction again")
				}
			}
		})
	}
	r.guard(nClear, 3, "s.txn = nil sites")
	r.guard(nSet, 1, "s.txn = <txn> sites")
	r.guard(nStart, 1, "s.starting = true sites")
}
