package main

import (
	"fmt"
	"go/token"
	"go/types"
	"golang.org/x/tools/go/ssa"
	"os"
	"sort"
)

func init() {
	if os.Getenv("LUNGOCHECK_DBG") == "in-edges" {
		c, err := loadRepo("/repo", true)
		if err != nil {
			panic(err)
		}
		g := c.Graph()
		var lines []string
		for fn, node := range g.Nodes {
			if fn == nil || !c.isRepoPkg(fnPkgPath(fn)) {
				continue
			}
			for _, e := range node.In {
				if e.Caller.Func != nil && !c.isRepoPkg(fnPkgPath(e.Caller.Func)) {
					lines = append(lines, fmt.Sprintf("%s <- %s", funcName(fn), e.Caller.Func.String()))
				}
			}
		}
		sort.Strings(lines)
		for _, l := range lines {
			fmt.Println(l)
		}
		os.Exit(0)
	}
}

func init() {
	if os.Getenv("LUNGOCHECK_DBG") == "sites" {
		c, err := loadRepo("/repo", true)
		if err != nil {
			panic(err)
		}
		for _, fn := range c.repoFuncs() {
			allInstrs(fn, func(in ssa.Instruction) {
				switch x := in.(type) {
				case *ssa.TypeAssert:
					if !x.CommaOk {
						fmt.Printf("ASSERT %s %s .(%s) X=%s\n", c.pos(x.Pos()), funcName(fn), typeKey(x.AssertedType), x.X.String())
					}
				case *ssa.BinOp:
					if x.Op == token.QUO || x.Op == token.REM {
						if _, isC := x.Y.(*ssa.Const); !isC {
							if b, ok := x.X.Type().Underlying().(*types.Basic); ok && b.Info()&types.IsInteger != 0 {
								fmt.Printf("DIV %s %s %s\n", c.pos(x.Pos()), funcName(fn), x.String())
							}
						}
					}
					if x.Op == token.EQL || x.Op == token.NEQ {
						_, i1 := x.X.Type().Underlying().(*types.Interface)
						_, i2 := x.Y.Type().Underlying().(*types.Interface)
						if i1 && i2 && !isNilConst(x.X) && !isNilConst(x.Y) {
							fmt.Printf("IFACEEQ %s %s %s | %s | %s\n", c.pos(x.Pos()), funcName(fn), x.String(), x.X.String(), x.Y.String())
						}
					}
				case *ssa.MakeSlice:
					fmt.Printf("MAKESLICE %s %s len=%s cap=%s\n", c.pos(x.Pos()), funcName(fn), x.Len.String(), x.Cap.String())
				case *ssa.MakeMap:
					if x.Reserve != nil {
						fmt.Printf("MAKEMAP %s %s res=%s\n", c.pos(x.Pos()), funcName(fn), x.Reserve.String())
					}
				case *ssa.Panic:
					fmt.Printf("PANIC %s %s %s\n", c.pos(x.Pos()), funcName(fn), x.X.String())
				case *ssa.Slice:
					fmt.Printf("SLICE %s %s %s\n", c.pos(x.Pos()), funcName(fn), x.String())
				}
			})
		}
		os.Exit(0)
	}
}

func init() {
	if os.Getenv("LUNGOCHECK_DBG") == "fields" {
		repo := os.Getenv("LUNGOCHECK_REPO")
		if repo == "" {
			repo = "/repo"
		}
		c, err := loadRepo(repo, true)
		if err != nil {
			panic(err)
		}
		s := shareAnalysis(c)
		var lines []string
		for f, t := range s.field {
			if t.top|t.deep != 0 {
				lines = append(lines, fmt.Sprintf("%s.%s top=%s deep=%s", f.Pkg().Name(), f.Name(), taintStr(t.top), taintStr(t.deep)))
			}
		}
		sort.Strings(lines)
		for _, l := range lines {
			fmt.Println(l)
		}
		os.Exit(0)
	}
}

func init() {
	if os.Getenv("LUNGOCHECK_DBG") == "recflags" {
		c, err := loadRepo("/repo", true)
		if err != nil {
			panic(err)
		}
		for _, fn := range c.repoFuncs() {
			if fn.Parent() != nil {
				continue
			}
			for pi, p := range fn.Params {
				b, ok := p.Type().Underlying().(*types.Basic)
				if !ok || b.Kind() != types.Bool {
					continue
				}
				same, diff := 0, 0
				for _, g := range withClosures(fn) {
					allInstrs(g, func(in ssa.Instruction) {
						if ci, ok := in.(ssa.CallInstruction); ok && ci.Common().StaticCallee() == fn {
							a := ci.Common().Args[pi]
							if a == ssa.Value(p) {
								same++
							} else if fv, ok := a.(*ssa.FreeVar); ok && fv.Name() == p.Name() {
								same++
							} else {
								diff++
							}
						}
					})
				}
				if same+diff > 0 {
					fmt.Printf("%s param %s: unchanged at %d sites, changed at %d\n", funcName(fn), p.Name(), same, diff)
				}
			}
		}
		os.Exit(0)
	}
}

func init() {
	v := os.Getenv("LUNGOCHECK_DBG")
	if len(v) > 5 && v[:5] == "vals:" {
		repo := os.Getenv("LUNGOCHECK_REPO")
		if repo == "" {
			repo = "/repo"
		}
		c, err := loadRepo(repo, true)
		if err != nil {
			panic(err)
		}
		s := shareAnalysis(c)
		for _, fn := range s.funcs {
			if fn.Name() != v[5:] {
				continue
			}
			for _, b := range fn.Blocks {
				for _, in := range b.Instrs {
					if val, ok := in.(ssa.Value); ok {
						t := s.get(val)
						fmt.Printf("%-8s %-60.60s top=%s deep=%s extra=%s\n", val.Name(), in.String(), taintStr(t.top), taintStr(t.deep), taintStr(s.extra[val]))
					}
				}
			}
		}
		os.Exit(0)
	}
}
