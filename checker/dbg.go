package main

import (
	"fmt"
	"os"
	"sort"
)

func init() {
	if os.Getenv("LUNGOCHECK_DBG") == "in-edges" {
		c, err := loadRepo("/repo", true)
		if err != nil {
			panic(err)
		}
		g := c.Graph()
		var lines []string
		for fn, node := range g.Nodes {
			if fn == nil || !c.isRepoPkg(fnPkgPath(fn)) {
				continue
			}
			for _, e := range node.In {
				if e.Caller.Func != nil && !c.isRepoPkg(fnPkgPath(e.Caller.Func)) {
					lines = append(lines, fmt.Sprintf("%s <- %s", funcName(fn), e.Caller.Func.String()))
				}
			}
		}
		sort.Strings(lines)
		for _, l := range lines {
			fmt.Println(l)
		}
		os.Exit(0)
	}
}
