package main

import (
	"go/token"
	"go/types"

	"golang.org/x/tools/go/ssa"
)

// Field-sensitive taint for repo structs passed BY VALUE (Operation, IndexConfig, ...).
//
// The sharing analysis is field-based for structs reached through pointers (one taint per field
// of a type, joined over the program). For a struct that travels by value that is needlessly
// coarse: `op.Document = Clone(op.Document); t.update(..., op)` hands over a struct whose Document
// is fresh although op came out of the caller's slice. A by-value struct lives in a local cell
// nobody else can reach, so what a field holds at a given load is decided by the stores to that
// cell alone:
//
//   - cellFieldAt: for a local struct cell whose address does not escape, the taint of field i at
//     a load is that of the unique store that reaches the load (a field store kills the earlier
//     whole-struct store for that field), or the join of all stores to the field if no store is
//     the only one reaching;
//   - pfield: per parameter and field, the join over all call sites of the field taint of the
//     argument; reading p.f in the callee yields that instead of the taint of the whole struct.

func (s *Share) addParamField(p *ssa.Parameter, idx int, t tt) {
	if s.pfield == nil {
		s.pfield = map[*ssa.Parameter]map[int]tt{}
	}
	m := s.pfield[p]
	if m == nil {
		m = map[int]tt{}
		s.pfield[p] = m
	}
	t.deep |= t.top
	old, had := m[idx]
	nw := old.join(t)
	if nw != old || !had {
		m[idx] = nw
		s.changed = true
	}
}

// structFieldTaint: the taint of field idx of the by-value struct v, if it can be told apart from the rest of v.
func (s *Share) structFieldTaint(v ssa.Value, idx int, depth int) (tt, bool) {
	if depth > 4 {
		return tt{}, false
	}
	switch x := v.(type) {
	case *ssa.Parameter:
		m := s.pfield[x]
		if m == nil {
			return tt{}, false
		}
		t, ok := m[idx]
		if !ok {
			return tt{}, false
		}
		// a boundary function is also called from outside with the caller's own struct
		if k := s.boundaryKind(x.Parent()); k != 0 {
			t = t.join(tt{k, k})
		}
		return t, true
	case *ssa.UnOp:
		if x.Op != token.MUL {
			return tt{}, false
		}
		if a, ok := x.X.(*ssa.Alloc); ok {
			return s.cellFieldAt(a, idx, x, depth)
		}
	}
	return tt{}, false
}

// structCellStores: the stores into a local struct cell, provided its address is used for nothing but whole
// loads/stores and loads/stores of its fields.
func structCellStores(a *ssa.Alloc) (whole []*ssa.Store, field map[int][]*ssa.Store, ok bool) {
	refs := a.Referrers()
	if refs == nil {
		return nil, nil, false
	}
	field = map[int][]*ssa.Store{}
	for _, ref := range *refs {
		switch r := ref.(type) {
		case *ssa.Store:
			if r.Addr != ssa.Value(a) {
				return nil, nil, false // the address itself is stored somewhere
			}
			whole = append(whole, r)
		case *ssa.UnOp:
			if r.Op != token.MUL {
				return nil, nil, false
			}
		case *ssa.FieldAddr:
			fr := r.Referrers()
			if fr == nil {
				continue
			}
			for _, u := range *fr {
				switch y := u.(type) {
				case *ssa.Store:
					if y.Addr != ssa.Value(r) {
						return nil, nil, false
					}
					field[r.Field] = append(field[r.Field], y)
				case *ssa.UnOp:
					if y.Op != token.MUL {
						return nil, nil, false
					}
				case *ssa.DebugRef:
				default:
					return nil, nil, false
				}
			}
		case *ssa.DebugRef:
		default:
			return nil, nil, false
		}
	}
	return whole, field, true
}

// reachesAvoiding: can control flow from just after instruction `from` reach instruction `to` without executing `avoid`?
func reachesAvoiding(from, to, avoid ssa.Instruction) bool {
	scan := func(b *ssa.BasicBlock, start int) (found, dead bool) {
		for i := start; i < len(b.Instrs); i++ {
			switch b.Instrs[i] {
			case to:
				return true, false
			case avoid:
				return false, true
			}
		}
		return false, false
	}
	found, dead := scan(from.Block(), instrIndex(from)+1)
	if found {
		return true
	}
	if dead {
		return false
	}
	seen := map[*ssa.BasicBlock]bool{}
	work := append([]*ssa.BasicBlock{}, from.Block().Succs...)
	for len(work) > 0 {
		b := work[len(work)-1]
		work = work[:len(work)-1]
		if seen[b] {
			continue
		}
		seen[b] = true
		found, dead := scan(b, 0)
		if found {
			return true
		}
		if dead {
			continue
		}
		work = append(work, b.Succs...)
	}
	return false
}

func (s *Share) storedFieldTaint(st *ssa.Store, isWhole bool, idx int, depth int) tt {
	if !isWhole {
		return s.get(st.Val)
	}
	if t, ok := s.structFieldTaint(st.Val, idx, depth+1); ok {
		return t
	}
	d := s.get(st.Val).deep
	return tt{d, d}
}

// cellFieldAt: the taint of field idx of the local struct cell a at the load `at`.
func (s *Share) cellFieldAt(a *ssa.Alloc, idx int, at ssa.Instruction, depth int) (tt, bool) {
	if !s.repoStruct(a.Type()) {
		return tt{}, false
	}
	whole, field, ok := structCellStores(a)
	if !ok {
		return tt{}, false
	}
	type cand struct {
		st    *ssa.Store
		whole bool
	}
	var cands []cand
	for _, w := range whole {
		cands = append(cands, cand{w, true})
	}
	for _, f := range field[idx] {
		cands = append(cands, cand{f, false})
	}
	if len(cands) == 0 {
		// never written: the zero value
		return tt{}, true
	}
	// the unique reaching store, if there is one
	for _, c := range cands {
		if !instrDominates(c.st, at) {
			continue
		}
		only := true
		for _, o := range cands {
			if o.st != c.st && reachesAvoiding(o.st, at, c.st) {
				only = false
			}
		}
		// and the cell's initial zero value cannot reach the load around the store either: the store dominates it
		if only {
			return s.storedFieldTaint(c.st, c.whole, idx, depth), true
		}
	}
	var t tt
	for _, c := range cands {
		t = t.join(s.storedFieldTaint(c.st, c.whole, idx, depth))
	}
	return t, true
}

// passStructArg records, for a by-value struct argument, the taint of each document-carrying field at the callee's parameter.
func (s *Share) passStructArg(p *ssa.Parameter, arg ssa.Value, whole tt) {
	st, ok := p.Type().Underlying().(*types.Struct)
	if !ok || !s.repoStruct(p.Type()) {
		return
	}
	for i := 0; i < st.NumFields(); i++ {
		if !s.isDocish(st.Field(i).Type()) {
			continue
		}
		t, ok := s.structFieldTaint(arg, i, 0)
		if !ok {
			t = tt{whole.deep, whole.deep}
		}
		s.addParamField(p, i, t)
	}
}
