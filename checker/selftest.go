package main

// runSelfTest is filled in by selftest_variants.go; the stub keeps the build green.
func runSelfTest(pd *PropDef, repo, out string) []map[string]interface{} {
	return selfTestImpl(pd, repo, out)
}

var selfTestImpl = func(pd *PropDef, repo, out string) []map[string]interface{} { return nil }
