package main

import (
	"encoding/json"
	"fmt"
	"io"
	"os"
	"os/exec"
	"path/filepath"
	"sort"
	"strings"
	"sync"
)

// Thorough tier: both-ways self-test of the checker for one property (DESIGN 3.5 / 11.5).
//
//   breaking variants  = the committed seeded changes (seeded/<id>/patch.diff) whose meta.json says
//                        this property's rules catch them: the check must exit 1 and name one of the rules;
//   silent variants    = behaviour-preserving edits (selftest/silent/*.diff): the check must exit 0.
//
// Every variant is analysed by a separate process on a scratch copy of the current /repo working
// tree under $TMPDIR (removed right afterwards, at most 8 at a time). A patch that no longer applies
// is reported as skipped. The outcome is evidence about the checker; it never changes the exit code.

func runSelfTest(pd *PropDef, repo, out string) []map[string]interface{} {
	type variant struct {
		name, patch, kind string
		expect            []string
	}
	var vars []variant
	seedDirs, _ := filepath.Glob(filepath.Join(out, "seeded", "*", "patch.diff"))
	sort.Strings(seedDirs)
	for _, p := range seedDirs {
		dir := filepath.Dir(p)
		b, err := os.ReadFile(filepath.Join(dir, "meta.json"))
		if err != nil {
			continue
		}
		var meta struct {
			DetectedBy map[string][]string `json:"detected_by"`
		}
		if json.Unmarshal(b, &meta) != nil {
			continue
		}
		if rules := meta.DetectedBy[pd.ID]; len(rules) > 0 {
			vars = append(vars, variant{filepath.Base(dir), p, "breaking", rules})
		}
	}
	silent, _ := filepath.Glob(filepath.Join(out, "selftest", "silent", "*.diff"))
	sort.Strings(silent)
	for _, p := range silent {
		vars = append(vars, variant{strings.TrimSuffix(filepath.Base(p), ".diff"), p, "silent", nil})
	}
	if len(vars) == 0 {
		return nil
	}
	files, err := repoFiles(repo)
	if err != nil {
		fmt.Printf("SELFTEST skipped: cannot list repository files: %v\n", err)
		return nil
	}
	exe, _ := os.Executable()
	results := make([]map[string]interface{}, len(vars))
	sem := make(chan struct{}, 8)
	var wg sync.WaitGroup
	for i, v := range vars {
		wg.Add(1)
		go func(i int, v variant) {
			defer wg.Done()
			sem <- struct{}{}
			defer func() { <-sem }()
			res := map[string]interface{}{"variant": v.name, "kind": v.kind}
			if v.expect != nil {
				res["expected_rules"] = v.expect
			}
			dir, err := os.MkdirTemp("", "lungocheck-selftest-")
			if err != nil {
				res["outcome"] = "skipped: " + err.Error()
				results[i] = res
				return
			}
			defer os.RemoveAll(dir)
			if err := copyFiles(repo, dir, files); err != nil {
				res["outcome"] = "skipped: copy failed: " + err.Error()
				results[i] = res
				return
			}
			ap := exec.Command("git", "apply", v.patch)
			ap.Dir = dir
			if outb, err := ap.CombinedOutput(); err != nil {
				res["outcome"] = "skipped: patch no longer applies"
				_ = outb
				results[i] = res
				return
			}
			cmd := exec.Command(exe, "-prop", pd.ID, "-tier", "quick", "-repo", dir, "-out", out, "-no-evidence")
			cmd.Env = append(os.Environ(), "GOFLAGS=-mod=mod", "GOPROXY=off")
			outb, _ := cmd.CombinedOutput()
			code := cmd.ProcessState.ExitCode()
			fired := map[string]bool{}
			for _, l := range strings.Split(string(outb), "\n") {
				l = strings.TrimSpace(l)
				if strings.HasPrefix(l, "[") && (strings.Contains(l, "VIOLATED") || strings.Contains(l, "UNDECIDED")) {
					fired[strings.Trim(strings.SplitN(l, "]", 2)[0], "[")] = true
				}
			}
			var fl []string
			for k := range fired {
				fl = append(fl, k)
			}
			sort.Strings(fl)
			res["exit"] = code
			res["fired_rules"] = fl
			switch v.kind {
			case "breaking":
				hit := false
				for _, e := range v.expect {
					if fired[e] {
						hit = true
					}
				}
				if code == 1 && hit {
					res["outcome"] = "ok: fired"
				} else {
					res["outcome"] = "MISFIRE: breaking variant not reported by the expected rule"
				}
			default:
				if code == 0 {
					res["outcome"] = "ok: silent"
				} else {
					res["outcome"] = "MISFIRE: alarm on a behaviour-preserving variant"
				}
			}
			results[i] = res
		}(i, v)
	}
	wg.Wait()
	okN, mis, skip := 0, 0, 0
	for _, r := range results {
		o := r["outcome"].(string)
		switch {
		case strings.HasPrefix(o, "ok"):
			okN++
		case strings.HasPrefix(o, "skipped"):
			skip++
		default:
			mis++
			fmt.Printf("SELFTEST-MISFIRE property=%s variant=%s kind=%s fired=%v expected=%v\n", pd.ID, r["variant"], r["kind"], r["fired_rules"], r["expected_rules"])
		}
	}
	fmt.Printf("SELFTEST property=%s variants=%d ok=%d misfire=%d skipped=%d (breaking: seeded changes this property's rules must catch; silent: behaviour-preserving edits)\n", pd.ID, len(results), okN, mis, skip)
	return results
}

func repoFiles(repo string) ([]string, error) {
	cmd := exec.Command("git", "ls-files", "-co", "--exclude-standard")
	cmd.Dir = repo
	b, err := cmd.Output()
	if err != nil {
		return nil, err
	}
	var out []string
	for _, l := range strings.Split(string(b), "\n") {
		if l = strings.TrimSpace(l); l != "" {
			out = append(out, l)
		}
	}
	return out, nil
}

func copyFiles(src, dst string, files []string) error {
	for _, f := range files {
		s := filepath.Join(src, f)
		st, err := os.Stat(s)
		if err != nil || st.IsDir() {
			continue
		}
		d := filepath.Join(dst, f)
		if err := os.MkdirAll(filepath.Dir(d), 0o755); err != nil {
			return err
		}
		in, err := os.Open(s)
		if err != nil {
			return err
		}
		outf, err := os.Create(d)
		if err != nil {
			in.Close()
			return err
		}
		_, err = io.Copy(outf, in)
		in.Close()
		outf.Close()
		if err != nil {
			return err
		}
	}
	return nil
}
