package main

import (
	"crypto/sha256"
	"encoding/hex"
	"encoding/json"
	"fmt"
	"io"
	"os"
	"os/exec"
	"path/filepath"
	"sort"
	"strings"
	"sync"
)

// Thorough tier: both-ways self-test of the checker for one property (DESIGN 3.5 / 11.5).
//
//   breaking variants  = the committed seeded changes (seeded/<id>/patch.diff) whose meta.json says
//                        this property's rules catch them: the check must exit 1 and name one of the rules;
//   silent variants    = behaviour-preserving edits (selftest/silent/*.diff): the check must exit 0.
//
// Every variant is analysed by a separate process on a scratch copy of the current /repo working
// tree under $TMPDIR (removed right afterwards, at most 8 at a time). A patch that no longer applies
// is reported as skipped. The outcome is evidence about the checker; it never changes the exit code.

func runSelfTest(pd *PropDef, repo, out string) []map[string]interface{} {
	type variant struct {
		name, patch, kind string
		expect            []string
	}
	var vars []variant
	seedDirs, _ := filepath.Glob(filepath.Join(out, "seeded", "*", "patch.diff"))
	sort.Strings(seedDirs)
	for _, p := range seedDirs {
		dir := filepath.Dir(p)
		b, err := os.ReadFile(filepath.Join(dir, "meta.json"))
		if err != nil {
			continue
		}
		var meta struct {
			DetectedBy map[string][]string `json:"detected_by"`
		}
		if json.Unmarshal(b, &meta) != nil {
			continue
		}
		if rules := meta.DetectedBy[pd.ID]; len(rules) > 0 {
			vars = append(vars, variant{filepath.Base(dir), p, "breaking", rules})
		}
	}
	silent, _ := filepath.Glob(filepath.Join(out, "selftest", "silent", "*.diff"))
	sort.Strings(silent)
	for _, p := range silent {
		vars = append(vars, variant{strings.TrimSuffix(filepath.Base(p), ".diff"), p, "silent", nil})
	}
	if len(vars) == 0 {
		return nil
	}
	files, err := repoFiles(repo)
	if err != nil {
		fmt.Printf("SELFTEST skipped: cannot list repository files: %v\n", err)
		return nil
	}
	exe, _ := os.Executable()
	base := cacheBase(exe, repo, out, files)
	cacheKeys := make([]string, len(vars))
	for i, v := range vars {
		cacheKeys[i] = variantKey(base, v.patch)
	}
	results := make([]map[string]interface{}, len(vars))
	sem := make(chan struct{}, 8)
	var wg sync.WaitGroup
	for i, v := range vars {
		wg.Add(1)
		go func(i int, v variant) {
			defer wg.Done()
			sem <- struct{}{}
			defer func() { <-sem }()
			res := map[string]interface{}{"variant": v.name, "kind": v.kind}
			if v.expect != nil {
				res["expected_rules"] = v.expect
			}
			if entry, ok := readVariantCache(out, cacheKeys[i]); ok {
				code := 0
				fired := map[string]bool{}
				if entry.Status != "" {
					code = 2
				}
				if rules, bad := entry.Props[pd.ID]; bad {
					code = 1
					for _, rid := range rules {
						fired[rid] = true
					}
				}
				res["from_cache"] = true
				finishVariant(res, v.kind, v.expect, code, fired)
				results[i] = res
				return
			}
			dir, err := os.MkdirTemp("", "lungocheck-selftest-")
			if err != nil {
				res["outcome"] = "skipped: " + err.Error()
				results[i] = res
				return
			}
			defer os.RemoveAll(dir)
			if err := copyFiles(repo, dir, files); err != nil {
				res["outcome"] = "skipped: copy failed: " + err.Error()
				results[i] = res
				return
			}
			ap := exec.Command("git", "apply", v.patch)
			ap.Dir = dir
			if outb, err := ap.CombinedOutput(); err != nil {
				res["outcome"] = "skipped: patch no longer applies"
				_ = outb
				results[i] = res
				return
			}
			// one analysis of the variant decides every property (all rules run once, verdict per property); the
			// per-property outcome is kept so that the thorough tiers of the other properties need not repeat it
			entry := runVariantAll(exe, dir, out)
			writeVariantCache(out, cacheKeys[i], entry)
			code := 0
			fired := map[string]bool{}
			if entry.Status != "" {
				code = 2
			}
			if rules, bad := entry.Props[pd.ID]; bad {
				code = 1
				for _, rid := range rules {
					fired[rid] = true
				}
			}
			finishVariant(res, v.kind, v.expect, code, fired)
			results[i] = res
		}(i, v)
	}
	wg.Wait()
	okN, mis, skip := 0, 0, 0
	for _, r := range results {
		o := r["outcome"].(string)
		switch {
		case strings.HasPrefix(o, "ok"):
			okN++
		case strings.HasPrefix(o, "skipped"):
			skip++
		default:
			mis++
			fmt.Printf("SELFTEST-MISFIRE property=%s variant=%s kind=%s fired=%v expected=%v\n", pd.ID, r["variant"], r["kind"], r["fired_rules"], r["expected_rules"])
		}
	}
	fmt.Printf("SELFTEST property=%s variants=%d ok=%d misfire=%d skipped=%d (breaking: seeded changes this property's rules must catch; silent: behaviour-preserving edits)\n", pd.ID, len(results), okN, mis, skip)
	return results
}

func repoFiles(repo string) ([]string, error) {
	cmd := exec.Command("git", "ls-files", "-co", "--exclude-standard")
	cmd.Dir = repo
	b, err := cmd.Output()
	if err != nil {
		return nil, err
	}
	var out []string
	for _, l := range strings.Split(string(b), "\n") {
		if l = strings.TrimSpace(l); l != "" {
			out = append(out, l)
		}
	}
	return out, nil
}

func copyFiles(src, dst string, files []string) error {
	for _, f := range files {
		s := filepath.Join(src, f)
		st, err := os.Stat(s)
		if err != nil || st.IsDir() {
			continue
		}
		d := filepath.Join(dst, f)
		if err := os.MkdirAll(filepath.Dir(d), 0o755); err != nil {
			return err
		}
		in, err := os.Open(s)
		if err != nil {
			return err
		}
		outf, err := os.Create(d)
		if err != nil {
			in.Close()
			return err
		}
		_, err = io.Copy(outf, in)
		in.Close()
		outf.Close()
		if err != nil {
			return err
		}
	}
	return nil
}

func finishVariant(res map[string]interface{}, kind string, expect []string, code int, fired map[string]bool) {
	var fl []string
	for k := range fired {
		fl = append(fl, k)
	}
	sort.Strings(fl)
	res["exit"] = code
	res["fired_rules"] = fl
	switch kind {
	case "breaking":
		hit := false
		for _, e := range expect {
			if fired[e] {
				hit = true
			}
		}
		if code == 1 && hit {
			res["outcome"] = "ok: fired"
		} else {
			res["outcome"] = "MISFIRE: breaking variant not reported by the expected rule"
		}
	default:
		if code == 0 {
			res["outcome"] = "ok: silent"
		} else {
			res["outcome"] = "MISFIRE: alarm on a behaviour-preserving variant"
		}
	}
}

// ---- outcome cache of the self-test -------------------------------------------------------
//
// Analysing one variant (load, SSA, all rules) costs about 40 CPU-seconds and gives the verdict of
// every property at once. The thorough tiers of the 20 properties share the same behaviour-
// preserving variants, so the verdicts are kept under <out>/.selftest-cache, keyed by the content
// of everything they depend on: the checker binary, known_findings.json, every file of the
// repository working tree, and the patch. Any change to one of them gives a new key; a missing or
// unreadable entry is simply recomputed. LUNGOCHECK_NOCACHE=1 disables reading and writing.

type variantOutcome struct {
	Props  map[string][]string `json:"props"`  // property -> rules that fired (violated or undecided, known findings excluded)
	Status string              `json:"status"` // non-empty: the variant could not be analysed
}

func hashFile(h interface{ Write([]byte) (int, error) }, path string) {
	b, err := os.ReadFile(path)
	if err != nil {
		h.Write([]byte("!missing:" + path))
		return
	}
	h.Write([]byte(fmt.Sprintf("%s:%d:", filepath.Base(path), len(b))))
	h.Write(b)
}

func cacheBase(exe, repo, out string, files []string) string {
	h := sha256.New()
	hashFile(h, exe)
	hashFile(h, filepath.Join(out, "known_findings.json"))
	sorted := append([]string{}, files...)
	sort.Strings(sorted)
	for _, f := range sorted {
		h.Write([]byte(f + "\x00"))
		hashFile(h, filepath.Join(repo, f))
	}
	return hex.EncodeToString(h.Sum(nil))
}

func variantKey(base, patch string) string {
	h := sha256.New()
	h.Write([]byte(base))
	hashFile(h, patch)
	return hex.EncodeToString(h.Sum(nil))[:40]
}

func readVariantCache(out, key string) (variantOutcome, bool) {
	var e variantOutcome
	if os.Getenv("LUNGOCHECK_NOCACHE") != "" {
		return e, false
	}
	b, err := os.ReadFile(filepath.Join(out, ".selftest-cache", key+".json"))
	if err != nil || json.Unmarshal(b, &e) != nil || e.Props == nil {
		return e, false
	}
	return e, true
}

func writeVariantCache(out, key string, e variantOutcome) {
	if os.Getenv("LUNGOCHECK_NOCACHE") != "" {
		return
	}
	dir := filepath.Join(out, ".selftest-cache")
	if os.MkdirAll(dir, 0o755) != nil {
		return
	}
	b, err := json.Marshal(e)
	if err != nil {
		return
	}
	tmp, err := os.CreateTemp(dir, "tmp-*")
	if err != nil {
		return
	}
	tmp.Write(b)
	tmp.Close()
	os.Rename(tmp.Name(), filepath.Join(dir, key+".json"))
}

// runVariantAll analyses the patched copy once with every rule and returns the verdict per property.
func runVariantAll(exe, dir, out string) variantOutcome {
	e := variantOutcome{Props: map[string][]string{}}
	cmd := exec.Command(exe, "-prop", "ALL", "-repo", dir, "-out", out, "-no-evidence")
	cmd.Env = append(os.Environ(), "GOFLAGS=-mod=mod", "GOPROXY=off")
	outb, _ := cmd.CombinedOutput()
	sawVerdict := false
	for _, l := range strings.Split(string(outb), "\n") {
		l = strings.TrimSpace(l)
		switch {
		case strings.HasPrefix(l, "PROP "):
			sawVerdict = true
			parts := strings.SplitN(l, " ", 4)
			if len(parts) >= 3 && parts[2] == "VIOLATED" {
				seen := map[string]bool{}
				var rules []string
				if len(parts) == 4 {
					rest := parts[3]
					if i := strings.Index(rest, ": "); i >= 0 {
						rest = rest[i+2:]
					}
					for _, item := range strings.Split(rest, " ; ") {
						if j := strings.Index(item, "["); j > 0 {
							rid := strings.TrimSpace(item[:j])
							if !seen[rid] {
								seen[rid] = true
								rules = append(rules, rid)
							}
						}
					}
				}
				sort.Strings(rules)
				e.Props[parts[1]] = rules
			}
		case strings.Contains(l, "UNANALYSABLE"):
			e.Status = l
		}
	}
	if !sawVerdict && e.Status == "" {
		e.Status = "no verdict printed (exit " + fmt.Sprint(cmd.ProcessState.ExitCode()) + ")"
	}
	return e
}
