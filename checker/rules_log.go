package main

import (
	"fmt"
	"go/token"
	"go/types"
	"strings"

	"golang.org/x/tools/go/ssa"
)

func init() {
	register(&Rule{ID: "LOG-1", Doc: "every change is logged in the same copy-on-write step: in the Transaction helpers each successful Collection.Insert/Upsert/Replace/Update/Delete (and each namespace drop) is followed on every success path by t.append with the matching operation and the documents of the matching result list; append's error is propagated", Run: ruleLog1})
	register(&Rule{ID: "LOG-2", Doc: "who may mutate: in package lungo the document-mutating methods of *mongokit.Collection are called only from the logging helpers insert/replace/update/delete/append (Expire deletes through t.delete)", Run: ruleLog2})
	register(&Rule{ID: "LOG-3", Doc: "retention removes a prefix only: Clean removes nothing but List[0] of the cloned oplog, in a counted loop", Run: ruleLog3})
	register(&Rule{ID: "LOG-4", Doc: "update events pair documents with their own changes: Collection.Update builds Result.Modified and Result.Changes by appends in the same block (or both unfiltered), and Transaction.update indexes res.Changes with the index of res.Modified", Run: ruleLog4})
}

// isSuccessReturn: a Return whose last (error) result is the nil constant.
func isSuccessReturn(in ssa.Instruction) bool {
	ret, ok := in.(*ssa.Return)
	if !ok || len(ret.Results) == 0 {
		return false
	}
	last := len(ret.Results) - 1
	if !isErrorType(ret.Results[last].Type()) {
		return true
	}
	return isNilConst(retVal(ret, last))
}

// successExitWithoutPassing: like exitWithoutPassing but only successful returns count as exits.
func successExitWithoutPassing(start ssa.Instruction, pass func(ssa.Instruction) bool, stop func(ssa.Instruction) bool) ssa.Instruction {
	p := func(in ssa.Instruction) bool {
		if pass(in) {
			return true
		}
		if _, ok := in.(*ssa.Return); ok && !isSuccessReturn(in) {
			return true
		}
		return false
	}
	return exitWithoutPassing(start, p, stop)
}

// resultFieldSource: does v derive from field `name` of the result struct produced by call `from`?
// Accepts: load of the field (Upserted), element of the field (index or range), and returns the
// range Next instruction when the value is a range element.
func resultFieldSource(v ssa.Value, from *ssa.Call, name string) (ok bool, rng *ssa.Range) {
	res := tupleResult(from, 0)
	isField := func(x ssa.Value) bool {
		u, ok := x.(*ssa.UnOp)
		if !ok || u.Op != token.MUL {
			return false
		}
		fa, ok := u.X.(*ssa.FieldAddr)
		if !ok || fa.X != res {
			return false
		}
		f := structFieldOf(fa)
		return f != nil && f.Name() == name
	}
	v = stripValue(v)
	if isField(v) {
		return true, nil
	}
	switch x := v.(type) {
	case *ssa.UnOp:
		if x.Op == token.MUL {
			if ia, ok := x.X.(*ssa.IndexAddr); ok && isField(ia.X) {
				return true, nil
			}
		}
	case *ssa.Extract:
		if nx, ok := x.Tuple.(*ssa.Next); ok {
			if rg, ok := nx.Iter.(*ssa.Range); ok && isField(rg.X) {
				return true, rg
			}
		}
	}
	// range over a slice is compiled to index loops: elem = *IndexAddr(list, phi)
	return false, nil
}

func ruleLog1(c *Ctx, r *Reporter) {
	appendF := c.lookupFunc(pkgLungo, "Transaction.append")
	if appendF == nil {
		r.bad("anchor:Transaction.append", "-", "not found")
		return
	}
	collM := func(name string) *types.Func { return c.lookupFunc(pkgMongokit, "Collection."+name) }
	isAppend := func(in ssa.Instruction, op string) *ssa.Call {
		call, ok := in.(*ssa.Call)
		if !ok || calleeObj(&call.Call) != appendF {
			return nil
		}
		if s, ok := constString(call.Call.Args[3]); !ok || s != op {
			return nil
		}
		return call
	}
	appendChecked := func(call *ssa.Call) bool {
		for _, chk := range errChecksOf(call) {
			if failEdgeReturnsError(chk) {
				return true
			}
		}
		return false
	}
	total := 0
	helpers := loggingHelpers(c)
	r.guard(len(helpers), 3, "logging helpers (unexported Transaction methods taking the oplog and the namespace clone)")
	for _, fn := range helpers {
		hname := fn.Name()
		oplogP, _ := helperCollParams(c, fn)
		var oplogParam ssa.Value = oplogP
		var handleParam ssa.Value
		for _, p := range fn.Params[1:] {
			if isNamed(p.Type(), pkgLungo, "Handle") {
				handleParam = p
			}
		}
		if oplogParam == nil || handleParam == nil {
			r.bad("Transaction."+hname+":shape", c.pos(fn.Pos()), "helper lacks an oplog or handle parameter")
			continue
		}
		allInstrs(fn, func(in ssa.Instruction) {
			call, ok := in.(*ssa.Call)
			if !ok {
				return
			}
			f := calleeObj(&call.Call)
			var op, field, mode string
			switch f {
			case collM("Insert"):
				op, mode = "insert", "arg"
			case collM("Upsert"):
				op, field, mode = "insert", "Upserted", "always"
			case collM("Replace"):
				op, field, mode = "replace", "Modified", "guarded"
			case collM("Update"):
				op, field, mode = "update", "Modified", "loop"
			case collM("Delete"):
				op, field, mode = "delete", "Matched", "loop"
			default:
				return
			}
			total++
			key := fmt.Sprintf("Transaction.%s:%s logged as %q", hname, f.Name(), op)
			checks := errChecksOf(errorResult(call))
			if len(checks) == 0 {
				r.bad(key, c.pos(call.Pos()), "the error of the collection call is not tested")
				return
			}
			var problems []string
			matchAppend := func(x ssa.Instruction) *ssa.Call {
				ap := isAppend(x, op)
				if ap == nil {
					return nil
				}
				if ap.Call.Args[1] != oplogParam || ap.Call.Args[2] != handleParam {
					return nil
				}
				doc := ap.Call.Args[4]
				switch mode {
				case "arg":
					if doc != call.Call.Args[1] {
						return nil
					}
				default:
					if ok, _ := resultFieldSource(doc, call, field); !ok {
						// index-loop form: *IndexAddr(load field, i)
						return nil
					}
				}
				return ap
			}
			upsertF := collM("Upsert")
			for _, chk := range checks {
				if len(chk.OkSucc.Instrs) == 0 {
					continue
				}
				start := chk.OkSucc.Instrs[0]
				var appends []*ssa.Call
				pass := func(x ssa.Instruction) bool {
					if ap := matchAppend(x); ap != nil {
						appends = append(appends, ap)
						return true
					}
					// the upsert branch has its own obligation
					if cc, ok := x.(*ssa.Call); ok && calleeObj(&cc.Call) == upsertF && f != upsertF {
						return true
					}
					switch mode {
					case "guarded":
						// `if len(res.Modified) > 0` controls the append
						if iff, ok := x.(*ssa.If); ok && lenTestOn(iff.Cond, call, field) {
							return true
						}
					case "loop":
						// the loop over the result list: every element is handled in the body (checked below)
						if isLoopHeaderOver(x, call, field) {
							return true
						}
					}
					return false
				}
				first := start
				if pass(first) {
					// fine: very first instruction already passes
				} else if bad := successExitWithoutPassing(first, pass, nil); bad != nil {
					problems = append(problems, fmt.Sprintf("a successful return at %s is reachable without logging the %s", c.pos(bad.Pos()), op))
				}
				_ = appends
			}
			// at least one matching append exists, is error-checked, and (loop/guarded) is placed right
			var aps []*ssa.Call
			allInstrs(fn, func(x ssa.Instruction) {
				if ap := matchAppend(x); ap != nil {
					aps = append(aps, ap)
				}
			})
			if len(aps) == 0 {
				problems = append(problems, fmt.Sprintf("no t.append(oplog, handle, %q, <%s>) found for this call", op, map[string]string{"arg": "inserted document", "always": "res.Upserted", "guarded": "res.Modified[0]", "loop": "each res." + field}[mode]))
			}
			for _, ap := range aps {
				if !appendChecked(ap) {
					problems = append(problems, "the error of t.append at "+c.pos(ap.Pos())+" is not propagated")
				}
				if mode == "loop" {
					if !inLoop(ap.Block()) {
						problems = append(problems, "the append for res."+field+" is not inside a loop over that list")
					} else if hdr := loopNextFor(ap.Call.Args[4]); hdr != nil {
						// every iteration reaches the append
						body := firstBodyInstr(hdr)
						if body != nil {
							isAp := func(x ssa.Instruction) bool { return x == ssa.Instruction(ap) }
							backToHeader := func(x ssa.Instruction) bool { return x == hdr }
							if bad := successExitWithoutPassing(body, isAp, backToHeader); bad != nil && !isAp(body) {
								problems = append(problems, "an iteration over res."+field+" can skip the append")
							}
						}
					}
				}
				if mode == "guarded" {
					okGuard := false
					allInstrs(fn, func(x ssa.Instruction) {
						if iff, ok := x.(*ssa.If); ok {
							if isTest, onTrue := lenTestEdge(iff.Cond, call, field); isTest {
								t := iff.Block().Succs[0]
								if !onTrue {
									t = iff.Block().Succs[1]
								}
								if t == ap.Block() || t.Dominates(ap.Block()) {
									okGuard = true
								}
							}
						}
					})
					if !okGuard {
						problems = append(problems, "the append is not controlled by `len(res."+field+") > 0`")
					}
				}
			}
			if len(problems) > 0 {
				r.bad(key, c.pos(call.Pos()), strings.Join(problems, "; "))
			} else {
				r.ok(key, c.pos(call.Pos()), fmt.Sprintf("%d matching append site(s), error propagated, placement ok (%s)", len(aps), mode))
			}
		})
	}
	r.guard(total, 6, "logged collection calls in the Transaction helpers")

	// Drop: every namespace deletion is followed by a "drop" event; the database drop by "dropDatabase"
	drop := c.lookupSSA(pkgLungo, "Transaction.Drop")
	nsF := c.field(pkgLungo, "Catalog", "Namespaces")
	if drop == nil || nsF == nil {
		r.bad("anchor:Transaction.Drop", "-", "not found")
		return
	}
	nDel := 0
	var dbAppends []*ssa.Call
	allInstrs(drop, func(in ssa.Instruction) {
		if ap := isAppend(in, "dropDatabase"); ap != nil {
			dbAppends = append(dbAppends, ap)
		}
		call, ok := in.(*ssa.Call)
		if !ok {
			return
		}
		b, ok := call.Call.Value.(*ssa.Builtin)
		if !ok || b.Name() != "delete" || !isLoadOf(call.Call.Args[0], nsF) {
			return
		}
		nDel++
		nsKey := call.Call.Args[1]
		pass := func(x ssa.Instruction) bool {
			ap := isAppend(x, "drop")
			return ap != nil && sameLoad(ap.Call.Args[2], nsKey)
		}
		bad := successExitWithoutPassing(call, pass, func(x ssa.Instruction) bool {
			// next iteration of the namespace loop
			_, isNext := x.(*ssa.Next)
			return isNext
		})
		r.check(bad == nil, "Transaction.Drop:delete namespace logged", c.pos(call.Pos()), "followed by t.append(..., ns, \"drop\") before the next namespace / a successful return", "a namespace can be dropped without a drop event")
	})
	r.guard(nDel, 1, "delete(clone.Namespaces, ns) in Drop")
	r.guard(len(dbAppends), 1, "dropDatabase event in Drop")
	for _, ap := range dbAppends {
		r.check(appendChecked(ap), "Transaction.Drop:dropDatabase error", c.pos(ap.Pos()), "error propagated", "error of append dropped")
	}
}

// lenTestOn: cond tests `len(res.<field>)` against emptiness (any form) on the result of call.
func lenTestOn(cond ssa.Value, call *ssa.Call, field string) bool {
	ok, _ := lenTestEdge(cond, call, field)
	return ok
}

// lenTestEdge additionally reports which edge (true = Succs[0]) is taken for a NON-empty list.
func lenTestEdge(cond ssa.Value, call *ssa.Call, field string) (bool, bool) {
	bo, ok := cond.(*ssa.BinOp)
	if !ok {
		return false, false
	}
	lc, ok := bo.X.(*ssa.Call)
	if !ok {
		return false, false
	}
	b, ok := lc.Call.Value.(*ssa.Builtin)
	if !ok || b.Name() != "len" {
		return false, false
	}
	if okk, _ := resultFieldSource(lc.Call.Args[0], call, field); !okk {
		return false, false
	}
	k, isConst := constInt(bo.Y)
	if !isConst {
		return false, false
	}
	switch {
	case (bo.Op == token.GTR && k == 0) || (bo.Op == token.NEQ && k == 0) || (bo.Op == token.GEQ && k == 1):
		return true, true
	case (bo.Op == token.EQL && k == 0) || (bo.Op == token.LEQ && k == 0) || (bo.Op == token.LSS && k == 1):
		return true, false
	}
	return false, false
}

func lenTestOnOld(cond ssa.Value, call *ssa.Call, field string) bool {
	bo, ok := cond.(*ssa.BinOp)
	if !ok {
		return false
	}
	lc, ok := bo.X.(*ssa.Call)
	if !ok {
		return false
	}
	b, ok := lc.Call.Value.(*ssa.Builtin)
	if !ok || b.Name() != "len" {
		return false
	}
	okk, _ := resultFieldSource(lc.Call.Args[0], call, field)
	if !okk {
		return false
	}
	k, isConst := constInt(bo.Y)
	if !isConst {
		return false
	}
	return (bo.Op == token.GTR && k == 0) || (bo.Op == token.NEQ && k == 0) || (bo.Op == token.GEQ && k == 1)
}

// range over a slice compiles to: idx = phi; cond = idx+1 < len; elem = *IndexAddr(list, idx)
// isLoopHeaderOver: instruction is the `len(res.field)` call or the loop condition of such a loop.
func isLoopHeaderOver(in ssa.Instruction, call *ssa.Call, field string) bool {
	lc, ok := in.(*ssa.Call)
	if !ok {
		return false
	}
	b, ok := lc.Call.Value.(*ssa.Builtin)
	if !ok || b.Name() != "len" {
		return false
	}
	okk, _ := resultFieldSource(lc.Call.Args[0], call, field)
	if !okk {
		return false
	}
	// used by a loop condition
	if refs := lc.Referrers(); refs != nil {
		for _, ref := range *refs {
			if bo, ok := ref.(*ssa.BinOp); ok && bo.Op == token.LSS {
				return true
			}
		}
	}
	return false
}

// loopNextFor returns the instruction that starts an iteration for a range element value:
// for slice ranges the `if idx < len` in the loop header block.
func loopNextFor(elem ssa.Value) ssa.Instruction {
	elem = stripValue(elem)
	switch x := elem.(type) {
	case *ssa.UnOp:
		if ia, ok := x.X.(*ssa.IndexAddr); ok {
			// index is idx+1 of a phi in the loop header; find the header's If
			var phi *ssa.Phi
			switch iv := ia.Index.(type) {
			case *ssa.BinOp:
				phi, _ = iv.X.(*ssa.Phi)
			case *ssa.Phi:
				phi = iv
			}
			if phi != nil {
				b := phi.Block()
				if len(b.Instrs) > 0 {
					return b.Instrs[len(b.Instrs)-1]
				}
			}
		}
	case *ssa.Extract:
		if nx, ok := x.Tuple.(*ssa.Next); ok {
			return nx
		}
	}
	return nil
}

// firstBodyInstr: first instruction of the loop body given the header instruction.
func firstBodyInstr(hdr ssa.Instruction) ssa.Instruction {
	switch x := hdr.(type) {
	case *ssa.If:
		body := x.Block().Succs[0]
		if len(body.Instrs) > 0 {
			return body.Instrs[0]
		}
	case *ssa.Next:
		// ok := extract #0 ; if ok -> body
		b := x.Block()
		if iff, ok := b.Instrs[len(b.Instrs)-1].(*ssa.If); ok {
			body := iff.Block().Succs[0]
			if len(body.Instrs) > 0 {
				return body.Instrs[0]
			}
		}
	}
	return nil
}

func ruleLog2(c *Ctx, r *Reporter) {
	allowedHelpers := map[string]bool{"append": true}
	for _, h := range loggingHelpers(c) {
		allowedHelpers[h.Name()] = true
	}
	txnT := c.lookupType(pkgLungo, "Transaction")
	n := 0
	for _, fn := range c.repoFuncs() {
		if fnPkgPath(fn) != pkgLungo {
			continue
		}
		allInstrs(fn, func(in ssa.Instruction) {
			ci, ok := in.(ssa.CallInstruction)
			if !ok {
				return
			}
			f := calleeObj(ci.Common())
			if f == nil || f.Pkg() == nil || f.Pkg().Path() != pkgMongokit {
				return
			}
			switch fullShort(f) {
			case "Collection.Insert", "Collection.Replace", "Collection.Update", "Collection.Upsert", "Collection.Delete":
			default:
				return
			}
			n++
			top := outermost(fn)
			ok2 := false
			if recv := top.Signature.Recv(); recv != nil && derefNamed(recv.Type()) == txnT && allowedHelpers[top.Name()] {
				ok2 = true
			}
			r.check(ok2, funcName(fn)+":"+fullShort(f), c.pos(in.Pos()), "called from a logging helper", "documents are changed outside the helpers that write the change log: the change would not be logged")
		})
	}
	r.guard(n, 7, "document-mutating collection calls in package lungo")
	// Expire goes through t.delete
	if exp := c.lookupSSA(pkgLungo, "Transaction.Expire"); exp != nil {
		del := c.lookupFunc(pkgLungo, "Transaction.delete")
		cnt := 0
		allInstrs(exp, func(in ssa.Instruction) {
			if call, ok := in.(*ssa.Call); ok && calleeObj(&call.Call) == del {
				cnt++
			}
		})
		r.guard(cnt, 1, "t.delete call in Expire")
	} else {
		r.bad("anchor:Transaction.Expire", "-", "not found")
	}
}

func ruleLog3(c *Ctx, r *Reporter) {
	clean := c.lookupSSA(pkgLungo, "Transaction.Clean")
	listF := c.field(pkgBsonkit, "Set", "List")
	if clean == nil || listF == nil {
		r.bad("anchor:Transaction.Clean", "-", "not found")
		return
	}
	mut := collectionMutators(c)
	n := 0
	coneInstrs(clean, func(in ssa.Instruction) {
		call, ok := in.(*ssa.Call)
		if !ok {
			return
		}
		f := calleeObj(&call.Call)
		if f == nil || !mut[f] {
			return
		}
		n++
		key := "Transaction.Clean:" + fullShort(f)
		if fullShort(f) != "Set.Remove" {
			r.bad(key, c.pos(in.Pos()), "retention uses a mutation other than Set.Remove")
			return
		}
		// argument is List[0]
		good := false
		if u, ok := call.Call.Args[1].(*ssa.UnOp); ok && u.Op == token.MUL {
			if ia, ok := u.X.(*ssa.IndexAddr); ok && isLoadOf(ia.X, listF) {
				if k, ok := constInt(ia.Index); ok && k == 0 {
					good = true
				}
			}
		}
		r.check(good && inLoop(call.Block()), key, c.pos(in.Pos()), "removes List[0] repeatedly: only a prefix of the oplog can disappear", "retention can remove an event that is not the oldest one")
	})
	r.guard(n, 1, "removals in Clean")
}

func ruleLog4(c *Ctx, r *Reporter) {
	upd := c.lookupSSA(pkgMongokit, "Collection.Update")
	if upd == nil {
		r.bad("anchor:Collection.Update", "-", "not found")
		return
	}
	// the success result literal
	var modV, chV ssa.Value
	allInstrs(upd, func(in ssa.Instruction) {
		st, ok := in.(*ssa.Store)
		if !ok {
			return
		}
		fa, ok := st.Addr.(*ssa.FieldAddr)
		if !ok || !isNamed(fa.X.Type(), pkgMongokit, "Result") {
			return
		}
		switch structFieldOf(fa).Name() {
		case "Modified":
			modV = st.Val
		case "Changes":
			chV = st.Val
		}
	})
	if modV == nil || chV == nil {
		r.bad("Collection.Update:result", c.pos(upd.Pos()), "the result of Update does not set both Modified and Changes")
		return
	}
	appendBlocks := func(v ssa.Value) (map[*ssa.BasicBlock]bool, ssa.Value) {
		blocks := map[*ssa.BasicBlock]bool{}
		var base ssa.Value
		seen := map[ssa.Value]bool{}
		var walk func(x ssa.Value)
		walk = func(x ssa.Value) {
			if seen[x] {
				return
			}
			seen[x] = true
			switch y := x.(type) {
			case *ssa.Phi:
				for _, e := range y.Edges {
					walk(e)
				}
			case *ssa.Call:
				if b, ok := y.Call.Value.(*ssa.Builtin); ok && b.Name() == "append" {
					blocks[y.Block()] = true
					walk(y.Call.Args[0])
					return
				}
				base = y
			default:
				base = x
			}
		}
		walk(v)
		return blocks, base
	}
	mb, _ := appendBlocks(modV)
	cb, _ := appendBlocks(chV)
	same := len(mb) == len(cb)
	for b := range mb {
		if !cb[b] {
			same = false
		}
	}
	r.check(same, "Collection.Update:Modified/Changes pairing", c.pos(upd.Pos()), fmt.Sprintf("both lists are appended in the same %d block(s): element i of one belongs to element i of the other", len(mb)),
		"Modified and Changes are not built in lock step: update events would carry another document's change description")

	// Transaction.update: changes argument is res.Changes[i] with i the index of the Modified element
	tu := c.lookupSSA(pkgLungo, "Transaction.update")
	appendF := c.lookupFunc(pkgLungo, "Transaction.append")
	if tu == nil || appendF == nil {
		r.bad("anchor:Transaction.update", "-", "not found")
		return
	}
	n := 0
	allInstrs(tu, func(in ssa.Instruction) {
		call, ok := in.(*ssa.Call)
		if !ok || calleeObj(&call.Call) != appendF {
			return
		}
		if s, _ := constString(call.Call.Args[3]); s != "update" {
			return
		}
		n++
		doc, ch := call.Call.Args[4], call.Call.Args[5]
		idxOf := func(v ssa.Value, field string) ssa.Value {
			u, ok := v.(*ssa.UnOp)
			if !ok {
				return nil
			}
			ia, ok := u.X.(*ssa.IndexAddr)
			if !ok {
				return nil
			}
			lu, ok := ia.X.(*ssa.UnOp)
			if !ok {
				return nil
			}
			fa, ok := lu.X.(*ssa.FieldAddr)
			if !ok || structFieldOf(fa).Name() != field {
				return nil
			}
			return ia.Index
		}
		di, ci := idxOf(doc, "Modified"), idxOf(ch, "Changes")
		r.check(di != nil && ci != nil && di == ci, "Transaction.update:changes index", c.pos(in.Pos()), "res.Changes is indexed with the index of the res.Modified element", "the change description is not taken from the same position as the document")
	})
	r.guard(n, 1, "update append in Transaction.update")
}

// sameLoad: identical SSA values, or two loads of the same local address.
func sameLoad(a, b ssa.Value) bool {
	if a == b {
		return true
	}
	ua, ok1 := a.(*ssa.UnOp)
	ub, ok2 := b.(*ssa.UnOp)
	return ok1 && ok2 && ua.Op == token.MUL && ub.Op == token.MUL && ua.X == ub.X
}

func init() {
	register(&Rule{ID: "UPS-1", Doc: "the upsert fallback in Transaction.replace/update runs only when the preceding Replace/Update matched nothing (len(res.Matched) == 0, not Modified) and the upsert flag is set", Run: ruleUps1})
}

func ruleUps1(c *Ctx, r *Reporter) {
	upsertF := c.lookupFunc(pkgMongokit, "Collection.Upsert")
	if upsertF == nil {
		r.bad("anchor:Collection.Upsert", "-", "not found")
		return
	}
	n := 0
	// checkSite: the call `call` in fn (Collection.Upsert itself, or a helper that wraps it) must be
	// guarded by len(res.Matched) == 0 on the result of the preceding Replace/Update and by the upsert flag.
	// A function that contains no Replace/Update call is a wrapper: the obligation moves to its call sites.
	var checkSite func(fn *ssa.Function, call *ssa.Call, depth int)
	checkSite = func(fn *ssa.Function, call *ssa.Call, depth int) {
		var primary *ssa.Call
		allInstrs(fn, func(in ssa.Instruction) {
			if pc, ok := in.(*ssa.Call); ok {
				if f := calleeObj(&pc.Call); f != nil && f.Pkg() != nil && f.Pkg().Path() == pkgMongokit && (fullShort(f) == "Collection.Replace" || fullShort(f) == "Collection.Update") {
					primary = pc
				}
			}
		})
		key := funcName(fn) + ":upsert condition"
		if primary == nil {
			if depth >= 2 {
				r.bad(key, c.pos(call.Pos()), "no preceding Replace/Update call within two wrapper levels")
				return
			}
			found := 0
			for _, g := range c.repoFuncs() {
				if g.Pkg == nil || g.Pkg.Pkg.Path() != pkgLungo {
					continue
				}
				allInstrs(g, func(in ssa.Instruction) {
					if cc, ok := in.(*ssa.Call); ok && cc.Call.StaticCallee() == fn {
						found++
						checkSite(g, cc, depth+1)
					}
				})
			}
			if found == 0 {
				r.bad(key, c.pos(call.Pos()), "Upsert is called from a function without a preceding Replace/Update and no static caller was found")
			}
			return
		}
		n++
		// the flag: a bool parameter named upsert, or the Upsert field of a struct parameter (the operation passed whole)
		isFlag := func(v ssa.Value) bool {
			switch x := v.(type) {
			case *ssa.Parameter:
				return x.Name() == "upsert" && x.Parent() == fn
			case *ssa.Field:
				_, fromParam := x.X.(*ssa.Parameter)
				return fromParam && structFieldOf(x).Name() == "Upsert"
			case *ssa.UnOp:
				if fa, ok := x.X.(*ssa.FieldAddr); ok && x.Op == token.MUL && structFieldOf(fa).Name() == "Upsert" {
					if _, fromParam := stripValue(fa.X).(*ssa.Parameter); fromParam {
						return true
					}
					if al, ok := fa.X.(*ssa.Alloc); ok {
						// the parameter's own cell
						whole, field, ok := structCellStores(al)
						if ok && len(whole) == 1 && len(field[fa.Field]) == 0 {
							_, fromParam := whole[0].Val.(*ssa.Parameter)
							return fromParam
						}
					}
				}
			}
			return false
		}
		hasFlag := false
		for _, p := range fn.Params {
			if p.Name() == "upsert" {
				hasFlag = true
			}
		}
		allInstrs(fn, func(x ssa.Instruction) {
			if v, ok := x.(ssa.Value); ok && isFlag(v) {
				hasFlag = true
			}
		})
		if !hasFlag {
			r.bad(key, c.pos(call.Pos()), "no upsert flag parameter")
			return
		}
		matchedZero, flagSet := false, false
		allInstrs(fn, func(x ssa.Instruction) {
			iff, ok := x.(*ssa.If)
			if !ok {
				return
			}
			t := iff.Block().Succs[0]
			domT := t == call.Block() || t.Dominates(call.Block())
			if !domT {
				return
			}
			if isFlag(iff.Cond) {
				flagSet = true
			}
			if bo, ok := iff.Cond.(*ssa.BinOp); ok && bo.Op == token.EQL {
				if lc, ok := bo.X.(*ssa.Call); ok {
					if b, ok := lc.Call.Value.(*ssa.Builtin); ok && b.Name() == "len" {
						if k, ok := constInt(bo.Y); ok && k == 0 {
							if okk, _ := resultFieldSource(lc.Call.Args[0], primary, "Matched"); okk {
								matchedZero = true
							}
						}
					}
				}
			}
		})
		r.check(matchedZero && flagSet, key, c.pos(call.Pos()), "Upsert is reached only under len(res.Matched) == 0 && upsert", "Upsert can run although a document matched (or without the upsert flag): a matched no-op write would insert a second document")
	}
	for _, fn := range c.repoFuncs() {
		if fn.Pkg == nil || fn.Pkg.Pkg.Path() != pkgLungo {
			continue
		}
		allInstrs(fn, func(in ssa.Instruction) {
			call, ok := in.(*ssa.Call)
			if !ok || calleeObj(&call.Call) != upsertF {
				return
			}
			checkSite(fn, call, 0)
		})
	}
	r.guard(n, 2, "guarded Collection.Upsert sites in package lungo")
}

// loggingHelpers: the unexported methods of *Transaction that receive both the oplog clone and the
// namespace clone (two *mongokit.Collection parameters): insert/replace/update/delete today.
func loggingHelpers(c *Ctx) []*ssa.Function {
	txnT := c.lookupType(pkgLungo, "Transaction")
	collT := c.lookupType(pkgMongokit, "Collection")
	if txnT == nil || collT == nil {
		return nil
	}
	var out []*ssa.Function
	for i := 0; i < txnT.NumMethods(); i++ {
		m := txnT.Method(i)
		if m.Exported() {
			continue
		}
		fn := c.ssaFunc(m)
		if fn == nil {
			continue
		}
		n := 0
		for _, p := range fn.Params[1:] {
			if derefNamed(p.Type()) == collT {
				n++
			}
		}
		if n >= 2 {
			out = append(out, fn)
		}
	}
	return out
}

// helperCollParams returns the (oplog, namespace) parameters of a logging helper, by position of the two collection parameters.
func helperCollParams(c *Ctx, fn *ssa.Function) (oplog, namespace *ssa.Parameter) {
	collT := c.lookupType(pkgMongokit, "Collection")
	for _, p := range fn.Params[1:] {
		if derefNamed(p.Type()) == collT {
			if oplog == nil {
				oplog = p
			} else if namespace == nil {
				namespace = p
			}
		}
	}
	return
}
