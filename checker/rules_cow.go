package main

import (
	"fmt"
	"go/token"
	"go/types"
	"sort"
	"strings"

	"golang.org/x/tools/go/ssa"
)

func init() {
	register(&Rule{ID: "OWN-1", Doc: "catalog copy-on-write: every update/delete of a Catalog.Namespaces map happens on a catalog freshly produced by Catalog.Clone()/NewCatalog() in the same function", Run: ruleOwn1})
	register(&Rule{ID: "OWN-2", Doc: "collection copy-on-write: in package lungo every mutating call on a *mongokit.Collection (or its Set/indexes) has a receiver freshly produced by Clone()/NewCollection(), directly or at every call site of the unexported helper that receives it", Run: ruleOwn2})
	register(&Rule{ID: "OWN-3", Doc: "clone depth: Set.Clone, bsonkit.Index.Clone, mongokit.Index.Clone, Collection.Clone, Catalog.Clone give every slice/map/pointer field of the result a fresh container (listed immutable-after-construction fields excepted)", Run: ruleOwn3})
	register(&Rule{ID: "ATOM-1", Doc: "all-or-nothing: in every write method of *Transaction no store of t.catalog/t.dirty is reachable from the failure edge of a fallible call, and nothing fallible runs after the store", Run: ruleAtom1})
	register(&Rule{ID: "ATOM-2", Doc: "per-item atomicity in Insert/Bulk: the namespace and oplog handed to the per-item helper are Clone() results made inside the loop, the assign-back pair sits in one block that the item's failure edge cannot reach, and every exit after a successful item passes the final t.catalog store", Run: ruleAtom2})
	register(&Rule{ID: "ATOM-3", Doc: "mongokit.Collection write methods validate first: the success edges of Sort/Filter/Update(apply)/Extract/Apply and the _id immutability check dominate every index and Documents mutation", Run: ruleAtom3})
}

// ---- freshness of catalogs / collections ---------------------------------------

type freshKind struct {
	c        *Ctx
	cloneFns map[*types.Func]bool // calls producing a fresh object
	fieldFwd *types.Var           // field through which store-to-load forwarding is allowed (Transaction.catalog)
	depth    int
	paramOK  func(fn *ssa.Function, p *ssa.Parameter) (bool, string)
	whyNot   string
}

// isFresh: does v denote an object created in this function by one of the clone/constructor calls?
func (fk *freshKind) isFresh(v ssa.Value, at ssa.Instruction, seen map[ssa.Value]bool) bool {
	if seen[v] {
		return true
	}
	seen[v] = true
	switch x := v.(type) {
	case *ssa.Call:
		if f := calleeObj(&x.Call); f != nil && fk.cloneFns[f] {
			return true
		}
		if fk.returnsFresh(x, 0) {
			return true
		}
		fk.whyNot = "value is the result of " + calleeFull(&x.Call)
		return false
	case *ssa.Alloc:
		return true
	case *ssa.Extract:
		if call, ok := x.Tuple.(*ssa.Call); ok {
			if f := calleeObj(&call.Call); f != nil && fk.cloneFns[f] {
				return true
			}
			if fk.returnsFresh(call, x.Index) {
				return true
			}
		}
		fk.whyNot = "value is a result of " + x.Tuple.String()
		return false
	case *ssa.Phi:
		for _, e := range x.Edges {
			if !fk.isFresh(e, at, seen) {
				return false
			}
		}
		return true
	case *ssa.Parameter:
		if fk.paramOK != nil {
			ok, why := fk.paramOK(x.Parent(), x)
			if !ok {
				fk.whyNot = why
			}
			return ok
		}
		fk.whyNot = "value is parameter " + x.Name()
		return false
	case *ssa.UnOp:
		if x.Op == token.MUL {
			// load of a local cell
			if cell, ok := x.X.(*ssa.Alloc); ok {
				okAll, n := true, 0
				if refs := cell.Referrers(); refs != nil {
					for _, ref := range *refs {
						if st, ok := ref.(*ssa.Store); ok && st.Addr == cell {
							n++
							if !fk.isFresh(st.Val, at, seen) {
								okAll = false
							}
						}
					}
				}
				return okAll && n > 0
			}
			// store-to-load forwarding through the designated field (t.catalog = t.catalog.Clone(); t.catalog.X ...)
			if fa, ok := x.X.(*ssa.FieldAddr); ok && fk.fieldFwd != nil && structFieldOf(fa) == fk.fieldFwd {
				b := x.Block()
				idx := instrIndex(x)
				for i := idx - 1; i >= 0; i-- {
					switch y := b.Instrs[i].(type) {
					case *ssa.Store:
						if fa2, ok := y.Addr.(*ssa.FieldAddr); ok && structFieldOf(fa2) == fk.fieldFwd && fa2.X == fa.X {
							return fk.isFresh(y.Val, at, seen)
						}
					case *ssa.Call:
						// a call in between could replace the field
						if f := calleeObj(&y.Call); f == nil || !fk.cloneFns[f] {
							fk.whyNot = "a call separates the store from the load of " + fk.fieldFwd.Name()
							return false
						}
					}
				}
			}
		}
		fk.whyNot = "value is loaded from shared state (" + x.String() + ")"
		return false
	case *ssa.Lookup:
		fk.whyNot = "value is read from a map of shared state without Clone()"
		return false
	}
	fk.whyNot = fmt.Sprintf("value of kind %T", v)
	return false
}

// returnsFresh: the call invokes an unexported function of package lungo whose every return statement yields, in
// slot idx, an object that is fresh by the same rules inside that function (the clone-or-create step of a write moved
// into a helper); parameters of that function are judged at its call sites when fk.paramOK is set.
func (fk *freshKind) returnsFresh(call *ssa.Call, idx int) bool {
	h := staticFn(&call.Call)
	if h == nil || h.Blocks == nil || fnPkgPath(h) != pkgLungo || fk.depth > 2 {
		return false
	}
	if obj := h.Object(); obj == nil || obj.Exported() {
		return false
	}
	rets := returnsOf(h)
	if len(rets) == 0 {
		return false
	}
	sub := &freshKind{c: fk.c, cloneFns: fk.cloneFns, fieldFwd: fk.fieldFwd, paramOK: fk.paramOK, depth: fk.depth + 1}
	for _, ret := range rets {
		if idx >= len(ret.Results) {
			return false
		}
		v := retVal(ret, idx)
		if isNilConst(v) {
			continue // an error return: nothing to modify
		}
		if !sub.isFresh(v, ret, map[ssa.Value]bool{}) {
			return false
		}
	}
	return true
}

// freshAtCallSites builds the paramOK judgement: a parameter of an unexported function of package lungo is fresh iff
// the argument is fresh at every call site.
func freshAtCallSites(c *Ctx, cloneFns map[*types.Func]bool, fieldFwd *types.Var, what string) func(fn *ssa.Function, p *ssa.Parameter) (bool, string) {
	paramMemo := map[*ssa.Parameter]int{}
	var paramOK func(fn *ssa.Function, p *ssa.Parameter) (bool, string)
	paramOK = func(fn *ssa.Function, p *ssa.Parameter) (bool, string) {
		if v, ok := paramMemo[p]; ok {
			return v == 1, "helper parameter " + p.Name() + " is not fresh at every call site"
		}
		paramMemo[p] = 1
		if obj := fn.Object(); obj == nil || obj.Exported() || fnPkgPath(fn) != pkgLungo {
			paramMemo[p] = 0
			return false, "parameter " + p.Name() + " of exported/foreign function " + funcName(fn)
		}
		idx := -1
		for i, q := range fn.Params {
			if q == p {
				idx = i
			}
		}
		sites := 0
		okAll := true
		why := ""
		for _, caller := range c.repoFuncs() {
			if fnPkgPath(caller) != pkgLungo {
				continue
			}
			allInstrs(caller, func(in ssa.Instruction) {
				ci, ok := in.(ssa.CallInstruction)
				if !ok || staticFn(ci.Common()) != fn {
					return
				}
				sites++
				sub := &freshKind{c: c, cloneFns: cloneFns, fieldFwd: fieldFwd, paramOK: paramOK}
				if !sub.isFresh(ci.Common().Args[idx], in, map[ssa.Value]bool{}) {
					okAll = false
					why = fmt.Sprintf("call site %s in %s passes a shared %s as %s (%s)", c.pos(in.Pos()), funcName(caller), what, p.Name(), sub.whyNot)
				}
			})
		}
		if sites == 0 || theHelpers.escaped[fn] {
			okAll = false
			why = "no call site found for helper " + funcName(fn) + " (or it is used as a value)"
		}
		if !okAll {
			paramMemo[p] = 0
		}
		return okAll, why
	}
	return paramOK
}

// ---- OWN-1 ----------------------------------------------------------------------

func ruleOwn1(c *Ctx, r *Reporter) {
	nsF := c.field(pkgLungo, "Catalog", "Namespaces")
	catClone := c.lookupFunc(pkgLungo, "Catalog.Clone")
	newCat := c.lookupFunc(pkgLungo, "NewCatalog")
	txnCat := c.field(pkgLungo, "Transaction", "catalog")
	if nsF == nil || catClone == nil || newCat == nil || txnCat == nil {
		r.bad("anchor:Catalog", "-", "not found")
		return
	}
	fk := &freshKind{c: c, cloneFns: map[*types.Func]bool{catClone: true, newCat: true}, fieldFwd: txnCat}
	fk.paramOK = freshAtCallSites(c, fk.cloneFns, txnCat, "catalog")
	n := 0
	for _, fn := range c.repoFuncs() {
		if fnPkgPath(fn) != pkgLungo {
			continue
		}
		allInstrs(fn, func(in ssa.Instruction) {
			var m ssa.Value
			kind := ""
			switch x := in.(type) {
			case *ssa.MapUpdate:
				m, kind = x.Map, "update"
			case *ssa.Call:
				if b, ok := x.Call.Value.(*ssa.Builtin); ok && b.Name() == "delete" {
					m, kind = x.Call.Args[0], "delete"
				}
			}
			if m == nil {
				return
			}
			u, ok := m.(*ssa.UnOp)
			if !ok || u.Op != token.MUL {
				return
			}
			base, ok := fieldAddrOf(u.X, nsF)
			if !ok {
				return
			}
			n++
			fk.whyNot = ""
			key := fmt.Sprintf("%s:%s Namespaces", funcName(fn), kind)
			r.check(fk.isFresh(base, in, map[ssa.Value]bool{}), key, c.pos(in.Pos()), "on a catalog cloned/created in this function", "the namespace map of a shared catalog is modified in place: "+fk.whyNot)
		})
	}
	r.guard(n, 20, "updates of Catalog.Namespaces")
}

// ---- mutating methods of collections / sets / indexes ---------------------------

// collectionMutators infers which methods of mongokit.Collection, bsonkit.Set, mongokit.Index and
// bsonkit.Index modify their receiver: they store through it, update/delete its maps, call
// btree mutators on it, or call another mutating method on it or on one of its fields.
func collectionMutators(c *Ctx) map[*types.Func]bool {
	owners := []*types.Named{c.lookupType(pkgMongokit, "Collection"), c.lookupType(pkgBsonkit, "Set"), c.lookupType(pkgMongokit, "Index"), c.lookupType(pkgBsonkit, "Index")}
	mut := map[*types.Func]bool{}
	derives := func(v ssa.Value, recv *ssa.Parameter) bool {
		for i := 0; i < 12; i++ {
			switch x := v.(type) {
			case *ssa.Parameter:
				return x == recv
			case *ssa.FieldAddr:
				v = x.X
			case *ssa.IndexAddr:
				v = x.X
			case *ssa.UnOp:
				v = x.X
			case *ssa.Slice:
				v = x.X
			case *ssa.Field:
				v = x.X
			default:
				return false
			}
		}
		return false
	}
	btreeMut := map[string]bool{"Set": true, "Delete": true, "Clear": true, "Load": true, "PopMin": true, "PopMax": true, "DeleteAt": true}
	changed := true
	for changed {
		changed = false
		for _, t := range owners {
			if t == nil {
				continue
			}
			for i := 0; i < t.NumMethods(); i++ {
				m := t.Method(i)
				if mut[m] {
					continue
				}
				fn := c.ssaFunc(m)
				if fn == nil || fn.Blocks == nil || len(fn.Params) == 0 {
					continue
				}
				recv := fn.Params[0]
				if _, isPtr := recv.Type().(*types.Pointer); !isPtr {
					continue
				}
				is := false
				allInstrs(fn, func(in ssa.Instruction) {
					switch x := in.(type) {
					case *ssa.Store:
						if derives(x.Addr, recv) {
							is = true
						}
					case *ssa.MapUpdate:
						if derives(x.Map, recv) {
							is = true
						}
					case *ssa.Call:
						if b, ok := x.Call.Value.(*ssa.Builtin); ok && b.Name() == "delete" && derives(x.Call.Args[0], recv) {
							is = true
						}
						f := calleeObj(&x.Call)
						if f != nil && len(x.Call.Args) > 0 && derives(x.Call.Args[0], recv) {
							if mut[f] {
								is = true
							}
							if f.Pkg() != nil && f.Pkg().Path() == "github.com/tidwall/btree" && btreeMut[f.Name()] {
								is = true
							}
						}
					}
				})
				if is {
					mut[m] = true
					changed = true
				}
			}
		}
	}
	return mut
}

// ---- OWN-2 ----------------------------------------------------------------------

func ruleOwn2(c *Ctx, r *Reporter) {
	mut := collectionMutators(c)
	names := []string{}
	for m := range mut {
		names = append(names, fullShort(m))
	}
	sort.Strings(names)
	r.guard(len(mut), 12, "inferred mutating methods ("+strings.Join(names, " ")+")")
	for _, must := range []string{"Collection.Insert", "Collection.Replace", "Collection.Update", "Collection.Upsert", "Collection.Delete", "Collection.CreateIndex", "Collection.DropIndex", "Set.Add", "Set.Replace", "Set.Remove"} {
		found := false
		for _, n := range names {
			if n == must {
				found = true
			}
		}
		r.check(found, "inferred mutator "+must, "-", "recognised as receiver-mutating", "expected receiver-mutating method was not recognised: the analysis lost track of it")
	}
	collClone := c.lookupFunc(pkgMongokit, "Collection.Clone")
	newColl := c.lookupFunc(pkgMongokit, "NewCollection")
	newSet := c.lookupFunc(pkgBsonkit, "NewSet")
	createIdx := c.lookupFunc(pkgMongokit, "CreateIndex")
	collT := c.lookupType(pkgMongokit, "Collection")
	if collClone == nil || newColl == nil || collT == nil {
		r.bad("anchor:Collection.Clone", "-", "not found")
		return
	}
	cloneFns := map[*types.Func]bool{collClone: true, newColl: true, newSet: true, createIdx: true}

	// helper parameters: unexported functions of package lungo that receive a *mongokit.Collection; fresh iff fresh at every call site
	fk := &freshKind{c: c, cloneFns: cloneFns}
	fk.paramOK = freshAtCallSites(c, cloneFns, nil, "collection")

	// receiver root: x.Documents.Add(...) -> x ; x.Indexes[name] = ... -> x
	rootColl := func(v ssa.Value) ssa.Value {
		for i := 0; i < 8; i++ {
			switch x := v.(type) {
			case *ssa.UnOp:
				if x.Op == token.MUL {
					if fa, ok := x.X.(*ssa.FieldAddr); ok {
						if n := derefNamed(fa.X.Type()); n == collT {
							return fa.X
						}
						v = fa.X
						continue
					}
				}
				return v
			case *ssa.FieldAddr:
				if n := derefNamed(x.X.Type()); n == collT {
					return x.X
				}
				v = x.X
			default:
				return v
			}
		}
		return v
	}
	n := 0
	for _, fn := range c.repoFuncs() {
		if fnPkgPath(fn) != pkgLungo {
			continue
		}
		allInstrs(fn, func(in ssa.Instruction) {
			var recv ssa.Value
			what := ""
			switch x := in.(type) {
			case ssa.CallInstruction:
				f := calleeObj(x.Common())
				if f != nil && mut[f] && len(x.Common().Args) > 0 {
					recv, what = x.Common().Args[0], fullShort(f)
				}
			case *ssa.Store:
				if fa, ok := x.Addr.(*ssa.FieldAddr); ok && derefNamed(fa.X.Type()) == collT {
					recv, what = fa.X, "store ."+structFieldOf(fa).Name()
				}
			case *ssa.MapUpdate:
				rt := rootColl(x.Map)
				if derefNamed(rt.Type()) == collT && rt != x.Map {
					recv, what = rt, "map update of a collection field"
				}
			}
			if recv == nil {
				return
			}
			root := rootColl(recv)
			if derefNamed(root.Type()) != collT {
				// a Set/Index reached some other way
				if derefNamed(recv.Type()) == nil {
					return
				}
				root = recv
			}
			n++
			fk.whyNot = ""
			key := fmt.Sprintf("%s:%s", funcName(fn), what)
			okk := fk.isFresh(root, in, map[ssa.Value]bool{})
			r.check(okk, key, c.pos(in.Pos()), "receiver is a clone/new collection of this write (directly or at every helper call site)", "a collection reachable from a published catalog is modified in place: "+fk.whyNot)
		})
	}
	r.guard(n, 12, "mutating collection operations in package lungo")
}

// ---- OWN-3 ----------------------------------------------------------------------

func ruleOwn3(c *Ctx, r *Reporter) {
	type cl struct{ pkg, name string }
	exceptions := map[string]string{
		"mongokit.Index.columns": "never written after CreateIndex; only read",
		"mongokit.Index.config":  "struct of bool/duration plus Key/Partial documents that are cloned at CreateIndex and only handed out through Config(), which clones",
		"bsonkit.Index.columns":  "never written after NewIndex; only read",
	}
	n := 0
	for _, t := range []cl{{pkgBsonkit, "Set.Clone"}, {pkgBsonkit, "Index.Clone"}, {pkgMongokit, "Index.Clone"}, {pkgMongokit, "Collection.Clone"}, {pkgLungo, "Catalog.Clone"}} {
		fn := c.lookupSSA(t.pkg, t.name)
		if fn == nil || len(fn.Params) == 0 {
			r.bad("anchor:"+t.name, "-", "not found")
			continue
		}
		recv := fn.Params[0]
		// the result object: the Alloc that is returned
		var obj *ssa.Alloc
		for _, ret := range returnsOf(fn) {
			if a, ok := retVal(ret, 0).(*ssa.Alloc); ok {
				obj = a
			}
		}
		if obj == nil {
			r.bad(t.name+":result", c.pos(fn.Pos()), "Clone does not return a freshly allocated object")
			continue
		}
		st := obj.Type().(*types.Pointer).Elem().Underlying().(*types.Struct)
		assigned := map[int]ssa.Value{}
		if refs := obj.Referrers(); refs != nil {
			for _, ref := range *refs {
				if fa, ok := ref.(*ssa.FieldAddr); ok {
					if frefs := fa.Referrers(); frefs != nil {
						for _, fr := range *frefs {
							if s, ok := fr.(*ssa.Store); ok && s.Addr == fa {
								assigned[fa.Field] = s.Val
							}
						}
					}
				}
			}
		}
		pkgName := fn.Pkg.Pkg.Name()
		typeName := strings.SplitN(t.name, ".", 2)[0]
		for i := 0; i < st.NumFields(); i++ {
			f := st.Field(i)
			key := fmt.Sprintf("%s.%s.%s", pkgName, typeName, f.Name())
			switch f.Type().Underlying().(type) {
			case *types.Slice, *types.Map, *types.Pointer:
			default:
				if _, isStruct := f.Type().Underlying().(*types.Struct); !isStruct {
					r.trivial("clone "+key, c.pos(fn.Pos()), "value field, copied by assignment")
					continue
				}
			}
			n++
			v, ok := assigned[i]
			if !ok {
				r.bad("clone "+key, c.pos(fn.Pos()), "field is not set in the clone")
				continue
			}
			// does v come straight from the receiver's field?
			fromRecv := false
			if u, ok := v.(*ssa.UnOp); ok && u.Op == token.MUL {
				if fa, ok := u.X.(*ssa.FieldAddr); ok && fa.X == recv {
					fromRecv = true
				}
			}
			if fromRecv {
				if why, ok := exceptions[key]; ok {
					r.ok("clone "+key, c.pos(fn.Pos()), "shared by design, listed: "+why)
					// sub-rule: never written outside constructors
					checkNeverWritten(c, r, fn.Pkg.Pkg.Path(), typeName, f.Name())
				} else {
					r.bad("clone "+key, c.pos(fn.Pos()), "the clone shares this container with the original: a write to the clone is visible in every snapshot")
				}
				continue
			}
			fresh := false
			switch x := v.(type) {
			case *ssa.MakeSlice, *ssa.MakeMap, *ssa.Alloc:
				fresh = true
			case *ssa.Call:
				name := calleeFull(&x.Call)
				if strings.HasSuffix(name, ".Clone") || strings.HasSuffix(name, ".Copy") || strings.HasSuffix(name, ".IsoCopy") {
					fresh = true
				}
			}
			r.check(fresh, "clone "+key, c.pos(fn.Pos()), "fresh container (make / Clone() / btree Copy())", "field is assigned something that is not a fresh container")
		}
	}
	r.guard(n, 8, "container fields of cloned types")

	// Catalog.Clone must copy every entry, Set.Clone must copy list and index
	if fn := c.lookupSSA(pkgBsonkit, "Set.Clone"); fn != nil {
		hasCopy, hasLoop := false, false
		allInstrs(fn, func(in ssa.Instruction) {
			if call, ok := in.(*ssa.Call); ok {
				if b, ok := call.Call.Value.(*ssa.Builtin); ok && b.Name() == "copy" {
					hasCopy = true
				}
			}
			if _, ok := in.(*ssa.MapUpdate); ok {
				hasLoop = true
			}
			// maps.Copy(dst, src) copies entry by entry as well
			if call, ok := in.(*ssa.Call); ok {
				if sf := calleeObj(&call.Call); sf != nil && sf.Pkg() != nil && sf.Pkg().Path() == "maps" && sf.Name() == "Copy" {
					hasLoop = true
				}
			}
		})
		r.check(hasCopy && hasLoop, "Set.Clone:contents", c.pos(fn.Pos()), "list copied with copy(), index copied entry by entry", "Set.Clone does not copy both the list and the index")
	}
}

func checkNeverWritten(c *Ctx, r *Reporter, pkg, typ, field string) {
	f := c.field(pkg, typ, field)
	if f == nil {
		return
	}
	for _, fn := range c.repoFuncs() {
		allInstrs(fn, func(in ssa.Instruction) {
			if st, ok := in.(*ssa.Store); ok {
				if fa, ok := st.Addr.(*ssa.FieldAddr); ok && structFieldOf(fa) == f {
					if !freshLocal(fa.X, in) {
						r.bad(fmt.Sprintf("%s:write %s.%s", funcName(fn), typ, field), c.pos(in.Pos()), "a field that clones share by design is written after construction")
					}
				}
			}
		})
	}
}

// ---- ATOM-1 / ATOM-2 ---------------------------------------------------------------

// fallibleCalls lists the calls in fn whose last result is an error that is tested.
func fallibleCalls(fn *ssa.Function) []*ssa.Call {
	var out []*ssa.Call
	allInstrs(fn, func(in ssa.Instruction) {
		if call, ok := in.(*ssa.Call); ok {
			if ev := errorResult(call); ev != nil {
				out = append(out, call)
			}
		}
	})
	return out
}

func inLoop(b *ssa.BasicBlock) bool {
	return blockReach(b.Succs, nil)[b]
}

func ruleAtom1(c *Ctx, r *Reporter) {
	catF := c.field(pkgLungo, "Transaction", "catalog")
	dirtyF := c.field(pkgLungo, "Transaction", "dirty")
	txnT := c.lookupType(pkgLungo, "Transaction")
	if catF == nil || dirtyF == nil || txnT == nil {
		r.bad("anchor:Transaction", "-", "not found")
		return
	}
	nMethods, nStores := 0, 0
	for i := 0; i < txnT.NumMethods(); i++ {
		m := txnT.Method(i)
		fn := c.ssaFunc(m)
		if fn == nil || fn.Blocks == nil {
			continue
		}
		var stores []*ssa.Store
		allInstrs(fn, func(in ssa.Instruction) {
			if st, ok := in.(*ssa.Store); ok {
				if fa, ok := st.Addr.(*ssa.FieldAddr); ok {
					if f := structFieldOf(fa); f == catF || f == dirtyF {
						stores = append(stores, st)
					}
				}
			}
		})
		if len(stores) == 0 {
			continue
		}
		nMethods++
		calls := fallibleCalls(fn)
		for _, S := range stores {
			nStores++
			fname := structFieldOf(S.Addr.(*ssa.FieldAddr)).Name()
			key := fmt.Sprintf("Transaction.%s:store t.%s", m.Name(), fname)
			var problems []string
			for _, call := range calls {
				perItem := false
				for _, chk := range errChecksOf(errorResult(call)) {
					// per-item methods: the failure edge continues the loop that contains the call
					if blockReach([]*ssa.BasicBlock{chk.FailSucc}, nil)[call.Block()] {
						perItem = true
						continue
					}
					if blockReach([]*ssa.BasicBlock{chk.FailSucc}, nil)[S.Block()] {
						problems = append(problems, fmt.Sprintf("reachable from the failure edge of %s at %s", calleeFull(&call.Call), c.pos(call.Pos())))
					}
				}
				if perItem {
					continue
				}
				if instrReaches(S, call) && !instrReaches(call, S) {
					problems = append(problems, fmt.Sprintf("%s at %s can still fail after the state was replaced", calleeFull(&call.Call), c.pos(call.Pos())))
				}
			}
			if len(problems) > 0 {
				r.bad(key, c.pos(S.Pos()), strings.Join(problems, "; "))
			} else {
				r.ok(key, c.pos(S.Pos()), fmt.Sprintf("not reachable from any of %d failure edges; nothing fallible follows", len(calls)))
			}
		}
	}
	r.guard(nMethods, 10, "write methods of *Transaction")
	r.guard(nStores, 20, "stores of t.catalog / t.dirty")
}

func ruleAtom2(c *Ctx, r *Reporter) {
	collClone := c.lookupFunc(pkgMongokit, "Collection.Clone")
	catF := c.field(pkgLungo, "Transaction", "catalog")
	nsF := c.field(pkgLungo, "Catalog", "Namespaces")
	if collClone == nil || catF == nil || nsF == nil {
		r.bad("anchor:ATOM-2", "-", "not found")
		return
	}
	helpers := map[string]bool{}
	helperFn := map[string]*ssa.Function{}
	for _, h := range loggingHelpers(c) {
		helpers["Transaction."+h.Name()] = true
		helperFn["Transaction."+h.Name()] = h
	}
	found := 0
	for _, name := range []string{"Transaction.Insert", "Transaction.Bulk"} {
		fn := c.lookupSSA(pkgLungo, name)
		if fn == nil {
			r.bad("anchor:"+name, "-", "not found")
			continue
		}
		var itemCalls []*ssa.Call
		scan := func(walk func(*ssa.Function, func(ssa.Instruction))) {
			walk(fn, func(in ssa.Instruction) {
				if call, ok := in.(*ssa.Call); ok {
					if f := calleeObj(&call.Call); f != nil && f.Pkg() != nil && f.Pkg().Path() == pkgLungo && helpers[fullShort(f)] {
						itemCalls = append(itemCalls, call)
					}
				}
			})
		}
		scan(allInstrs)
		if len(itemCalls) == 0 {
			// the item loop moved into a private helper of the method
			scan(coneInstrs)
		}
		if len(itemCalls) == 0 {
			r.bad(name+":per-item helper calls", c.pos(fn.Pos()), "no call of a per-item helper found")
			continue
		}
		// the item loop may live in a private helper of the method (the method keeps the clone and the final store)
		body := itemCalls[0].Parent()
		// the final store of t.catalog
		var final *ssa.Store
		coneInstrs(fn, func(in ssa.Instruction) {
			if st, ok := in.(*ssa.Store); ok {
				if _, ok := fieldAddrOf(st.Addr, catF); ok {
					final = st
				}
			}
		})
		// assign-back map updates on the cloned catalog
		var updates []*ssa.MapUpdate
		allInstrs(body, func(in ssa.Instruction) {
			if mu, ok := in.(*ssa.MapUpdate); ok && isLoadOf(mu.Map, nsF) && inLoop(mu.Block()) {
				updates = append(updates, mu)
			}
		})
		for _, call := range itemCalls {
			found++
			key := fmt.Sprintf("%s:item %s", name, calleeObj(&call.Call).Name())
			var problems []string
			if !inLoop(call.Block()) {
				problems = append(problems, "helper call is not inside the item loop")
			}
			// the oplog and namespace arguments are Clone() results made in the loop
			hf := helperFn["Transaction."+calleeObj(&call.Call).Name()]
			op, nsp := helperCollParams(c, hf)
			idxOf := func(p *ssa.Parameter) int {
				for i, q := range hf.Params {
					if q == p {
						return i
					}
				}
				return -1
			}
			ai1, ai2 := idxOf(op), idxOf(nsp)
			for _, ai := range []int{ai1, ai2} {
				a := call.Call.Args[ai]
				cc, ok := a.(*ssa.Call)
				if !ok || calleeObj(&cc.Call) != collClone {
					problems = append(problems, fmt.Sprintf("argument %d is not the direct result of Collection.Clone() (a failed item's half-applied collection could survive)", ai-1))
					continue
				}
				if !inLoop(cc.Block()) || !instrDominates(cc, call) {
					problems = append(problems, fmt.Sprintf("argument %d is cloned outside the item loop", ai-1))
				}
			}
			// the assign-back pair
			var mine []*ssa.MapUpdate
			for _, mu := range updates {
				if mu.Value == call.Call.Args[ai1] || mu.Value == call.Call.Args[ai2] {
					mine = append(mine, mu)
				}
			}
			if len(mine) != 2 {
				problems = append(problems, fmt.Sprintf("expected the cloned namespace and oplog to be assigned back (2 map updates), found %d", len(mine)))
			} else {
				if mine[0].Block() != mine[1].Block() {
					problems = append(problems, "the namespace and the oplog are assigned back in different blocks (one can be kept without the other)")
				}
				for _, chk := range errChecksOf(errorResult(call)) {
					// reachable from the failure edge without starting a new iteration (passing the clone calls)
					blocked := map[*ssa.BasicBlock]bool{}
					if cc, ok := call.Call.Args[ai1].(*ssa.Call); ok {
						blocked[cc.Block()] = true
					}
					reach := blockReach([]*ssa.BasicBlock{chk.FailSucc}, blocked)
					if reach[mine[0].Block()] {
						problems = append(problems, "the assign-back is reachable from the item's failure edge within the same iteration")
					}
					if !(chk.OkSucc == mine[0].Block() || chk.OkSucc.Dominates(mine[0].Block())) {
						problems = append(problems, "the assign-back is not dominated by the item's success edge")
					}
				}
				// after a successful item every exit passes the guarded final store
				if final == nil {
					problems = append(problems, "no final store of t.catalog")
				} else {
					guardBlock := final.Block()
					if len(guardBlock.Preds) == 1 {
						guardBlock = guardBlock.Preds[0]
					}
					pass := func(in ssa.Instruction) bool { return in.Block() == guardBlock || in == ssa.Instruction(final) }
					// only successful returns matter: a call that fails as a whole discards the clone
					passOrErr := func(in ssa.Instruction) bool {
						if pass(in) {
							return true
						}
						if ret, ok := in.(*ssa.Return); ok && len(ret.Results) > 0 && !isNilConst(retVal(ret, len(ret.Results)-1)) {
							return true
						}
						return false
					}
					start := ssa.Instruction(mine[1])
					if final.Parent() != body {
						// the loop's function returns to the method, which decides: continue from the helper call
						if site := helperSite(body); site != nil && site.Parent() == final.Parent() {
							start = site
						}
					}
					if start.Parent() != final.Parent() {
						problems = append(problems, "the final store of t.catalog is not in the function that runs the item loop nor in its only caller")
					} else if bad := exitWithoutPassing(start, passOrErr, nil); bad != nil {
						problems = append(problems, fmt.Sprintf("after a successful item the return at %s is reachable without passing the final `t.catalog = clone` decision: the reported items would not take effect", c.pos(bad.Pos())))
					}
				}
			}
			if len(problems) > 0 {
				r.bad(key, c.pos(call.Pos()), strings.Join(problems, "; "))
			} else {
				r.ok(key, c.pos(call.Pos()), "per-item clones inside the loop, paired assign-back on the success edge only, all exits pass the final store")
			}
		}
	}
	r.guard(found, 5, "per-item helper calls in Insert/Bulk")
}

// ---- ATOM-3 ----------------------------------------------------------------------

func ruleAtom3(c *Ctx, r *Reporter) {
	mut := collectionMutators(c)
	collT := c.lookupType(pkgMongokit, "Collection")
	if collT == nil {
		r.bad("anchor:mongokit.Collection", "-", "not found")
		return
	}
	validators := map[string]bool{
		pkgMongokit + ".Sort": true, pkgMongokit + ".Filter": true, pkgMongokit + ".Update": true, pkgMongokit + ".Apply": true, pkgMongokit + ".Extract": true,
		pkgMongokit + ".IndexConfig.Name": true, pkgMongokit + ".CreateIndex": true,
	}
	n := 0
	for _, mname := range []string{"Insert", "Replace", "Update", "Upsert", "Delete", "CreateIndex"} {
		fn := c.lookupSSA(pkgMongokit, "Collection."+mname)
		if fn == nil {
			r.bad("anchor:Collection."+mname, "-", "not found")
			continue
		}
		var muts []ssa.Instruction
		var vals []*ssa.Call
		allInstrs(fn, func(in ssa.Instruction) {
			switch x := in.(type) {
			case *ssa.Call:
				f := calleeObj(&x.Call)
				if f != nil && mut[f] {
					muts = append(muts, in)
				}
				if validators[calleeFull(&x.Call)] {
					vals = append(vals, x)
				}
			case *ssa.MapUpdate:
				muts = append(muts, in)
			}
		})
		if len(muts) == 0 {
			r.bad("Collection."+mname+":mutations", c.pos(fn.Pos()), "no index/Documents mutation found in a write method")
			continue
		}
		for _, v := range vals {
			n++
			key := fmt.Sprintf("Collection.%s:validate %s", mname, calleeObj(&v.Call).Name())
			var late []string
			for _, m := range muts {
				dom := false
				for _, chk := range errChecksOf(errorResult(v)) {
					if chk.OkSucc == m.Block() || chk.OkSucc.Dominates(m.Block()) {
						dom = true
					}
					// a step that only runs under a condition (name == "": compute it): nothing that follows its
					// failure edge reaches the mutation, and the mutation cannot come before it
					if !dom && !v.Block().Dominates(m.Block()) && !blockReach([]*ssa.BasicBlock{chk.FailSucc}, nil)[m.Block()] && chk.FailSucc != m.Block() && !instrReaches(m, v) {
						dom = true
					}
				}
				if !dom {
					late = append(late, c.pos(m.Pos()))
				}
			}
			r.check(len(late) == 0, key, c.pos(v.Pos()), fmt.Sprintf("its success edge dominates all %d mutations", len(muts)), "index/Documents mutation(s) at "+strings.Join(late, ",")+" can run although this step failed or has not run yet")
		}
		// the "_id is immutable" rejection dominates all mutations (Replace, Update)
		if mname == "Replace" || mname == "Update" {
			var idChecks []*ssa.If
			allInstrs(fn, func(in ssa.Instruction) {
				iff, ok := in.(*ssa.If)
				if !ok {
					return
				}
				// the failing successor returns an error built from a constant mentioning "_id is immutable"
				for _, s := range iff.Block().Succs {
					for _, x := range s.Instrs {
						if call, ok := x.(*ssa.Call); ok && calleeFull(&call.Call) == "fmt.Errorf" {
							if str, ok := constString(call.Call.Args[0]); ok && strings.Contains(str, "immutable") {
								idChecks = append(idChecks, iff)
							}
						}
					}
				}
			})
			r.guard(len(idChecks), 1, "_id immutability rejection in Collection."+mname)
			for _, iff := range idChecks {
				okAll := true
				for _, m := range muts {
					// no mutation may precede the check
					if instrReaches(m, iff) {
						okAll = false
					}
				}
				r.check(okAll, "Collection."+mname+":_id check first", c.pos(iff.Pos()), "the immutability check precedes every mutation", "a mutation can happen before the _id immutability check")
			}
		}
	}
	r.guard(n, 8, "validation steps in Collection write methods")
}
