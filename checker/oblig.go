package main

import (
	"encoding/json"
	"fmt"
	"os"
	"path/filepath"
	"sort"
	"strings"
)

// Status of an obligation.
type Status int

const (
	Discharged Status = iota
	Violated
	Undecided
)

func (s Status) String() string {
	switch s {
	case Discharged:
		return "discharged"
	case Violated:
		return "VIOLATED"
	default:
		return "UNDECIDED"
	}
}

// Obligation is one construct examined by one rule.
type Obligation struct {
	Rule      string // rule id, e.g. LOCK-4
	Construct string // resolved construct key (no line numbers)
	Pos       string // file:line (informational)
	Status    Status
	Detail    string
	Trivial   bool // discharged by a trivial argument (e.g. type cannot carry a container)
}

// Rule is a repository-specific rule.
type Rule struct {
	ID    string
	Doc   string
	NeedG bool // needs call graph
	Run   func(c *Ctx, r *Reporter)
}

// Reporter collects the obligations of one rule.
type Reporter struct {
	rule string
	obs  []Obligation
}

func (r *Reporter) add(construct, pos string, st Status, detail string) {
	r.obs = append(r.obs, Obligation{Rule: r.rule, Construct: construct, Pos: pos, Status: st, Detail: detail})
}
func (r *Reporter) ok(construct, pos, detail string)  { r.add(construct, pos, Discharged, detail) }
func (r *Reporter) bad(construct, pos, detail string) { r.add(construct, pos, Violated, detail) }
func (r *Reporter) unk(construct, pos, detail string) { r.add(construct, pos, Undecided, detail) }
func (r *Reporter) trivial(construct, pos, detail string) {
	r.obs = append(r.obs, Obligation{Rule: r.rule, Construct: construct, Pos: pos, Status: Discharged, Detail: detail, Trivial: true})
}

// check is a convenience: discharged if cond else violated.
func (r *Reporter) check(cond bool, construct, pos, okDetail, badDetail string) bool {
	if cond {
		r.ok(construct, pos, okDetail)
	} else {
		r.bad(construct, pos, badDetail)
	}
	return cond
}

// guard: an anchor that must yield instances; a missing anchor is a violation of the property
// (deleting the release / the clone / the sync call is what the rule exists for).
// guard: a vacuity check. The number passed by a rule is the count confirmed by hand on the pinned tree; a rule must
// not go quiet because its anchor vanished, but it must not fire either because a maintainer removed duplication
// (two call sites folded into a helper, three identical blocks into a closure). The effective threshold is therefore
// half the confirmed count (at least 2) for counts above 3, and the confirmed count itself for 1-3.
func (r *Reporter) guard(n int, min int, what string) {
	if min > 3 {
		min = min / 2
		if min < 2 {
			min = 2
		}
	}
	if n < min {
		r.bad("guard:"+what, "-", fmt.Sprintf("expected at least %d instance(s) of %s, found %d - the anchor this rule checks is gone", min, what, n))
	} else {
		r.trivial("guard:"+what, "-", fmt.Sprintf("%d instance(s) of %s", n, what))
	}
}

// ---- known findings --------------------------------------------------------

type knownFinding struct {
	Property  string `json:"property"`
	Rule      string `json:"rule"`
	Construct string `json:"construct"`
	What      string `json:"what"`
	Status    string `json:"status"` // "known" or "fixed"
	Commit    string `json:"commit,omitempty"`
}

type knownFile struct {
	Comment  string         `json:"_comment"`
	Findings []knownFinding `json:"findings"`
}

func loadKnown(path string) ([]knownFinding, error) {
	b, err := os.ReadFile(path)
	if err != nil {
		if os.IsNotExist(err) {
			return nil, nil
		}
		return nil, err
	}
	var kf knownFile
	if err := json.Unmarshal(b, &kf); err != nil {
		return nil, err
	}
	return kf.Findings, nil
}

// ---- evidence --------------------------------------------------------------

type evidence struct {
	PropertyID  string                 `json:"property_id"`
	Tier        string                 `json:"tier"`
	Seed        int                    `json:"seed"`
	Level       string                 `json:"level"`
	Coverage    map[string]interface{} `json:"coverage"`
	Assumptions []string               `json:"assumptions"`
	WallS       float64                `json:"wall_s"`
	Violations  int                    `json:"violations"`
}

func writeJSON(path string, v interface{}) error {
	if err := os.MkdirAll(filepath.Dir(path), 0o755); err != nil {
		return err
	}
	b, err := json.MarshalIndent(v, "", " ")
	if err != nil {
		return err
	}
	tmp := path + ".tmp"
	if err := os.WriteFile(tmp, append(b, '\n'), 0o644); err != nil {
		return err
	}
	return os.Rename(tmp, path)
}

func sortObligations(obs []Obligation) {
	sort.SliceStable(obs, func(i, j int) bool {
		if obs[i].Rule != obs[j].Rule {
			return obs[i].Rule < obs[j].Rule
		}
		if obs[i].Construct != obs[j].Construct {
			return obs[i].Construct < obs[j].Construct
		}
		return obs[i].Pos < obs[j].Pos
	})
}

func renderObligation(o Obligation) string {
	return fmt.Sprintf("[%s] %-10s %s @ %s :: %s", o.Rule, o.Status, o.Construct, o.Pos, strings.TrimSpace(o.Detail))
}
