// lungocheck: repository-specific static checks for 256dpi/lungo.
//
// Usage: lungocheck -prop C04 [-tier quick|thorough] [-repo /repo] [-out /verif]
//
//	lungocheck -explain <report file>
//	lungocheck -rules            (list rules)
package main

import (
	"flag"
	"fmt"
	"os"
	"path/filepath"
	"runtime/debug"
	"sort"
	"strconv"
	"strings"
	"time"
)

var allRules = map[string]*Rule{}

func register(r *Rule) { allRules[r.ID] = r }

func main() {
	prop := flag.String("prop", "", "property id (C01..C20)")
	tier := flag.String("tier", "", "quick or thorough (default: $VERIF_TIER or quick)")
	repo := flag.String("repo", "/repo", "repository root")
	out := flag.String("out", "", "verif root for evidence/ and reports/ (default: directory above the binary, or /verif)")
	explain := flag.String("explain", "", "print a report file")
	listRules := flag.Bool("rules", false, "list rules")
	rulesOnly := flag.String("only", "", "comma separated rule ids to run instead of the property's rules (debugging / self-test)")
	noEvidence := flag.Bool("no-evidence", false, "do not write evidence / report files (self-test on scratch copies)")
	flag.Parse()

	if *explain != "" {
		b, err := os.ReadFile(*explain)
		if err != nil {
			fmt.Fprintln(os.Stderr, err)
			os.Exit(2)
		}
		os.Stdout.Write(b)
		return
	}
	if *listRules {
		var ids []string
		for id := range allRules {
			ids = append(ids, id)
		}
		sort.Strings(ids)
		for _, id := range ids {
			fmt.Printf("%-8s %s\n", id, allRules[id].Doc)
		}
		return
	}
	if *tier == "" {
		*tier = os.Getenv("VERIF_TIER")
	}
	if *tier != "thorough" {
		*tier = "quick"
	}
	if *out == "" {
		*out = "/verif"
		if exe, err := os.Executable(); err == nil {
			d := filepath.Dir(filepath.Dir(exe))
			if _, err := os.Stat(filepath.Join(d, "properties.jsonl")); err == nil {
				*out = d
			}
		}
	}
	seed, _ := strconv.Atoi(os.Getenv("VERIF_SEED"))

	if *prop == "ALL" {
		os.Exit(runAll(*repo, *out))
	}
	pd := properties[*prop]
	if pd == nil {
		fmt.Fprintf(os.Stderr, "unknown or unclaimed property %q\n", *prop)
		os.Exit(2)
	}
	ruleIDs := pd.Rules
	if *rulesOnly != "" {
		ruleIDs = strings.Split(*rulesOnly, ",")
	}
	os.Exit(runProperty(pd, ruleIDs, *tier, *repo, *out, seed, *noEvidence))
}

func runProperty(pd *PropDef, ruleIDs []string, tier, repo, out string, seed int, noEvidence bool) int {
	start := time.Now()
	absRepo, _ := filepath.Abs(repo)
	c, err := loadRepo(absRepo, true)
	if err != nil {
		// the tree cannot be analysed at all
		fmt.Fprintf(os.Stderr, "lungocheck: cannot analyse %s: %v\n", repo, err)
		return 2
	}

	var obs []Obligation
	ruleDocs := map[string]string{}
	for _, id := range ruleIDs {
		rule := allRules[id]
		if rule == nil {
			fmt.Fprintf(os.Stderr, "lungocheck: unknown rule %s\n", id)
			return 2
		}
		ruleDocs[id] = rule.Doc
		rep := &Reporter{rule: id}
		func() {
			defer func() {
				if p := recover(); p != nil {
					rep.unk("analysis-panic", "-", fmt.Sprintf("rule panicked: %v\n%s", p, debug.Stack()))
				}
			}()
			rule.Run(c, rep)
		}()
		if len(rep.obs) == 0 {
			rep.bad("guard:rule-matched-nothing", "-", "the rule examined no construct at all")
		}
		obs = append(obs, rep.obs...)
	}
	sortObligations(obs)

	known, err := loadKnown(filepath.Join(out, "known_findings.json"))
	if err != nil {
		fmt.Fprintf(os.Stderr, "lungocheck: known_findings.json: %v\n", err)
		return 2
	}

	// classify
	var viol, knownHits []Obligation
	discharged, nontrivial := 0, map[string]bool{}
	for _, o := range obs {
		switch o.Status {
		case Discharged:
			discharged++
			if !o.Trivial {
				nontrivial[o.Rule+"|"+o.Construct] = true
			}
		default:
			isKnown := false
			for _, k := range known {
				if k.Status == "known" && k.Property == pd.ID && k.Rule == o.Rule && k.Construct == o.Construct {
					isKnown = true
					o.Detail = k.What + " :: " + o.Detail
				}
			}
			if isKnown {
				knownHits = append(knownHits, o)
			} else {
				viol = append(viol, o)
			}
		}
	}

	// report
	var sb strings.Builder
	fmt.Fprintf(&sb, "lungocheck property=%s tier=%s repo=%s\n", pd.ID, tier, absRepo)
	fmt.Fprintf(&sb, "analysed: %d packages, %d files, %d functions, %d call-graph edges\n", c.Stats.Packages, c.Stats.Files, c.Stats.Functions, c.Stats.CGEdges)
	fmt.Fprintf(&sb, "rules: %s\n", strings.Join(ruleIDs, " "))
	fmt.Fprintf(&sb, "obligations: %d, discharged: %d, known findings: %d, violations: %d\n\n", len(obs), discharged, len(knownHits), len(viol))
	if len(viol) > 0 {
		sb.WriteString("== VIOLATIONS ==\n")
		for _, o := range viol {
			sb.WriteString(renderObligation(o) + "\n")
			sb.WriteString("    rule: " + ruleDocs[o.Rule] + "\n")
		}
		sb.WriteString("\n")
	}
	if len(knownHits) > 0 {
		sb.WriteString("== KNOWN FINDINGS ==\n")
		for _, o := range knownHits {
			sb.WriteString(renderObligation(o) + "\n")
		}
		sb.WriteString("\n")
	}
	sb.WriteString("== ALL OBLIGATIONS ==\n")
	for _, o := range obs {
		sb.WriteString(renderObligation(o) + "\n")
	}
	reportPath := filepath.Join(out, "reports", pd.ID+"."+tier+".txt")
	if !noEvidence {
		_ = os.MkdirAll(filepath.Dir(reportPath), 0o755)
		_ = os.WriteFile(reportPath, []byte(sb.String()), 0o644)
	}

	// stdout summary
	fmt.Printf("lungocheck %s (%s): %d obligations over %d rules, %d discharged, %d known, %d violated [%d pkgs, %d funcs]\n",
		pd.ID, tier, len(obs), len(ruleIDs), discharged, len(knownHits), len(viol), c.Stats.Packages, c.Stats.Functions)
	perRule := map[string][2]int{}
	for _, o := range obs {
		v := perRule[o.Rule]
		v[0]++
		if o.Status == Discharged {
			v[1]++
		}
		perRule[o.Rule] = v
	}
	for _, id := range ruleIDs {
		fmt.Printf("  %-8s %3d/%-3d %s\n", id, perRule[id][1], perRule[id][0], ruleDocs[id])
	}
	for _, o := range knownHits {
		fmt.Printf("KNOWN-FINDING: property=%s %s [%s %s @ %s]\n", pd.ID, firstLine(o.Detail), o.Rule, o.Construct, o.Pos)
	}
	for _, o := range viol {
		fmt.Printf("  %s\n", firstLine(renderObligation(o)))
	}

	// self-test (thorough tier): informational only
	var selfRes []map[string]interface{}
	if tier == "thorough" && !noEvidence {
		selfRes = runSelfTest(pd, absRepo, out)
	}

	if !noEvidence {
		samples := []map[string]string{}
		seenRule := map[string]int{}
		for _, o := range obs {
			if o.Trivial && o.Status == Discharged {
				continue
			}
			if seenRule[o.Rule] >= 4 && o.Status == Discharged {
				continue
			}
			seenRule[o.Rule]++
			samples = append(samples, map[string]string{"rule": o.Rule, "construct": o.Construct, "pos": o.Pos, "status": o.Status.String(), "detail": firstLine(o.Detail)})
		}
		rulesText := []string{}
		for _, id := range ruleIDs {
			rulesText = append(rulesText, id+": "+ruleDocs[id])
		}
		cov := map[string]interface{}{
			"explanation":         pd.Explanation,
			"decided":             pd.Decided,
			"not_decided":         pd.NotDecided,
			"obligations":         len(obs),
			"discharged":          discharged,
			"evaluations":         len(obs),
			"distinct_nontrivial": len(nontrivial),
			"rule":                "one obligation per (rule, resolved construct); non-trivial = discharged by a dominance/dataflow/table argument rather than by a vacuity guard or a type that cannot carry the hazard; distinct = distinct (rule, construct) keys. Rules: " + strings.Join(rulesText, " | "),
			"samples":             samples,
			"known_findings":      len(knownHits),
			"packages":            c.Stats.Packages,
			"files":               c.Stats.Files,
			"functions":           c.Stats.Functions,
			"callgraph_edges":     c.Stats.CGEdges,
			"checker_cmd":         fmt.Sprintf("bin/lungocheck -prop %s -tier %s", pd.ID, tier),
			"trusted_base":        trustedBase,
			"exhaustive":          true,
			"per_rule":            perRule,
		}
		if selfRes != nil {
			cov["selftest"] = selfRes
		}
		ev := evidence{
			PropertyID:  pd.ID,
			Tier:        tier,
			Seed:        seed,
			Level:       "other",
			Coverage:    cov,
			Assumptions: pd.Assumptions,
			WallS:       time.Since(start).Seconds(),
			Violations:  len(viol),
		}
		if err := writeJSON(filepath.Join(out, "evidence", pd.ID+".json"), ev); err != nil {
			fmt.Fprintf(os.Stderr, "lungocheck: writing evidence: %v\n", err)
			return 2
		}
	}

	if len(viol) > 0 {
		fmt.Printf("VIOLATION property=%s replay=%s\n", pd.ID, reportPath)
		return 1
	}
	return 0
}

func firstLine(s string) string {
	if i := strings.IndexByte(s, '\n'); i >= 0 {
		return s[:i]
	}
	return s
}

var trustedBase = []string{
	"Go type checker (go/types) and golang.org/x/tools v0.29.0 go/packages, go/ssa, callgraph/vta+cha",
	"third-party code behaves as documented: tidwall/btree Copy is copy-on-write, tomb.v2 Kill/Alive/Wait, mongo-driver bson codec, shopspring/decimal",
	"reflect/unsafe are not modelled (assertOptions, DecodeList use reflect on caller-owned values; index/sort tie-breaks use pointer identity)",
}

// runAll loads the repo once, runs every registered rule once and prints a verdict per claimed
// property (used to evaluate seeded changes quickly; writes no evidence).
func runAll(repo, out string) int {
	absRepo, _ := filepath.Abs(repo)
	c, err := loadRepo(absRepo, true)
	if err != nil {
		fmt.Fprintf(os.Stderr, "lungocheck: cannot analyse %s: %v\n", repo, err)
		fmt.Println("ALL: UNANALYSABLE")
		return 2
	}
	known, _ := loadKnown(filepath.Join(out, "known_findings.json"))
	res := map[string][]Obligation{}
	var ids []string
	for id := range allRules {
		ids = append(ids, id)
	}
	sort.Strings(ids)
	for _, id := range ids {
		rep := &Reporter{rule: id}
		func() {
			defer func() {
				if p := recover(); p != nil {
					if os.Getenv("LUNGOCHECK_PANIC") != "" {
						debug.PrintStack()
					}
					rep.unk("analysis-panic", "-", fmt.Sprintf("rule panicked: %v", p))
				}
			}()
			allRules[id].Run(c, rep)
		}()
		res[id] = rep.obs
	}
	for _, id := range ids {
		for _, o := range res[id] {
			if o.Status != Discharged {
				fmt.Printf("RULE %s %s %s @ %s :: %s\n", id, o.Status, o.Construct, o.Pos, firstLine(o.Detail))
			}
		}
	}
	var pids []string
	for pid := range properties {
		pids = append(pids, pid)
	}
	sort.Strings(pids)
	rc := 0
	for _, pid := range pids {
		pd := properties[pid]
		var bad []string
		for _, rid := range pd.Rules {
			for _, o := range res[rid] {
				if o.Status == Discharged {
					continue
				}
				isKnown := false
				for _, k := range known {
					if k.Status == "known" && k.Property == pid && k.Rule == o.Rule && k.Construct == o.Construct {
						isKnown = true
					}
				}
				if !isKnown {
					bad = append(bad, fmt.Sprintf("%s[%s @ %s]", o.Rule, o.Construct, o.Pos))
				}
			}
		}
		if len(bad) > 0 {
			rc = 1
			fmt.Printf("PROP %s VIOLATED %d: %s\n", pid, len(bad), strings.Join(bad, " ; "))
		} else {
			fmt.Printf("PROP %s ok\n", pid)
		}
	}
	return rc
}
