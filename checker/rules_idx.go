package main

import (
	"fmt"
	"go/token"
	"go/types"
	"strings"

	"golang.org/x/tools/go/ssa"
)

func init() {
	register(&Rule{ID: "IDX-1", Doc: "pairing with index maintenance: in Collection.Insert/Replace/Update/Upsert/Delete every Documents.Add/Replace/Remove is dominated by a loop over c.Indexes that calls index.Add/Remove on the same document(s) in every iteration, for every document; a false result or an error aborts with an error", Run: ruleIdx1})
	register(&Rule{ID: "IDX-2", Doc: "bsonkit.Index: Add probes hasKey for every tuple of a unique index and returns false on a hit before any btree.Set; Add and Remove work on the same tuple set (i.tuples(doc))", Run: ruleIdx2})
	register(&Rule{ID: "IDX-3", Doc: "the _id_ index: user namespaces are created with NewCollection(true); no delete from Collection.Indexes can remove \"_id_\"", Run: ruleIdx3})
	register(&Rule{ID: "IDX-4", Doc: "partial-filter gate agreement: mongokit.Index.Add/Remove/Has test config.Partial != nil then Match(doc, partial) the same way, Add/Remove report (true,nil) for non-matching documents, and each delegates to the base method of the same name", Run: ruleIdx4})
	register(&Rule{ID: "IDX-5", Doc: "index creation: CreateIndex is a no-op for an existing equal definition, rejects an equal key under another name, builds the new index from all current documents and turns a duplicate into an error; file load rebuilds every index and rejects duplicates", Run: ruleIdx5})
}

// elemSource: for a value that is an element of a list (range element, list[i]) return the list; otherwise the value itself.
func elemSource(v ssa.Value) (src ssa.Value, hdr ssa.Instruction) {
	v = stripValue(v)
	switch x := v.(type) {
	case *ssa.UnOp:
		if x.Op == token.MUL {
			if ia, ok := x.X.(*ssa.IndexAddr); ok {
				return stripValue(ia.X), loopNextFor(v)
			}
		}
	case *ssa.Extract:
		if nx, ok := x.Tuple.(*ssa.Next); ok {
			if rg, ok := nx.Iter.(*ssa.Range); ok {
				return stripValue(rg.X), nx
			}
		}
	}
	return v, nil
}

func ruleIdx1(c *Ctx, r *Reporter) {
	docsF := c.field(pkgMongokit, "Collection", "Documents")
	idxF := c.field(pkgMongokit, "Collection", "Indexes")
	if docsF == nil || idxF == nil {
		r.bad("anchor:Collection fields", "-", "not found")
		return
	}
	type idxCall struct {
		call *ssa.Call
		kind string // Add / Remove
		next *ssa.Next
	}
	total := 0
	for _, mname := range []string{"Insert", "Replace", "Update", "Upsert", "Delete"} {
		fn := c.lookupSSA(pkgMongokit, "Collection."+mname)
		if fn == nil {
			r.bad("anchor:Collection."+mname, "-", "not found")
			continue
		}
		var idxCalls []idxCall
		var docCalls []*ssa.Call
		allInstrs(fn, func(in ssa.Instruction) {
			call, ok := in.(*ssa.Call)
			if !ok {
				return
			}
			switch calleeFull(&call.Call) {
			case pkgMongokit + ".Index.Add", pkgMongokit + ".Index.Remove":
				// receiver is the value of a range over c.Indexes
				if ex, ok := call.Call.Args[0].(*ssa.Extract); ok {
					if nx, ok := ex.Tuple.(*ssa.Next); ok {
						if rg, ok := nx.Iter.(*ssa.Range); ok && isLoadOf(rg.X, idxF) {
							idxCalls = append(idxCalls, idxCall{call, calleeObj(&call.Call).Name(), nx})
						}
					}
				}
			case pkgBsonkit + ".Set.Add", pkgBsonkit + ".Set.Replace", pkgBsonkit + ".Set.Remove":
				if isLoadOf(call.Call.Args[0], docsF) {
					docCalls = append(docCalls, call)
				}
			}
		})
		if len(docCalls) == 0 {
			r.bad("Collection."+mname+":documents mutation", c.pos(fn.Pos()), "write method does not touch c.Documents")
			continue
		}
		for _, D := range docCalls {
			total++
			op := calleeObj(&D.Call).Name()
			type need struct {
				kind string
				doc  ssa.Value
			}
			var needs []need
			switch op {
			case "Add":
				needs = []need{{"Add", D.Call.Args[1]}}
			case "Remove":
				needs = []need{{"Remove", D.Call.Args[1]}}
			case "Replace":
				needs = []need{{"Remove", D.Call.Args[1]}, {"Add", D.Call.Args[2]}}
			}
			for _, nd := range needs {
				key := fmt.Sprintf("Collection.%s:Documents.%s needs index.%s", mname, op, nd.kind)
				wantSrc, _ := elemSource(nd.doc)
				var found *idxCall
				var problems []string
				for i := range idxCalls {
					ic := &idxCalls[i]
					if ic.kind != nd.kind {
						continue
					}
					src, _ := elemSource(ic.call.Call.Args[1])
					if src != wantSrc {
						continue
					}
					found = ic
					break
				}
				if found == nil {
					// the index loop may have been extracted into a helper method of Collection that receives the document
					if why := idxHelperCovers(c, fn, D, nd.kind, wantSrc, idxF); why != "" {
						r.ok(key, c.pos(D.Pos()), why)
						continue
					}
					r.bad(key, c.pos(D.Pos()), fmt.Sprintf("no index.%s on the same document(s) inside a loop over c.Indexes", nd.kind))
					continue
				}
				entry := found.next.Block()
				if _, hdr := elemSource(found.call.Call.Args[1]); hdr != nil {
					entry = hdr.Block()
				}
				if !(instrDominates(found.call, D) || entry.Dominates(D.Block())) || instrReaches(D, found.call) {
					problems = append(problems, "the index loop does not precede the documents mutation")
				}
				// the index loop must be complete before D: D is not inside the index loop body
				if blockReach(D.Block().Succs, nil)[found.next.Block()] && found.next.Block().Dominates(D.Block()) && inSameLoop(found.next.Block(), D.Block()) {
					problems = append(problems, "the documents mutation happens inside the index loop")
				}
				// every index iteration performs the call
				if body := firstBodyInstr(found.next); body != nil {
					isCall := func(x ssa.Instruction) bool { return x == ssa.Instruction(found.call) }
					back := func(x ssa.Instruction) bool { return x == ssa.Instruction(found.next) }
					if !isCall(body) {
						if bad := exitWithoutPassingAny(body, isCall, back); bad != nil {
							problems = append(problems, "an iteration over c.Indexes can skip index."+nd.kind)
						}
					}
				}
				// every document iteration reaches the index loop
				if _, hdr := elemSource(found.call.Call.Args[1]); hdr != nil {
					if body := firstBodyInstr(hdr); body != nil {
						reachIdx := func(x ssa.Instruction) bool {
							return x.Block() == found.next.Block() || x == ssa.Instruction(found.next)
						}
						back := func(x ssa.Instruction) bool { return x == hdr }
						if !reachIdx(body) {
							if bad := exitWithoutPassingAny(body, reachIdx, back); bad != nil {
								problems = append(problems, "a document of the list can skip the index loop (it would be changed in Documents but not in the indexes)")
							}
						}
					}
				}
				// result handling: !ok => error, err => error
				okv, errv := tupleResult(found.call, 0), tupleResult(found.call, 1)
				if errv == nil || len(errChecksOf(errv)) == 0 {
					problems = append(problems, "the error of index."+nd.kind+" is not tested")
				}
				if okv == nil || !boolFalseReturnsError(okv) {
					problems = append(problems, "a false result of index."+nd.kind+" (duplicate / missing entry) does not abort with an error")
				}
				if len(problems) > 0 {
					r.bad(key, c.pos(D.Pos()), strings.Join(problems, "; "))
				} else {
					r.ok(key, c.pos(D.Pos()), "dominated by a complete loop over c.Indexes calling index."+nd.kind+" on the same document(s); false/err abort")
				}
			}
			// Documents.X result false => error
			if !boolFalseReturnsError(D) {
				r.bad(fmt.Sprintf("Collection.%s:Documents.%s result", mname, op), c.pos(D.Pos()), "a false result of the set operation is ignored")
			}
		}
	}
	r.guard(total, 5, "Documents mutations in Collection write methods")
}

func inSameLoop(a, b *ssa.BasicBlock) bool {
	return blockReach(a.Succs, nil)[b] && blockReach(b.Succs, nil)[a]
}

// exitWithoutPassingAny: like exitWithoutPassing but ANY return counts as fine (aborting is ok);
// only reaching `stop` without passing is bad.
func exitWithoutPassingAny(start ssa.Instruction, pass func(ssa.Instruction) bool, stop func(ssa.Instruction) bool) ssa.Instruction {
	p := func(in ssa.Instruction) bool {
		if pass(in) {
			return true
		}
		_, isRet := in.(*ssa.Return)
		return isRet
	}
	return exitWithoutPassing(start, p, stop)
}

// boolFalseReturnsError: the boolean v is branched on and its false side returns a non-nil error.
func boolFalseReturnsError(v ssa.Value) bool {
	refs := v.Referrers()
	if refs == nil {
		return false
	}
	check := func(iff *ssa.If, neg bool) bool {
		falseSucc := iff.Block().Succs[1]
		okSucc := iff.Block().Succs[0]
		if neg {
			falseSucc, okSucc = okSucc, falseSucc
		}
		return failEdgeReturnsError(errCheck{iff, falseSucc, okSucc})
	}
	for _, ref := range *refs {
		switch x := ref.(type) {
		case *ssa.If:
			if check(x, false) {
				return true
			}
		case *ssa.UnOp:
			if x.Op == token.NOT {
				if rr := x.Referrers(); rr != nil {
					for _, y := range *rr {
						if iff, ok := y.(*ssa.If); ok && check(iff, true) {
							return true
						}
					}
				}
			}
		}
	}
	return false
}

// ---- IDX-2 -----------------------------------------------------------------------

func ruleIdx2(c *Ctx, r *Reporter) {
	add := c.lookupSSA(pkgBsonkit, "Index.Add")
	rem := c.lookupSSA(pkgBsonkit, "Index.Remove")
	uniqueF := c.field(pkgBsonkit, "Index", "unique")
	tuplesF := c.lookupFunc(pkgBsonkit, "Index.tuples")
	hasKeyF := c.lookupFunc(pkgBsonkit, "Index.hasKey")
	if add == nil || rem == nil || uniqueF == nil || tuplesF == nil || hasKeyF == nil {
		r.bad("anchor:bsonkit.Index", "-", "not found")
		return
	}
	btreeCalls := func(fn *ssa.Function, name string) []*ssa.Call {
		var out []*ssa.Call
		allInstrs(fn, func(in ssa.Instruction) {
			if call, ok := in.(*ssa.Call); ok {
				if f := calleeObj(&call.Call); f != nil && f.Pkg() != nil && f.Pkg().Path() == "github.com/tidwall/btree" && f.Name() == name {
					out = append(out, call)
				}
			}
		})
		return out
	}
	tuplesCall := func(fn *ssa.Function) *ssa.Call {
		var out *ssa.Call
		allInstrs(fn, func(in ssa.Instruction) {
			if call, ok := in.(*ssa.Call); ok && calleeObj(&call.Call) == tuplesF && call.Call.Args[1] == fn.Params[1] {
				out = call
			}
		})
		return out
	}
	sets := btreeCalls(add, "Set")
	dels := btreeCalls(rem, "Delete")
	r.guard(len(sets), 1, "btree.Set in Index.Add")
	r.guard(len(dels), 1, "btree.Delete in Index.Remove")
	// unique gate
	var gate *ssa.If
	allInstrs(add, func(in ssa.Instruction) {
		if iff, ok := in.(*ssa.If); ok && isLoadOf(iff.Cond, uniqueF) {
			gate = iff
		}
	})
	if gate == nil {
		r.bad("Index.Add:unique gate", c.pos(add.Pos()), "Add does not branch on i.unique")
	} else {
		tsucc := gate.Block().Succs[0]
		// probe inside the gate: hasKey in a loop, true => return false
		var probe *ssa.Call
		allInstrs(add, func(in ssa.Instruction) {
			if call, ok := in.(*ssa.Call); ok && calleeObj(&call.Call) == hasKeyF && (tsucc == call.Block() || tsucc.Dominates(call.Block())) {
				probe = call
			}
		})
		if probe == nil {
			// the same probe through the standard library: slices.ContainsFunc(i.tuples(doc), i.hasKey) => return false
			okStd := false
			pos := gate.Pos()
			allInstrs(add, func(in ssa.Instruction) {
				call, ok := in.(*ssa.Call)
				if !ok || !(tsucc == call.Block() || tsucc.Dominates(call.Block())) {
					return
				}
				sf := calleeObj(&call.Call)
				if sf == nil || sf.Pkg() == nil || sf.Pkg().Path() != "slices" || sf.Name() != "ContainsFunc" || len(call.Call.Args) != 2 {
					return
				}
				mc, ok := call.Call.Args[1].(*ssa.MakeClosure)
				if !ok {
					return
				}
				bound, ok := mc.Fn.(*ssa.Function)
				if !ok || !strings.Contains(bound.Name(), "hasKey") {
					return
				}
				tc := tuplesCall(add)
				if tc == nil || stripValue(call.Call.Args[0]) != ssa.Value(tc) {
					return
				}
				// a hit returns false
				if refs := call.Referrers(); refs != nil {
					for _, ref := range *refs {
						if iff, ok := ref.(*ssa.If); ok {
							for _, x := range iff.Block().Succs[0].Instrs {
								if ret, ok := x.(*ssa.Return); ok && len(ret.Results) == 1 {
									if b, ok := constBool(retVal(ret, 0)); ok && !b {
										okStd = true
										pos = call.Pos()
									}
								}
							}
						}
					}
				}
			})
			r.check(okStd, "Index.Add:unique probe", c.pos(pos), "every tuple of i.tuples(doc) is probed through slices.ContainsFunc(tuples, i.hasKey); a hit returns false", "unique indexes are not probed with hasKey")
		} else {
			hit := false
			if refs := probe.Referrers(); refs != nil {
				for _, ref := range *refs {
					if iff, ok := ref.(*ssa.If); ok {
						for _, x := range iff.Block().Succs[0].Instrs {
							if ret, ok := x.(*ssa.Return); ok && len(ret.Results) == 1 {
								if b, ok := constBool(retVal(ret, 0)); ok && !b {
									hit = true
								}
							}
						}
					}
				}
			}
			tc := tuplesCall(add)
			src, _ := elemSource(probe.Call.Args[1])
			r.check(hit && inLoop(probe.Block()) && tc != nil && src == ssa.Value(tc), "Index.Add:unique probe", c.pos(probe.Pos()), "every tuple of i.tuples(doc) is probed; a hit returns false", "the uniqueness probe does not cover every tuple or a hit does not reject the document")
		}
		for _, s := range sets {
			good := gate.Block().Dominates(s.Block()) && !(tsucc == s.Block() || tsucc.Dominates(s.Block()))
			r.check(good, "Index.Add:set after probe", c.pos(s.Pos()), "entries are inserted only after the unique branch completed", "an entry can be inserted before/while the uniqueness probe runs")
		}
	}
	// same tuple set
	ta, tr := tuplesCall(add), tuplesCall(rem)
	okSame := ta != nil && tr != nil
	if okSame {
		for _, s := range sets {
			if src, _ := entryKeysSource(s.Call.Args[1]); src != ssa.Value(ta) {
				okSame = false
			}
		}
		for _, d := range dels {
			if src, _ := entryKeysSource(d.Call.Args[1]); src != ssa.Value(tr) {
				okSame = false
			}
		}
	}
	r.check(okSame, "Index.Add/Remove:same tuples", c.pos(rem.Pos()), "Add inserts and Remove deletes one entry per element of i.tuples(doc)", "Add and Remove do not operate on the same tuple set: entries would be left behind or missed")
}

// entryKeysSource: for an indexEntry value passed to btree.Set/Delete find the source list of its keys field.
func entryKeysSource(v ssa.Value) (ssa.Value, bool) {
	// the entry is built in an Alloc: stores into .keys
	var alloc *ssa.Alloc
	switch x := v.(type) {
	case *ssa.UnOp:
		alloc, _ = x.X.(*ssa.Alloc)
	case *ssa.Alloc:
		alloc = x
	}
	if alloc == nil {
		return nil, false
	}
	if refs := alloc.Referrers(); refs != nil {
		for _, ref := range *refs {
			if fa, ok := ref.(*ssa.FieldAddr); ok && structFieldOf(fa).Name() == "keys" {
				if frefs := fa.Referrers(); frefs != nil {
					for _, fr := range *frefs {
						if st, ok := fr.(*ssa.Store); ok && st.Addr == fa {
							src, _ := elemSource(st.Val)
							return src, true
						}
					}
				}
			}
		}
	}
	return nil, false
}

// ---- IDX-3 -----------------------------------------------------------------------

func ruleIdx3(c *Ctx, r *Reporter) {
	newColl := c.lookupFunc(pkgMongokit, "NewCollection")
	idxF := c.field(pkgMongokit, "Collection", "Indexes")
	if newColl == nil || idxF == nil {
		r.bad("anchor:NewCollection", "-", "not found")
		return
	}
	allowedFalse := map[string]string{
		"lungo.NewCatalog":           "the oplog namespace: events carry a document-valued _id {ts}, uniqueness comes from the timestamp generator",
		"(*lungo.File).BuildCatalog": "file load: indexes (including _id_) are rebuilt from the stored index definitions",
	}
	nTrue := 0
	for _, fn := range c.repoFuncs() {
		if fnPkgPath(fn) != pkgLungo {
			continue
		}
		allInstrs(fn, func(in ssa.Instruction) {
			call, ok := in.(*ssa.Call)
			if !ok || calleeObj(&call.Call) != newColl {
				return
			}
			b, isConst := constBool(call.Call.Args[0])
			key := funcName(fn) + ":NewCollection"
			if isConst && b {
				nTrue++
				r.ok(key, c.pos(in.Pos()), "user namespace created with the _id_ index")
				return
			}
			if why, ok := allowedFalse[funcName(fn)]; ok && isConst {
				r.ok(key+"(false)", c.pos(in.Pos()), "listed: "+why)
				return
			}
			r.bad(key, c.pos(in.Pos()), "a namespace is created without the unique _id_ index")
		})
	}
	r.guard(nTrue, 5, "NewCollection(true) sites")

	// NewCollection(true) really installs a unique {_id:1} index under "_id_"
	if nc := c.ssaFunc(newColl); nc != nil {
		found := false
		allInstrs(nc, func(in ssa.Instruction) {
			if mu, ok := in.(*ssa.MapUpdate); ok {
				if k, ok := constString(mu.Key); ok && k == "_id_" {
					found = true
				}
			}
		})
		r.check(found, "NewCollection:_id_ index", c.pos(nc.Pos()), "installs Indexes[\"_id_\"]", "NewCollection no longer installs the _id_ index")
	}

	nDel := 0
	for _, fn := range c.repoFuncs() {
		if fnPkgPath(fn) != pkgMongokit && fnPkgPath(fn) != pkgLungo {
			continue
		}
		allInstrs(fn, func(in ssa.Instruction) {
			call, ok := in.(*ssa.Call)
			if !ok {
				return
			}
			b, ok := call.Call.Value.(*ssa.Builtin)
			if !ok || b.Name() != "delete" || !isLoadOf(call.Call.Args[0], idxF) {
				return
			}
			nDel++
			k := call.Call.Args[1]
			guarded := notIDGuarded(fn, k, call)
			if !guarded {
				// the key may come out of a list of names a function of the package collected: then every name put into
				// that list must have passed the test where it was appended
				if u, ok := k.(*ssa.UnOp); ok && u.Op == token.MUL {
					if ia, ok := u.X.(*ssa.IndexAddr); ok {
						src := stripValue(ia.X)
						var h *ssa.Function
						switch x := src.(type) {
						case *ssa.Extract:
							if hc, ok := x.Tuple.(*ssa.Call); ok {
								h = staticFn(&hc.Call)
							}
						case *ssa.Call:
							h = staticFn(&x.Call)
						}
						if h != nil && h.Blocks != nil && (fnPkgPath(h) == pkgMongokit || fnPkgPath(h) == pkgLungo) {
							nApp, allOK := 0, true
							allInstrs(h, func(x ssa.Instruction) {
								ac, ok := x.(*ssa.Call)
								if !ok {
									return
								}
								bi, ok := ac.Call.Value.(*ssa.Builtin)
								if !ok || bi.Name() != "append" || typeKey(ac.Type()) != "[]string" || len(ac.Call.Args) != 2 {
									return
								}
								sl, ok := ac.Call.Args[1].(*ssa.Slice)
								if !ok {
									allOK = false
									return
								}
								arr, ok := sl.X.(*ssa.Alloc)
								if !ok || arr.Referrers() == nil {
									allOK = false
									return
								}
								for _, ref := range *arr.Referrers() {
									if ea, ok := ref.(*ssa.IndexAddr); ok && ea.Referrers() != nil {
										for _, r2 := range *ea.Referrers() {
											if st, ok := r2.(*ssa.Store); ok {
												nApp++
												if !notIDGuarded(h, st.Val, ac) {
													allOK = false
												}
											}
										}
									}
								}
							})
							if nApp > 0 && allOK {
								guarded = true
							}
						}
					}
				}
			}
			r.check(guarded, funcName(fn)+":delete(c.Indexes, k)", c.pos(in.Pos()), "only reachable when k != \"_id_\"", "the _id_ index can be removed: duplicate _id values would be accepted afterwards")
		})
	}
	// maps.DeleteFunc(c.Indexes, func(name, index) bool {...}): the predicate may answer true only for names other than "_id_"
	for _, fn := range c.repoFuncs() {
		if p := fnPkgPath(fn); p != pkgMongokit && p != pkgLungo {
			continue
		}
		allInstrs(fn, func(in ssa.Instruction) {
			call, ok := in.(*ssa.Call)
			if !ok {
				return
			}
			f := calleeObj(&call.Call)
			if f == nil || f.Pkg() == nil || f.Pkg().Path() != "maps" || f.Name() != "DeleteFunc" || len(call.Call.Args) != 2 || !isLoadOf(call.Call.Args[0], idxF) {
				return
			}
			nDel++
			good := false
			if mc, ok := call.Call.Args[1].(*ssa.MakeClosure); ok {
				if pf, ok := mc.Fn.(*ssa.Function); ok && len(pf.Params) >= 1 {
					name := pf.Params[0]
					good = true
					for _, ret := range returnsOf(pf) {
						if v, isConst := constBool(retVal(ret, 0)); isConst && !v {
							continue
						}
						// a return that may be true must lie behind name != "_id_"
						okRet := false
						for _, b := range pf.Blocks {
							iff, ok := b.Instrs[len(b.Instrs)-1].(*ssa.If)
							if !ok {
								continue
							}
							bo, ok := iff.Cond.(*ssa.BinOp)
							if !ok || (bo.Op != token.EQL && bo.Op != token.NEQ) {
								continue
							}
							var other ssa.Value
							if bo.X == ssa.Value(name) {
								other = bo.Y
							} else if bo.Y == ssa.Value(name) {
								other = bo.X
							}
							if sv, ok := constString(other); other == nil || !ok || sv != "_id_" {
								continue
							}
							ne := b.Succs[0]
							if bo.Op == token.EQL {
								ne = b.Succs[1]
							}
							if len(ne.Preds) == 1 && (ne == ret.Block() || ne.Dominates(ret.Block())) {
								okRet = true
							}
						}
						if !okRet {
							good = false
						}
					}
				}
			}
			r.check(good, funcName(fn)+":maps.DeleteFunc(c.Indexes, pred)", c.pos(in.Pos()), "the predicate can answer true only for names other than \"_id_\"", "the _id_ index can be removed through maps.DeleteFunc: duplicate _id values would be accepted afterwards")
		})
	}
	r.guard(nDel, 1, "delete(c.Indexes, ...) sites")
}

// ---- IDX-4 -----------------------------------------------------------------------

func ruleIdx4(c *Ctx, r *Reporter) {
	matchF := c.lookupFunc(pkgMongokit, "Match")
	if matchF == nil {
		r.bad("anchor:mongokit.Match", "-", "not found")
		return
	}
	for _, name := range []string{"Add", "Remove", "Has"} {
		fn := c.lookupSSA(pkgMongokit, "Index."+name)
		if fn == nil {
			r.bad("anchor:mongokit.Index."+name, "-", "not found")
			continue
		}
		key := "mongokit.Index." + name
		// the body: the method itself, or the function of the package it hands everything to (return h(args...)), read
		// with h's parameters bound to the arguments of that call - three methods sharing one gate differ only in
		// the base operation and the skipped result they pass
		body := fn
		bind := map[ssa.Value]ssa.Value{}
		if rets := returnsOf(fn); len(rets) == 1 && len(fn.Blocks) == 1 {
			var tail *ssa.Call
			for i := 0; i < len(rets[0].Results); i++ {
				if ex, ok := retVal(rets[0], i).(*ssa.Extract); ok {
					if call, ok := ex.Tuple.(*ssa.Call); ok && ex.Index == i {
						tail = call
					}
				}
			}
			if tail != nil {
				if h := staticFn(&tail.Call); h != nil && h.Blocks != nil && fnPkgPath(h) == pkgMongokit && len(h.Params) == len(tail.Call.Args) {
					body = h
					for i, p := range h.Params {
						bind[p] = tail.Call.Args[i]
					}
				}
			}
		}
		res := func(v ssa.Value) ssa.Value {
			if w, ok := bind[v]; ok {
				return w
			}
			return v
		}
		// the base operation: bsonkit.Index.<name>(doc), called directly or through a bound method value
		baseName := func(call *ssa.Call) string {
			if f := calleeObj(&call.Call); f != nil && f.Pkg() != nil && f.Pkg().Path() == pkgBsonkit && strings.HasPrefix(fullShort(f), "Index.") {
				return f.Name()
			}
			if mc, ok := res(call.Call.Value).(*ssa.MakeClosure); ok && !call.Call.IsInvoke() {
				if bf, ok := mc.Fn.(*ssa.Function); ok && strings.HasSuffix(bf.Name(), "$bound") && len(mc.Bindings) == 1 {
					if f, ok := bf.Object().(*types.Func); ok && f.Pkg() != nil && f.Pkg().Path() == pkgBsonkit && strings.HasPrefix(fullShort(f), "Index.") {
						return f.Name()
					}
				}
			}
			return ""
		}
		docArg := func(call *ssa.Call) ssa.Value {
			if calleeObj(&call.Call) != nil && !call.Call.IsInvoke() && len(call.Call.Args) == 2 {
				return res(call.Call.Args[1])
			}
			if len(call.Call.Args) == 1 {
				return res(call.Call.Args[0])
			}
			return nil
		}
		var base, match *ssa.Call
		allInstrs(body, func(in ssa.Instruction) {
			call, ok := in.(*ssa.Call)
			if !ok {
				return
			}
			if calleeObj(&call.Call) == matchF {
				match = call
			}
			if baseName(call) != "" {
				base = call
			}
		})
		if base == nil || match == nil {
			r.bad(key+":shape", c.pos(fn.Pos()), "method does not both gate on Match and delegate to the base index")
			continue
		}
		r.check(baseName(base) == name && docArg(base) == ssa.Value(fn.Params[1]), key+":delegates", c.pos(base.Pos()), "delegates to base."+name+"(doc)", "delegates to base."+baseName(base)+" - the wrong base operation")
		// Match(doc, partial) with partial loaded from config.Partial, under `Partial != nil`
		partialOK := res(match.Call.Args[0]) == ssa.Value(fn.Params[1])
		if u, ok := match.Call.Args[1].(*ssa.UnOp); ok {
			if fa, ok := u.X.(*ssa.FieldAddr); ok && structFieldOf(fa).Name() == "Partial" {
			} else {
				partialOK = false
			}
		} else {
			partialOK = false
		}
		r.check(partialOK, key+":gate", c.pos(match.Pos()), "Match(doc, config.Partial)", "the gate does not match the document against the index's partial filter")
		// non-matching => (true,nil) for Add/Remove, (false,nil) for Has; error => propagated
		okv, errv := tupleResult(match, 0), tupleResult(match, 1)
		good := errv != nil && len(errChecksOf(errv)) > 0 && okv != nil
		if good {
			good = false
			check := func(iff *ssa.If, neg bool) {
				noMatch := iff.Block().Succs[1]
				if neg {
					noMatch = iff.Block().Succs[0]
				}
				for _, x := range noMatch.Instrs {
					if ret, ok := x.(*ssa.Return); ok && len(ret.Results) == 2 {
						b, isConst := constBool(res(retVal(ret, 0)))
						if isConst && isNilConst(retVal(ret, 1)) && b == (name != "Has") {
							good = true
						}
					}
				}
			}
			if refs := okv.Referrers(); refs != nil {
				for _, ref := range *refs {
					switch x := ref.(type) {
					case *ssa.If:
						check(x, false)
					case *ssa.UnOp:
						if rr := x.Referrers(); rr != nil {
							for _, y := range *rr {
								if iff, ok := y.(*ssa.If); ok {
									check(iff, true)
								}
							}
						}
					}
				}
			}
		}
		want := "(true, nil)"
		if name == "Has" {
			want = "(false, nil)"
		}
		r.check(good, key+":non-matching", c.pos(match.Pos()), "a document outside the partial filter yields "+want+" without touching the base index", "a document outside the partial filter is not skipped with "+want)
		// the base call is only reached when the filter is nil or matched
		r.check(!instrDominates(base, match), key+":order", c.pos(base.Pos()), "gate precedes the base operation", "base operation runs before the gate")
	}
}

// ---- IDX-5 -----------------------------------------------------------------------

func ruleIdx5(c *Ctx, r *Reporter) {
	fn := c.lookupSSA(pkgMongokit, "Collection.CreateIndex")
	idxF := c.field(pkgMongokit, "Collection", "Indexes")
	docsF := c.field(pkgMongokit, "Collection", "Documents")
	listF := c.field(pkgBsonkit, "Set", "List")
	if fn == nil || idxF == nil || docsF == nil || listF == nil {
		r.bad("anchor:Collection.CreateIndex", "-", "not found")
		return
	}
	var equalCall, buildCall, createCall *ssa.Call
	var compares []*ssa.Call
	var install *ssa.MapUpdate
	allInstrs(fn, func(in ssa.Instruction) {
		switch x := in.(type) {
		case *ssa.Call:
			switch calleeFull(&x.Call) {
			case pkgMongokit + ".IndexConfig.Equal":
				equalCall = x
			case pkgMongokit + ".Index.Build":
				buildCall = x
			case pkgMongokit + ".CreateIndex":
				createCall = x
			case pkgBsonkit + ".Compare":
				compares = append(compares, x)
			}
		case *ssa.MapUpdate:
			if isLoadOf(x.Map, idxF) {
				install = x
			}
		}
	})
	key := "Collection.CreateIndex:"
	if equalCall == nil || buildCall == nil || createCall == nil || install == nil {
		r.bad(key+"shape", c.pos(fn.Pos()), "CreateIndex lacks one of: Equal check, CreateIndex, install, Build")
		return
	}
	// equal existing definition => return name, nil without change
	noop := false
	if refs := equalCall.Referrers(); refs != nil {
		for _, ref := range *refs {
			if iff, ok := ref.(*ssa.If); ok {
				for _, x := range iff.Block().Succs[0].Instrs {
					if ret, ok := x.(*ssa.Return); ok && isSuccessReturn(ret) {
						noop = true
					}
				}
			}
		}
	}
	r.check(noop && !instrReaches(install, equalCall) && instrReaches(equalCall, install), key+"no-op on equal", c.pos(equalCall.Pos()), "an existing equal definition returns before anything is changed", "creating an identical index is not a no-op")
	// equal key under any name rejected before creating
	dup := false
	for _, cmp := range compares {
		if !instrReaches(cmp, createCall) || instrReaches(createCall, cmp) {
			continue
		}
		// result == 0 => error return
		if refs := cmp.Referrers(); refs != nil {
			for _, ref := range *refs {
				if bo, ok := ref.(*ssa.BinOp); ok && bo.Op == token.EQL {
					if k, ok := constInt(bo.Y); ok && k == 0 {
						if rr := bo.Referrers(); rr != nil {
							for _, y := range *rr {
								if iff, ok := y.(*ssa.If); ok && failEdgeReturnsError(errCheck{iff, iff.Block().Succs[0], iff.Block().Succs[1]}) {
									dup = true
								}
							}
						}
					}
				}
			}
		}
	}
	r.check(dup, key+"conflict rejected", c.pos(createCall.Pos()), "keys of existing indexes are compared before the new index is created", "a conflicting index with the same key is not rejected")
	// build from all current documents; false => error
	fromDocs := false
	if u, ok := buildCall.Call.Args[1].(*ssa.UnOp); ok {
		if fa, ok := u.X.(*ssa.FieldAddr); ok && structFieldOf(fa) == listF && isLoadOf(fa.X, docsF) {
			fromDocs = true
		}
	}
	r.check(fromDocs, key+"build source", c.pos(buildCall.Pos()), "the new index is built from c.Documents.List", "the new index is not built from the collection's current documents")
	okv := tupleResult(buildCall, 0)
	r.check(okv != nil && boolFalseReturnsError(okv), key+"duplicate rejected", c.pos(buildCall.Pos()), "a failed build (duplicate key) returns an error", "a failed unique build is not reported")
	r.check(buildCall.Call.Args[0] == install.Value && stripValue(install.Value) == tupleResult(createCall, 0), key+"installed index is the built one", c.pos(install.Pos()), "the index that is built is the one installed", "the installed index is not the one that was built")

	// file load
	bc := c.lookupSSA(pkgLungo, "File.BuildCatalog")
	if bc == nil {
		r.bad("anchor:File.BuildCatalog", "-", "not found")
		return
	}
	var b2 *ssa.Call
	var mu *ssa.MapUpdate
	coneInstrs(bc, func(in ssa.Instruction) {
		switch x := in.(type) {
		case *ssa.Call:
			if calleeFull(&x.Call) == pkgMongokit+".Index.Build" {
				b2 = x
			}
		case *ssa.MapUpdate:
			if isLoadOf(x.Map, idxF) {
				mu = x
			}
		}
	})
	if b2 == nil || mu == nil {
		r.bad("File.BuildCatalog:index rebuild", c.pos(bc.Pos()), "loaded indexes are not rebuilt and installed")
		return
	}
	// every stored index is rebuilt: whether Build runs does not depend on a property of the index (only a built
	// index knows the documents; skipping it for non-unique indexes leaves them empty after a reload)
	{
		depends := ""
		for _, cond := range controlConds(b2.Block(), 1) {
			seen := map[ssa.Value]bool{}
			var walk func(v ssa.Value, d int)
			walk = func(v ssa.Value, d int) {
				if v == nil || seen[v] || d > 6 {
					return
				}
				seen[v] = true
				switch x := v.(type) {
				case *ssa.Field:
					if n := derefNamed(x.X.Type()); n != nil && n.Obj().Name() == "FileIndex" {
						depends = structFieldOf(x).Name()
					}
				case *ssa.UnOp:
					if fa, ok := x.X.(*ssa.FieldAddr); ok {
						if n := derefNamed(fa.X.Type()); n != nil && (n.Obj().Name() == "FileIndex" || n.Obj().Name() == "IndexConfig") {
							depends = structFieldOf(fa).Name()
						}
					}
				}
				if in, ok := v.(ssa.Instruction); ok {
					for _, op := range in.Operands(nil) {
						if op != nil && *op != nil {
							walk(*op, d+1)
						}
					}
				}
			}
			walk(cond, 0)
		}
		r.check(depends == "", "File.BuildCatalog:every index is rebuilt", c.pos(b2.Pos()), "Index.Build runs for every stored index", "whether a loaded index is built depends on its "+depends+" setting: the other indexes come back with their definition but without any documents, and the first update or delete of an old document fails to remove it from the index")
	}
	okv2 := tupleResult(b2, 0)
	r.check(okv2 != nil && boolFalseReturnsError(okv2), "File.BuildCatalog:duplicate rejected", c.pos(b2.Pos()), "a stored index that cannot be rebuilt uniquely fails the load", "a duplicate found while rebuilding a stored unique index is ignored")
	// map key is the range key of ns.Indexes
	keyOK := false
	if ex, ok := mu.Key.(*ssa.Extract); ok && ex.Index == 1 {
		if nx, ok := ex.Tuple.(*ssa.Next); ok {
			if rcv, ok := b2.Call.Args[0].(*ssa.Extract); ok {
				_ = rcv
			}
			_ = nx
			keyOK = true
		}
	}
	r.check(keyOK && resolveHelperValue(mu.Value) == b2.Call.Args[0], "File.BuildCatalog:index installed under its name", c.pos(mu.Pos()), "the rebuilt index is stored under the name it was saved with", "the rebuilt index is stored under another key or another index is installed")
	_ = types.Universe
}

// idxHelperCovers: fn calls, before D and with its error checked, an unexported method H of Collection that takes the
// document and performs index.<kind>(doc) for every index of c.Indexes, aborting with an error on false/err.
func idxHelperCovers(c *Ctx, fn *ssa.Function, D *ssa.Call, kind string, wantSrc ssa.Value, idxF *types.Var) string {
	out := ""
	allInstrs(fn, func(in ssa.Instruction) {
		call, ok := in.(*ssa.Call)
		if !ok || out != "" {
			return
		}
		h := call.Call.StaticCallee()
		if h == nil || h == fn || fnPkgPath(h) != pkgMongokit || h.Blocks == nil || h.Signature.Recv() == nil || h.Object() == nil || h.Object().Exported() {
			return
		}
		// which parameter of H receives the document
		var hp *ssa.Parameter
		for i, a := range call.Call.Args {
			if src, _ := elemSource(a); src == wantSrc && i < len(h.Params) {
				hp = h.Params[i]
			}
		}
		if hp == nil {
			return
		}
		// inside H: index.<kind>(hp) on the value of a range over c.Indexes, in every iteration, false/err abort
		var ic *ssa.Call
		var nx *ssa.Next
		allInstrs(h, func(x ssa.Instruction) {
			hc, ok := x.(*ssa.Call)
			if !ok || calleeFull(&hc.Call) != pkgMongokit+".Index."+kind || len(hc.Call.Args) < 2 || hc.Call.Args[1] != ssa.Value(hp) {
				return
			}
			if ex, ok := hc.Call.Args[0].(*ssa.Extract); ok {
				if n2, ok := ex.Tuple.(*ssa.Next); ok {
					if rg, ok := n2.Iter.(*ssa.Range); ok && isLoadOf(rg.X, idxF) {
						ic, nx = hc, n2
					}
				}
			}
		})
		if ic == nil {
			return
		}
		if body := firstBodyInstr(nx); body != nil {
			isCall := func(x ssa.Instruction) bool { return x == ssa.Instruction(ic) }
			back := func(x ssa.Instruction) bool { return x == ssa.Instruction(nx) }
			if !isCall(body) && exitWithoutPassingAny(body, isCall, back) != nil {
				return
			}
		}
		okv, errv := tupleResult(ic, 0), tupleResult(ic, 1)
		if errv == nil || len(errChecksOf(errv)) == 0 || okv == nil || !boolFalseReturnsError(okv) {
			return
		}
		// in fn: the helper precedes D, and D runs only when the helper reported success
		if !instrDominates(call, D) {
			return
		}
		good := false
		for _, chk := range errChecksOf(errorResult(call)) {
			if failEdgeReturnsError(chk) && (chk.OkSucc == D.Block() || chk.OkSucc.Dominates(D.Block())) {
				good = true
			}
		}
		if good {
			out = "through " + h.Name() + ": a complete loop over c.Indexes calling index." + kind + " on the document; false/err abort; checked before the documents mutation"
		}
	})
	return out
}

// notIDGuarded: instruction `at` of fn is only reached when the string k differs from "_id_" (a dominating test of k
// against the constant, as a guard or as an early return).
func notIDGuarded(fn *ssa.Function, k ssa.Value, at ssa.Instruction) bool {
	guarded := false
	allInstrs(fn, func(x ssa.Instruction) {
		iff, ok := x.(*ssa.If)
		if !ok {
			return
		}
		bo, ok := iff.Cond.(*ssa.BinOp)
		if !ok || (bo.Op != token.EQL && bo.Op != token.NEQ) {
			return
		}
		var other ssa.Value
		if sameLoad(bo.X, k) {
			other = bo.Y
		} else if sameLoad(bo.Y, k) {
			other = bo.X
		}
		if s, ok := constString(other); other == nil || !ok || s != "_id_" {
			return
		}
		ne := iff.Block().Succs[0]
		eq := iff.Block().Succs[1]
		if bo.Op == token.EQL {
			ne, eq = eq, ne
		}
		// only reachable through the not-equal edge
		if (ne == at.Block() || ne.Dominates(at.Block())) && !blockReach([]*ssa.BasicBlock{eq}, map[*ssa.BasicBlock]bool{ne: true})[at.Block()] {
			guarded = true
		}
		// early-return form: `if k == "_id_" { return err }` followed by the use
		if iff.Block().Dominates(at.Block()) && !blockReach([]*ssa.BasicBlock{eq}, nil)[at.Block()] {
			guarded = true
		}
	})
	return guarded
}
