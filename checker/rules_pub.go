package main

import (
	"fmt"
	"go/token"
	"go/types"
	"sort"
	"strings"

	"golang.org/x/tools/go/ssa"
)

func init() {
	register(&Rule{ID: "PUB-1", Doc: "Engine.catalog is stored only in CreateEngine and Commit; in Commit the store follows the e.txn==txn identity check and the success edge of store.Store(x), publishes the same txn.Catalog() that was stored, after Clean, before the broadcast", Run: rulePub1})
	register(&Rule{ID: "TXN-1", Doc: "a transaction obtained without the writer lock (useTransaction(...,false,...), Begin(ctx,false)) only ever receives read methods of *Transaction", Run: ruleTxn1})
	register(&Rule{ID: "TXN-2", Doc: "no back door: Engine.catalog is read only by Engine code, transactions are created only by Engine.Begin, useTransaction consults the session transaction before Begin", Run: ruleTxn2})
	register(&Rule{ID: "SIG-1", Doc: "wake-up protocol: buffered signal channel, all sends non-blocking selects, broadcast after publishing, stream registered in the critical section that reads its start position, next() waits on signal and ctx with the stream lock released", Run: ruleSig1})
	register(&Rule{ID: "SIG-2", Doc: "close/send discipline: close(signal) only under Stream.mutex guarded by !closed, after tomb.Kill and outside Engine.mutex; sends guarded the same way; every Stream path that sets closed also calls cancel()", Run: ruleSig2})
}

func isLoadOf(v ssa.Value, f *types.Var) bool {
	u, ok := v.(*ssa.UnOp)
	if !ok || u.Op != token.MUL {
		return false
	}
	_, ok = fieldAddrOf(u.X, f)
	return ok
}

// txnWriteMethods: methods of *Transaction that (directly or through static callees in package lungo) store t.catalog or t.dirty.
func txnWriteMethods(c *Ctx) map[*types.Func]bool {
	catF := c.field(pkgLungo, "Transaction", "catalog")
	dirtyF := c.field(pkgLungo, "Transaction", "dirty")
	txnT := c.lookupType(pkgLungo, "Transaction")
	out := map[*types.Func]bool{}
	if catF == nil || txnT == nil {
		return out
	}
	memo := map[*ssa.Function]int{}
	var writes func(fn *ssa.Function) bool
	writes = func(fn *ssa.Function) bool {
		if fn == nil || fn.Blocks == nil || fnPkgPath(fn) != pkgLungo {
			return false
		}
		if v, ok := memo[fn]; ok {
			return v == 1
		}
		memo[fn] = 0
		res := false
		allInstrs(fn, func(in ssa.Instruction) {
			if st, ok := in.(*ssa.Store); ok {
				if fa, ok := st.Addr.(*ssa.FieldAddr); ok {
					f := structFieldOf(fa)
					if (f == catF || f == dirtyF) && !freshLocal(fa.X, in) {
						res = true
					}
				}
			}
			if ci, ok := in.(ssa.CallInstruction); ok {
				if callee := staticFn(ci.Common()); callee != nil && writes(callee) {
					res = true
				}
			}
		})
		if res {
			memo[fn] = 1
		}
		return res
	}
	for i := 0; i < txnT.NumMethods(); i++ {
		m := txnT.Method(i)
		if writes(c.ssaFunc(m)) {
			out[m] = true
		}
	}
	return out
}

// ---- PUB-1 ---------------------------------------------------------------------

func rulePub1(c *Ctx, r *Reporter) {
	catF := c.field(pkgLungo, "Engine", "catalog")
	txnF := c.field(pkgLungo, "Engine", "txn")
	storeF := c.field(pkgLungo, "Engine", "store")
	if catF == nil || txnF == nil || storeF == nil {
		r.bad("anchor:Engine fields", "-", "not found")
		return
	}
	commit := c.lookupSSA(pkgLungo, "Engine.Commit")
	create := c.lookupSSA(pkgLungo, "CreateEngine")
	if commit == nil || create == nil {
		r.bad("anchor:Commit/CreateEngine", "-", "not found")
		return
	}
	// (a) who stores Engine.catalog
	var commitStores []*ssa.Store
	nStores := 0
	for _, fn := range c.repoFuncs() {
		allInstrs(fn, func(in ssa.Instruction) {
			st, ok := in.(*ssa.Store)
			if !ok {
				return
			}
			if _, ok := fieldAddrOf(st.Addr, catF); !ok {
				return
			}
			nStores++
			key := funcName(fn) + ":store Engine.catalog"
			switch {
			case fn == commit:
				commitStores = append(commitStores, st)
				r.ok(key, c.pos(in.Pos()), "Commit is the publish point")
			case fn == create && freshLocal(st.Addr.(*ssa.FieldAddr).X, in):
				r.ok(key, c.pos(in.Pos()), "initial catalog of an engine that is not yet published")
			default:
				r.bad(key, c.pos(in.Pos()), "the published catalog is replaced outside Commit/CreateEngine")
			}
		})
	}
	r.guard(len(commitStores), 1, "store of e.catalog in Commit")
	r.guard(nStores, 2, "stores of Engine.catalog")

	writeM := txnWriteMethods(c)
	txnCatalog := c.lookupFunc(pkgLungo, "Transaction.Catalog")
	var txnParam ssa.Value
	if len(commit.Params) >= 2 {
		txnParam = commit.Params[1]
	}

	// the Store.Store(x) call
	var storeCalls []*ssa.Call
	var selects []ssa.Instruction // the broadcast: a select in Commit, or the call of a helper of package lungo that contains it
	var cleanCalls, writeCalls []*ssa.Call
	allInstrs(commit, func(in ssa.Instruction) {
		switch x := in.(type) {
		case *ssa.Call:
			if x.Call.IsInvoke() && x.Call.Method.Name() == "Store" && isLoadOf(x.Call.Value, storeF) {
				storeCalls = append(storeCalls, x)
			}
			if f := calleeObj(&x.Call); f != nil && writeM[f] && len(x.Call.Args) > 0 && x.Call.Args[0] == txnParam {
				writeCalls = append(writeCalls, x)
				if f.Name() == "Clean" {
					cleanCalls = append(cleanCalls, x)
				}
			}
		case *ssa.Select:
			selects = append(selects, x)
		}
		if call, ok := in.(*ssa.Call); ok {
			if sf := call.Call.StaticCallee(); sf != nil && fnPkgPath(sf) == pkgLungo && sf.Blocks != nil && sf != commit {
				has := false
				allInstrs(sf, func(y ssa.Instruction) {
					if _, ok := y.(*ssa.Select); ok {
						has = true
					}
				})
				if has {
					selects = append(selects, call)
				}
			}
		}
	})
	r.guard(len(storeCalls), 1, "e.store.Store(...) call in Commit")
	r.guard(len(cleanCalls), 1, "txn.Clean(...) call in Commit")

	// source of a catalog value: a call to txn.Catalog() (or the same SSA value)
	srcCall := func(v ssa.Value) *ssa.Call {
		if call, ok := v.(*ssa.Call); ok && calleeObj(&call.Call) == txnCatalog && len(call.Call.Args) == 1 && call.Call.Args[0] == txnParam {
			return call
		}
		return nil
	}

	for _, S := range commitStores {
		key := "Engine.Commit:publish"
		// (i) identity check
		owner := false
		allInstrs(commit, func(in ssa.Instruction) {
			iff, ok := in.(*ssa.If)
			if !ok {
				return
			}
			bo, ok := iff.Cond.(*ssa.BinOp)
			if !ok || (bo.Op != token.NEQ && bo.Op != token.EQL) {
				return
			}
			var other ssa.Value
			if isLoadOf(bo.X, txnF) {
				other = bo.Y
			} else if isLoadOf(bo.Y, txnF) {
				other = bo.X
			}
			if other != txnParam || txnParam == nil {
				return
			}
			eqSucc := iff.Block().Succs[1]
			if bo.Op == token.EQL {
				eqSucc = iff.Block().Succs[0]
			}
			if eqSucc == S.Block() || (eqSucc.Dominates(S.Block()) && len(eqSucc.Preds) == 1) {
				owner = true
			}
		})
		r.check(owner, key+":identity", c.pos(S.Pos()), "dominated by the e.txn == txn branch", "the catalog is published without checking that txn is the engine's active transaction")

		// (ii) success edge of Store
		for _, sc := range storeCalls {
			okEdge := false
			for _, chk := range errChecksOf(sc) {
				if chk.OkSucc == S.Block() || (chk.OkSucc.Dominates(S.Block()) && len(chk.OkSucc.Preds) == 1) {
					okEdge = true
				}
			}
			r.check(okEdge, key+":after store accepted", c.pos(S.Pos()), "dominated by the nil-error edge of e.store.Store", "e.catalog is replaced although the store may have rejected (or not yet received) the catalog")

			// (iii) same value stored and published, no mutation in between, Clean before
			x := sc.Call.Args[0]
			v := S.Val
			same := x == v
			cx, cv := srcCall(x), srcCall(v)
			if !same && cx != nil && cv != nil {
				same = true
				for _, w := range writeCalls {
					if instrReaches(cx, w) {
						same = false
					}
				}
			}
			r.check(same, key+":same catalog", c.pos(S.Pos()), "the published value and the persisted value are the transaction's catalog with no write in between", "what is persisted and what is published may differ")
			src := cx
			if src == nil {
				if call, ok := x.(*ssa.Call); ok {
					src = call
				}
			}
			for _, cl := range cleanCalls {
				before := src != nil && instrDominates(cl, src)
				r.check(before, key+":clean before store", c.pos(cl.Pos()), "txn.Clean precedes reading the catalog that is persisted", "the persisted catalog is read before retention ran (file and memory diverge)")
			}
		}
		// (iv) broadcast after publish
		for _, sel := range selects {
			r.check(instrDominates(S, sel), key+":broadcast after publish", c.pos(sel.Pos()), "signal is sent after e.catalog was replaced", "streams are woken before the new catalog is visible (lost wake-up)")
		}
	}
	r.guard(len(selects), 1, "broadcast select in Commit")
	// (v) every way out of Commit after the publish store goes through the loop over e.streams:
	// no early return between publishing and waking the consumers
	streamsF := c.field(pkgLungo, "Engine", "streams")
	if streamsF != nil {
		for _, S := range pubStoresOf(c, "Engine.Commit") {
			isStreamLoop := func(in ssa.Instruction) bool {
				rg, ok := in.(*ssa.Range)
				return ok && isLoadOf(rg.X, streamsF)
			}
			passLoop := func(in ssa.Instruction) bool {
				if isStreamLoop(in) {
					return true
				}
				// a helper of package lungo that contains the loop (broadcast extracted into a method)
				if call, ok := in.(*ssa.Call); ok {
					if sf := call.Call.StaticCallee(); sf != nil && fnPkgPath(sf) == pkgLungo && sf.Blocks != nil {
						found := false
						allInstrs(sf, func(x ssa.Instruction) {
							if isStreamLoop(x) {
								found = true
							}
						})
						return found
					}
				}
				return false
			}
			bad := exitWithoutPassing(S, passLoop, nil)
			if bad != nil {
				r.bad("Engine.Commit:publish:every stream is woken", c.pos(S.Pos()), fmt.Sprintf("the exit at %s is reached after e.catalog was replaced without going through the loop over e.streams: a consumer blocked in Next is not woken by this commit", c.pos(bad.Pos())))
			} else {
				r.ok("Engine.Commit:publish:every stream is woken", c.pos(S.Pos()), "every way out after the publish store passes the loop over e.streams")
			}
		}
	}
}

// pubStoresOf: the stores to Engine.catalog in the named function.
func pubStoresOf(c *Ctx, fname string) []*ssa.Store {
	fn := c.lookupSSA(pkgLungo, fname)
	catF := c.field(pkgLungo, "Engine", "catalog")
	var out []*ssa.Store
	if fn == nil || catF == nil {
		return nil
	}
	allInstrs(fn, func(in ssa.Instruction) {
		if st, ok := in.(*ssa.Store); ok {
			if fa, ok := st.Addr.(*ssa.FieldAddr); ok && structFieldOf(fa) == catF {
				out = append(out, st)
			}
		}
	})
	return out
}

// ---- TXN-1 ---------------------------------------------------------------------

func ruleTxn1(c *Ctx, r *Reporter) {
	use := c.lookupFunc(pkgLungo, "useTransaction")
	begin := c.lookupFunc(pkgLungo, "Engine.Begin")
	txnT := c.lookupType(pkgLungo, "Transaction")
	if use == nil || begin == nil || txnT == nil {
		r.bad("anchor:useTransaction/Begin", "-", "not found")
		return
	}
	writeM := txnWriteMethods(c)
	r.guard(len(writeM), 10, "write methods of *Transaction")

	// methods called on value v (a *Transaction) inside fn (following phis is not needed: the parameter is used directly)
	methodsOn := func(fn *ssa.Function, v ssa.Value) (reads, writes []string) {
		allInstrs(fn, func(in ssa.Instruction) {
			ci, ok := in.(ssa.CallInstruction)
			if !ok {
				return
			}
			f := calleeObj(ci.Common())
			if f == nil || len(ci.Common().Args) == 0 || ci.Common().Args[0] != v {
				return
			}
			if sig := f.Type().(*types.Signature); sig.Recv() == nil || derefNamed(sig.Recv().Type()) != txnT {
				return
			}
			if writeM[f] {
				writes = append(writes, f.Name())
			} else {
				reads = append(reads, f.Name())
			}
		})
		return
	}
	nTrue, nFalse := 0, 0
	for _, fn := range c.repoFuncs() {
		if fnPkgPath(fn) != pkgLungo {
			continue
		}
		allInstrs(fn, func(in ssa.Instruction) {
			call, ok := in.(*ssa.Call)
			if !ok {
				return
			}
			switch calleeObj(&call.Call) {
			case use:
				lock, isConst := constBool(call.Call.Args[2])
				key := funcName(fn) + ":useTransaction"
				var cb *ssa.Function
				if mc, ok := call.Call.Args[3].(*ssa.MakeClosure); ok {
					cb, _ = mc.Fn.(*ssa.Function)
				} else if f, ok := call.Call.Args[3].(*ssa.Function); ok {
					cb = f
				}
				if !isConst || cb == nil || len(cb.Params) == 0 {
					r.unk(key, c.pos(call.Pos()), "lock flag or callback is not a literal; cannot match them")
					return
				}
				reads, writes := methodsOn(cb, cb.Params[0])
				sort.Strings(reads)
				sort.Strings(writes)
				if lock {
					nTrue++
					r.ok(key+"(lock)", c.pos(call.Pos()), fmt.Sprintf("locked; calls %v %v", writes, reads))
				} else {
					nFalse++
					r.check(len(writes) == 0, key+"(snapshot)", c.pos(call.Pos()), fmt.Sprintf("unlocked snapshot only reads: %v", reads),
						fmt.Sprintf("write method(s) %v are called on an unlocked snapshot transaction: the change is silently discarded / races with writers", writes))
				}
			case begin:
				lock, isConst := constBool(call.Call.Args[2])
				if !isConst || lock {
					return
				}
				txn := tupleResult(call, 0)
				if txn == nil {
					return
				}
				_, writes := methodsOn(fn, txn)
				r.check(len(writes) == 0, funcName(fn)+":Begin(false)", c.pos(call.Pos()), "unlocked snapshot only reads", fmt.Sprintf("write method(s) %v on an unlocked transaction", writes))
			}
		})
	}
	r.guard(nTrue, 8, "useTransaction(lock=true) sites")
	r.guard(nFalse, 5, "useTransaction(lock=false) sites")

	// inside useTransaction the callback must get the transaction returned by Begin (or the session's)
	if fn := c.ssaFunc(use); fn != nil {
		var beginCall *ssa.Call
		allInstrs(fn, func(in ssa.Instruction) {
			if call, ok := in.(*ssa.Call); ok && calleeObj(&call.Call) == begin {
				beginCall = call
			}
		})
		if beginCall == nil {
			r.bad("useTransaction:Begin", c.pos(fn.Pos()), "useTransaction does not call Engine.Begin")
		} else {
			// the lock flag passed to Begin is the parameter itself
			r.check(beginCall.Call.Args[2] == fn.Params[2], "useTransaction:lock flag forwarded", c.pos(beginCall.Pos()), "Begin receives the caller's lock flag unchanged", "Begin is not called with the caller's lock flag")
		}
	}
}

// ---- TXN-2 ---------------------------------------------------------------------

func ruleTxn2(c *Ctx, r *Reporter) {
	catF := c.field(pkgLungo, "Engine", "catalog")
	engT := c.lookupType(pkgLungo, "Engine")
	newTxn := c.lookupFunc(pkgLungo, "NewTransaction")
	begin := c.lookupFunc(pkgLungo, "Engine.Begin")
	use := c.lookupSSA(pkgLungo, "useTransaction")
	sessTxn := c.lookupFunc(pkgLungo, "Session.Transaction")
	if catF == nil || engT == nil || newTxn == nil || begin == nil || use == nil || sessTxn == nil {
		r.bad("anchor:TXN-2", "-", "not found")
		return
	}
	isEngineCode := func(fn *ssa.Function) bool {
		top := outermost(fn)
		if top.Name() == "CreateEngine" {
			return true
		}
		if recv := top.Signature.Recv(); recv != nil && derefNamed(recv.Type()) == engT {
			return true
		}
		return false
	}
	nReads, nNew := 0, 0
	for _, fn := range c.repoFuncs() {
		if fnPkgPath(fn) != pkgLungo {
			continue
		}
		allInstrs(fn, func(in ssa.Instruction) {
			if fa, ok := in.(*ssa.FieldAddr); ok && structFieldOf(fa) == catF {
				nReads++
				r.check(isEngineCode(fn), funcName(fn)+":access Engine.catalog", c.pos(in.Pos()), "engine code", "the published catalog is accessed outside the engine (bypasses transactions)")
			}
			if call, ok := in.(*ssa.Call); ok && calleeObj(&call.Call) == newTxn {
				nNew++
				top := outermost(fn)
				r.check(c.ssaFunc(begin) == top || inCone(c.ssaFunc(begin), top), funcName(fn)+":NewTransaction", c.pos(in.Pos()), "transactions are created by Engine.Begin", "a transaction is created outside Engine.Begin (not registered with the engine)")
			}
		})
	}
	r.guard(nReads, 4, "accesses of Engine.catalog")
	r.guard(nNew, 2, "NewTransaction call sites")

	var sessCall, beginCall ssa.Instruction
	allInstrs(use, func(in ssa.Instruction) {
		if call, ok := in.(*ssa.Call); ok {
			switch calleeObj(&call.Call) {
			case sessTxn:
				sessCall = in
			case begin:
				beginCall = in
			}
		}
	})
	if sessCall == nil || beginCall == nil {
		r.bad("useTransaction:session first", c.pos(use.Pos()), "useTransaction does not consult Session.Transaction() and Engine.Begin")
	} else {
		// Begin must not be reachable without having looked at the session when one is present:
		// the block that calls Begin is reached either from the no-session edge or after sessCall
		r.check(instrReaches(sessCall, beginCall) && !instrReaches(beginCall, sessCall), "useTransaction:session first", c.pos(sessCall.Pos()),
			"the session's transaction is consulted before a new one is begun", "Begin is called before the session transaction is consulted")
		// the session's transaction must be handed to the callback
		handed := false
		res := sessCall.(*ssa.Call)
		allInstrs(use, func(in ssa.Instruction) {
			if call, ok := in.(*ssa.Call); ok && isFuncParamCall(use, &call.Call) && len(call.Call.Args) == 1 && call.Call.Args[0] == res {
				handed = true
			}
		})
		r.check(handed, "useTransaction:session txn used", c.pos(sessCall.Pos()), "the callback runs on the session's transaction when there is one", "the session transaction is looked up but the callback does not run on it")
		// every path that reaches Begin has established "no session in the context" or "the session has no transaction";
		// in particular the choice does not depend on the kind of call (lock)
		paths, ends, trunc := enumPaths(use.Blocks[0], nil, func(b *ssa.BasicBlock) bool { return b == beginCall.Block() }, 4096)
		if trunc {
			r.unk("useTransaction:session always wins", c.pos(use.Pos()), "too many paths")
			return
		}
		bad := ""
		nb := 0
		for pi, p := range paths {
			if ends[pi] != beginCall.Block() {
				continue
			}
			nb++
			justified := false
			for _, d := range p {
				// the comma-ok of the session lookup being false
				if ex, ok := d.cond.(*ssa.Extract); ok && ex.Index == 1 {
					if ta, ok := ex.Tuple.(*ssa.TypeAssert); ok && ta.CommaOk && !d.taken {
						if n := derefNamed(ta.AssertedType); n != nil && n.Obj().Name() == "Session" {
							justified = true
						}
					}
				}
				// the session found in the context being nil
				if bo, ok := d.cond.(*ssa.BinOp); ok && (bo.Op == token.NEQ || bo.Op == token.EQL) {
					isSess := func(v ssa.Value) bool {
						if ex, ok := v.(*ssa.Extract); ok {
							v = ex.Tuple
						}
						ta, ok := v.(*ssa.TypeAssert)
						if !ok {
							return false
						}
						n := derefNamed(ta.AssertedType)
						return n != nil && n.Obj().Name() == "Session"
					}
					if (isSess(bo.X) && isNilConst(bo.Y)) || (isSess(bo.Y) && isNilConst(bo.X)) {
						if (bo.Op == token.NEQ) != d.taken {
							justified = true
						}
					}
				}
				// the session's transaction being nil
				if bo, ok := d.cond.(*ssa.BinOp); ok && (bo.Op == token.NEQ || bo.Op == token.EQL) {
					if (bo.X == ssa.Value(res) && isNilConst(bo.Y)) || (bo.Y == ssa.Value(res) && isNilConst(bo.X)) {
						if (bo.Op == token.NEQ) != d.taken {
							justified = true
						}
					}
				}
			}
			if !justified && bad == "" {
				bad = "a path reaches Engine.Begin although the context carries a session with an active transaction"
			}
		}
		if nb == 0 {
			r.bad("useTransaction:session always wins", c.pos(use.Pos()), "no path reaches Engine.Begin")
		} else {
			r.check(bad == "", "useTransaction:session always wins", c.pos(beginCall.Pos()), fmt.Sprintf("all %d paths to Begin have established that there is no session transaction", nb), bad+" (e.g. only writes join it): reads inside a transaction then do not see the transaction's own writes")
		}
	}
}

// ---- SIG-1 / SIG-2 ----------------------------------------------------------------

func ruleSig1(c *Ctx, r *Reporter) {
	ls := locksets(c)
	sigF := c.field(pkgLungo, "Stream", "signal")
	catF := c.field(pkgLungo, "Engine", "catalog")
	streamsF := c.field(pkgLungo, "Engine", "streams")
	if sigF == nil || catF == nil || streamsF == nil {
		r.bad("anchor:Stream.signal", "-", "not found")
		return
	}
	// channel creation
	nMake := 0
	for _, fn := range c.repoFuncs() {
		if fnPkgPath(fn) != pkgLungo {
			continue
		}
		allInstrs(fn, func(in ssa.Instruction) {
			st, ok := in.(*ssa.Store)
			if !ok {
				return
			}
			if _, ok := fieldAddrOf(st.Addr, sigF); !ok {
				return
			}
			mk, ok := st.Val.(*ssa.MakeChan)
			if !ok {
				r.bad(funcName(fn)+":signal channel", c.pos(in.Pos()), "Stream.signal is not assigned a freshly made channel")
				return
			}
			nMake++
			n, isConst := constInt(mk.Size)
			r.check(isConst && n >= 1, funcName(fn)+":signal channel", c.pos(in.Pos()), fmt.Sprintf("buffered with constant capacity %d: a signal sent while the consumer is not waiting is not lost", n),
				"the signal channel is unbuffered: a non-blocking send while the consumer is busy is dropped (lost wake-up)")
		})
	}
	r.guard(nMake, 1, "creation of Stream.signal")

	// sends
	isSignalChan := func(v ssa.Value) bool {
		if isLoadOf(v, sigF) {
			return true
		}
		return false
	}
	nSend := 0
	for _, fn := range c.repoFuncs() {
		if fnPkgPath(fn) != pkgLungo {
			continue
		}
		allInstrs(fn, func(in ssa.Instruction) {
			switch x := in.(type) {
			case *ssa.Send:
				if isSignalChan(x.Chan) {
					nSend++
					r.bad(funcName(fn)+":send on signal", c.pos(in.Pos()), "blocking send on Stream.signal")
				}
			case *ssa.Select:
				for _, st := range x.States {
					if st.Dir == types.SendOnly && isSignalChan(st.Chan) {
						nSend++
						r.check(!x.Blocking, funcName(fn)+":send on signal", c.pos(in.Pos()), "select with default", "select without default may block the committer")
					}
				}
			}
		})
	}
	r.guard(nSend, 2, "sends on Stream.signal (Commit broadcast, Stream.Close)")

	// Watch: registration and start position in one critical section
	watch := c.lookupSSA(pkgLungo, "Engine.Watch")
	if watch == nil {
		r.bad("anchor:Engine.Watch", "-", "not found")
	} else {
		var reg ssa.Instruction
		var reads []ssa.Instruction
		var unlocks []ssa.Instruction
		allInstrs(watch, func(in ssa.Instruction) {
			switch x := in.(type) {
			case *ssa.MapUpdate:
				if isLoadOf(x.Map, streamsF) {
					reg = in
				}
			case *ssa.UnOp:
				if isLoadOf(x, catF) {
					reads = append(reads, in)
				}
			case *ssa.Call:
				if op, ok := ls.lockOpOf(&x.Call); ok && !op.acquire && ls.info.names[op.lock] == "lungo.Engine.mutex" {
					unlocks = append(unlocks, in)
				}
			}
		})
		if reg == nil || len(reads) == 0 {
			r.bad("Engine.Watch:register", c.pos(watch.Pos()), "Watch does not both read the oplog position and register the stream in e.streams")
		} else {
			good := ls.mustHold(reg, "lungo.Engine.mutex")
			for _, rd := range reads {
				if !ls.mustHold(rd, "lungo.Engine.mutex") {
					good = false
				}
				for _, u := range unlocks {
					if instrReaches(rd, u) && instrReaches(u, reg) {
						good = false
					}
				}
			}
			r.check(good, "Engine.Watch:register", c.pos(reg.Pos()), "start position read and registration happen in one Engine.mutex critical section (no commit can slip between them unseen)",
				"a commit between reading the start position and registering the stream would neither be in the snapshot nor signalled")
		}
	}

	// next(): the blocking select waits for signal and ctx.Done with the stream lock released
	next := c.lookupSSA(pkgLungo, "Stream.next")
	if next == nil {
		r.bad("anchor:Stream.next", "-", "not found")
		return
	}
	nSel := 0
	allInstrs(next, func(in ssa.Instruction) {
		sel, ok := in.(*ssa.Select)
		if !ok || !sel.Blocking {
			return
		}
		nSel++
		hasSig, hasDone := false, false
		for _, st := range sel.States {
			if st.Dir != types.RecvOnly {
				continue
			}
			if isSignalChan(st.Chan) {
				hasSig = true
			}
			if call, ok := st.Chan.(*ssa.Call); ok && call.Call.IsInvoke() && call.Call.Method.Name() == "Done" {
				hasDone = true
			}
		}
		r.check(hasSig && hasDone, "Stream.next:wait", c.pos(in.Pos()), "waits on the stream's signal channel and on ctx.Done()", "the blocking wait misses the signal channel or ctx.Done(): the consumer cannot be woken by commits/close or by cancellation")
		r.check(!ls.mayHold(in, "lungo.Stream.mutex"), "Stream.next:wait unlocked", c.pos(in.Pos()), "Stream.mutex is released while waiting", "waits while holding Stream.mutex: Close() and the engine shutdown block behind it")
	})
	r.guard(nSel, 1, "blocking select in Stream.next")
}

func ruleSig2(c *Ctx, r *Reporter) {
	ls := locksets(c)
	sigF := c.field(pkgLungo, "Stream", "signal")
	closedF := c.field(pkgLungo, "Stream", "closed")
	cancelF := c.field(pkgLungo, "Stream", "cancel")
	streamT := c.lookupType(pkgLungo, "Stream")
	if sigF == nil || closedF == nil || cancelF == nil || streamT == nil {
		r.bad("anchor:Stream fields", "-", "not found")
		return
	}
	// guardedByNotClosed: instruction is dominated by the false edge of a test of load(closed)
	guardedByNotClosed := func(fn *ssa.Function, at ssa.Instruction) bool {
		okk := false
		allInstrs(fn, func(in ssa.Instruction) {
			iff, ok := in.(*ssa.If)
			if !ok {
				return
			}
			cond := iff.Cond
			neg := false
			for {
				if u, ok := cond.(*ssa.UnOp); ok && u.Op == token.NOT {
					cond = u.X
					neg = !neg
					continue
				}
				break
			}
			// conditions like `s.error != nil || s.closed` are compiled to chained ifs, each on a single load
			if !isLoadOf(cond, closedF) {
				return
			}
			notClosed := iff.Block().Succs[1]
			if neg {
				notClosed = iff.Block().Succs[0]
			}
			if notClosed == at.Block() || notClosed.Dominates(at.Block()) {
				// the edge must be the only way into notClosed for the guard to hold
				if len(notClosed.Preds) == 1 {
					okk = true
				}
			}
		})
		return okk
	}
	nClose, nSend := 0, 0
	for _, fn := range c.repoFuncs() {
		if fnPkgPath(fn) != pkgLungo {
			continue
		}
		var kill ssa.Instruction
		allInstrs(fn, func(in ssa.Instruction) {
			if call, ok := in.(*ssa.Call); ok {
				if isTombCall(call, "Kill") {
					kill = in
				} else if h := staticFn(&call.Call); h != nil && h != fn && tombDeadAfter(h) {
					// a function of the repo that returns only with the tomb dead (killed here or found dead)
					kill = in
				}
			}
		})
		allInstrs(fn, func(in ssa.Instruction) {
			switch x := in.(type) {
			case *ssa.Call:
				if b, ok := x.Call.Value.(*ssa.Builtin); ok && b.Name() == "close" && isLoadOf(x.Call.Args[0], sigF) {
					nClose++
					key := funcName(fn) + ":close(signal)"
					var problems []string
					if !ls.mustHold(in, "lungo.Stream.mutex") {
						problems = append(problems, "not under Stream.mutex")
					}
					if !guardedByNotClosed(fn, in) {
						problems = append(problems, "not guarded by !closed (double close panics)")
					}
					if ls.mayHold(in, "lungo.Engine.mutex") {
						problems = append(problems, "Engine.mutex may be held (inverts Stream.mutex -> Engine.mutex order)")
					}
					if (kill == nil || !instrDominates(kill, in)) && !onlyCalledAfterKill(c, fn) {
						problems = append(problems, "not preceded by tomb.Kill (a Commit could still send on the closed channel)")
					}
					if len(problems) == 0 {
						r.ok(key, c.pos(in.Pos()), "under Stream.mutex, guarded by !closed, after tomb.Kill, outside Engine.mutex")
					} else {
						r.bad(key, c.pos(in.Pos()), strings.Join(problems, "; "))
					}
				}
			case *ssa.Select:
				for _, st := range x.States {
					if st.Dir == types.SendOnly && isLoadOf(st.Chan, sigF) {
						nSend++
						key := funcName(fn) + ":send guard"
						recv := fn.Signature.Recv()
						if recv != nil && derefNamed(recv.Type()) == streamT {
							good := ls.mustHold(in, "lungo.Stream.mutex") && guardedByNotClosed(fn, in)
							r.check(good, key, c.pos(in.Pos()), "under Stream.mutex and guarded by !closed", "send on the signal channel that may already be closed (panic)")
						} else {
							// engine side: must be in a critical section that checked tomb.Alive()
							alive := false
							allInstrs(fn, func(a ssa.Instruction) {
								if call, ok := a.(*ssa.Call); ok {
									if f := calleeObj(&call.Call); f != nil && f.Pkg() != nil && f.Pkg().Path() == "gopkg.in/tomb.v2" && f.Name() == "Alive" && instrDominates(a, in) {
										alive = true
									}
								}
							})
							if !alive {
								alive = aliveCheckedAtAllCallers(c, fn, 0)
							}
							good := alive && ls.mustHold(in, "lungo.Engine.mutex")
							r.check(good, key, c.pos(in.Pos()), "engine-side send happens under Engine.mutex after a tomb.Alive() check (channels are closed only after Kill under that mutex)", "engine-side send without liveness check under Engine.mutex: may hit a closed channel")
						}
					}
				}
			}
		})
	}
	r.guard(nClose, 1, "close(stream.signal) sites")
	r.guard(nSend, 2, "select-sends on Stream.signal")

	// closed=true in Stream methods is paired with cancel()
	nClosed := 0
	var streamFns []*ssa.Function
	for i := 0; i < streamT.NumMethods(); i++ {
		if m := c.ssaFunc(streamT.Method(i)); m != nil && m.Blocks != nil {
			// with the function literals written inside the method (a local `terminate := func() {...}`)
			streamFns = append(streamFns, withClosures(m)...)
		}
	}
	for _, fn := range streamFns {
		var cancels []ssa.Instruction
		allInstrs(fn, func(in ssa.Instruction) {
			if call, ok := in.(*ssa.Call); ok && !call.Call.IsInvoke() && isLoadOf(call.Call.Value, cancelF) {
				cancels = append(cancels, in)
			}
		})
		allInstrs(fn, func(in ssa.Instruction) {
			st, ok := in.(*ssa.Store)
			if !ok {
				return
			}
			if _, ok := fieldAddrOf(st.Addr, closedF); !ok {
				return
			}
			if b, ok := constBool(st.Val); !ok || !b {
				return
			}
			nClosed++
			paired := false
			for _, cc := range cancels {
				if instrDominates(cc, in) || instrDominates(in, cc) {
					if cc.Block() == in.Block() {
						paired = true
					}
				}
			}
			if !paired && onlyCalledAfterKill(c, fn) {
				r.ok(funcName(fn)+":closed=true", c.pos(in.Pos()), "shutdown path: only reached after tomb.Kill, the engine's broadcast set is dead")
				return
			}
			r.check(paired, funcName(fn)+":closed=true", c.pos(in.Pos()), "cancel() is called in the same step (the stream is removed from the engine's broadcast set)",
				"the stream is marked closed without cancel(): it stays registered in Engine.streams forever")
			r.check(ls.mustHold(in, "lungo.Stream.mutex"), funcName(fn)+":closed=true locked", c.pos(in.Pos()), "under Stream.mutex", "closed is set without Stream.mutex")
		})
	}
	r.guard(nClosed, 4, "closed=true stores in Stream methods")
}

// onlyCalledAfterKill: every static call site of fn (in package lungo) is dominated by a tomb.Kill call.
func onlyCalledAfterKill(c *Ctx, fn *ssa.Function) bool {
	sites := 0
	okAll := true
	for _, caller := range c.repoFuncs() {
		if fnPkgPath(caller) != pkgLungo {
			continue
		}
		var kills []ssa.Instruction
		allInstrs(caller, func(in ssa.Instruction) {
			if call, ok := in.(*ssa.Call); ok {
				if f := calleeObj(&call.Call); f != nil && f.Pkg() != nil && f.Pkg().Path() == "gopkg.in/tomb.v2" && f.Name() == "Kill" {
					kills = append(kills, in)
				}
			}
		})
		allInstrs(caller, func(in ssa.Instruction) {
			ci, ok := in.(ssa.CallInstruction)
			if !ok || staticFn(ci.Common()) != fn {
				return
			}
			sites++
			dom := false
			for _, k := range kills {
				if instrDominates(k, in) {
					dom = true
				}
			}
			if !dom {
				okAll = false
			}
		})
	}
	return sites > 0 && okAll
}

// aliveCheckedAtAllCallers: fn is an unexported helper and each of its static call sites in package lungo is dominated by a tomb.Alive() call.
func aliveCheckedAtAllCallers(c *Ctx, fn *ssa.Function, depth int) bool {
	if depth > 2 || fn.Object() == nil || fn.Object().Exported() {
		return false
	}
	sites, good := 0, 0
	for _, g := range c.repoFuncs() {
		if fnPkgPath(g) != pkgLungo {
			continue
		}
		allInstrs(g, func(in ssa.Instruction) {
			ci, ok := in.(ssa.CallInstruction)
			if !ok || ci.Common().StaticCallee() != fn {
				return
			}
			sites++
			alive := false
			allInstrs(g, func(a ssa.Instruction) {
				if call, ok := a.(*ssa.Call); ok {
					if f := calleeObj(&call.Call); f != nil && f.Pkg() != nil && f.Pkg().Path() == "gopkg.in/tomb.v2" && f.Name() == "Alive" && instrDominates(a, in) {
						alive = true
					}
				}
			})
			if alive || aliveCheckedAtAllCallers(c, g, depth+1) {
				good++
			}
		})
	}
	return sites > 0 && sites == good
}

func isTombCall(call *ssa.Call, name string) bool {
	f := calleeObj(&call.Call)
	return f != nil && f.Pkg() != nil && f.Pkg().Path() == "gopkg.in/tomb.v2" && f.Name() == name
}

// tombDeadAfter: h is a repo function that contains a tomb.Kill and whose every path from entry to a return passes
// it, or leaves through the not-alive edge of a tomb.Alive() test (the tomb was killed before).
func tombDeadAfter(h *ssa.Function) bool {
	if h == nil || h.Blocks == nil || fnPkgPath(h) != pkgLungo {
		return false
	}
	hasKill := false
	deadEntry := map[ssa.Instruction]bool{}
	allInstrs(h, func(in ssa.Instruction) {
		call, ok := in.(*ssa.Call)
		if !ok {
			return
		}
		if isTombCall(call, "Kill") {
			hasKill = true
		}
		if !isTombCall(call, "Alive") || call.Referrers() == nil {
			return
		}
		for _, ref := range *call.Referrers() {
			var iff *ssa.If
			dead := 1
			switch x := ref.(type) {
			case *ssa.If:
				iff = x
			case *ssa.UnOp:
				if x.Op == token.NOT && x.Referrers() != nil {
					for _, rr := range *x.Referrers() {
						if i2, ok := rr.(*ssa.If); ok {
							iff, dead = i2, 0
						}
					}
				}
			}
			if iff == nil {
				continue
			}
			succ := iff.Block().Succs[dead]
			if len(succ.Preds) == 1 && len(succ.Instrs) > 0 {
				deadEntry[succ.Instrs[0]] = true
			}
		}
	})
	if !hasKill {
		return false
	}
	pass := func(in ssa.Instruction) bool {
		if deadEntry[in] {
			return true
		}
		call, ok := in.(*ssa.Call)
		return ok && isTombCall(call, "Kill")
	}
	return exitWithoutPassing(h.Blocks[0].Instrs[0], pass, nil) == nil
}
