package main

import (
	_ "embed"
	"fmt"
	"os"
	"path/filepath"

	"golang.org/x/tools/go/packages"
	"golang.org/x/tools/go/ssa"
	"golang.org/x/tools/go/ssa/ssautil"
)

//go:embed testdata/positive/go.mod.txt
var posMod []byte

//go:embed testdata/positive/pos.go.txt
var posSrc []byte

var posCache map[string]*ssa.Function

// positiveFuncs loads the embedded positive-example package (std-only module, written to a
// throw-away directory) and returns its functions by name.
func positiveFuncs() (map[string]*ssa.Function, error) {
	if posCache != nil {
		return posCache, nil
	}
	dir, err := os.MkdirTemp("", "lungocheck-positive-")
	if err != nil {
		return nil, err
	}
	defer os.RemoveAll(dir)
	if err := os.WriteFile(filepath.Join(dir, "go.mod"), posMod, 0o644); err != nil {
		return nil, err
	}
	if err := os.WriteFile(filepath.Join(dir, "pos.go"), posSrc, 0o644); err != nil {
		return nil, err
	}
	cfg := &packages.Config{Mode: packages.LoadAllSyntax, Dir: dir, Env: append(os.Environ(), "GOFLAGS=-mod=mod", "GOPROXY=off", "GOWORK=off")}
	pkgs, err := packages.Load(cfg, ".")
	if err != nil {
		return nil, err
	}
	if packages.PrintErrors(pkgs) > 0 || len(pkgs) != 1 {
		return nil, fmt.Errorf("positive example package does not type-check")
	}
	prog, spkgs := ssautil.AllPackages(pkgs, ssa.InstantiateGenerics)
	prog.Build()
	out := map[string]*ssa.Function{}
	for _, m := range spkgs[0].Members {
		if fn, ok := m.(*ssa.Function); ok {
			out[fn.Name()] = fn
		}
	}
	posCache = out
	return out, nil
}

// positiveCheck: predicate must report >=1 finding in function `bad` and none in `good` ("" to skip).
func positiveCheck(r *Reporter, what, bad, good string, count func(fn *ssa.Function) int) {
	fns, err := positiveFuncs()
	if err != nil {
		r.unk("positive-example:"+what, "-", "cannot load the positive example package: "+err.Error())
		return
	}
	b := fns[bad]
	if b == nil {
		r.unk("positive-example:"+what, "-", "function "+bad+" missing from the positive example package")
		return
	}
	n := count(b)
	if n == 0 {
		r.unk("positive-example:"+what, "-", "the rule no longer finds its known-bad example "+bad+": it has gone blind")
		return
	}
	if good != "" && fns[good] != nil {
		if m := count(fns[good]); m != 0 {
			r.unk("positive-example:"+what, "-", "the rule fires on its known-good example "+good)
			return
		}
	}
	r.trivial("positive-example:"+what, "-", fmt.Sprintf("rule fires on the embedded known-bad example %s (%d finding(s)) and is silent on %s", bad, n, good))
}
