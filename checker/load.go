package main

import (
	"fmt"
	"go/ast"
	"go/token"
	"go/types"
	"os"
	"path/filepath"
	"sort"
	"strings"

	"golang.org/x/tools/go/callgraph"
	"golang.org/x/tools/go/callgraph/cha"
	"golang.org/x/tools/go/callgraph/vta"
	"golang.org/x/tools/go/packages"
	"golang.org/x/tools/go/ssa"
	"golang.org/x/tools/go/ssa/ssautil"
)

// The four packages of the module under analysis.
const (
	pkgLungo    = "github.com/256dpi/lungo"
	pkgBsonkit  = "github.com/256dpi/lungo/bsonkit"
	pkgMongokit = "github.com/256dpi/lungo/mongokit"
	pkgDbkit    = "github.com/256dpi/lungo/dbkit"
)

var repoPkgs = []string{pkgLungo, pkgBsonkit, pkgMongokit, pkgDbkit}

// Ctx is the resolved program all rules work on.
type Ctx struct {
	Repo  string
	Fset  *token.FileSet
	Pkgs  map[string]*packages.Package // by path, repo packages only
	Prog  *ssa.Program
	SSA   map[string]*ssa.Package
	graph *callgraph.Graph

	// indexes
	declOf map[*types.Func]*ast.FuncDecl
	pkgOf  map[*types.Func]*packages.Package
	litOf  map[*ast.FuncLit]*ssa.Function

	Stats struct {
		Packages  int
		Files     int
		Functions int
		CGEdges   int
	}
}

// loadError is an error that means /repo cannot be analysed at all.
type loadError struct{ msg string }

func (e loadError) Error() string { return e.msg }

func loadRepo(repo string, needSSA bool) (*Ctx, error) {
	_ = os.Unsetenv("GOWORK")
	cfg := &packages.Config{
		Mode:  packages.LoadAllSyntax,
		Dir:   repo,
		Tests: false,
		Env:   append(os.Environ(), "GOFLAGS=-mod=mod", "GOPROXY=off", "GOWORK=off"),
	}
	pkgs, err := packages.Load(cfg, "./...")
	if err != nil {
		return nil, loadError{fmt.Sprintf("packages.Load: %v", err)}
	}
	c := &Ctx{
		Repo:   repo,
		Pkgs:   map[string]*packages.Package{},
		SSA:    map[string]*ssa.Package{},
		declOf: map[*types.Func]*ast.FuncDecl{},
		pkgOf:  map[*types.Func]*packages.Package{},
		litOf:  map[*ast.FuncLit]*ssa.Function{},
	}
	var errs []string
	for _, p := range pkgs {
		for _, e := range p.Errors {
			errs = append(errs, e.Error())
		}
		c.Pkgs[p.PkgPath] = p
		c.Fset = p.Fset
	}
	if len(errs) > 0 {
		return nil, loadError{"type-check errors:\n  " + strings.Join(errs, "\n  ")}
	}
	for _, want := range repoPkgs {
		if c.Pkgs[want] == nil {
			return nil, loadError{"package not loaded: " + want}
		}
	}
	// every non-test .go file on disk must have been parsed (build tags would hide files)
	for _, want := range repoPkgs {
		p := c.Pkgs[want]
		seen := map[string]bool{}
		for _, f := range p.CompiledGoFiles {
			seen[filepath.Base(f)] = true
		}
		dir := filepath.Join(repo, strings.TrimPrefix(strings.TrimPrefix(want, pkgLungo), "/"))
		ents, err := os.ReadDir(dir)
		if err != nil {
			return nil, loadError{err.Error()}
		}
		for _, e := range ents {
			n := e.Name()
			if e.IsDir() || !strings.HasSuffix(n, ".go") || strings.HasSuffix(n, "_test.go") {
				continue
			}
			if !seen[n] {
				return nil, loadError{fmt.Sprintf("file %s/%s exists but was not part of the build (build constraint?) - the analysis would not cover it", dir, n)}
			}
		}
		c.Stats.Files += len(p.CompiledGoFiles)
	}
	c.Stats.Packages = len(repoPkgs)

	for _, path := range repoPkgs {
		p := c.Pkgs[path]
		for _, f := range p.Syntax {
			for _, d := range f.Decls {
				if fd, ok := d.(*ast.FuncDecl); ok {
					if obj, ok := p.TypesInfo.Defs[fd.Name].(*types.Func); ok {
						c.declOf[obj] = fd
						c.pkgOf[obj] = p
					}
				}
			}
		}
	}

	if !needSSA {
		return c, nil
	}

	prog, ssaPkgs := ssautil.AllPackages(pkgs, ssa.InstantiateGenerics)
	prog.Build()
	c.Prog = prog
	for i, p := range pkgs {
		if ssaPkgs[i] != nil {
			c.SSA[p.PkgPath] = ssaPkgs[i]
		}
	}
	for _, path := range repoPkgs {
		if c.SSA[path] == nil {
			return nil, loadError{"no SSA for " + path}
		}
	}
	buildHelperIdx(c)
	for fn := range ssautil.AllFunctions(prog) {
		if fn.Pkg != nil && c.isRepoPkg(fn.Pkg.Pkg.Path()) {
			c.Stats.Functions++
		}
		if lit, ok := fn.Syntax().(*ast.FuncLit); ok {
			c.litOf[lit] = fn
		}
	}
	return c, nil
}

func (c *Ctx) isRepoPkg(path string) bool {
	for _, p := range repoPkgs {
		if p == path {
			return true
		}
	}
	return false
}

// Graph builds (once) the VTA call graph.
func (c *Ctx) Graph() *callgraph.Graph {
	if c.graph == nil {
		all := ssautil.AllFunctions(c.Prog)
		c.graph = vta.CallGraph(all, cha.CallGraph(c.Prog))
		n := 0
		for _, node := range c.graph.Nodes {
			n += len(node.Out)
		}
		c.Stats.CGEdges = n
	}
	return c.graph
}

// pos renders a position relative to the repo root.
func (c *Ctx) pos(p token.Pos) string {
	if !p.IsValid() {
		return "?"
	}
	pp := c.Fset.Position(p)
	rel, err := filepath.Rel(c.Repo, pp.Filename)
	if err != nil || strings.HasPrefix(rel, "..") {
		rel = pp.Filename
	}
	return fmt.Sprintf("%s:%d", rel, pp.Line)
}

// ---- lookups ---------------------------------------------------------------

// lookupFunc finds a package-level function or a method ("T.m" / "(*T).m" are both "T.m").
func (c *Ctx) lookupFunc(pkg, name string) *types.Func {
	p := c.Pkgs[pkg]
	if p == nil {
		return nil
	}
	if i := strings.IndexByte(name, '.'); i >= 0 {
		tn, ok := p.Types.Scope().Lookup(name[:i]).(*types.TypeName)
		if !ok {
			return nil
		}
		named, ok := tn.Type().(*types.Named)
		if !ok {
			return nil
		}
		for j := 0; j < named.NumMethods(); j++ {
			if named.Method(j).Name() == name[i+1:] {
				return named.Method(j)
			}
		}
		return nil
	}
	f, _ := p.Types.Scope().Lookup(name).(*types.Func)
	return f
}

func (c *Ctx) ssaFunc(f *types.Func) *ssa.Function {
	if f == nil {
		return nil
	}
	return c.Prog.FuncValue(f)
}

func (c *Ctx) lookupSSA(pkg, name string) *ssa.Function {
	return c.ssaFunc(c.lookupFunc(pkg, name))
}

func (c *Ctx) lookupType(pkg, name string) *types.Named {
	p := c.Pkgs[pkg]
	if p == nil {
		return nil
	}
	tn, ok := p.Types.Scope().Lookup(name).(*types.TypeName)
	if !ok {
		return nil
	}
	n, _ := tn.Type().(*types.Named)
	return n
}

func (c *Ctx) lookupVar(pkg, name string) *types.Var {
	p := c.Pkgs[pkg]
	if p == nil {
		return nil
	}
	v, _ := p.Types.Scope().Lookup(name).(*types.Var)
	return v
}

// field returns the *types.Var of field name in struct type pkg.T.
func (c *Ctx) field(pkg, typ, name string) *types.Var {
	n := c.lookupType(pkg, typ)
	if n == nil {
		return nil
	}
	st, ok := n.Underlying().(*types.Struct)
	if !ok {
		return nil
	}
	for i := 0; i < st.NumFields(); i++ {
		if st.Field(i).Name() == name {
			return st.Field(i)
		}
	}
	return nil
}

// repoFuncs returns all source-level functions (incl. methods and closures) of the repo packages, sorted.
func (c *Ctx) repoFuncs() []*ssa.Function {
	var out []*ssa.Function
	for fn := range ssautil.AllFunctions(c.Prog) {
		if fn.Pkg == nil || !c.isRepoPkg(fn.Pkg.Pkg.Path()) {
			continue
		}
		if fn.Synthetic != "" || fn.Blocks == nil {
			continue
		}
		out = append(out, fn)
	}
	sort.Slice(out, func(i, j int) bool {
		if out[i].Pos() != out[j].Pos() {
			return out[i].Pos() < out[j].Pos()
		}
		return out[i].String() < out[j].String()
	})
	return out
}

// funcName gives a stable, position-free name for a function ("pkg.(*T).m", closures as parent$n).
func funcName(fn *ssa.Function) string {
	if fn == nil {
		return "<nil>"
	}
	s := fn.String()
	s = strings.ReplaceAll(s, "github.com/256dpi/lungo/", "")
	s = strings.ReplaceAll(s, "github.com/256dpi/lungo", "lungo")
	return s
}

func typesFuncName(f *types.Func) string {
	if f == nil {
		return "<nil>"
	}
	s := f.FullName()
	s = strings.ReplaceAll(s, "github.com/256dpi/lungo/", "")
	s = strings.ReplaceAll(s, "github.com/256dpi/lungo", "lungo")
	return s
}

// declFile returns the base file name a function is declared in.
func (c *Ctx) fileOf(p token.Pos) string {
	if !p.IsValid() {
		return ""
	}
	return filepath.Base(c.Fset.Position(p).Filename)
}

// enclosing package of an ssa function (closures included)
func fnPkgPath(fn *ssa.Function) string {
	for fn != nil {
		if fn.Pkg != nil {
			return fn.Pkg.Pkg.Path()
		}
		// an instance of a generic function belongs to the package of its origin
		if o := fn.Origin(); o != nil && o != fn && o.Pkg != nil {
			return o.Pkg.Pkg.Path()
		}
		fn = fn.Parent()
	}
	return ""
}

// outermost returns the top-level function a closure belongs to.
func outermost(fn *ssa.Function) *ssa.Function {
	for fn.Parent() != nil {
		fn = fn.Parent()
	}
	return fn
}

// derefNamed strips pointers and returns the named type, if any.
func derefNamed(t types.Type) *types.Named {
	for {
		switch tt := t.(type) {
		case *types.Pointer:
			t = tt.Elem()
			continue
		case *types.Named:
			return tt
		case *types.Alias:
			t = types.Unalias(tt)
			continue
		}
		return nil
	}
}

func isNamed(t types.Type, pkg, name string) bool {
	n := derefNamed(t)
	if n == nil || n.Obj().Pkg() == nil {
		return false
	}
	return n.Obj().Pkg().Path() == pkg && n.Obj().Name() == name
}
