package main

import (
	"fmt"
	"go/ast"
	"go/token"
	"go/types"
	"sort"
	"strings"

	"golang.org/x/tools/go/ssa"
)

func init() {
	register(&Rule{ID: "TTL-1", Doc: "Expire: a namespace is cloned and deleted from only when it has an index with Expiry > 0; the per-namespace condition list is fresh in every iteration; the filter is {$or: [{<first key field>: {$lt: <time.Time>}} ...]} handed to the logging delete helper", Run: ruleTTL1})
	register(&Rule{ID: "WIN-1", Doc: "sorting never permutes a shared list: every list handed to bsonkit.Sort / sort.Slice* is a slice made (or filtered into a new slice) in the same function", Run: ruleWin1})
	register(&Rule{ID: "WIN-2", Doc: "document sorts are stable: bsonkit.Sort and the $push $sort helpers only use the stable variants of package sort/slices", Run: ruleWin2})
	register(&Rule{ID: "WIN-3", Doc: "window composition in Collection.Find/Replace/Update/Delete: the full list is sorted first, then filtered with limit+skip (under limit > 0), then the first skip results are dropped under a bounds guard; the siblings agree", Run: ruleWin3})
	register(&Rule{ID: "SHAPE-1", Doc: "result provenance in the driver: MatchedCount<-Matched, ModifiedCount<-Modified, DeletedCount<-Matched, InsertedCount/InsertedID(s)<-Modified, UpsertedID(s)/UpsertedCount<-Upserted, and nothing else", Run: ruleShape1})
	register(&Rule{ID: "LOCK-9", Doc: "shutdown unblocks waiters: the cancel channel given to token.Acquire in Begin derives from the engine's tomb, and the expiry loop selects on tomb.Dying()", Run: ruleLock9})
	register(&Rule{ID: "NUM-3", Doc: "integer $inc/$mul: the int32/int64 cases of bsonkit.Add and Mul promote or reject on overflow instead of wrapping", Run: ruleNum3})
}

// ---- TTL-1 -----------------------------------------------------------------------

// outerLoopCarried: is the value (possibly through phis) fed by a value that survives from a
// previous iteration of the loop whose header is hdr? Fresh means: every non-back-edge input is
// nil, a make() or a composite made inside the loop.
func freshPerIteration(v ssa.Value, loopBody map[*ssa.BasicBlock]bool, seen map[ssa.Value]bool) (bool, string) {
	if seen[v] {
		return true, ""
	}
	seen[v] = true
	switch x := v.(type) {
	case *ssa.Const:
		return true, ""
	case *ssa.MakeSlice:
		if loopBody[x.Block()] {
			return true, ""
		}
		return false, "made once outside the namespace loop at line " + fmt.Sprint(x.Parent().Prog.Fset.Position(x.Pos()).Line)
	case *ssa.Phi:
		if !loopBody[x.Block()] {
			// a phi at (or above) the loop header that is fed from inside the loop carries a value across iterations
			for _, p := range x.Block().Preds {
				if loopBody[p] {
					return false, "the list is declared outside the loop and keeps growing across iterations"
				}
			}
		}
		for _, e := range x.Edges {
			if ok, why := freshPerIteration(e, loopBody, seen); !ok {
				return false, why
			}
		}
		return true, ""
	case *ssa.Call:
		if b, ok := x.Call.Value.(*ssa.Builtin); ok && b.Name() == "append" {
			return freshPerIteration(x.Call.Args[0], loopBody, seen)
		}
	case *ssa.Slice:
		return freshPerIteration(x.X, loopBody, seen)
	case *ssa.UnOp:
		if cell, ok := x.X.(*ssa.Alloc); ok {
			if !loopBody[cell.Block()] {
				return false, "kept in a variable declared outside the namespace loop"
			}
			okAll := true
			why := ""
			if refs := cell.Referrers(); refs != nil {
				for _, ref := range *refs {
					if st, ok := ref.(*ssa.Store); ok && st.Addr == cell {
						if ok2, w := freshPerIteration(st.Val, loopBody, seen); !ok2 {
							okAll, why = false, w
						}
					}
				}
			}
			return okAll, why
		}
	}
	return false, fmt.Sprintf("unexpected source %T", v)
}

// calleeArgAt: what does the call site `site` of the helper `helper` supply for the k-th argument of the call `inner`
// (a call inside the helper)? The inner argument is a parameter of the helper, or a field of a struct parameter
// (an options/operation struct passed by value); in the second case the struct is a local composite at the site and the
// field's value is what was stored into it (zero == true when the literal leaves the field out).
func calleeArgAt(site *ssa.Call, helper *ssa.Function, inner *ssa.Call, k int) (v ssa.Value, zero bool, ok bool) {
	if k >= len(inner.Call.Args) {
		return nil, false, false
	}
	paramIdx := func(x ssa.Value) int {
		x = unspill(x)
		for i, p := range helper.Params {
			if ssa.Value(p) == x {
				return i
			}
		}
		return -1
	}
	a := inner.Call.Args[k]
	if i := paramIdx(a); i >= 0 && i < len(site.Call.Args) {
		return site.Call.Args[i], false, true
	}
	field, pi := -1, -1
	switch x := a.(type) {
	case *ssa.Field:
		field, pi = x.Field, paramIdx(x.X)
	case *ssa.UnOp:
		if fa, isFA := x.X.(*ssa.FieldAddr); isFA && x.Op == token.MUL {
			if al, isAl := fa.X.(*ssa.Alloc); isAl {
				// a spilled by-value parameter: the cell is initialised from the parameter
				if refs := al.Referrers(); refs != nil {
					for _, ref := range *refs {
						if st, isSt := ref.(*ssa.Store); isSt && st.Addr == ssa.Value(al) {
							if i := paramIdx(st.Val); i >= 0 {
								field, pi = fa.Field, i
							}
						}
					}
				}
			}
		}
	}
	if field < 0 || pi < 0 || pi >= len(site.Call.Args) {
		return nil, false, false
	}
	ld, isLd := site.Call.Args[pi].(*ssa.UnOp)
	if !isLd || ld.Op != token.MUL {
		return nil, false, false
	}
	al, isAl := ld.X.(*ssa.Alloc)
	if !isAl {
		return nil, false, false
	}
	var found ssa.Value
	n := 0
	if refs := al.Referrers(); refs != nil {
		for _, ref := range *refs {
			fa, isFA := ref.(*ssa.FieldAddr)
			if !isFA {
				if ref != ssa.Instruction(ld) {
					if _, isDbg := ref.(*ssa.DebugRef); !isDbg {
						return nil, false, false // the struct escapes or is written as a whole: not decided
					}
				}
				continue
			}
			if fr := fa.Referrers(); fr != nil {
				for _, r2 := range *fr {
					st, isSt := r2.(*ssa.Store)
					if !isSt || st.Addr != ssa.Value(fa) {
						return nil, false, false
					}
					if fa.Field == field {
						found = st.Val
						n++
					}
				}
			}
		}
	}
	if n == 0 {
		return nil, true, true
	}
	if n > 1 {
		return nil, false, false
	}
	return found, false, true
}

func ruleTTL1(c *Ctx, r *Reporter) {
	fn := c.lookupSSA(pkgLungo, "Transaction.Expire")
	del := c.lookupFunc(pkgLungo, "Transaction.delete")
	collClone := c.lookupFunc(pkgMongokit, "Collection.Clone")
	nsF := c.field(pkgLungo, "Catalog", "Namespaces")
	if fn == nil || del == nil || collClone == nil || nsF == nil {
		r.bad("anchor:Transaction.Expire", "-", "not found")
		return
	}
	var delCall *ssa.Call
	allInstrs(fn, func(in ssa.Instruction) {
		if call, ok := in.(*ssa.Call); ok && calleeObj(&call.Call) == del {
			delCall = call
		}
	})
	if delCall == nil {
		r.bad("Expire:delete", c.pos(fn.Pos()), "Expire does not delete through t.delete")
		return
	}
	// what the site supplies for the receiver and the four arguments of Collection.Delete inside t.delete
	// (t.delete may take them one by one or bundled in a struct such as Operation)
	delFn := c.lookupSSA(pkgLungo, "Transaction.delete")
	collDelete := c.lookupFunc(pkgMongokit, "Collection.Delete")
	var inner *ssa.Call
	if delFn != nil {
		allInstrs(delFn, func(in ssa.Instruction) {
			if call, ok := in.(*ssa.Call); ok && collDelete != nil && calleeObj(&call.Call) == collDelete {
				inner = call
			}
		})
	}
	if inner == nil {
		r.bad("Expire:delete", c.pos(fn.Pos()), "t.delete does not delete through Collection.Delete")
		return
	}
	delArg := func(k int) (ssa.Value, bool, bool) { return calleeArgAt(delCall, delFn, inner, k) }
	// the namespace loop: range over clone.Namespaces
	var nsNext *ssa.Next
	allInstrs(fn, func(in ssa.Instruction) {
		if nx, ok := in.(*ssa.Next); ok {
			if rg, ok := nx.Iter.(*ssa.Range); ok && isLoadOf(rg.X, nsF) {
				nsNext = nx
			}
		}
	})
	if nsNext == nil {
		r.bad("Expire:namespace loop", c.pos(fn.Pos()), "no loop over the catalog's namespaces")
		return
	}
	body := blockReach([]*ssa.BasicBlock{nsNext.Block().Succs[0]}, map[*ssa.BasicBlock]bool{nsNext.Block(): true})
	r.check(body[delCall.Block()], "Expire:delete in loop", c.pos(delCall.Pos()), "t.delete runs per namespace", "t.delete is not inside the namespace loop")

	// guard: len(ttlIndexes) == 0 => continue, before the clone and the delete
	var guard *ssa.If
	allInstrs(fn, func(in ssa.Instruction) {
		iff, ok := in.(*ssa.If)
		if !ok || !body[iff.Block()] {
			return
		}
		bo, ok := iff.Cond.(*ssa.BinOp)
		if !ok || bo.Op != token.EQL {
			return
		}
		if k, ok := constInt(bo.Y); !ok || k != 0 {
			return
		}
		if lc, ok := bo.X.(*ssa.Call); ok {
			if b, ok := lc.Call.Value.(*ssa.Builtin); ok && b.Name() == "len" {
				guard = iff
			}
		}
	})
	if guard == nil {
		r.bad("Expire:no-TTL guard", c.pos(fn.Pos()), "namespaces without TTL index are not skipped")
	} else {
		nonEmpty := guard.Block().Succs[1]
		var clone *ssa.Call
		if nsArg, _, okNs := delArg(0); okNs && nsArg != nil {
			if cc, ok := nsArg.(*ssa.Call); ok && calleeObj(&cc.Call) == collClone {
				clone = cc
			}
		}
		good := (nonEmpty == delCall.Block() || nonEmpty.Dominates(delCall.Block())) && clone != nil && (nonEmpty == clone.Block() || nonEmpty.Dominates(clone.Block()))
		r.check(good, "Expire:no-TTL guard", c.pos(guard.Pos()), "the namespace is cloned and deleted from only when it has at least one TTL index", "a namespace without TTL index can be cloned / deleted from (a pass that should change nothing would touch it)")
		// the list tested by the guard is fresh per namespace and holds indexes with Expiry > 0 (TAB-7 checks the sentinel)
		lenArg := guard.Cond.(*ssa.BinOp).X.(*ssa.Call).Call.Args[0]
		ok, why := freshPerIteration(lenArg, body, map[ssa.Value]bool{})
		r.check(ok, "Expire:ttlIndexes per namespace", c.pos(guard.Pos()), "the TTL index list starts empty for every namespace", "the TTL index list is carried over from the previous namespace: "+why)
	}
	// the filter: MustConvert(bson.M{"$or": conditions})
	var orUpdate, ltUpdate *ssa.MapUpdate
	allInstrs(fn, func(in ssa.Instruction) {
		if mu, ok := in.(*ssa.MapUpdate); ok {
			if k, ok := constString(mu.Key); ok {
				switch k {
				case "$or":
					orUpdate = mu
				case "$lt":
					ltUpdate = mu
				}
			}
		}
	})
	if orUpdate == nil || ltUpdate == nil {
		r.bad("Expire:filter shape", c.pos(delCall.Pos()), "the expiry filter is not {$or: [{field: {$lt: cutoff}}]}")
		return
	}
	// conditions list fresh per namespace
	condV := stripValue(orUpdate.Value)
	ok, why := freshPerIteration(condV, body, map[ssa.Value]bool{})
	r.check(ok, "Expire:conditions per namespace", c.pos(orUpdate.Pos()), "the $or list is built from scratch for every namespace", "conditions of other namespaces' TTL indexes leak into this namespace's filter: "+why)
	// $lt operand is a time.Time
	okT := false
	if mi, ok := ltUpdate.Value.(*ssa.MakeInterface); ok && typeKey(mi.X.Type()) == "time.Time" {
		okT = true
	}
	r.check(okT, "Expire:$lt operand", c.pos(ltUpdate.Pos()), "a time.Time, which ConvertValue turns into a DateTime: type bracketing (SEM-1) restricts matches to date values", "the $lt operand is not a time.Time: bracketing would compare against another class")
	// the filter given to delete is the converted $or document
	filterOK := false
	filterArg, _, _ := delArg(1)
	if call, ok := filterArg.(*ssa.Call); ok && strings.HasPrefix(calleeFull(&call.Call), pkgBsonkit+".MustConvert") {
		if mi, ok := call.Call.Args[0].(*ssa.MakeInterface); ok && stripValue(mi.X) == orUpdate.Map || ok && mi.X == orUpdate.Map {
			filterOK = true
		}
		if call.Call.Args[0] == orUpdate.Map || stripValue(call.Call.Args[0]) == stripValue(orUpdate.Map) {
			filterOK = true
		}
	}
	r.check(filterOK, "Expire:filter passed", c.pos(delCall.Pos()), "t.delete receives the {$or: conditions} document", "t.delete does not receive the $or filter that was built")
	// no sort / skip / limit
	zeroInt := func(k int) bool {
		v, zero, ok := delArg(k)
		if !ok {
			return false
		}
		if zero {
			return true
		}
		n, isC := constInt(v)
		return isC && n == 0
	}
	sortV, sortZero, sortOK := delArg(2)
	r.check(zeroInt(3) && zeroInt(4) && sortOK && (sortZero || isNilConst(sortV)), "Expire:whole match set", c.pos(delCall.Pos()), "no sort, skip or limit: every expired document is removed", "the expiry delete is windowed: expired documents can be left behind")
}

// ---- WIN-1/2/3 -----------------------------------------------------------------------

func localFreshList(v ssa.Value, seen map[ssa.Value]bool) (bool, string) {
	if seen[v] {
		return true, ""
	}
	seen[v] = true
	switch x := v.(type) {
	case *ssa.MakeSlice:
		return true, ""
	case *ssa.Const:
		return true, ""
	case *ssa.Phi:
		for _, e := range x.Edges {
			if ok, why := localFreshList(e, seen); !ok {
				return false, why
			}
		}
		return true, ""
	case *ssa.Slice:
		return localFreshList(x.X, seen)
	case *ssa.Alloc:
		return true, ""
	case *ssa.Call:
		if b, ok := x.Call.Value.(*ssa.Builtin); ok && b.Name() == "append" {
			return localFreshList(x.Call.Args[0], seen)
		}
		return false, "result of " + calleeFull(&x.Call)
	case *ssa.Extract:
		if call, ok := x.Tuple.(*ssa.Call); ok {
			switch calleeFull(&call.Call) {
			case pkgMongokit + ".Filter", pkgMongokit + ".Sort":
				return true, ""
			}
			return false, "result of " + calleeFull(&call.Call)
		}
	case *ssa.Parameter:
		return false, "parameter " + x.Name() + " (the caller's list would be reordered in place)"
	case *ssa.UnOp:
		if fa, ok := x.X.(*ssa.FieldAddr); ok {
			return false, "field " + structFieldOf(fa).Name() + " of shared state"
		}
		if cell, ok := x.X.(*ssa.Alloc); ok {
			okAll, why := true, ""
			if refs := cell.Referrers(); refs != nil {
				for _, ref := range *refs {
					if st, ok := ref.(*ssa.Store); ok && st.Addr == cell {
						if ok2, w := localFreshList(st.Val, seen); !ok2 {
							okAll, why = false, w
						}
					}
				}
			}
			return okAll, why
		}
	case *ssa.FreeVar:
		// captured local of the enclosing function: resolve through the closure binding
		fn := x.Parent()
		if fn.Parent() != nil {
			for i, fv := range fn.FreeVars {
				if fv != x {
					continue
				}
				okAll, why, n := true, "", 0
				allInstrs(fn.Parent(), func(in ssa.Instruction) {
					if mc, ok := in.(*ssa.MakeClosure); ok && mc.Fn == ssa.Value(fn) {
						n++
						b := mc.Bindings[i]
						if cell, ok := b.(*ssa.Alloc); ok {
							if refs := cell.Referrers(); refs != nil {
								for _, ref := range *refs {
									if st, ok := ref.(*ssa.Store); ok && st.Addr == cell {
										if ok2, w := localFreshList(st.Val, seen); !ok2 {
											okAll, why = false, w
										}
									}
								}
							}
						} else if ok2, w := localFreshList(b, seen); !ok2 {
							okAll, why = false, w
						}
					}
				})
				return okAll && n > 0, why
			}
		}
	}
	return false, fmt.Sprintf("%T", v)
}

func ruleWin1(c *Ctx, r *Reporter) {
	n := 0
	for _, fn := range c.repoFuncs() {
		if isBucketFile(c, fn) {
			continue
		}
		allInstrs(fn, func(in ssa.Instruction) {
			call, ok := in.(*ssa.Call)
			if !ok {
				return
			}
			name := calleeFull(&call.Call)
			switch name {
			case pkgBsonkit + ".Sort", "sort.Slice", "sort.SliceStable", "sort.Sort", "sort.Stable", "slices.SortFunc", "slices.SortStableFunc":
			default:
				return
			}
			// bsonkit.Sort itself sorts its parameter by contract: the obligation is at its callers
			if funcName(outermost(fn)) == "bsonkit.Sort" {
				return
			}
			n++
			arg := stripValue(call.Call.Args[0])
			// a private helper sorts what its only caller hands it
			arg = stripValue(resolveHelperValue(arg))
			ok2, why := localFreshList(arg, map[ssa.Value]bool{})
			key := fmt.Sprintf("%s:%s", funcName(fn), strings.TrimPrefix(name, "github.com/256dpi/lungo/"))
			// pushSort* sort the new array that applyPush built: parameter by contract, checked at the caller
			if !ok2 && (funcName(outermost(fn)) == "mongokit.pushSort" || funcName(outermost(fn)) == "mongokit.pushSortDirect") {
				r.ok(key, c.pos(in.Pos()), "sorts the array handed in by applyPush (checked there: freshly built newArr)")
				return
			}
			r.check(ok2, key, c.pos(in.Pos()), "sorts a slice made in this function", "an in-place sort reorders a shared list: "+why)
		})
	}
	r.guard(n, 6, "in-place sort call sites")
	// applyPush hands pushSort the freshly built array
	if ap := c.lookupSSA(pkgMongokit, "applyPush"); ap != nil {
		found := false
		allInstrs(ap, func(in ssa.Instruction) {
			if call, ok := in.(*ssa.Call); ok && calleeFull(&call.Call) == pkgMongokit+".pushSort" {
				found = true
				ok2, why := localFreshList(stripValue(call.Call.Args[1]), map[ssa.Value]bool{})
				r.check(ok2, "applyPush:pushSort argument", c.pos(in.Pos()), "the array is the one built by applyPush", "pushSort would reorder the stored array in place: "+why)
			}
		})
		r.guard(boolInt(found), 1, "pushSort call in applyPush")
	}
}

func boolInt(b bool) int {
	if b {
		return 1
	}
	return 0
}

func ruleWin2(c *Ctx, r *Reporter) {
	n := 0
	// the two sorting entry points, their function literals and the functions of their package they call (the
	// direct-value variant of $sort is a helper today, it may as well be a closure)
	var fns []*ssa.Function
	seen := map[*ssa.Function]bool{}
	var add func(fn *ssa.Function, depth int)
	add = func(fn *ssa.Function, depth int) {
		if fn == nil || fn.Blocks == nil || seen[fn] || depth > 2 {
			return
		}
		seen[fn] = true
		fns = append(fns, fn)
		for _, g := range fn.AnonFuncs {
			add(g, depth)
		}
		allInstrs(fn, func(in ssa.Instruction) {
			if call, ok := in.(*ssa.Call); ok {
				if h := staticFn(&call.Call); h != nil && h.Parent() == nil && fnPkgPath(h) == fnPkgPath(fn) && strings.Contains(strings.ToLower(h.Name()), "sort") {
					add(h, depth+1)
				}
			}
		})
	}
	for _, name := range []struct{ pkg, fn string }{{pkgBsonkit, "Sort"}, {pkgMongokit, "pushSort"}} {
		fn := c.lookupSSA(name.pkg, name.fn)
		if fn == nil {
			r.bad("anchor:"+name.fn, "-", "not found")
			continue
		}
		add(fn, 0)
	}
	for _, fn := range fns {
		allInstrs(fn, func(in ssa.Instruction) {
			call, ok := in.(*ssa.Call)
			if !ok {
				return
			}
			f := calleeObj(&call.Call)
			if f == nil || f.Pkg() == nil || (f.Pkg().Path() != "sort" && f.Pkg().Path() != "slices") {
				return
			}
			if !strings.Contains(f.Name(), "Sort") && !strings.Contains(f.Name(), "Slice") && f.Name() != "Stable" {
				return
			}
			n++
			r.check(strings.Contains(f.Name(), "Stable"), funcName(fn)+":"+f.Pkg().Name()+"."+f.Name(), c.pos(in.Pos()), "stable sort: ties keep insertion order", "unstable sort: documents with equal keys may change their relative order")
		})
	}
	r.guard(n, 3, "sort calls in bsonkit.Sort / pushSort*")
}

func ruleWin3(c *Ctx, r *Reporter) {
	docsF := c.field(pkgMongokit, "Collection", "Documents")
	listF := c.field(pkgBsonkit, "Set", "List")
	if docsF == nil || listF == nil {
		r.bad("anchor:Collection.Documents", "-", "not found")
		return
	}
	isStoredList := func(v ssa.Value) bool {
		u, ok := v.(*ssa.UnOp)
		if !ok {
			return false
		}
		fa, ok := u.X.(*ssa.FieldAddr)
		return ok && structFieldOf(fa) == listF && isLoadOf(fa.X, docsF)
	}
	type feat struct{ sortFirst, limitPlusSkip, skipDrop bool }
	feats := map[string]feat{}
	for _, mname := range []string{"Find", "Replace", "Update", "Delete"} {
		fn := c.lookupSSA(pkgMongokit, "Collection."+mname)
		if fn == nil {
			r.bad("anchor:Collection."+mname, "-", "not found")
			continue
		}
		var sortCall, filterCall *ssa.Call
		allInstrs(fn, func(in ssa.Instruction) {
			if call, ok := in.(*ssa.Call); ok {
				switch calleeFull(&call.Call) {
				case pkgMongokit + ".Sort":
					sortCall = call
				case pkgMongokit + ".Filter":
					filterCall = call
				}
			}
		})
		key := "Collection." + mname + ":"
		if sortCall == nil || filterCall == nil {
			r.bad(key+"window", c.pos(fn.Pos()), "method does not both Sort and Filter")
			continue
		}
		var f feat
		// sort works on the full stored list; filter works on phi(stored list, sorted list)
		sortOnFull := isStoredList(sortCall.Call.Args[0])
		filterIn := filterCall.Call.Args[0]
		filterOnSorted := false
		if phi, ok := filterIn.(*ssa.Phi); ok {
			hasSorted, hasStored := false, false
			for _, e := range phi.Edges {
				if e == tupleResult(sortCall, 0) {
					hasSorted = true
				} else if isStoredList(e) {
					hasStored = true
				}
			}
			filterOnSorted = hasSorted && hasStored && len(phi.Edges) <= 3
		}
		f.sortFirst = sortOnFull && filterOnSorted && !instrReaches(filterCall, sortCall)
		r.check(f.sortFirst, key+"sort before filter", c.pos(sortCall.Pos()), "the whole collection is sorted, then filtered: the window is cut from the full ordering", "the list is filtered (and possibly truncated by the limit) before it is sorted: skip/limit and sorted one-document writes act on the wrong documents")
		// limit handed to Filter
		limArg := filterCall.Call.Args[2]
		if k, ok := constInt(limArg); ok {
			f.limitPlusSkip = k == 1 && mname == "Replace"
			r.check(f.limitPlusSkip, key+"limit", c.pos(filterCall.Pos()), "first match only", "unexpected constant limit")
		} else {
			var limitP, skipP *ssa.Parameter
			for _, p := range fn.Params {
				switch p.Name() {
				case "limit":
					limitP = p
				case "skip":
					skipP = p
				}
			}
			good := false
			if phi, ok := limArg.(*ssa.Phi); ok && limitP != nil && skipP != nil {
				hasPlain, hasSum := false, false
				for i, e := range phi.Edges {
					if e == ssa.Value(limitP) {
						hasPlain = true
					} else if bo, ok := e.(*ssa.BinOp); ok && bo.Op == token.ADD && ((bo.X == ssa.Value(limitP) && bo.Y == ssa.Value(skipP)) || (bo.Y == ssa.Value(limitP) && bo.X == ssa.Value(skipP))) {
						// guarded by limit > 0
						pred := phi.Block().Preds[i]
						for _, pp := range append([]*ssa.BasicBlock{pred}, pred.Preds...) {
							if iff, ok := pp.Instrs[len(pp.Instrs)-1].(*ssa.If); ok {
								if c2, ok := iff.Cond.(*ssa.BinOp); ok && c2.Op == token.GTR && c2.X == ssa.Value(limitP) {
									if k, ok := constInt(c2.Y); ok && k == 0 {
										hasSum = true
									}
								}
							}
						}
					}
				}
				good = hasPlain && hasSum
			}
			f.limitPlusSkip = good
			r.check(good, key+"limit+skip", c.pos(filterCall.Pos()), "Filter may stop after limit+skip matches (only when limit > 0)", "the limit handed to Filter is not limit+skip under limit > 0: the window would be cut short or unlimited")
			// skip drop
			var sl *ssa.Slice
			allInstrs(fn, func(in ssa.Instruction) {
				if s, ok := in.(*ssa.Slice); ok && s.X == tupleResult(filterCall, 0) && s.Low == ssa.Value(skipP) && s.High == nil {
					sl = s
				}
			})
			guarded := false
			if sl != nil {
				allInstrs(fn, func(in ssa.Instruction) {
					iff, ok := in.(*ssa.If)
					if !ok {
						return
					}
					bo, ok := iff.Cond.(*ssa.BinOp)
					if !ok {
						return
					}
					// any form of `skip <= len(list)` on the edge that leads to the slice expression
					other := bo.Y
					if bo.Y == ssa.Value(skipP) {
						other = bo.X
					} else if bo.X != ssa.Value(skipP) {
						return
					}
					lc, ok := other.(*ssa.Call)
					if !ok {
						return
					}
					if b, ok := lc.Call.Value.(*ssa.Builtin); !ok || b.Name() != "len" || lc.Call.Args[0] != tupleResult(filterCall, 0) {
						return
					}
					for i, e := range iff.Block().Succs {
						if (e == sl.Block() || e.Dominates(sl.Block())) && edgeBounds(bo, i == 0, skipP, true) {
							guarded = true
						}
					}
				})
			}
			f.skipDrop = sl != nil && guarded
			r.check(f.skipDrop, key+"skip", c.pos(filterCall.Pos()), "list[skip:] under skip <= len(list)", "the first skip matches are not dropped (or without the bounds guard)")
		}
		feats[mname] = f
	}
	r.guard(len(feats), 4, "windowed Collection methods")
}

// ---- SHAPE-1 -----------------------------------------------------------------------

func ruleShape1(c *Ctx, r *Reporter) {
	resT := c.lookupType(pkgLungo, "Result")
	if resT == nil {
		r.bad("anchor:lungo.Result", "-", "not found")
		return
	}
	want := map[string]string{
		"MatchedCount": "Matched", "ModifiedCount": "Modified", "DeletedCount": "Matched", "InsertedCount": "Modified",
		"InsertedID": "Modified", "InsertedIDs": "Modified", "UpsertedID": "Upserted", "UpsertedIDs": "Upserted", "UpsertedCount": "Upserted",
	}
	// backward slice collecting the lungo.Result fields a value depends on
	var fieldsOf func(v ssa.Value, acc map[string]bool, seen map[ssa.Value]bool, depth int)
	fieldsOf = func(v ssa.Value, acc map[string]bool, seen map[ssa.Value]bool, depth int) {
		if v == nil || seen[v] || depth > 12 {
			return
		}
		seen[v] = true
		switch x := v.(type) {
		case *ssa.UnOp:
			if fa, ok := x.X.(*ssa.FieldAddr); ok {
				if derefNamed(fa.X.Type()) == resT {
					acc[structFieldOf(fa).Name()] = true
					return
				}
				return
			}
			fieldsOf(x.X, acc, seen, depth+1)
		case *ssa.Field:
			if derefNamed(x.X.Type()) == resT {
				acc[structFieldOf(x).Name()] = true
				return
			}
			fieldsOf(x.X, acc, seen, depth+1)
		case *ssa.Call:
			for _, a := range x.Call.Args {
				fieldsOf(a, acc, seen, depth+1)
			}
		case *ssa.Convert:
			fieldsOf(x.X, acc, seen, depth+1)
		case *ssa.ChangeType:
			fieldsOf(x.X, acc, seen, depth+1)
		case *ssa.ChangeInterface:
			fieldsOf(x.X, acc, seen, depth+1)
		case *ssa.MakeInterface:
			fieldsOf(x.X, acc, seen, depth+1)
		case *ssa.BinOp:
			fieldsOf(x.X, acc, seen, depth+1)
			fieldsOf(x.Y, acc, seen, depth+1)
		case *ssa.IndexAddr:
			fieldsOf(x.X, acc, seen, depth+1)
		case *ssa.Phi:
			for _, e := range x.Edges {
				fieldsOf(e, acc, seen, depth+1)
			}
		case *ssa.Extract:
			fieldsOf(x.Tuple, acc, seen, depth+1)
		case *ssa.Next:
			fieldsOf(x.Iter, acc, seen, depth+1)
		case *ssa.Range:
			fieldsOf(x.X, acc, seen, depth+1)
		case *ssa.Slice:
			fieldsOf(x.X, acc, seen, depth+1)
		case *ssa.Alloc:
			// a local (e.g. the id slice that is filled in a loop): everything stored into it
			if refs := x.Referrers(); refs != nil {
				for _, ref := range *refs {
					if st, ok := ref.(*ssa.Store); ok && st.Addr == ssa.Value(x) {
						fieldsOf(st.Val, acc, seen, depth+1)
					}
					// element / field stores (varargs arrays, literals)
					if av, ok := ref.(ssa.Value); ok {
						switch ref.(type) {
						case *ssa.IndexAddr, *ssa.FieldAddr:
							if rr := av.Referrers(); rr != nil {
								for _, y := range *rr {
									if st, ok := y.(*ssa.Store); ok && st.Addr == av {
										fieldsOf(st.Val, acc, seen, depth+1)
									}
								}
							}
						}
					}
				}
			}
		}
	}
	n := 0
	for _, fn := range c.repoFuncs() {
		if fnPkgPath(fn) != pkgLungo || c.fileOf(fn.Pos()) != "collection.go" {
			continue
		}
		allInstrs(fn, func(in ssa.Instruction) {
			var fieldName string
			var val ssa.Value
			var under ssa.Instruction = in
			switch x := in.(type) {
			case *ssa.Store:
				fa, ok := x.Addr.(*ssa.FieldAddr)
				if !ok {
					return
				}
				nm := derefNamed(fa.X.Type())
				if nm == nil || nm.Obj().Pkg() == nil || nm.Obj().Pkg().Path() != "go.mongodb.org/mongo-driver/mongo" {
					return
				}
				fieldName, val = structFieldOf(fa).Name(), x.Val
			case *ssa.MapUpdate:
				// result.UpsertedIDs[i] = ...
				if u, ok := x.Map.(*ssa.UnOp); ok {
					if fa, ok := u.X.(*ssa.FieldAddr); ok {
						if nm := derefNamed(fa.X.Type()); nm != nil && nm.Obj().Pkg() != nil && nm.Obj().Pkg().Path() == "go.mongodb.org/mongo-driver/mongo" {
							fieldName, val = structFieldOf(fa).Name(), x.Value
						}
					}
				}
			}
			src, ok := want[fieldName]
			if !ok || val == nil {
				return
			}
			acc := map[string]bool{}
			fieldsOf(val, acc, map[ssa.Value]bool{}, 0)
			delete(acc, "Error")
			key := fmt.Sprintf("%s:%s", funcName(fn), fieldName)
			if len(acc) == 0 {
				// constants: initial zero / UpsertedCount: 1 or ++ must be controlled by Upserted != nil
				if fieldName == "UpsertedCount" {
					if k, ok := constInt(val); ok && k == 0 {
						r.trivial(key, c.pos(under.Pos()), "initialised to zero")
						return
					}
					ctl := false
					allInstrs(fn, func(y ssa.Instruction) {
						iff, ok := y.(*ssa.If)
						if !ok {
							return
						}
						bo, ok := iff.Cond.(*ssa.BinOp)
						if !ok || bo.Op != token.NEQ || !isNilConst(bo.Y) {
							return
						}
						a2 := map[string]bool{}
						fieldsOf(bo.X, a2, map[ssa.Value]bool{}, 0)
						t := iff.Block().Succs[0]
						if a2["Upserted"] && (t == under.Block() || t.Dominates(under.Block())) {
							ctl = true
						}
					})
					n++
					r.check(ctl, key, c.pos(under.Pos()), "counted only when result.Upserted != nil", "UpsertedCount is not controlled by result.Upserted")
					return
				}
				if _, isConst := stripValue(val).(*ssa.Const); isConst {
					r.trivial(key, c.pos(under.Pos()), "constant initialiser")
					return
				}
				if _, isMake := val.(*ssa.MakeMap); isMake {
					r.trivial(key, c.pos(under.Pos()), "empty container initialiser")
					return
				}
				n++
				r.bad(key, c.pos(under.Pos()), "value does not derive from the engine's result")
				return
			}
			n++
			var got []string
			for k := range acc {
				got = append(got, k)
			}
			sort.Strings(got)
			r.check(len(acc) == 1 && acc[src], key, c.pos(under.Pos()), "derived from result."+src+" only", fmt.Sprintf("derived from result.%v, must come from result.%s", got, src))
		})
	}
	r.guard(n, 15, "driver result fields derived from the engine result")
}

// ---- LOCK-9 -----------------------------------------------------------------------

func ruleLock9(c *Ctx, r *Reporter) {
	begin := c.lookupSSA(pkgLungo, "Engine.Begin")
	tombF := c.field(pkgLungo, "Engine", "tomb")
	if begin == nil || tombF == nil {
		r.bad("anchor:Engine.Begin", "-", "not found")
		return
	}
	fromTomb := func(v ssa.Value) bool {
		// ch := X.Done() with X = e.tomb.Context(ctx)  |  e.tomb.Dying()
		call, ok := v.(*ssa.Call)
		if !ok {
			return false
		}
		isTombRecv := func(a ssa.Value) bool {
			fa, ok := a.(*ssa.FieldAddr)
			return ok && structFieldOf(fa) == tombF
		}
		if f := calleeObj(&call.Call); f != nil && f.Pkg() != nil && f.Pkg().Path() == "gopkg.in/tomb.v2" && f.Name() == "Dying" && isTombRecv(call.Call.Args[0]) {
			return true
		}
		if call.Call.IsInvoke() && call.Call.Method.Name() == "Done" {
			if inner, ok := call.Call.Value.(*ssa.Call); ok {
				if f := calleeObj(&inner.Call); f != nil && f.Pkg() != nil && f.Pkg().Path() == "gopkg.in/tomb.v2" && f.Name() == "Context" && isTombRecv(inner.Call.Args[0]) {
					return true
				}
			}
		}
		return false
	}
	n := 0
	coneInstrs(begin, func(in ssa.Instruction) {
		if call, ok := in.(*ssa.Call); ok && calleeFull(&call.Call) == pkgDbkit+".Semaphore.Acquire" {
			n++
			r.check(fromTomb(call.Call.Args[1]), "Engine.Begin:Acquire cancel channel", c.pos(in.Pos()), "closing the engine cancels the wait for the writer token", "the wait for the writer token does not observe the engine's tomb: a waiter sleeps through Close() for up to the acquisition timeout (and Close can hang on the expiry goroutine)")
		}
	})
	r.guard(n, 1, "token.Acquire in Begin")
	exp := c.lookupSSA(pkgLungo, "Engine.expire")
	if exp == nil {
		r.bad("anchor:Engine.expire", "-", "not found")
		return
	}
	found := false
	allInstrs(exp, func(in ssa.Instruction) {
		if sel, ok := in.(*ssa.Select); ok && sel.Blocking {
			for _, st := range sel.States {
				if st.Dir == types.RecvOnly && fromTomb(st.Chan) {
					found = true
				}
			}
		}
	})
	r.check(found, "Engine.expire:select on tomb.Dying", c.pos(exp.Pos()), "the expiry goroutine ends when the engine is closed", "the expiry goroutine does not wait on tomb.Dying(): Close() would block in tomb.Wait()")
}

// ---- NUM-3 -----------------------------------------------------------------------

func ruleNum3(c *Ctx, r *Reporter) {
	for _, fname := range []string{"Add", "Mul"} {
		d, info := c.funcDecl(pkgBsonkit, fname)
		if d == nil {
			r.bad("anchor:bsonkit."+fname, "-", "not found")
			continue
		}
		bare := 0
		total := 0
		ast.Inspect(d.Body, func(n ast.Node) bool {
			ret, ok := n.(*ast.ReturnStmt)
			if !ok || len(ret.Results) != 1 {
				return true
			}
			t := info.Types[ret.Results[0]].Type
			b, ok := t.Underlying().(*types.Basic)
			if !ok || b.Info()&types.IsInteger == 0 {
				return true
			}
			total++
			if be, ok := ret.Results[0].(*ast.BinaryExpr); ok && (be.Op == token.ADD || be.Op == token.MUL) {
				bare++
			}
			return true
		})
		key := "bsonkit." + fname + " integer overflow"
		if total == 0 {
			r.bad(key, c.pos(d.Pos()), "no integer cases found")
			continue
		}
		r.check(bare == 0, key, c.pos(d.Pos()), "integer cases check for overflow", fmt.Sprintf("%d of %d integer cases return a bare %s: int32 overflow wraps instead of promoting to int64, int64 overflow wraps instead of being rejected", bare, total, map[string]string{"Add": "+", "Mul": "*"}[fname]))
	}
}
