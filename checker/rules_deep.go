package main

import (
	"fmt"
	"go/token"
	"go/types"
	"sort"
	"strings"

	"golang.org/x/tools/go/ssa"
)

// OWN-8: the sharing analysis (share.go) and the copy-on-write rules treat the results of
// bsonkit.Clone/CloneList/Convert*/Transform*/Transfer/Decode* as fresh values that share no
// mutable container with their arguments. This rule verifies that assumption on the source of
// those functions (and of every bsonkit function they call statically) with an intra-procedural
// may-taint analysis: a mutable container owned by a parameter must not be returned, and must not
// be stored into (or copied / appended into) anything that is returned or owned by the caller.
//
//   sources      every parameter whose type can hold a mutable container
//   propagation  loads, field/index selection, type assertions, conversions, phis, slices, range;
//                stores / copy / append / map updates taint the whole allocation they write into
//   clean        results of calls to verified functions (each is verified with all parameters
//                tainted), results of bson.Marshal*/Unmarshal* (a serialisation boundary), values of
//                immutable types (basic types, strings, structs/arrays of those, error, and
//                primitive.Binary - the exception bsonkit.Clone documents)
//   path guard   an interface value may be passed on as it is where every path to that point has
//                passed the true edge of a type test of that value against an immutable type
//                (the `case nil, int32, ...: return value` arms of a type switch)
//   sinks        return of a tainted value; store of a tainted value through a parameter or a global

func init() {
	register(&Rule{ID: "OWN-8", Doc: "the bsonkit copy functions are deep: in Clone/CloneList/cloneValue/Convert*/ConvertValue/convertMap/Transform*/Transfer/Decode* no mutable container owned by a parameter reaches the returned value or caller-owned memory, other than through a recursive copy or the BSON serialisation boundary", Run: ruleOwn8})
}

var deepCopyRoots = []string{"Clone", "CloneList", "Convert", "MustConvert", "ConvertList", "MustConvertList", "ConvertValue", "MustConvertValue", "Transform", "TransformList", "Transfer", "Decode", "DecodeList"}

// library functions whose results never alias their arguments
var freshLibCalls = map[string]bool{
	"go.mongodb.org/mongo-driver/bson.Marshal":   true,
	"go.mongodb.org/mongo-driver/bson.Unmarshal": true,
}

func immutableType(t types.Type, seen map[types.Type]bool) bool {
	if seen[t] {
		return true
	}
	seen[t] = true
	if n, ok := types.Unalias(t).(*types.Named); ok && n.Obj().Pkg() != nil {
		switch n.Obj().Pkg().Path() + "." + n.Obj().Name() {
		case "go.mongodb.org/mongo-driver/bson/primitive.Binary":
			// documented exception of bsonkit.Clone: binary payloads are never mutated in place
			return true
		}
	}
	if _, ok := t.Underlying().(*types.Interface); ok && isErrorType(t) {
		return true
	}
	switch x := t.Underlying().(type) {
	case *types.Basic:
		return x.Kind() != types.UnsafePointer
	case *types.Struct:
		for i := 0; i < x.NumFields(); i++ {
			if !immutableType(x.Field(i).Type(), seen) {
				return false
			}
		}
		return true
	case *types.Array:
		return immutableType(x.Elem(), seen)
	case *types.Tuple:
		for i := 0; i < x.Len(); i++ {
			if !immutableType(x.At(i).Type(), seen) {
				return false
			}
		}
		return true
	}
	return false
}

func immutable(t types.Type) bool { return immutableType(t, map[types.Type]bool{}) }

type deepTaint struct {
	verified map[*ssa.Function]bool
	t        map[ssa.Value]bool
	changed  bool
}

func (d *deepTaint) mark(v ssa.Value) {
	if v == nil || d.t[v] {
		return
	}
	if _, ok := v.(*ssa.Const); ok {
		return
	}
	d.t[v] = true
	d.changed = true
}

// markRoots taints the allocation(s) an address or container value belongs to.
func (d *deepTaint) markRoots(v ssa.Value, seen map[ssa.Value]bool) {
	if v == nil || seen[v] {
		return
	}
	seen[v] = true
	d.mark(v)
	switch x := v.(type) {
	case *ssa.IndexAddr:
		d.markRoots(x.X, seen)
	case *ssa.FieldAddr:
		d.markRoots(x.X, seen)
	case *ssa.Slice:
		d.markRoots(x.X, seen)
	case *ssa.Phi:
		for _, e := range x.Edges {
			d.markRoots(e, seen)
		}
	case *ssa.ChangeType:
		d.markRoots(x.X, seen)
	case *ssa.Convert:
		d.markRoots(x.X, seen)
	case *ssa.MakeInterface:
		d.markRoots(x.X, seen)
	case *ssa.UnOp:
		if x.Op == token.MUL {
			// a container loaded from a local cell: the cell holds the same container
			d.markRoots(x.X, seen)
		}
	case *ssa.Call:
		if b, ok := x.Call.Value.(*ssa.Builtin); ok && b.Name() == "append" {
			d.markRoots(x.Call.Args[0], seen)
		}
	}
}

// guardedImmutable: every path from the entry to block b passes the true edge of a test of x
// against an immutable dynamic type (or nil).
func guardedImmutable(fn *ssa.Function, x ssa.Value, b *ssa.BasicBlock) bool {
	if _, ok := x.Type().Underlying().(*types.Interface); !ok {
		return false
	}
	cut := map[[2]*ssa.BasicBlock]bool{}
	for _, blk := range fn.Blocks {
		if len(blk.Instrs) == 0 {
			continue
		}
		iff, ok := blk.Instrs[len(blk.Instrs)-1].(*ssa.If)
		if !ok {
			continue
		}
		switch c := iff.Cond.(type) {
		case *ssa.Extract:
			if ta, ok := c.Tuple.(*ssa.TypeAssert); ok && c.Index == 1 && ta.CommaOk && ta.X == x && immutable(ta.AssertedType) {
				cut[[2]*ssa.BasicBlock{blk, blk.Succs[0]}] = true
			}
		case *ssa.BinOp:
			if c.Op == token.EQL && ((c.X == x && isNilConst(c.Y)) || (c.Y == x && isNilConst(c.X))) {
				cut[[2]*ssa.BasicBlock{blk, blk.Succs[0]}] = true
			}
		}
	}
	if len(cut) == 0 {
		return false
	}
	seen := map[*ssa.BasicBlock]bool{fn.Blocks[0]: true}
	work := []*ssa.BasicBlock{fn.Blocks[0]}
	for len(work) > 0 {
		cur := work[len(work)-1]
		work = work[:len(work)-1]
		if cur == b {
			return false
		}
		for _, s := range cur.Succs {
			if cut[[2]*ssa.BasicBlock{cur, s}] || seen[s] {
				continue
			}
			seen[s] = true
			work = append(work, s)
		}
	}
	return true
}

// carried: does passing v on at instruction `at` pass on a parameter-owned mutable container?
func (d *deepTaint) carried(fn *ssa.Function, v ssa.Value, at ssa.Instruction) bool {
	if !d.t[v] || immutable(v.Type()) {
		return false
	}
	x := v
	for {
		switch y := x.(type) {
		case *ssa.MakeInterface:
			x = y.X
			continue
		case *ssa.ChangeInterface:
			x = y.X
			continue
		}
		break
	}
	if immutable(x.Type()) {
		return false
	}
	if guardedImmutable(fn, x, at.Block()) {
		return false
	}
	return true
}

type deepFinding struct {
	in   ssa.Instruction
	what string
}

func (d *deepTaint) analyse(root *ssa.Function) (findings []deepFinding, stats [3]int) {
	d.t = map[ssa.Value]bool{}
	fns := withClosures(root)
	for _, p := range root.Params {
		if !immutable(p.Type()) {
			d.t[p] = true
		}
	}
	bindings := map[*ssa.FreeVar]ssa.Value{}
	for _, fn := range fns {
		allInstrs(fn, func(in ssa.Instruction) {
			if mc, ok := in.(*ssa.MakeClosure); ok {
				if cf, ok := mc.Fn.(*ssa.Function); ok {
					for i, b := range mc.Bindings {
						if i < len(cf.FreeVars) {
							bindings[cf.FreeVars[i]] = b
						}
					}
				}
			}
		})
	}
	step := func(fn *ssa.Function, in ssa.Instruction) {
		any := func(vs ...ssa.Value) bool {
			for _, v := range vs {
				if v != nil && d.t[v] {
					return true
				}
			}
			return false
		}
		switch x := in.(type) {
		case *ssa.Store:
			if d.carried(fn, x.Val, in) {
				d.markRoots(x.Addr, map[ssa.Value]bool{})
			}
		case *ssa.MapUpdate:
			if d.carried(fn, x.Value, in) || d.carried(fn, x.Key, in) {
				d.markRoots(x.Map, map[ssa.Value]bool{})
			}
		case *ssa.Send:
			if d.carried(fn, x.X, in) {
				d.markRoots(x.Chan, map[ssa.Value]bool{})
			}
		case ssa.CallInstruction:
			cc := x.Common()
			res, _ := in.(ssa.Value)
			if b, ok := cc.Value.(*ssa.Builtin); ok {
				switch b.Name() {
				case "append":
					if any(cc.Args...) && res != nil {
						d.mark(res)
						if len(cc.Args) > 1 && d.t[cc.Args[1]] {
							d.markRoots(cc.Args[0], map[ssa.Value]bool{})
						}
					}
				case "copy":
					if d.t[cc.Args[1]] {
						if sl, ok := cc.Args[1].Type().Underlying().(*types.Slice); !ok || !immutable(sl.Elem()) {
							d.markRoots(cc.Args[0], map[ssa.Value]bool{})
						}
					}
				}
				return
			}
			if sf := cc.StaticCallee(); sf != nil {
				if d.verified[sf] {
					return
				}
				if sf.Pkg != nil && freshLibCalls[sf.Pkg.Pkg.Path()+"."+sf.Name()] {
					return
				}
				if sf.Parent() != nil && sf.Parent() == fn {
					// a local closure called directly: analysed in place through its free variables
				}
			}
			args := append([]ssa.Value{}, cc.Args...)
			if cc.IsInvoke() || cc.StaticCallee() == nil {
				args = append(args, cc.Value)
			}
			if any(args...) {
				if res != nil && !immutable(res.Type()) {
					d.mark(res)
				}
				// an unknown callee may store a tainted argument into any other (pointer-like) argument
				for _, a := range args {
					if !d.t[a] && !immutable(a.Type()) {
						d.markRoots(a, map[ssa.Value]bool{})
					}
				}
			}
		case ssa.Value:
			if immutable(x.Type()) {
				return
			}
			var ops []ssa.Value
			switch y := x.(type) {
			case *ssa.FreeVar:
				ops = []ssa.Value{bindings[y]}
			case *ssa.Phi:
				ops = y.Edges
			case *ssa.MakeClosure:
				ops = y.Bindings
			case *ssa.Alloc, *ssa.MakeSlice, *ssa.MakeMap, *ssa.MakeChan:
				return
			default:
				for _, op := range in.Operands(nil) {
					if *op != nil {
						ops = append(ops, *op)
					}
				}
			}
			if any(ops...) {
				d.mark(x)
			}
		}
	}
	for pass := 0; pass < 50; pass++ {
		d.changed = false
		for _, fn := range fns {
			for _, fv := range fn.FreeVars {
				if b := bindings[fv]; b != nil && d.t[b] {
					d.mark(fv)
				}
			}
			allInstrs(fn, func(in ssa.Instruction) { step(fn, in) })
		}
		if !d.changed {
			break
		}
	}
	// sinks
	rootedInCaller := func(addr ssa.Value) bool {
		seen := map[ssa.Value]bool{}
		var walk func(v ssa.Value) bool
		walk = func(v ssa.Value) bool {
			if v == nil || seen[v] {
				return false
			}
			seen[v] = true
			switch x := v.(type) {
			case *ssa.Parameter, *ssa.Global:
				return true
			case *ssa.IndexAddr:
				return walk(x.X)
			case *ssa.FieldAddr:
				return walk(x.X)
			case *ssa.Slice:
				return walk(x.X)
			case *ssa.ChangeType:
				return walk(x.X)
			case *ssa.TypeAssert:
				return walk(x.X)
			case *ssa.Extract:
				return walk(x.Tuple)
			case *ssa.Phi:
				for _, e := range x.Edges {
					if walk(e) {
						return true
					}
				}
			case *ssa.UnOp:
				if x.Op == token.MUL {
					return walk(x.X)
				}
			}
			return false
		}
		return walk(addr)
	}
	for _, fn := range fns {
		allInstrs(fn, func(in ssa.Instruction) {
			stats[0]++
			switch x := in.(type) {
			case *ssa.Return:
				if fn != root {
					return
				}
				stats[1]++
				for i := range x.Results {
					v := retVal(x, i)
					if v == nil {
						v = x.Results[i]
					}
					if d.carried(fn, v, in) {
						findings = append(findings, deepFinding{in, fmt.Sprintf("result %d may be or contain a container owned by an argument (not a copy)", i)})
					}
				}
			case *ssa.Store:
				stats[2]++
				if d.carried(fn, x.Val, in) && rootedInCaller(x.Addr) {
					findings = append(findings, deepFinding{in, "stores an argument-owned container into caller-owned or global memory"})
				}
			case *ssa.Call:
				// copy(dst, src) into memory the caller can see (an out parameter): the elements are shared, not copied
				if b, ok := x.Call.Value.(*ssa.Builtin); ok && b.Name() == "copy" && len(x.Call.Args) == 2 {
					stats[2]++
					if sl, ok := x.Call.Args[1].Type().Underlying().(*types.Slice); ok && !immutable(sl.Elem()) && d.t[x.Call.Args[1]] && rootedInCaller(x.Call.Args[0]) {
						findings = append(findings, deepFinding{in, "copies the elements of an argument-owned slice into caller-visible memory: the containers inside the elements are shared, not copied"})
					}
				}
			}
		})
	}
	return
}

func ruleOwn8(c *Ctx, r *Reporter) {
	d := &deepTaint{verified: map[*ssa.Function]bool{}}
	var order []*ssa.Function
	var add func(fn *ssa.Function)
	add = func(fn *ssa.Function) {
		if fn == nil || d.verified[fn] || fn.Blocks == nil {
			return
		}
		d.verified[fn] = true
		order = append(order, fn)
		for _, g := range withClosures(fn) {
			allInstrs(g, func(in ssa.Instruction) {
				if ci, ok := in.(ssa.CallInstruction); ok {
					if sf := ci.Common().StaticCallee(); sf != nil && sf.Parent() == nil && fnPkgPath(sf) == pkgBsonkit {
						add(sf)
					}
				}
			})
		}
	}
	for _, name := range deepCopyRoots {
		fn := c.lookupSSA(pkgBsonkit, name)
		if fn == nil {
			r.bad("anchor:bsonkit."+name, "-", "copy function not found")
			continue
		}
		if sum, ok := bsonkitSummaries[name]; !ok || sum.result != "clean" {
			r.bad("anchor:bsonkit."+name, "-", "the sharing analysis does not treat this function as returning a fresh value: table mismatch")
		}
		add(fn)
	}
	// every bsonkit function the sharing analysis summarises as "clean" and that has a parameter able to carry a container must be verified here
	for name, sum := range bsonkitSummaries {
		if sum.result != "clean" || sum.mutates >= 0 || strings.Contains(name, ".") {
			continue
		}
		fn := c.lookupSSA(pkgBsonkit, name)
		if fn == nil {
			continue
		}
		carrier := false
		for _, p := range fn.Params {
			if !immutable(p.Type()) {
				carrier = true
			}
		}
		if carrier && !d.verified[fn] {
			r.bad("anchor:bsonkit."+name, "-", "summarised as returning a fresh value but not among the verified copy functions")
		}
	}
	sort.Slice(order, func(i, j int) bool { return funcName(order[i]) < funcName(order[j]) })
	n := 0
	for _, fn := range order {
		findings, stats := d.analyse(fn)
		key := funcName(fn) + ":result shares nothing with the arguments"
		n++
		if len(findings) == 0 {
			r.ok(key, c.pos(fn.Pos()), fmt.Sprintf("%d instructions, %d returns, %d stores examined: no argument-owned container reaches a result", stats[0], stats[1], stats[2]))
			continue
		}
		sort.Slice(findings, func(i, j int) bool { return findings[i].in.Pos() < findings[j].in.Pos() })
		f := findings[0]
		pos := f.in.Pos()
		if pos == token.NoPos {
			pos = fn.Pos()
		}
		r.bad(key, c.pos(pos), fmt.Sprintf("%s (%d such site(s))", f.what, len(findings)))
	}
	r.guard(n, 13, "verified bsonkit copy functions")
}
