package main

// PropDef describes what the checker decides for one property.
type PropDef struct {
	ID          string
	Rules       []string
	Explanation string
	Decided     []string
	NotDecided  []string
	Assumptions []string
}

var properties = map[string]*PropDef{}

func prop(p *PropDef) { properties[p.ID] = p }

var commonAssumptions = []string{
	"the Go type checker and x/tools SSA/VTA construction are correct; VTA over-approximates dynamic calls",
	"third-party code behaves as documented (btree.Copy is copy-on-write, tomb Kill/Alive/Wait, bson codec, shopspring/decimal)",
	"reflect/unsafe are not modelled",
}

func init() {
	prop(&PropDef{
		ID:          "C01",
		Rules:       []string{"TXN-1", "TXN-2", "SHAPE-1", "TAB-2", "UPS-1", "EXT-1", "WIN-3", "WIN-4", "WIN-1", "OWN-5", "OWN-8", "ATOM-2", "MOD-1", "IDX-1", "ATOM-5", "ACC-1", "LOCK-4", "ATOM-6", "TXN-5", "NS-1", "OWN-2", "FLAG-4", "ARG-1", "TXN-6"},
		Explanation: "Structural necessary conditions of 'CRUD equals a sequential model', decided for every path/site of the resolved program: writes are never issued on an unlocked snapshot transaction (they would be silently discarded), every data access goes through a transaction that honours the session, the driver's counts and ids derive from the right engine result lists, every documented operator is wired, the upsert fallback fires exactly on 'nothing matched', and the find/update/delete window is sort -> filter(limit+skip) -> skip. Model equivalence itself (what each operator computes on each input) is a runtime relation and is NOT decided.",
		Decided:     []string{"bsonkit.Set never moves a document to another position", "$in/$or upsert extraction only for a single alternative (len interval at each Put/Process site)", "lock flag vs. methods called at all 19 useTransaction sites", "no back door to Engine.catalog / NewTransaction", "provenance of MatchedCount/ModifiedCount/DeletedCount/Inserted*/Upserted*", "operator registries complete", "upsert condition is len(Matched)==0 && upsert", "window composition in Find/Replace/Update/Delete"},
		NotDecided:  []string{"that each operator computes MongoDB's result on each input", "contents of collections after arbitrary histories", "error-or-success agreement with a reference model"},
		Assumptions: commonAssumptions,
	})
	prop(&PropDef{
		ID:          "C02",
		Rules:       []string{"ATOM-1", "ATOM-2", "ATOM-3", "ATOM-4", "OWN-1", "OWN-2", "OWN-8", "LOG-1", "PUB-1", "ERR-1", "ACC-1", "ATOM-5", "OWN-10", "ERR-2", "OWN-3", "ATOM-6", "ATOM-7", "TXN-6"},
		Explanation: "The mechanism the property names - clone catalog + namespace + oplog, run, assign back only on success - checked on every path of every write method of *Transaction: no store of t.catalog/t.dirty is reachable from a failure edge and nothing fallible follows it; in Insert/Bulk the per-item clones are made inside the loop, assigned back as a pair on the success edge only, and every successful exit passes the final store; every mutation in package lungo happens on a fresh clone (catalog map and collections); mongokit.Collection validates before it mutates; the change event lives in the same discarded/kept clone pair.",
		Decided:     []string{"cloned collections that were written to are installed before the publish store", "failure edges never reach the state store (26 stores)", "per-item clone/assign-back discipline in Insert and Bulk", "all catalog-map and collection mutations are on fresh clones", "validation dominates mutation in Collection write methods", "event append is paired with the data change"},
		NotDecided:  []string{"aliasing that the origin tracking (bound 1 through unexported helpers) does not see", "byte-level equality of database states before/after a failed call"},
		Assumptions: commonAssumptions,
	})
	prop(&PropDef{
		ID:          "C03",
		Rules:       []string{"OWN-1", "OWN-2", "OWN-3", "OWN-4", "OWN-8", "PUB-1", "TXN-2", "TXN-3", "TXN-4", "ATOM-1", "ATOM-4", "ASSUME-1", "ATOM-5", "OWN-10", "ATOM-6", "TXN-5"},
		Explanation: "Copy-on-write and publication discipline behind 'all-or-nothing transactions, immutable snapshots': nothing reachable from a published catalog is written (catalog map, collection, set list/index, btree, documents: every in-place document mutation works on a document that is fresh in the sharing analysis), clones are deep enough, only Commit publishes - after the identity check and after the store accepted the very catalog that is published - and reads inside a session use the session's transaction.",
		Decided:     []string{"bsonkit copy functions verified deep (no parameter-owned container reaches a result)", "session detaches its transaction on every way out of Commit/Abort", "catalog/collection COW at every mutation site", "clone depth of Set/Index/Collection/Catalog", "stored documents are never mutated in place (OWN-4)", "single publish point with identity check, store-then-publish", "session transaction consulted first"},
		NotDecided:  []string{"byte-identity of what a particular snapshot returns over a particular history", "primitive.Binary.Data sharing (documented exception of Clone)"},
		Assumptions: commonAssumptions,
	})
	prop(&PropDef{
		ID:          "C04",
		Rules:       []string{"LOCK-0", "LOCK-3", "LOCK-4", "LOCK-5", "TXN-1", "TXN-2", "TXN-4", "PUB-1", "OWN-3", "LOCK-10", "LOCK-11", "DUR-3", "LOCK-13", "OWN-1", "ATOM-5", "OWN-2"},
		Explanation: "Lock and token discipline that strict serializability rests on: every mutable field of Engine/Session/Stream/Transaction/Cursor and the timestamp globals is accessed only under its mutex; the writer token is a typestate (acquired once, handed to e.txn, taken back and released exactly once); the writer's base snapshot is read after the token is won and in the critical section that registers e.txn (no lost update); writes need the lock flag; the catalog pointer is swapped under the mutex after the store accepted it.",
		Decided:     []string{"clone depth of Set/Index/Collection/Catalog", "Semaphore.Acquire returns true exactly on token-holding paths", "consistent locking of ~150 field accesses", "token typestate on all paths of Begin/Commit/Abort", "snapshot-after-token in Begin", "write methods only on locked transactions", "publish protocol"},
		NotDecided:  []string{"linearizability of observed histories", "real-time order", "agreement of results with the oplog order"},
		Assumptions: append([]string{"txn arguments of Commit/Abort are non-nil", "locks are identified by (type, field): instance-insensitive"}, commonAssumptions...),
	})
	prop(&PropDef{
		ID:          "C05",
		Rules:       []string{"DUR-1", "DUR-2", "DUR-3", "DUR-4", "PUB-1", "TXN-3", "OWN-2", "ERR-1", "TAB-8"},
		Explanation: "The ordered durability protocol, checked as dominance chains on the SSA of AtomicWriteFile (remove stale temp, O_CREATE|O_EXCL open, copy, fsync, close, rename(temp,path), open dir, fsync dir; each step on the success edge of the previous one; success reported only after the directory fsync), who may touch the file system, the FileStore pipeline, store-then-publish in Commit with error/txn/token handling on the failure edge, and no dropped error on the persist/load path. What a kill at a given syscall leaves on disk and what a real file system does with unsynced data are fault-model questions and NOT decided.",
		Decided:     []string{"the session drops its transaction also when the commit fails", "8-step write protocol ordering and error handling", "only AtomicWriteFile mutates the file system", "FileStore.Store writes bson.Marshal(BuildFile(catalog)) to s.path", "Commit publishes only after Store returned nil; failure path returns the error with txn cleared and token released", "no dropped errors in store.go/file.go/atomic.go"},
		NotDecided:  []string{"kill points and disk behaviour", "torn-write behaviour of the OS"},
		Assumptions: commonAssumptions,
	})
	prop(&PropDef{
		ID:          "C06",
		Rules:       []string{"TAB-3", "TAB-4", "TAB-8", "TAB-9", "TAB-11", "TAB-1", "IDX-5", "IDX-7", "PUB-1", "DUR-1", "DUR-2", "ERR-1", "NIL-1", "TAB-12", "OWN-2"},
		Explanation: "Tables that must agree for persist-and-reload to be the identity: the on-disk FileIndex/FileNamespace mirror IndexConfig/Collection field by field with plain copies in both directions, the codec tags are usable, every stored index is rebuilt from the loaded documents under its saved name and a duplicate fails the load, the BSON type universe is closed under Inspect/cloneValue, and the catalog that is persisted is the one that is published (retention runs before both). The fidelity of the bson codec for each value is third-party and per-value: NOT decided.",
		Decided:     []string{"namespace key join/split agree (first separator, two parts), Validate rejects the separator in database names, every Transaction entry point validates", "per-namespace maps are allocated per namespace in BuildFile/BuildCatalog", "field coverage and plain-copy round trip of index definitions", "codec tags", "index rebuild on load", "type universe closure", "file and memory see the same catalog at commit"},
		NotDecided:  []string{"bson codec fidelity per value (NaN, -0, decimal exponents)", "natural order after reload beyond 'documents are written in set order'"},
		Assumptions: commonAssumptions,
	})
	prop(&PropDef{
		ID:          "C07",
		Rules:       []string{"IDX-1", "IDX-2", "IDX-3", "IDX-4", "IDX-5", "IDX-6", "IDX-8", "SEM-2", "SEM-3", "ATOM-3", "OWN-2", "UPS-1", "TAB-11", "TAB-3", "ERR-1", "ATOM-2", "IDX-10", "NUM-5"},
		Explanation: "Uniqueness enforcement as pairing rules: every write path of mongokit.Collection adds to / removes from every index for every document before it touches Documents and aborts on a false result; bsonkit.Index.Add probes every key tuple of a unique index before inserting and Add/Remove use the same tuple set; the _id_ index exists for every user namespace and cannot be dropped; the partial-filter gates of Add/Remove/Has agree; index builds (creation and file load) reject duplicates; the comparators the btree relies on are sign functions with the right orientation.",
		Decided:     []string{"multi-document exchange removes all old versions before adding new ones", "index maintenance on all 5 write paths (loop completeness per index and per document)", "probe-before-insert", "_id_ index present and undroppable", "gate agreement", "build rejects duplicates", "leaf comparator tables and numeric orientation"},
		NotDecided:  []string{"that Compare-equality of key tuples is the right equality for every value pair", "'never rejected wrongly' on concrete histories"},
		Assumptions: commonAssumptions,
	})
	prop(&PropDef{
		ID:          "C08",
		Rules:       []string{"LOG-1", "LOG-2", "LOG-3", "LOG-4", "LOG-5", "RET-1", "MOD-1", "TAB-6", "ATOM-1", "ATOM-2", "ATOM-4", "OWN-2", "LOCK-3", "PUB-1", "OWN-10", "RET-2", "ACC-1", "UPD-4", "LOCK-5", "OWN-8", "LOG-6", "UPD-7"},
		Explanation: "The change log as a pairing discipline: each successful collection mutation in the Transaction helpers is followed on every success path by an append of the matching event kind for the documents of the matching result list, with the error propagated, into the oplog clone that is published together with the data; only those helpers may mutate documents; failed/no-op writes store nothing (ATOM); update events pair a document with its own change record; retention removes List[0] of a cloned oplog only; the timestamp generator state is mutex-protected; event kinds written and read agree.",
		Decided:     []string{"drop predicate of Clean over all loop-body paths (size protection exact, age protection, forced-drop clause)", "append after every mutation kind, placement and error propagation", "who may mutate", "prefix-only retention on a clone, run before store/publish", "Modified/Changes lock-step", "op strings"},
		NotDecided:  []string{"replay equivalence on concrete histories", "content of updateDescription", "retention arithmetic (min/max size and age)", "numeric monotonicity of ids"},
		Assumptions: commonAssumptions,
	})
	prop(&PropDef{
		ID:          "C09",
		Rules:       []string{"SIG-1", "SIG-2", "LOCK-1", "LOCK-2", "LOCK-3", "TAB-6", "PUB-1", "SEM-6", "WATCH-1", "LOG-3", "OWN-2", "WATCH-2", "SIG-3", "SIG-4", "WATCH-3"},
		Explanation: "The wake-up and close protocol of change streams: buffered signal channel, all sends non-blocking and after publication, registration in the critical section that reads the start position, blocking wait on signal and ctx with the stream lock released, close(signal) only under Stream.mutex guarded by !closed after tomb.Kill outside Engine.mutex, every Stream path that sets closed also unregisters; no lock-order cycle and no blocking under locks among Engine/Stream; invalidate triggers read the event kinds that are written.",
		Decided:     []string{"start-at position (nil for i==0, List[i-1] otherwise) and found condition Compare(startAt, clusterTime) <= 0", "no lost wake-up by construction (buffer + send-after-publish + register-with-position)", "no send on / double close of a closed channel", "no deadlock between stream and engine locks"},
		NotDecided:  []string{"exactly-once, in-order delivery and resume positions over a history", "lost-position detection arithmetic", "timing"},
		Assumptions: commonAssumptions,
	})
	prop(&PropDef{
		ID:          "C10",
		Rules:       []string{"TAB-2", "SEM-1", "SEM-4", "SEM-2", "SEM-9", "NUM-5", "FLAG-1", "FLAG-2", "REC-1", "SCH-1", "SEM-10", "NUM-6", "SEM-12", "SEM-13", "FLAG-3", "NUM-8", "FLAG-4"},
		Explanation: "Wiring and finite-domain semantics of query operators: every operator is registered, multi-name functions dispatch on exactly the registered names; matchComp's truth table over (type bracketing flag x sign of Compare) is the MongoDB one for each label; $ne/$nin/$nor are matchNegate around the function registered for $eq/$in/$or with the same arguments, matchNegate is an exact negation, and the per-iteration outcome tables of matchAnd/matchOr/matchNot are conjunction/disjunction/negated conjunction. These hold for every document and filter. Path traversal, array fan-out and the element-wise operators ($all, $size, $elemMatch, $mod, $bits*, $type, $exists, $jsonSchema) are NOT decided (DESIGN section 8).",
		Decided:     []string{"matchUnwind flags agree with $eq for every leaf operator ($all excepted)", "exact ranges for int64<->float64 conversions in comparisons", "no never-set flag in operator code", "registries and dispatch", "comparison truth table incl. bracketing (36 cases)", "negation structure and logical connective tables"},
		NotDecided:  []string{"dotted-path traversal and array fan-out", "$all/$size/$elemMatch/$mod/$bits/$type/$exists/$jsonSchema semantics", "agreement with a reference evaluator"},
		Assumptions: commonAssumptions,
	})
	prop(&PropDef{
		ID:          "C11",
		Rules:       []string{"TAB-2", "TAB-5", "ATOM-3", "NUM-3", "LOG-4", "OWN-4u", "MOD-1", "UPD-1", "UPD-2", "UPD-3", "UPD-4", "FLAG-1", "FLAG-2", "REC-1", "ASSUME-1", "WIN-2", "UPS-1", "NIL-1", "UPD-5", "REC-2", "NUM-7", "MOD-2", "NUM-9", "UPD-6", "UPD-7"},
		Explanation: "Structural parts of update semantics: all 15 operators are registered and assert the context type their only Process site supplies; bsonkit.Add/Mul return the promoted static type for each of the 16 type pairs; an update is rejected as a whole (apply errors and the _id check dominate every index/Documents mutation); updates are applied to clones; modified-count filtering keeps documents and change records in lock step. Integer overflow (NUM-3) is a recorded known finding. What each operator computes on each document and idempotence are NOT decided.",
		Decided:     []string{"$addToSet scans the array it grows", "no never-set flag in operator code", "operator wiring", "numeric promotion table (32 cases)", "reject-as-a-whole ordering", "apply-on-clone"},
		NotDecided:  []string{"operator results ($push modifiers, $pull conditions, positional paths)", "idempotence laws", "field order preservation"},
		Assumptions: commonAssumptions,
	})
	prop(&PropDef{
		ID:          "C12",
		Rules:       []string{"TAB-1", "SEM-2", "SEM-3", "SEM-5", "SEM-7", "SEM-8", "NUM-5"},
		Explanation: "Finite tables behind the BSON order: the Class constants increase in MongoDB's comparison order and Compare orders differing classes by them; Inspect/cloneValue/Compare are exhaustive over the type universe and each comparator asserts exactly its class's types; the leaf comparators (int32, int64, float64 with NaN, bool, date) are correct sign functions on every ordering, hence antisymmetric; every mixed numeric case of compareNumbers is oriented left-vs-right. Non-finite/inexact decimal conversions are a recorded known finding (SEM-5). Transitivity across mixed numeric magnitudes and the recursion over documents/arrays are NOT decided.",
		Decided:     []string{"every relational test in a comparator relates left to right", "exact ranges for int64<->float64 conversions", "class order and exhaustiveness", "leaf comparator tables (incl. NaN lowest)", "orientation of all 16 numeric pairs"},
		NotDecided:  []string{"transitivity over int64/double/decimal128 values around 2^53 and 2^63", "document/array recursion", "constants inside compareInt64ToFloat64"},
		Assumptions: commonAssumptions,
	})
	prop(&PropDef{
		ID:          "C13",
		Rules:       []string{"WIN-1", "WIN-2", "WIN-3", "WIN-4", "WIN-5", "WIN-6", "NUM-1", "NUM-5", "WIN-7", "WIN-8", "SEM-7", "ARG-1", "WIN-9"},
		Explanation: "Structural parts of sort/skip/limit: in-place sorts only ever permute lists made in the same function (a sorted find cannot reorder the collection), document sorts are stable, the window is composed as sort(full list) -> filter(limit+skip under limit>0) -> drop skip under a bounds guard in all four siblings, and no allocation is sized by the caller's limit. The ordering produced by sortKey/Order, window arithmetic on values and distinct de-duplication are NOT decided.",
		Decided:     []string{"Set keeps insertion order", "sortKey operand and update table over all loop-body paths", "no shared list is sorted in place", "stable sorts", "window composition in Find/Replace/Update/Delete", "bounded preallocation"},
		NotDecided:  []string{"the order relation itself (per-direction array keys, missing as null)", "distinct"},
		Assumptions: commonAssumptions,
	})
	prop(&PropDef{
		ID:          "C14",
		Rules:       []string{"OWN-4p", "TAB-2", "NUM-2s", "PROJ-1", "PROJ-2", "PROJ-3", "PROJ-4", "FLAG-1", "ASSUME-1", "PROJ-5", "PROJ-6", "PROJ-7", "PROJ-8", "FLAG-4"},
		Explanation: "The non-interference clause of projections - projecting never alters the stored document - decided by the sharing analysis: every in-place mutation reachable from mongokit.Project works on containers that are fresh (Project clones its input first, so nested inclusions and operator overlays cannot write through to the original); the projection operators are registered and assert the state type Project supplies; the integer arithmetic of $slice windows cannot overflow before it is clamped. Which fields an inclusion/exclusion returns is NOT decided.",
		Decided:     []string{"projectCondition effect table over (inclusion flag, path == _id)", "Project/ProjectList never write into their input", "projection registry", "$slice bounds arithmetic"},
		NotDecided:  []string{"which paths are returned", "$elemMatch selection", "values of the window"},
		Assumptions: commonAssumptions,
	})
	prop(&PropDef{
		ID:          "C15",
		Rules:       []string{"IDX-1", "IDX-3", "IDX-5", "IDX-7", "IDX-9", "TAB-3", "TAB-10", "OWN-2", "OWN-3", "ATOM-2", "ATOM-3", "ERR-1", "IDX-4", "WIN-1", "IDX-10", "OWN-9"},
		Explanation: "Index coherence as pairing + copy-on-write: every Documents mutation is paired with complete index maintenance for every index and every document, indexes only change together with their collection clone (so a failed or aborted write leaves no residue), creation is a no-op for an equal definition / rejects a conflicting key / builds from all current documents, file load rebuilds every index, and the _id_ index cannot be dropped.",
		Decided:     []string{"IndexConfig.Equal compares every field on every true path", "Index.Build receives the collection's own list", "index maintenance pairing on all write paths", "indexes change only inside a fresh collection clone", "CreateIndex no-op/conflict/build", "reload rebuild", "_id_ spared"},
		NotDecided:  []string{"key order inside the btree for given documents", "equivalence with a from-scratch rebuild on concrete histories"},
		Assumptions: commonAssumptions,
	})
	prop(&PropDef{
		ID:          "C16",
		Rules:       []string{"LOCK-0", "LOCK-1", "LOCK-2", "LOCK-4", "LOCK-6", "LOCK-7", "LOCK-8", "LOCK-9", "LOCK-10", "LOCK-11", "SIG-2", "DUR-3", "LOCK-12", "ERR-1", "SIG-4"},
		Explanation: "Static lock/token discipline behind 'the engine never wedges', decided on every path of the resolved program: balanced locking, acyclic lock order over the VTA call graph, no blocking under engine/session/stream/transaction locks, token typestate (released exactly once on the paths that own it), release of every begun write transaction at each call site (deferred when callbacks run), liveness re-checks, the session state machine, shutdown unblocking token waiters and the expiry goroutine, and the close/send discipline of stream channels. It is a set of structural necessary conditions, not the behavioural property.",
		Decided:     []string{"Semaphore.Acquire reports exactly the token state", "no lock-order cycle among the repo's mutexes", "token released exactly once per owning path in Begin/Commit/Abort (also when the store fails)", "every Begin(lock) site aborts/commits/hands over on all paths", "no blocking call while a critical lock may be held", "waiters observe the tomb"},
		NotDecided:  []string{"promptness (time bounds)", "goroutine counts after shutdown", "panics inside third-party code", "nil txn arguments"},
		Assumptions: append([]string{"txn arguments of Commit/Abort are non-nil", "locks are identified by (type, field): instance-insensitive"}, commonAssumptions...),
	})
	prop(&PropDef{
		ID:          "C17",
		Rules:       []string{"OWN-5", "OWN-6", "OWN-7", "OWN-4", "OWN-8", "OWN-9", "ASSUME-1", "TAB-3"},
		Explanation: "No aliasing across the API, decided by a flow-insensitive sharing analysis over the SSA of mongokit and lungo (bsonkit primitives by summary): every document/filter/update argument of the driver methods only flows into Transform/TransformList (copy), every value a driver method hands back is either of a type that cannot carry a container, a copy (ConvertValue/Decode/Marshal), or wrapped in Cursor/SingleResult/Stream whose accessors copy; at the engine level every document that reaches the stored set is a clone and no caller container is written to.",
		Decided:     []string{"bsonkit copy functions verified deep", "CreateIndex copies Key/Partial before retaining them", "arguments enter by copy at every driver method", "results leave by copy", "engine-level inserts/replacements/updates are cloned before they are stored", "calls never write into their arguments"},
		NotDecided:  []string{"sharing of primitive.Binary.Data (documented exception of Clone)", "GridFS streams (metadata kept while an upload is in flight)"},
		Assumptions: commonAssumptions,
	})
	prop(&PropDef{
		ID:          "C19",
		Rules:       []string{"TTL-1", "TTL-2", "TAB-7", "TAB-3", "SEM-1", "LOG-2", "ATOM-1", "ATOM-4", "LOCK-6", "OWN-2", "IDX-9", "IDX-4", "ACC-1", "OWN-10", "LOCK-5", "TXN-2", "LOCK-4"},
		Explanation: "Structure of the expiry pass: only namespaces with an index whose Expiry > 0 are cloned and deleted from, the TTL index list and the condition list are fresh per namespace, the filter is {$or: [{field: {$lt: <time.Time>}}]} so that type bracketing (SEM-1) restricts matches to dates, the delete goes through the logging helper on fresh clones, a pass that deletes nothing stores nothing, the `> 0` sentinel is used consistently and expireAfterSeconds:0 is mapped to a positive duration, and the background loop aborts/commits every transaction it begins. The cut-off arithmetic and 'if and only if' on actual dates are NOT decided.",
		Decided:     []string{"oplog clone installed before publishing in Expire", "Expiry copied both ways in the file format", "per-namespace guard and freshness", "filter shape and operand type", "logged deletion on clones", "no-op pass stores nothing", "TTL sentinel"},
		NotDecided:  []string{"date arithmetic (now - expiry)", "array-of-dates semantics of $lt fan-out"},
		Assumptions: commonAssumptions,
	})
	prop(&PropDef{
		ID:          "C20",
		Rules:       []string{"PANIC-1", "PANIC-2", "PANIC-3", "PANIC-4", "PANIC-5", "NUM-1", "NUM-2", "NUM-4", "LOCK-6", "IDX-8", "PANIC-6", "ERR-2", "PANIC-7", "NUM-6", "PANIC-8", "LOCK-4", "SIG-4"},
		Explanation: "Enumerated panic sources, each decided for every site in non-test code: no comparison of two BSON-carrying interfaces; all unchecked type assertions discharged by tables, result types, dominating checks or listed invariants; every integer division by a variable is zero-guarded; every explicit panic is a documented argument guard or covered by a table; the index-tuple invariant (at least one tuple) holds; allocation sizes, appending-loop bounds and $slice arithmetic are not caller-controlled/overflowing; a panic inside a user callback cannot leak the writer token. Absence of ALL panics (nil dereference, index expressions outside these rules, third-party code) is NOT decided.",
		Decided:     []string{"_id presence test before every Set.Add/Replace", "interface comparisons (526 sites)", "75 unchecked assertions", "division guards", "explicit panics classified", "allocation/loop bounds", "deferred abort around callbacks"},
		NotDecided:  []string{"nil dereferences", "slice/index expressions outside NUM-2's sources", "panics in third-party code", "hangs other than unbounded allocation"},
		Assumptions: commonAssumptions,
	})
}

func init() {
	prop(&PropDef{
		ID:          "C18",
		Rules:       []string{"GFS-1", "GFS-2", "GFS-3", "GFS-4", "PANIC-3", "ERR-1", "GFS-5", "GFS-6", "GFS-7", "FLAG-5", "GFS-8"},
		Explanation: "What a download returns for what was uploaded is a relation over runtime values (all byte strings x chunk sizes x write partitions x seek scripts) and is NOT decided. Decided is the bookkeeping that byte-exactness rests on and that is visible in the shape of bucket.go: every quantity of the upload and download paths is normalised to a linear form over receiver fields, parameters, loop variables and len(x), and the forms must be the ones the GridFS layout requires - chunk number, data window, loop step, the three counters, the remainder carry-over, where the file record takes length and chunk size from, the (chunk number, offset) split of a position, fetch order and number checks, how Read and Seek advance - plus the pairing 'file removed => chunks removed'.",
		Decided:     []string{"chunk number = s.chunks + len(chunks); data = buffer[i:i+size]; size = min(bufLen-i, chunkSize); step = chunkSize; partial chunk only when final", "bufLen/chunks/length updates and remainder carry-over after a flush", "file record / marker take Length, ChunkSize, id from the stream's counters", "Resume accepts only chunks numbered 0,1,2,... and restores the counters from them", "seek: num = position/chunkSize, skip num, sort by n, files_id filter, number check, offset = position - num*chunkSize", "next: consecutive numbers; load: ceil(length/chunkSize)", "Read: EOF test, copy window, position/buffer/read advance by n; Seek: whence table and position stored after success", "Delete / Abort remove the chunks of the file on every successful path", "division by a chunk size only behind a positivity check (PANIC-3)"},
		NotDecided:  []string{"that the bytes read equal the bytes written for any particular content, chunk size, write partition or seek script", "interaction with concurrent uploads / cleanup (markers)", "the 16 MiB buffer boundary behaviour beyond the carry-over identity", "Cleanup's age arithmetic"},
		Assumptions: commonAssumptions,
	})
}
