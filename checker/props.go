package main

// PropDef describes what the checker decides for one property.
type PropDef struct {
	ID          string
	Rules       []string
	Explanation string
	Decided     []string
	NotDecided  []string
	Assumptions []string
}

var properties = map[string]*PropDef{}

func prop(p *PropDef) { properties[p.ID] = p }

func init() {
	prop(&PropDef{
		ID:    "C16",
		Rules: []string{"LOCK-0", "LOCK-1", "LOCK-2", "LOCK-4", "LOCK-6", "LOCK-7", "LOCK-8"},
		Explanation: "Static lock/token discipline behind 'the engine never wedges', decided on every path of the resolved program: balanced locking, acyclic lock order over the VTA call graph, no blocking under engine/session/stream locks, token typestate (released exactly once on the paths that own it), release of every begun write transaction at each call site (deferred when callbacks run), liveness re-checks, session state machine. It is a set of structural necessary conditions, not the behavioural property.",
		Decided:     []string{"no lock-order cycle among the repo's mutexes", "token released exactly once per owning path in Begin/Commit/Abort", "every Begin(lock) site aborts/commits/hands over on all paths", "no blocking call while a critical lock may be held"},
		NotDecided:  []string{"promptness (time bounds)", "goroutine counts after shutdown", "panics inside third-party code", "nil txn arguments"},
		Assumptions: []string{"txn arguments of Commit/Abort are non-nil", "VTA call graph over-approximates dynamic calls", "locks are identified by (type, field): instance-insensitive"},
	})
}
