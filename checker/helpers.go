package main

import (
	"go/types"

	"golang.org/x/tools/go/ssa"
	"golang.org/x/tools/go/ssa/ssautil"
)

// Private helpers.
//
// "Extract function" is the most common behaviour-preserving edit: a block of a protocol function
// moves into an unexported function that is called from the one place the block used to be. Rules
// that look at the shape of one function would lose their anchor. The index below identifies such
// helpers exactly - an unexported, named repo function with exactly one static call site in the
// whole program and no other use as a value - and lets rules treat them as if they were still
// written in place:
//
//   - coneInstrs / helperCone: the instructions of a function together with those of its private helpers;
//   - resolveHelperValue: a helper's parameter is the argument of its only call, and the result of
//     a helper with a single return statement is the value it returns.
//
// A function with two call sites, an exported one, or one stored in a variable is not a private
// helper; the rules then fall back to what they did before (and, where they cannot find their
// anchor, report that).

type helperIdx struct {
	site    map[*ssa.Function]ssa.CallInstruction
	callers map[*ssa.Function][]ssa.CallInstruction // every static call of a named repo function
	escaped map[*ssa.Function]bool                  // used as a value somewhere (callers is then incomplete)
}

var theHelpers = &helperIdx{site: map[*ssa.Function]ssa.CallInstruction{}, callers: map[*ssa.Function][]ssa.CallInstruction{}, escaped: map[*ssa.Function]bool{}}

func buildHelperIdx(c *Ctx) {
	count := map[*ssa.Function]int{}
	site := map[*ssa.Function]ssa.CallInstruction{}
	escaped := map[*ssa.Function]bool{}
	candidate := func(f *ssa.Function) bool {
		if f == nil || f.Blocks == nil || f.Parent() != nil || f.Synthetic != "" || f.Pkg == nil || !c.isRepoPkg(f.Pkg.Pkg.Path()) {
			return false
		}
		_, ok := f.Object().(*types.Func)
		return ok
	}
	private := func(f *ssa.Function) bool {
		obj, ok := f.Object().(*types.Func)
		return ok && !obj.Exported()
	}
	for fn := range ssautil.AllFunctions(c.Prog) {
		if fn.Blocks == nil {
			continue
		}
		// wrappers and bound-method thunks use their target as a value
		synthetic := fn.Synthetic != ""
		for _, b := range fn.Blocks {
			for _, in := range b.Instrs {
				var callee *ssa.Function
				if ci, ok := in.(ssa.CallInstruction); ok {
					if f, ok := ci.Common().Value.(*ssa.Function); ok && !ci.Common().IsInvoke() {
						callee = f
						if candidate(f) && !synthetic {
							count[f]++
							site[f] = ci
							theHelpers.callers[f] = append(theHelpers.callers[f], ci)
						}
					}
				}
				for _, op := range in.Operands(nil) {
					if op == nil || *op == nil {
						continue
					}
					if f, ok := (*op).(*ssa.Function); ok && candidate(f) {
						if f == callee {
							// the call position itself; the same function may also be an argument
							if ci := in.(ssa.CallInstruction); ci != nil {
								for _, a := range ci.Common().Args {
									if a == ssa.Value(f) {
										escaped[f] = true
									}
								}
							}
							continue
						}
						escaped[f] = true
					}
				}
			}
		}
	}
	for f, n := range count {
		if n == 1 && !escaped[f] && private(f) {
			theHelpers.site[f] = site[f]
		}
	}
	for f := range escaped {
		theHelpers.escaped[f] = true
	}
}

// helperSite: the only call of the private helper f, or nil.
func helperSite(f *ssa.Function) ssa.CallInstruction {
	if f == nil {
		return nil
	}
	return theHelpers.site[f]
}

// isPrivateHelperCall: the call invokes a private helper (so this is its only call site).
func privateHelperOf(cc *ssa.CallCommon) *ssa.Function {
	if cc.IsInvoke() {
		return nil
	}
	f, ok := cc.Value.(*ssa.Function)
	if !ok || theHelpers.site[f] == nil {
		return nil
	}
	return f
}

// helperCone: fn and, transitively, the private helpers called from it (each exactly once, by construction).
func helperCone(fn *ssa.Function) []*ssa.Function {
	out := []*ssa.Function{fn}
	seen := map[*ssa.Function]bool{fn: true}
	for i := 0; i < len(out); i++ {
		for _, b := range out[i].Blocks {
			for _, in := range b.Instrs {
				if ci, ok := in.(ssa.CallInstruction); ok {
					if h := privateHelperOf(ci.Common()); h != nil && !seen[h] {
						seen[h] = true
						out = append(out, h)
					}
				}
			}
		}
	}
	return out
}

// coneInstrs iterates over the instructions of fn and of its private helpers.
func coneInstrs(fn *ssa.Function, f func(ssa.Instruction)) {
	for _, g := range helperCone(fn) {
		allInstrs(g, f)
	}
}

// inCone: g is fn or one of its private helpers.
func inCone(fn, g *ssa.Function) bool {
	for _, h := range helperCone(fn) {
		if h == g {
			return true
		}
	}
	return false
}

// resolveHelperValue looks through the boundary of private helpers: a parameter of a private helper is the
// argument at its only call site; the (i-th) result of a call of a private helper with a single return statement is
// the (i-th) returned value.
func resolveHelperValue(v ssa.Value) ssa.Value {
	for d := 0; d < 6; d++ {
		switch x := v.(type) {
		case *ssa.Parameter:
			fn := x.Parent()
			ci := helperSite(fn)
			if ci == nil {
				return v
			}
			if _, isCall := ci.(*ssa.Call); !isCall {
				return v
			}
			idx := -1
			for i, p := range fn.Params {
				if p == x {
					idx = i
				}
			}
			if idx < 0 || idx >= len(ci.Common().Args) {
				return v
			}
			v = ci.Common().Args[idx]
		case *ssa.Extract:
			call, ok := x.Tuple.(*ssa.Call)
			if !ok {
				return v
			}
			h := privateHelperOf(&call.Call)
			if h == nil {
				return v
			}
			ret := successReturn(h)
			if ret == nil || x.Index >= len(ret.Results) {
				return v
			}
			v = retVal(ret, x.Index)
		case *ssa.Call:
			h := privateHelperOf(&x.Call)
			if h == nil {
				return v
			}
			ret := successReturn(h)
			if ret == nil || len(ret.Results) != 1 {
				return v
			}
			v = retVal(ret, 0)
		default:
			return v
		}
	}
	return v
}

// allCallers: the complete list of call sites of the repo function f, or ok=false when f is exported from its package
// boundary in a way that hides callers (used as a value, or an exported function/method, which code outside the repo
// may call).
func allCallers(f *ssa.Function) ([]ssa.CallInstruction, bool) {
	if f == nil || theHelpers.escaped[f] {
		return nil, false
	}
	obj, ok := f.Object().(*types.Func)
	if !ok || obj.Exported() {
		return nil, false
	}
	return theHelpers.callers[f], true
}

// successReturn: the only return statement of h, or - when h's last result is an error - the only one that returns a
// nil error while every other return yields a non-nil error (on those the other results are not used by a caller that
// examines the error).
func successReturn(h *ssa.Function) *ssa.Return {
	rets := returnsOf(h)
	if len(rets) == 1 {
		return rets[0]
	}
	res := h.Signature.Results()
	if res.Len() < 2 || !isErrorType(res.At(res.Len()-1).Type()) {
		return nil
	}
	var out *ssa.Return
	for _, ret := range rets {
		if len(ret.Results) != res.Len() {
			return nil
		}
		if isNilConst(retVal(ret, res.Len()-1)) {
			if out != nil {
				return nil
			}
			out = ret
		}
	}
	return out
}

// ownerNames: the names under which a site in fn may be listed in an allow-list: fn's own (closure ordinals
// neutralised), and - when fn is a private helper - those of the function(s) it was extracted from, as that function
// itself and as a function literal of it (a deferred clean-up closure turned into a named function is still that
// clean-up).
func ownerNames(fn *ssa.Function, name func(*ssa.Function) string) []string {
	out := []string{closureNeutral(name(fn))}
	g := outermost(fn)
	for d := 0; d < 3; d++ {
		site := helperSite(g)
		if site == nil {
			break
		}
		g = outermost(site.Parent())
		out = append(out, closureNeutral(name(site.Parent())), name(g)+"$closure")
	}
	return out
}
