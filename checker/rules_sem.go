package main

import (
	"fmt"
	"go/constant"
	"go/token"
	"go/types"
	"sort"
	"strings"

	"golang.org/x/tools/go/ssa"
)

// Finite-domain abstract evaluation of loop-free, comparison-only code (DESIGN 4.7).
// Inputs are abstract facts (an ordering of two operands, a boolean, an operator name, the
// outcome class of a call); the evaluator follows the SSA control flow of ONE function from a
// start block to the first Return (or to a designated "continue" block) and reports the
// abstract result. Anything it cannot evaluate makes the obligation undecided. No lungo code runs.

func init() {
	register(&Rule{ID: "SEM-1", Doc: "matchComp truth table: over comp in {T,F} x sign(Compare(field,v)) in {-,0,+} each operator label matches exactly comp && (res op 0) with ==,>,>=,<,<= for \"\"/$eq,$gt,$gte,$lt,$lte (type bracketing included)", Run: ruleSem1})
	register(&Rule{ID: "SEM-2", Doc: "leaf comparators are sign functions: compareInt32s/Int64s/Float64s/Booleans/Dates return -1/0/+1 for every ordering (NaN lowest and equal to itself) and are antisymmetric; Compare orders differing classes by the class constants", Run: ruleSem2})
	register(&Rule{ID: "SEM-3", Doc: "orientation of mixed numeric comparisons: every case of compareNumbers compares (something derived from) the left operand with the right operand in that order, or negates a helper called with swapped operands", Run: ruleSem3})
	register(&Rule{ID: "SEM-4", Doc: "logical structure of $and/$or/$nor/$not/$ne/$nin: per-iteration outcome tables of matchAnd/matchOr/matchNot, the matchNegate table, and $ne/$nin/$nor = matchNegate(the function registered for $eq/$in/$or with the same arguments)", Run: ruleSem4})
	register(&Rule{ID: "SEM-5", Doc: "numeric comparison uses exact conversions: no helper on the compareNumbers path replaces a failed/non-finite conversion by a default value", Run: ruleSem5})
}

type aKind int

const (
	aUnknown aKind = iota
	aBool
	aInt
	aStr
	aNil
	aSentinel // a named package-level value (ErrNotMatched)
	aOrd      // one of the two ordered operands: id 0 (left) / 1 (right)
	aOther    // some non-nil opaque value (another error)
)

type aVal struct {
	k aKind
	b bool
	i int64
	s string
}

func (a aVal) String() string {
	switch a.k {
	case aBool:
		return fmt.Sprint(a.b)
	case aInt:
		return fmt.Sprint(a.i)
	case aStr:
		return fmt.Sprintf("%q", a.s)
	case aNil:
		return "nil"
	case aSentinel:
		return a.s
	case aOrd:
		return fmt.Sprintf("operand%d", a.i)
	case aOther:
		return "other(" + a.s + ")"
	}
	return "?"
}

type absEnv struct {
	seed func(v ssa.Value) (aVal, bool)
	// ordering of operand0 vs operand1: -1,0,1 ; nan flags
	ord  int
	nan0 bool
	nan1 bool
	vals map[ssa.Value]aVal
	why  string
	// optional: stop evaluation at this instruction (reported as "continue")
	stopInstr func(ssa.Instruction) bool
	// abstract values stored into struct fields (by field object)
	fieldStores map[*types.Var]aVal
	// optional: the abstract value of element k of the array stored at addr (used when an array is handed to a helper)
	elemSeed func(addr ssa.Value, k int64) (aVal, bool)
	depth    int
}

// evalCallee evaluates a call of a loop-free repo function (a predicate extracted from the code under evaluation) on
// the abstract values of its arguments: parameters are bound to the arguments, elements of an array parameter are
// taken from the caller's elemSeed for the argument's address.
func (e *absEnv) evalCallee(call *ssa.Call) (aVal, bool) {
	h := staticFn(&call.Call)
	if h == nil || h.Blocks == nil || e.depth >= 2 || !strings.HasPrefix(fnPkgPath(h), pkgLungo) || h.Signature.Results().Len() != 1 {
		return aVal{}, false
	}
	paramIdx := func(p *ssa.Parameter) int {
		for i, q := range h.Params {
			if q == p {
				return i
			}
		}
		return -1
	}
	child := &absEnv{vals: map[ssa.Value]aVal{}, ord: e.ord, nan0: e.nan0, nan1: e.nan1, fieldStores: map[*types.Var]aVal{}, elemSeed: e.elemSeed, depth: e.depth + 1}
	elemOf := func(base ssa.Value, k int64) (aVal, bool) {
		p, ok := stripValue(base).(*ssa.Parameter)
		if !ok || e.elemSeed == nil {
			return aVal{}, false
		}
		i := paramIdx(p)
		if i < 0 || i >= len(call.Call.Args) {
			return aVal{}, false
		}
		if ld, ok := call.Call.Args[i].(*ssa.UnOp); ok && ld.Op == token.MUL {
			return e.elemSeed(ld.X, k)
		}
		return aVal{}, false
	}
	child.seed = func(v ssa.Value) (aVal, bool) {
		switch x := v.(type) {
		case *ssa.Parameter:
			if i := paramIdx(x); i >= 0 && i < len(call.Call.Args) {
				if a := e.get(call.Call.Args[i]); a.k != aUnknown {
					return a, true
				}
			}
		case *ssa.Index:
			if k, ok := constInt(x.Index); ok {
				return elemOf(x.X, k)
			}
		case *ssa.UnOp:
			if ia, ok := x.X.(*ssa.IndexAddr); ok && x.Op == token.MUL {
				if k, ok := constInt(ia.Index); ok {
					// the parameter's own cell
					if al, ok := ia.X.(*ssa.Alloc); ok {
						if whole, field, ok := structCellStoresAny(al); ok && len(whole) == 1 && len(field) == 0 {
							return elemOf(whole[0].Val, k)
						}
					}
				}
			}
		}
		return aVal{}, false
	}
	rets, _, ok := child.run(h.Blocks[0], nil, nil, 0)
	if !ok || len(rets) != 1 {
		return aVal{}, false
	}
	return rets[0], true
}

// structCellStoresAny: the whole stores into a local cell that is otherwise only read (directly or element-wise).
func structCellStoresAny(a *ssa.Alloc) (whole []*ssa.Store, elem []*ssa.Store, ok bool) {
	if a.Referrers() == nil {
		return nil, nil, false
	}
	for _, ref := range *a.Referrers() {
		switch r := ref.(type) {
		case *ssa.Store:
			if r.Addr != ssa.Value(a) {
				return nil, nil, false
			}
			whole = append(whole, r)
		case *ssa.UnOp, *ssa.DebugRef:
		case *ssa.IndexAddr, *ssa.FieldAddr:
			if rr := r.(ssa.Value).Referrers(); rr != nil {
				for _, u := range *rr {
					if st, isStore := u.(*ssa.Store); isStore {
						elem = append(elem, st)
					}
				}
			}
		default:
			return nil, nil, false
		}
	}
	return whole, elem, true
}

func (e *absEnv) get(v ssa.Value) aVal {
	if x, ok := e.vals[v]; ok {
		return x
	}
	if e.seed != nil {
		if x, ok := e.seed(v); ok {
			return x
		}
	}
	switch x := v.(type) {
	case *ssa.Const:
		if x.Value == nil {
			return aVal{k: aNil}
		}
		switch x.Value.Kind() {
		case constant.Bool:
			return aVal{k: aBool, b: constant.BoolVal(x.Value)}
		case constant.Int:
			i, _ := constant.Int64Val(x.Value)
			return aVal{k: aInt, i: i}
		case constant.String:
			return aVal{k: aStr, s: constant.StringVal(x.Value)}
		case constant.Float:
			f, _ := constant.Float64Val(x.Value)
			if f == float64(int64(f)) {
				return aVal{k: aInt, i: int64(f)}
			}
		}
	case *ssa.UnOp:
		if x.Op == token.MUL {
			if g, ok := x.X.(*ssa.Global); ok {
				return aVal{k: aSentinel, s: g.Name()}
			}
		}
	case *ssa.MakeInterface:
		return e.get(x.X)
	case *ssa.ChangeInterface:
		return e.get(x.X)
	case *ssa.ChangeType:
		return e.get(x.X)
	case *ssa.Convert:
		return e.get(x.X)
	}
	return aVal{}
}

func cmpInts(a, b int64, op token.Token) bool {
	switch op {
	case token.EQL:
		return a == b
	case token.NEQ:
		return a != b
	case token.LSS:
		return a < b
	case token.LEQ:
		return a <= b
	case token.GTR:
		return a > b
	case token.GEQ:
		return a >= b
	}
	return false
}

// evalBinOp evaluates comparisons / boolean ops abstractly.
func (e *absEnv) evalBinOp(bo *ssa.BinOp) aVal {
	x, y := e.get(bo.X), e.get(bo.Y)
	switch bo.Op {
	case token.EQL, token.NEQ, token.LSS, token.LEQ, token.GTR, token.GEQ:
	default:
		if x.k == aInt && y.k == aInt {
			switch bo.Op {
			case token.MUL:
				return aVal{k: aInt, i: x.i * y.i}
			case token.ADD:
				return aVal{k: aInt, i: x.i + y.i}
			case token.SUB:
				return aVal{k: aInt, i: x.i - y.i}
			}
		}
		return aVal{}
	}
	switch {
	case x.k == aOrd && y.k == aOrd:
		// IEEE: any comparison with NaN is false except !=
		nan := (x.i == 0 && e.nan0) || (x.i == 1 && e.nan1) || (y.i == 0 && e.nan0) || (y.i == 1 && e.nan1)
		if x.i == y.i {
			if nan {
				return aVal{k: aBool, b: bo.Op == token.NEQ}
			}
			return aVal{k: aBool, b: cmpInts(0, 0, bo.Op)}
		}
		if nan {
			return aVal{k: aBool, b: bo.Op == token.NEQ}
		}
		o := int64(e.ord)
		if x.i == 1 {
			o = -o
		}
		return aVal{k: aBool, b: cmpInts(o, 0, bo.Op)}
	case x.k == aInt && y.k == aInt:
		return aVal{k: aBool, b: cmpInts(x.i, y.i, bo.Op)}
	case x.k == aStr && y.k == aStr && (bo.Op == token.EQL || bo.Op == token.NEQ):
		return aVal{k: aBool, b: (x.s == y.s) == (bo.Op == token.EQL)}
	case x.k == aBool && y.k == aBool && (bo.Op == token.EQL || bo.Op == token.NEQ):
		return aVal{k: aBool, b: (x.b == y.b) == (bo.Op == token.EQL)}
	case (bo.Op == token.EQL || bo.Op == token.NEQ) && (x.k == aNil || x.k == aSentinel || x.k == aOther) && (y.k == aNil || y.k == aSentinel || y.k == aOther):
		same := x.k == y.k && x.s == y.s
		return aVal{k: aBool, b: same == (bo.Op == token.EQL)}
	case (bo.Op == token.EQL || bo.Op == token.NEQ) && x.k != aUnknown && y.k != aUnknown && x.k != aOrd && y.k != aOrd && x.k != y.k:
		// interface values of different dynamic kinds (a string against the Missing sentinel) are unequal
		return aVal{k: aBool, b: bo.Op == token.NEQ}
	}
	return aVal{}
}

// run evaluates from block `start` (coming from `from`, may be nil) until a Return or until
// block `stopAt` is entered. It returns the Return's abstract results, or ("continue") when stopAt is reached.
func (e *absEnv) run(start, from, stopAt *ssa.BasicBlock, startIdx int) (rets []aVal, cont bool, ok bool) {
	b, prev := start, from
	idx := startIdx
	for steps := 0; steps < 400; steps++ {
		if b == stopAt && steps > 0 {
			return nil, true, true
		}
		for i := idx; i < len(b.Instrs); i++ {
			in := b.Instrs[i]
			if e.stopInstr != nil && e.stopInstr(in) {
				return nil, true, true
			}
			switch x := in.(type) {
			case *ssa.Phi:
				if prev == nil {
					e.why = "phi without predecessor"
					return nil, false, false
				}
				for k, p := range b.Preds {
					if p == prev {
						e.vals[x] = e.get(x.Edges[k])
					}
				}
			case *ssa.BinOp:
				e.vals[x] = e.evalBinOp(x)
			case *ssa.UnOp:
				v := e.get(x.X)
				switch x.Op {
				case token.NOT:
					if v.k == aBool {
						e.vals[x] = aVal{k: aBool, b: !v.b}
					}
				case token.SUB:
					if v.k == aInt {
						e.vals[x] = aVal{k: aInt, i: -v.i}
					}
				}
			case *ssa.Call:
				// math.IsNaN on an ordered operand
				if calleeFull(&x.Call) == "math.IsNaN" {
					a := e.get(x.Call.Args[0])
					if a.k == aOrd {
						e.vals[x] = aVal{k: aBool, b: (a.i == 0 && e.nan0) || (a.i == 1 && e.nan1)}
					}
				}
				// a predicate of the repo called on values we know: evaluate it
				if _, known := e.vals[x]; !known {
					seeded := false
					if e.seed != nil {
						_, seeded = e.seed(x)
					}
					if !seeded {
						if v, ok := e.evalCallee(x); ok {
							e.vals[x] = v
						}
					}
				}
				// everything else: value comes from the seed (or stays unknown)
			case *ssa.If:
				c := e.get(x.Cond)
				if c.k != aBool {
					e.why = "cannot evaluate condition " + x.Cond.String()
					return nil, false, false
				}
				prev = b
				if c.b {
					b = b.Succs[0]
				} else {
					b = b.Succs[1]
				}
				idx = 0
				goto next
			case *ssa.Jump:
				prev = b
				b = b.Succs[0]
				idx = 0
				goto next
			case *ssa.Return:
				for k := range x.Results {
					rets = append(rets, e.get(retVal(x, k)))
				}
				return rets, false, true
			case *ssa.Panic:
				e.why = "reaches a panic"
				return nil, false, false
			case *ssa.Store:
				// spilled results: remember the stored abstract value under the address
				e.vals[x.Addr] = e.get(x.Val)
				if fa, ok := x.Addr.(*ssa.FieldAddr); ok && e.fieldStores != nil {
					e.fieldStores[structFieldOf(fa)] = e.get(x.Val)
				}
			}
		}
		e.why = "fell off a block"
		return nil, false, false
	next:
	}
	e.why = "evaluation did not terminate (loop)"
	return nil, false, false
}

// ---- SEM-1 ---------------------------------------------------------------------------

func ruleSem1(c *Ctx, r *Reporter) {
	fn := c.lookupSSA(pkgMongokit, "matchComp")
	if fn == nil || len(fn.AnonFuncs) != 1 {
		r.bad("anchor:matchComp", "-", "matchComp (with its one matching closure) not found")
		return
	}
	cl := fn.AnonFuncs[0]
	field := cl.Params[0]
	var compV, resV ssa.Value
	var opLoad []ssa.Value
	orientOK := false
	allInstrs(cl, func(in ssa.Instruction) {
		switch x := in.(type) {
		case *ssa.BinOp:
			if x.Op == token.EQL {
				ex1, ok1 := x.X.(*ssa.Extract)
				ex2, ok2 := x.Y.(*ssa.Extract)
				if ok1 && ok2 {
					c1, ok3 := ex1.Tuple.(*ssa.Call)
					c2, ok4 := ex2.Tuple.(*ssa.Call)
					if ok3 && ok4 && calleeFull(&c1.Call) == pkgBsonkit+".Inspect" && calleeFull(&c2.Call) == pkgBsonkit+".Inspect" && ex1.Index == 0 && ex2.Index == 0 {
						// one inspects the field, the other the operand
						if (c1.Call.Args[0] == ssa.Value(field)) != (c2.Call.Args[0] == ssa.Value(field)) {
							compV = x
						}
					}
				}
			}
		case *ssa.Call:
			if calleeFull(&x.Call) == pkgBsonkit+".Compare" {
				resV = x
				orientOK = x.Call.Args[0] == ssa.Value(field)
			}
		case *ssa.UnOp:
			if x.Op == token.MUL {
				if fv, ok := x.X.(*ssa.FreeVar); ok && fv.Name() == "op" {
					opLoad = append(opLoad, x)
				}
			}
		}
	})
	if compV == nil || resV == nil || len(opLoad) == 0 {
		r.bad("matchComp:shape", c.pos(fn.Pos()), "could not identify the class-equality flag, the Compare call and the operator name in the closure")
		return
	}
	r.check(orientOK, "matchComp:operand order", c.pos(resV.Pos()), "Compare(field, operand): the sign refers to the document's value", "Compare is not called as Compare(field, operand): $gt/$lt would be mirrored")
	want := map[string]func(s int) bool{
		"":     func(s int) bool { return s == 0 },
		"$eq":  func(s int) bool { return s == 0 },
		"$gt":  func(s int) bool { return s > 0 },
		"$gte": func(s int) bool { return s >= 0 },
		"$lt":  func(s int) bool { return s < 0 },
		"$lte": func(s int) bool { return s <= 0 },
	}
	var ops []string
	for k := range want {
		ops = append(ops, k)
	}
	sort.Strings(ops)
	// start evaluation right after the Compare call
	startBlock := resV.(*ssa.Call).Block()
	startIdx := instrIndex(resV.(*ssa.Call)) + 1
	for _, op := range ops {
		for _, comp := range []bool{true, false} {
			for _, sign := range []int{-1, 0, 1} {
				env := &absEnv{vals: map[ssa.Value]aVal{}}
				env.seed = func(v ssa.Value) (aVal, bool) {
					if v == compV {
						return aVal{k: aBool, b: comp}, true
					}
					if v == resV {
						return aVal{k: aInt, i: int64(sign)}, true
					}
					for _, o := range opLoad {
						if v == o {
							return aVal{k: aStr, s: op}, true
						}
					}
					return aVal{}, false
				}
				// the class-equality flag may be computed before or after Compare: pre-evaluate nothing, rely on seeds
				rets, _, ok := env.run(startBlock, nil, nil, startIdx)
				key := fmt.Sprintf("matchComp[%q] comp=%v sign=%+d", op, comp, sign)
				if !ok || len(rets) != 1 {
					r.unk(key, c.pos(cl.Pos()), "cannot evaluate: "+env.why)
					continue
				}
				matched := rets[0].k == aNil
				notMatched := rets[0].k == aSentinel && rets[0].s == "ErrNotMatched"
				exp := comp && want[op](sign)
				good := (exp && matched) || (!exp && notMatched)
				r.check(good, key, c.pos(cl.Pos()), fmt.Sprintf("yields %v as required", rets[0]), fmt.Sprintf("yields %v but MongoDB semantics require matched=%v (type bracketing: comp, comparison: sign)", rets[0], exp))
			}
		}
	}
	// unknown operator name => error, not a silent match
	env := &absEnv{vals: map[ssa.Value]aVal{}}
	env.seed = func(v ssa.Value) (aVal, bool) {
		if v == compV {
			return aVal{k: aBool, b: true}, true
		}
		if v == resV {
			return aVal{k: aInt, i: 0}, true
		}
		for _, o := range opLoad {
			if v == o {
				return aVal{k: aStr, s: "$bogus"}, true
			}
		}
		// fmt.Errorf result
		if call, ok := v.(*ssa.Call); ok && calleeFull(&call.Call) == "fmt.Errorf" {
			return aVal{k: aOther, s: "error"}, true
		}
		return aVal{}, false
	}
	rets, _, ok := env.run(startBlock, nil, nil, startIdx)
	r.check(ok && len(rets) == 1 && rets[0].k == aOther, "matchComp[unknown operator]", c.pos(cl.Pos()), "an unknown operator name yields an error", "an unknown operator name does not yield an error")
}

// ---- SEM-2 ---------------------------------------------------------------------------

func ruleSem2(c *Ctx, r *Reporter) {
	type ordCase struct {
		name       string
		ord        int
		nan0, nan1 bool
		want       int64
	}
	plain := []ordCase{{"l<r", -1, false, false, -1}, {"l=r", 0, false, false, 0}, {"l>r", 1, false, false, 1}}
	floats := append(append([]ordCase{}, plain...), ordCase{"l=NaN", 0, true, false, -1}, ordCase{"r=NaN", 0, false, true, 1}, ordCase{"both NaN", 0, true, true, 0})
	for _, t := range []struct {
		fn    string
		cases []ordCase
	}{{"compareInt32s", plain}, {"compareInt64s", plain}, {"compareFloat64s", floats}, {"compareDates", plain}} {
		fn := c.lookupSSA(pkgBsonkit, t.fn)
		if fn == nil {
			if t.fn == "compareInt32s" && c.lookupSSA(pkgBsonkit, "compareNumbers") != nil {
				// the int32 comparator has a single use; written out in compareNumbers it is decided by SEM-3
				r.ok("anchor:"+t.fn, "-", "not present as a function: the comparison is decided where it is written (SEM-3)")
				continue
			}
			r.bad("anchor:"+t.fn, "-", "not found")
			continue
		}
		// operands: the parameters, or the values asserted out of them
		operands := map[ssa.Value]int64{}
		for i, p := range fn.Params {
			operands[p] = int64(i)
		}
		allInstrs(fn, func(in ssa.Instruction) {
			if ta, ok := in.(*ssa.TypeAssert); ok {
				if p, ok := ta.X.(*ssa.Parameter); ok {
					operands[ta] = operands[p]
				}
			}
		})
		for _, oc := range t.cases {
			env := &absEnv{vals: map[ssa.Value]aVal{}, ord: oc.ord, nan0: oc.nan0, nan1: oc.nan1}
			env.seed = func(v ssa.Value) (aVal, bool) {
				if id, ok := operands[v]; ok {
					return aVal{k: aOrd, i: id}, true
				}
				return aVal{}, false
			}
			rets, _, ok := env.run(fn.Blocks[0], nil, nil, 0)
			key := fmt.Sprintf("%s[%s]", t.fn, oc.name)
			if !ok || len(rets) != 1 || rets[0].k != aInt {
				r.unk(key, c.pos(fn.Pos()), "cannot evaluate: "+env.why)
				continue
			}
			r.check(rets[0].i == oc.want, key, c.pos(fn.Pos()), fmt.Sprintf("returns %d", rets[0].i), fmt.Sprintf("returns %d, a sign function must return %d here", rets[0].i, oc.want))
		}
	}
	// booleans: concrete table
	if fn := c.lookupSSA(pkgBsonkit, "compareBooleans"); fn != nil {
		asserted := map[ssa.Value]int{}
		allInstrs(fn, func(in ssa.Instruction) {
			if ta, ok := in.(*ssa.TypeAssert); ok {
				if p, ok := ta.X.(*ssa.Parameter); ok {
					for i, q := range fn.Params {
						if q == p {
							asserted[ta] = i
						}
					}
				}
			}
		})
		for _, l := range []bool{false, true} {
			for _, rr := range []bool{false, true} {
				vals := []bool{l, rr}
				env := &absEnv{vals: map[ssa.Value]aVal{}}
				env.seed = func(v ssa.Value) (aVal, bool) {
					if i, ok := asserted[v]; ok {
						return aVal{k: aBool, b: vals[i]}, true
					}
					return aVal{}, false
				}
				rets, _, ok := env.run(fn.Blocks[0], nil, nil, 0)
				want := int64(0)
				if l && !rr {
					want = 1
				} else if !l && rr {
					want = -1
				}
				key := fmt.Sprintf("compareBooleans[%v,%v]", l, rr)
				if !ok || len(rets) != 1 || rets[0].k != aInt {
					r.unk(key, c.pos(fn.Pos()), "cannot evaluate: "+env.why)
					continue
				}
				r.check(rets[0].i == want, key, c.pos(fn.Pos()), fmt.Sprintf("returns %d", rets[0].i), fmt.Sprintf("returns %d, expected %d (false < true)", rets[0].i, want))
			}
		}
	} else {
		r.bad("anchor:compareBooleans", "-", "not found")
	}
	// Compare: differing classes
	if fn := c.lookupSSA(pkgBsonkit, "Compare"); fn != nil {
		cls := map[ssa.Value]int64{}
		allInstrs(fn, func(in ssa.Instruction) {
			if ex, ok := in.(*ssa.Extract); ok && ex.Index == 0 {
				if call, ok := ex.Tuple.(*ssa.Call); ok && calleeFull(&call.Call) == pkgBsonkit+".Inspect" {
					for i, p := range fn.Params {
						if call.Call.Args[0] == ssa.Value(p) {
							cls[ex] = int64(i)
						}
					}
				}
			}
		})
		for _, oc := range []ordCase{{"class(l)<class(r)", -1, false, false, -1}, {"class(l)>class(r)", 1, false, false, 1}} {
			env := &absEnv{vals: map[ssa.Value]aVal{}, ord: oc.ord}
			env.seed = func(v ssa.Value) (aVal, bool) {
				if id, ok := cls[v]; ok {
					return aVal{k: aOrd, i: id}, true
				}
				return aVal{}, false
			}
			rets, _, ok := env.run(fn.Blocks[0], nil, nil, 0)
			key := "Compare[" + oc.name + "]"
			if !ok || len(rets) != 1 || rets[0].k != aInt {
				r.unk(key, c.pos(fn.Pos()), "cannot evaluate: "+env.why)
				continue
			}
			r.check(rets[0].i == oc.want, key, c.pos(fn.Pos()), fmt.Sprintf("returns %d", rets[0].i), fmt.Sprintf("returns %d: values of different classes are not ordered by the class constants", rets[0].i))
		}
	} else {
		r.bad("anchor:bsonkit.Compare", "-", "not found")
	}
}

// ---- SEM-3 ---------------------------------------------------------------------------

// orientation of a comparison result w.r.t. two source values L and R: +1 = (L,R), -1 = (R,L), 0 = unknown
func orientation(v ssa.Value, fromL, fromR func(ssa.Value) bool, depth int) int {
	if depth > 4 {
		return 0
	}
	switch x := v.(type) {
	case *ssa.UnOp:
		if x.Op == token.SUB {
			return -orientation(x.X, fromL, fromR, depth+1)
		}
	case *ssa.Call:
		args := x.Call.Args
		if len(args) != 2 {
			return 0
		}
		inner := 1
		if sf := staticFn(&x.Call); sf != nil && sf.Blocks != nil && fnPkgPath(sf) == pkgBsonkit && len(sf.Params) == 2 {
			// a repo helper: its own orientation w.r.t. its parameters
			p0, p1 := sf.Params[0], sf.Params[1]
			o := 0
			for _, ret := range returnsOf(sf) {
				ro := orientation(retVal(ret, 0), func(w ssa.Value) bool { return derivesOnlyFrom(w, p0) }, func(w ssa.Value) bool { return derivesOnlyFrom(w, p1) }, depth+1)
				if ro == 0 {
					// leaf comparator (compareInt64s(l, r) compares l with r by construction: SEM-2)
					ro = 1
					if !leafCompares(sf) {
						return 0
					}
				}
				if o != 0 && ro != o {
					return 0
				}
				o = ro
			}
			inner = o
		}
		switch {
		case fromL(args[0]) && fromR(args[1]):
			return inner
		case fromR(args[0]) && fromL(args[1]):
			return -inner
		}
	}
	return 0
}

// leafCompares: the function's returns are all integer constants (a sign function over its parameters; SEM-2 checks its table).
func leafCompares(fn *ssa.Function) bool {
	for _, ret := range returnsOf(fn) {
		v := retVal(ret, 0)
		if _, ok := v.(*ssa.Const); ok {
			continue
		}
		if call, ok := v.(*ssa.Call); ok {
			if sf := staticFn(&call.Call); sf != nil && fnPkgPath(sf) == pkgBsonkit {
				continue
			}
		}
		return false
	}
	return true
}

// derivesOnlyFrom: v is computed from `src` (conversions, helper calls with src as only variable input).
func derivesOnlyFrom(v ssa.Value, src ssa.Value) bool {
	ok := true
	seen := map[ssa.Value]bool{}
	var walk func(x ssa.Value, depth int)
	found := false
	walk = func(x ssa.Value, depth int) {
		if seen[x] || depth > 8 {
			return
		}
		seen[x] = true
		if x == src {
			found = true
			return
		}
		switch y := x.(type) {
		case *ssa.Const:
		case *ssa.Convert:
			walk(y.X, depth+1)
		case *ssa.ChangeType:
			walk(y.X, depth+1)
		case *ssa.TypeAssert:
			walk(y.X, depth+1)
		case *ssa.Extract:
			walk(y.Tuple, depth+1)
		case *ssa.Call:
			for _, a := range y.Call.Args {
				walk(a, depth+1)
			}
		case *ssa.MakeInterface:
			walk(y.X, depth+1)
		case *ssa.UnOp:
			walk(y.X, depth+1)
		case *ssa.Alloc:
			// receiver spilled to a local (value receivers of decimal.Decimal)
			if refs := y.Referrers(); refs != nil {
				for _, ref := range *refs {
					if st, isSt := ref.(*ssa.Store); isSt && st.Addr == y {
						walk(st.Val, depth+1)
					}
				}
			}
		default:
			ok = false
		}
	}
	walk(v, 0)
	return ok && found
}

func ruleSem3(c *Ctx, r *Reporter) {
	fn := c.lookupSSA(pkgBsonkit, "compareNumbers")
	if fn == nil {
		r.bad("anchor:compareNumbers", "-", "not found")
		return
	}
	lv, rv := fn.Params[0], fn.Params[1]
	fromL := func(w ssa.Value) bool { return derivesOnlyFrom(w, lv) }
	fromR := func(w ssa.Value) bool { return derivesOnlyFrom(w, rv) }
	n := 0
	for _, ret := range returnsOf(fn) {
		v := retVal(ret, 0)
		n++
		// name the case by the asserted types reaching it
		key := fmt.Sprintf("compareNumbers:case@%s", caseLabel(ret))
		o := orientation(v, fromL, fromR, 0)
		if o == 0 {
			o = inlineSign(ret, fromL, fromR)
		}
		switch o {
		case 1:
			r.ok(key, c.pos(ret.Pos()), "compares left with right")
		case -1:
			r.bad(key, c.pos(ret.Pos()), "compares right with left without negation: the sign is inverted for this pair of numeric types (breaks antisymmetry, index order and uniqueness probes)")
		default:
			r.unk(key, c.pos(ret.Pos()), "cannot determine which operand is compared with which")
		}
	}
	r.guard(n, 16, "numeric type pairs in compareNumbers")
}

// inlineSign decides a comparison written out in place (if l == r { return 0 } else if l > r { return 1 }; return -1):
// the returned constant must be the sign of (L ? R) for every ordering consistent with the tests on the way to the return.
// +1 = sign of (L,R), -1 = sign of (R,L), 0 = undecided.
func inlineSign(ret *ssa.Return, fromL, fromR func(ssa.Value) bool) int {
	k, ok := retVal(ret, 0).(*ssa.Const)
	if !ok || k.Value == nil {
		return 0
	}
	kv := k.Int64()
	type test struct {
		op   token.Token
		want bool
	}
	var tests []test
	b := ret.Block()
	for d := 0; d < 8 && len(b.Preds) == 1; d++ {
		p := b.Preds[0]
		iff, isIf := p.Instrs[len(p.Instrs)-1].(*ssa.If)
		if !isIf {
			b = p
			continue
		}
		bin, isBin := iff.Cond.(*ssa.BinOp)
		if !isBin {
			break // the type switch test: the case starts here
		}
		op := bin.Op
		switch {
		case fromL(bin.X) && fromR(bin.Y):
		case fromR(bin.X) && fromL(bin.Y):
			switch op {
			case token.LSS:
				op = token.GTR
			case token.GTR:
				op = token.LSS
			case token.LEQ:
				op = token.GEQ
			case token.GEQ:
				op = token.LEQ
			}
		default:
			return 0
		}
		tests = append(tests, test{op, p.Succs[0] == b})
		b = p
	}
	if len(tests) == 0 {
		return 0
	}
	holds := func(op token.Token, o int) bool {
		switch op {
		case token.EQL:
			return o == 0
		case token.NEQ:
			return o != 0
		case token.LSS:
			return o < 0
		case token.GTR:
			return o > 0
		case token.LEQ:
			return o <= 0
		case token.GEQ:
			return o >= 0
		}
		return false
	}
	res, any := 0, false
	for o := -1; o <= 1; o++ {
		consistent := true
		for _, t := range tests {
			if holds(t.op, o) != t.want {
				consistent = false
			}
		}
		if !consistent {
			continue
		}
		any = true
		var this int
		switch {
		case kv == int64(o) && o != 0:
			this = 1
		case kv == int64(-o) && o != 0:
			this = -1
		case o == 0 && kv == 0:
			continue // equal operands: says nothing about the orientation
		default:
			return 0
		}
		if res != 0 && res != this {
			return 0
		}
		res = this
	}
	if !any {
		return 0
	}
	if res == 0 {
		// the "equal" leg only: oriented either way
		return 1
	}
	return res
}

// caseLabel: the types asserted on the path (from the type-switch), for a stable key.
func caseLabel(ret *ssa.Return) string {
	var parts []string
	b := ret.Block()
	for d := 0; d < 6 && b != nil; d++ {
		for _, in := range b.Instrs {
			if ta, ok := in.(*ssa.TypeAssert); ok && ta.CommaOk {
				_ = ta
			}
		}
		if b.Idom() == nil {
			break
		}
		// the dominating typeswitch test that led here: the predecessor's condition comes from a comma-ok assert
		id := b.Idom()
		if iff, ok := id.Instrs[len(id.Instrs)-1].(*ssa.If); ok && id.Succs[0] == b || ok && id.Succs[0].Dominates(b) {
			if ex, ok := iff.Cond.(*ssa.Extract); ok {
				if ta, ok := ex.Tuple.(*ssa.TypeAssert); ok {
					parts = append([]string{typeKey(ta.AssertedType)}, parts...)
				}
			}
		}
		b = id
	}
	if len(parts) > 2 {
		parts = parts[len(parts)-2:]
	}
	return strings.Join(parts, ",")
}

// ---- SEM-4 ---------------------------------------------------------------------------

func ruleSem4(c *Ctx, r *Reporter) {
	regs := readRegistries(c)
	// (1) matchNegate table
	neg := c.lookupSSA(pkgMongokit, "matchNegate")
	if neg == nil {
		r.bad("anchor:matchNegate", "-", "not found")
		return
	}
	var opCall *ssa.Call
	allInstrs(neg, func(in ssa.Instruction) {
		if call, ok := in.(*ssa.Call); ok && call.Call.Value == ssa.Value(neg.Params[0]) {
			opCall = call
		}
	})
	// the outcome to negate: the result of calling the argument, or - matchNegate(err error) - the argument itself
	var outcome ssa.Value
	startBlock, startIdx := neg.Blocks[0], 0
	if opCall != nil {
		outcome, startBlock, startIdx = opCall, opCall.Block(), instrIndex(opCall)+1
	} else if len(neg.Params) == 1 && isErrorType(neg.Params[0].Type()) {
		outcome = neg.Params[0]
	}
	if outcome == nil {
		r.bad("matchNegate:shape", c.pos(neg.Pos()), "matchNegate does not call its argument")
	} else {
		for _, tc := range []struct {
			in   aVal
			want string
		}{{aVal{k: aNil}, "ErrNotMatched"}, {aVal{k: aSentinel, s: "ErrNotMatched"}, "nil"}, {aVal{k: aOther, s: "error"}, "other(error)"}} {
			env := &absEnv{vals: map[ssa.Value]aVal{}}
			in := tc.in
			env.seed = func(v ssa.Value) (aVal, bool) {
				if v == outcome {
					return in, true
				}
				return aVal{}, false
			}
			rets, _, ok := env.run(startBlock, nil, nil, startIdx)
			key := fmt.Sprintf("matchNegate[%v]", tc.in)
			if !ok || len(rets) != 1 {
				r.unk(key, c.pos(neg.Pos()), "cannot evaluate: "+env.why)
				continue
			}
			r.check(rets[0].String() == tc.want, key, c.pos(neg.Pos()), "returns "+rets[0].String(), "returns "+rets[0].String()+", an exact negation must return "+tc.want)
		}
	}
	// (2) $ne/$nin/$nor = matchNegate(closure calling the positive operator with the same arguments)
	for _, p := range []struct{ reg, negName, posName string }{{"ExpressionQueryOperators", "$ne", "$eq"}, {"ExpressionQueryOperators", "$nin", "$in"}, {"TopLevelQueryOperators", "$nor", "$or"}} {
		nf, pf := regs[p.reg][p.negName], regs[p.reg][p.posName]
		key := fmt.Sprintf("%s = not %s", p.negName, p.posName)
		if nf == nil || pf == nil {
			r.bad(key, "-", "operator not registered")
			continue
		}
		good := false
		why := "the function registered for " + p.negName + " is not `return matchNegate(func() error { return <" + p.posName + " operator>(same arguments) })`"
		var negCall *ssa.Call
		allInstrs(nf, func(in ssa.Instruction) {
			if call, ok := in.(*ssa.Call); ok && staticFn(&call.Call) == neg {
				negCall = call
			}
		})
		if negCall != nil && len(nf.AnonFuncs) == 0 && len(negCall.Call.Args) == 1 {
			// matchNegate(<positive operator>(same arguments)): the outcome is passed instead of a thunk
			direct := false
			for _, ret := range returnsOf(nf) {
				if retVal(ret, 0) == ssa.Value(negCall) {
					direct = true
				}
			}
			if inner, ok := negCall.Call.Args[0].(*ssa.Call); ok && staticFn(&inner.Call) == pf && direct {
				argsOK := len(inner.Call.Args) == len(nf.Params)
				for i, a := range inner.Call.Args {
					if !argsOK {
						break
					}
					if _, isConst := a.(*ssa.Const); isConst {
						if s, ok := constString(a); !ok || s != p.posName {
							argsOK = false
						}
					} else if a != ssa.Value(nf.Params[i]) {
						argsOK = false
					}
				}
				if argsOK {
					good = true
				} else {
					why = "the negated call does not pass the operator's own arguments through unchanged"
				}
			}
		}
		if negCall != nil && len(nf.AnonFuncs) == 1 {
			// the result of matchNegate is returned unchanged
			direct := false
			for _, ret := range returnsOf(nf) {
				if retVal(ret, 0) == ssa.Value(negCall) {
					direct = true
				}
			}
			cl := nf.AnonFuncs[0]
			var inner *ssa.Call
			allInstrs(cl, func(in ssa.Instruction) {
				if call, ok := in.(*ssa.Call); ok && staticFn(&call.Call) == pf {
					inner = call
				}
			})
			if direct && inner != nil {
				// arguments: captured parameters in order (op name may be the positive operator's constant)
				argsOK := true
				for i, a := range inner.Call.Args {
					want := nf.Params[i].Name()
					switch x := a.(type) {
					case *ssa.UnOp:
						if fv, ok := x.X.(*ssa.FreeVar); !ok || fv.Name() != want {
							argsOK = false
						}
					case *ssa.FreeVar:
						if x.Name() != want {
							argsOK = false
						}
					case *ssa.Const:
						if s, ok := constString(a); !ok || s != p.posName {
							argsOK = false
						}
					default:
						argsOK = false
					}
				}
				innerReturned := false
				for _, ret := range returnsOf(cl) {
					if retVal(ret, 0) == ssa.Value(inner) {
						innerReturned = true
					}
				}
				if argsOK && innerReturned {
					good = true
				} else {
					why = "the negated call does not pass the operator's own arguments through unchanged"
				}
			}
		}
		r.check(good, key, c.pos(nf.Pos()), "registered function is matchNegate around the function registered for "+p.posName+" with the same arguments", why)
	}
	// (3) per-iteration tables of the loops in matchAnd / matchOr / matchNot
	type row struct {
		in   aVal
		want string // "continue" or the returned value
	}
	nilV, nm, other := aVal{k: aNil}, aVal{k: aSentinel, s: "ErrNotMatched"}, aVal{k: aOther, s: "error"}
	for _, t := range []struct {
		name   string
		callee []string
		rows   []row
		exit   string
	}{
		{"matchAnd", []string{pkgMongokit + ".Process"}, []row{{nilV, "continue"}, {nm, "ErrNotMatched"}, {other, "other(error)"}}, "nil"},
		{"matchOr", []string{pkgMongokit + ".Process"}, []row{{nilV, "nil"}, {nm, "continue"}, {other, "other(error)"}}, "ErrNotMatched"},
		{"matchNot", []string{pkgMongokit + ".ProcessExpression"}, []row{{nilV, "continue"}, {nm, "nil"}, {other, "other(error)"}}, "ErrNotMatched"},
	} {
		fn := c.lookupSSA(pkgMongokit, t.name)
		if fn == nil {
			r.bad("anchor:"+t.name, "-", "not found")
			continue
		}
		var call *ssa.Call
		allInstrs(fn, func(in ssa.Instruction) {
			if cc, ok := in.(*ssa.Call); ok && inLoop(cc.Block()) {
				for _, want := range t.callee {
					if calleeFull(&cc.Call) == want {
						call = cc
					}
				}
			}
		})
		if call == nil {
			r.bad(t.name+":loop", c.pos(fn.Pos()), "no call of the sub-expression evaluator inside a loop")
			continue
		}
		// loop header: the block that dominates the call's block and is reachable from it (back edge target)
		var header *ssa.BasicBlock
		for b := call.Block(); b != nil; b = b.Idom() {
			if inLoop(b) {
				for _, p := range b.Preds {
					if blockReach([]*ssa.BasicBlock{call.Block()}, nil)[p] && b.Dominates(p) {
						header = b
					}
				}
			}
			if header != nil {
				break
			}
		}
		if header == nil {
			r.unk(t.name+":loop", c.pos(fn.Pos()), "cannot identify the loop header")
			continue
		}
		for _, rw := range t.rows {
			env := &absEnv{vals: map[ssa.Value]aVal{}}
			in := rw.in
			env.seed = func(v ssa.Value) (aVal, bool) {
				if v == ssa.Value(call) {
					return in, true
				}
				return aVal{}, false
			}
			rets, cont, ok := env.run(call.Block(), nil, header, instrIndex(call)+1)
			key := fmt.Sprintf("%s[sub-expression yields %v]", t.name, rw.in)
			if !ok {
				r.unk(key, c.pos(call.Pos()), "cannot evaluate: "+env.why)
				continue
			}
			got := "continue"
			if !cont {
				if len(rets) != 1 {
					r.unk(key, c.pos(call.Pos()), "unexpected number of results")
					continue
				}
				got = rets[0].String()
			}
			r.check(got == rw.want, key, c.pos(call.Pos()), got, fmt.Sprintf("%s, but the logical law requires %s", got, rw.want))
		}
		// loop exit: the value returned when all iterations continued
		exitOK := false
		var exitRet *ssa.Return
		for _, s := range header.Succs {
			if !blockReach([]*ssa.BasicBlock{s}, nil)[header] {
				// outside the loop
				for b := range blockReach([]*ssa.BasicBlock{s}, nil) {
					if ret, ok := b.Instrs[len(b.Instrs)-1].(*ssa.Return); ok {
						exitRet = ret
					}
				}
			}
		}
		if exitRet != nil {
			env := &absEnv{vals: map[ssa.Value]aVal{}}
			v := env.get(retVal(exitRet, 0))
			exitOK = v.String() == t.exit
		}
		r.check(exitOK, t.name+"[all sub-expressions continued]", c.pos(fn.Pos()), "returns "+t.exit, "does not return "+t.exit+" after the loop")
	}
	_ = types.Universe
}

// ---- SEM-5 ---------------------------------------------------------------------------

func ruleSem5(c *Ctx, r *Reporter) {
	// helpers reachable from compareNumbers (static callees in bsonkit)
	root := c.lookupSSA(pkgBsonkit, "compareNumbers")
	if root == nil {
		r.bad("anchor:compareNumbers", "-", "not found")
		return
	}
	seen := map[*ssa.Function]bool{}
	var helpers []*ssa.Function
	var walk func(fn *ssa.Function)
	walk = func(fn *ssa.Function) {
		if seen[fn] || fn.Blocks == nil || fnPkgPath(fn) != pkgBsonkit {
			return
		}
		seen[fn] = true
		helpers = append(helpers, fn)
		allInstrs(fn, func(in ssa.Instruction) {
			if ci, ok := in.(ssa.CallInstruction); ok {
				if sf := staticFn(ci.Common()); sf != nil {
					walk(sf)
				}
			}
		})
	}
	walk(root)
	sort.Slice(helpers, func(i, j int) bool { return helpers[i].Name() < helpers[j].Name() })
	n := 0
	for _, fn := range helpers {
		if fn == root {
			continue
		}
		// a conversion helper: returns a decimal.Decimal
		if fn.Signature.Results().Len() != 1 || !strings.HasSuffix(typeKey(fn.Signature.Results().At(0).Type()), "decimal.Decimal") {
			continue
		}
		n++
		// the construct names the library conversions the helper is built from: a finding recorded for one way of
		// converting does not cover another
		via := map[string]bool{}
		allInstrs(fn, func(in ssa.Instruction) {
			if ci, ok := in.(ssa.CallInstruction); ok {
				if f := calleeObj(ci.Common()); f != nil && f.Pkg() != nil {
					switch f.Pkg().Path() {
					case "github.com/shopspring/decimal", "strconv", "math/big", "fmt":
						if f.Type().(*types.Signature).Recv() == nil {
							via[f.Pkg().Name()+"."+f.Name()] = true
						}
					}
				}
			}
		})
		var vias []string
		for k := range via {
			vias = append(vias, k)
		}
		sort.Strings(vias)
		key := "conversion " + fn.Name() + " via " + strings.Join(vias, ",")
		var problems []string
		for _, ret := range returnsOf(fn) {
			v := retVal(ret, 0)
			// zero value returned on a failure / non-finite branch
			if u, ok := v.(*ssa.UnOp); ok && u.Op == token.MUL {
				if a, ok := u.X.(*ssa.Alloc); ok {
					hasStore := false
					if refs := a.Referrers(); refs != nil {
						for _, ref := range *refs {
							if _, ok := ref.(*ssa.Store); ok {
								hasStore = true
							}
						}
					}
					if !hasStore {
						problems = append(problems, "returns the zero Decimal on an error / non-finite branch at "+c.pos(ret.Pos()))
					}
				}
			}
			if k, ok := v.(*ssa.Const); ok && k.Value == nil {
				problems = append(problems, "returns the zero Decimal on an error / non-finite branch at "+c.pos(ret.Pos()))
			}
			if call, ok := v.(*ssa.Call); ok && calleeFull(&call.Call) == "github.com/shopspring/decimal.NewFromFloat" {
				problems = append(problems, "decimal.NewFromFloat renders the shortest round-trip decimal, not the exact binary value")
			}
		}
		if len(problems) > 0 {
			r.bad(key, c.pos(fn.Pos()), strings.Join(problems, "; "))
		} else {
			r.ok(key, c.pos(fn.Pos()), "no default-on-failure and no inexact conversion")
		}
	}
	r.guard(n, 2, "decimal conversion helpers on the numeric comparison path")
}

func init() {
	register(&Rule{ID: "SEM-6", Doc: "change-stream scope and invalidation table: over (stream db set?, stream coll set?, event db/coll equal?, operation type) an event is delivered iff it is in scope (dropDatabase passes a collection scope) and the stream is invalidated iff (coll scope and drop) or (db scope and dropDatabase)", Run: ruleSem6})
	register(&Rule{ID: "MOD-1", Doc: "modified detection is BSON byte equality: docsEqual marshals both documents and compares the bytes (a value-preserving type change counts as modified)", Run: ruleMod1})
	register(&Rule{ID: "UPD-1", Doc: "$push applies its modifiers in MongoDB's order: $position, then $sort, then $slice", Run: ruleUpd1})
}

func ruleSem6(c *Ctx, r *Reporter) {
	fn := c.lookupSSA(pkgLungo, "Stream.next")
	handleF := c.field(pkgLungo, "Stream", "handle")
	eventF := c.field(pkgLungo, "Stream", "event")
	droppedF := c.field(pkgLungo, "Stream", "dropped")
	if fn == nil || handleF == nil || eventF == nil || droppedF == nil {
		r.bad("anchor:Stream.next", "-", "not found")
		return
	}
	// the three Get calls
	gets := map[string]*ssa.Call{}
	allInstrs(fn, func(in ssa.Instruction) {
		if call, ok := in.(*ssa.Call); ok && calleeFull(&call.Call) == pkgBsonkit+".Get" {
			if s, ok := constString(call.Call.Args[1]); ok {
				gets[s] = call
			}
		}
	})
	opGet, dbGet, collGet := gets["operationType"], gets["ns.db"], gets["ns.coll"]
	if opGet == nil || dbGet == nil || collGet == nil {
		r.bad("Stream.next:event fields", c.pos(fn.Pos()), "next() does not read ns.db, ns.coll and operationType of the event")
		return
	}
	// start after the last of the three reads
	start := opGet
	for _, g := range []*ssa.Call{dbGet, collGet} {
		if g.Block() == start.Block() && instrIndex(g) > instrIndex(start) {
			start = g
		}
	}
	isHandleLoad := func(v ssa.Value) (int64, bool) {
		u, ok := v.(*ssa.UnOp)
		if !ok {
			return 0, false
		}
		ia, ok := u.X.(*ssa.IndexAddr)
		if !ok {
			return 0, false
		}
		fa, ok := ia.X.(*ssa.FieldAddr)
		if !ok || structFieldOf(fa) != handleF {
			return 0, false
		}
		k, ok := constInt(ia.Index)
		return k, ok
	}
	n := 0
	for _, h0 := range []string{"", "db"} {
		for _, h1 := range []string{"", "coll"} {
			for _, evDB := range []string{"db", "other"} {
				for _, evColl := range []string{"coll", "other"} {
					for _, op := range []string{"insert", "drop", "dropDatabase"} {
						if h0 == "" && h1 != "" {
							continue // a collection scope without database does not exist
						}
						env := &absEnv{vals: map[ssa.Value]aVal{}, fieldStores: map[*types.Var]aVal{}}
						env.elemSeed = func(addr ssa.Value, k int64) (aVal, bool) {
							if fa, ok := addr.(*ssa.FieldAddr); ok && structFieldOf(fa) == handleF {
								if k == 0 {
									return aVal{k: aStr, s: h0}, true
								}
								return aVal{k: aStr, s: h1}, true
							}
							return aVal{}, false
						}
						env.seed = func(v ssa.Value) (aVal, bool) {
							if k, ok := isHandleLoad(v); ok {
								if k == 0 {
									return aVal{k: aStr, s: h0}, true
								}
								return aVal{k: aStr, s: h1}, true
							}
							switch v {
							case ssa.Value(opGet):
								return aVal{k: aStr, s: op}, true
							case ssa.Value(dbGet):
								return aVal{k: aStr, s: evDB}, true
							case ssa.Value(collGet):
								if op == "dropDatabase" {
									return aVal{k: aSentinel, s: "Missing"}, true
								}
								return aVal{k: aStr, s: evColl}, true
							}
							return aVal{}, false
						}
						env.stopInstr = func(in ssa.Instruction) bool {
							call, ok := in.(*ssa.Call)
							return ok && calleeFull(&call.Call) == "sync.Mutex.Unlock"
						}
						_, _, ok := env.run(start.Block(), nil, nil, instrIndex(start)+1)
						n++
						key := fmt.Sprintf("Stream.next[scope=%q.%q event=%s.%s op=%s]", h0, h1, evDB, evColl, op)
						if !ok {
							r.unk(key, c.pos(start.Pos()), "cannot evaluate: "+env.why)
							continue
						}
						_, delivered := env.fieldStores[eventF]
						dv, hasDropped := env.fieldStores[droppedF]
						dropped := hasDropped && dv.k == aBool && dv.b
						inScope := (h0 == "" || h0 == evDB) && (h1 == "" || h1 == evColl || op == "dropDatabase")
						wantDropped := inScope && ((h0 != "" && h1 != "" && op == "drop") || (h0 != "" && op == "dropDatabase"))
						good := delivered == inScope && dropped == wantDropped
						r.check(good, key, c.pos(start.Pos()), fmt.Sprintf("delivered=%v invalidated=%v", delivered, dropped), fmt.Sprintf("delivered=%v invalidated=%v, expected delivered=%v invalidated=%v", delivered, dropped, inScope, wantDropped))
					}
				}
			}
		}
	}
	r.guard(n, 30, "scope/operation combinations")
}

func ruleMod1(c *Ctx, r *Reporter) {
	const marshalF = "go.mongodb.org/mongo-driver/bson.Marshal"
	// byteEq: the bytes.Equal calls of g whose operands are the serialisations (bson.Marshal) of two different values
	type eqSite struct {
		eq       *ssa.Call
		marshals [2]*ssa.Call
		good     bool
	}
	byteEq := func(g *ssa.Function) []eqSite {
		var out []eqSite
		allInstrs(g, func(in ssa.Instruction) {
			call, ok := in.(*ssa.Call)
			if !ok || calleeFull(&call.Call) != "bytes.Equal" {
				return
			}
			site := eqSite{eq: call}
			okBoth := true
			for i := 0; i < 2; i++ {
				ex, isEx := call.Call.Args[i].(*ssa.Extract)
				if !isEx || ex.Index != 0 {
					okBoth = false
					continue
				}
				m, isCall := ex.Tuple.(*ssa.Call)
				if !isCall || calleeFull(&m.Call) != marshalF {
					okBoth = false
					continue
				}
				site.marshals[i] = m
			}
			site.good = okBoth && site.marshals[0] != site.marshals[1] && stripValue(site.marshals[0].Call.Args[0]) != stripValue(site.marshals[1].Call.Args[0])
			out = append(out, site)
		})
		return out
	}
	n := 0
	for _, m := range []string{"Collection.Replace", "Collection.Update"} {
		f := c.lookupSSA(pkgMongokit, m)
		if f == nil {
			r.bad("anchor:mongokit."+m, "-", "not found")
			continue
		}
		found := 0
		// written in the method itself
		for _, site := range byteEq(f) {
			found++
			r.check(site.good, m+":byte equality", c.pos(site.eq.Pos()), "bytes.Equal(bson.Marshal(old), bson.Marshal(new))", "the modified test is not a comparison of the serialized bytes of two documents: an update that only changes a value's type (5 -> 5.0) would be reported as unmodified and silently dropped")
		}
		// or in a function of the package that compares its two parameters and returns the verdict
		allInstrs(f, func(in ssa.Instruction) {
			call, ok := in.(*ssa.Call)
			if !ok {
				return
			}
			h := staticFn(&call.Call)
			if h == nil || h.Blocks == nil || fnPkgPath(h) != pkgMongokit || len(h.Params) != 2 {
				return
			}
			sites := byteEq(h)
			if len(sites) != 1 {
				return
			}
			found++
			site := sites[0]
			good := site.good
			if good {
				p0, p1 := false, false
				for _, mc := range site.marshals {
					if stripValue(mc.Call.Args[0]) == ssa.Value(h.Params[0]) {
						p0 = true
					}
					if stripValue(mc.Call.Args[0]) == ssa.Value(h.Params[1]) {
						p1 = true
					}
				}
				ret := false
				for _, rt := range returnsOf(h) {
					if retVal(rt, 0) == ssa.Value(site.eq) {
						ret = true
					}
				}
				good = p0 && p1 && ret
			}
			r.check(good, m+":byte equality", c.pos(call.Pos()), h.Name()+" = bytes.Equal(bson.Marshal(a), bson.Marshal(b))", h.Name()+" is not a comparison of the serialized bytes: an update that only changes a value's type (5 -> 5.0) would be reported as unmodified and silently dropped")
		})
		if found == 0 {
			r.bad(m+":byte equality", c.pos(f.Pos()), "no comparison of the serialized old and new document decides what counts as modified")
		}
		n += found
	}
	r.guard(n, 2, "byte comparisons in Replace/Update")
}

func ruleUpd1(c *Ctx, r *Reporter) {
	fn := c.lookupSSA(pkgMongokit, "applyPush")
	if fn == nil {
		r.bad("anchor:applyPush", "-", "not found")
		return
	}
	var sortCall *ssa.Call
	mods := map[string]*ssa.Call{}
	allInstrs(fn, func(in ssa.Instruction) {
		call, ok := in.(*ssa.Call)
		if !ok {
			return
		}
		switch calleeFull(&call.Call) {
		case pkgMongokit + ".pushSort":
			sortCall = call
		case pkgMongokit + ".pushIntModifier":
			if s, ok := constString(call.Call.Args[1]); ok {
				mods[s] = call
			}
		}
	})
	pos, slice := mods["$position"], mods["$slice"]
	if sortCall == nil || pos == nil || slice == nil {
		r.bad("applyPush:modifiers", c.pos(fn.Pos()), "applyPush does not evaluate $position, $sort and $slice")
		return
	}
	r.check(instrReaches(pos, sortCall) && !instrReaches(sortCall, pos), "applyPush:$position before $sort", c.pos(sortCall.Pos()), "elements are inserted at $position before the array is sorted", "$sort runs before $position is applied")
	r.check(instrReaches(sortCall, slice) && !instrReaches(slice, sortCall), "applyPush:$sort before $slice", c.pos(slice.Pos()), "the array is sorted before it is sliced", "$slice runs before $sort: the wrong elements are kept")
}

func init() {
	register(&Rule{ID: "SEM-7", Doc: "container comparison reports equality only after both operands are exhausted together: every `return 0` of compareArrays/compareDocuments is dominated by a length test of the left and of the right operand", Run: ruleSem7})
	register(&Rule{ID: "PROJ-1", Doc: "$elemMatch projection marks its path as included and as skipped in the same step (for every shape of the field), so the original value is never copied next to / instead of the matched element", Run: ruleProj1})
}

func ruleSem7(c *Ctx, r *Reporter) {
	for _, name := range []string{"compareArrays", "compareDocuments"} {
		fn := c.lookupSSA(pkgBsonkit, name)
		if fn == nil {
			r.bad("anchor:"+name, "-", "not found")
			continue
		}
		// operands: the values asserted out of the two parameters
		side := map[ssa.Value]int{}
		allInstrs(fn, func(in ssa.Instruction) {
			if ta, ok := in.(*ssa.TypeAssert); ok {
				for i, p := range fn.Params {
					if ta.X == ssa.Value(p) {
						side[ta] = i
					}
				}
			}
		})
		lenSide := func(v ssa.Value) (int, bool) {
			call, ok := v.(*ssa.Call)
			if !ok {
				return 0, false
			}
			if b, ok := call.Call.Value.(*ssa.Builtin); !ok || b.Name() != "len" {
				return 0, false
			}
			sd, ok := side[call.Call.Args[0]]
			return sd, ok
		}
		n := 0
		for _, ret := range returnsOf(fn) {
			k, ok := constInt(retVal(ret, 0))
			if !ok || k != 0 {
				continue
			}
			n++
			have := map[int]bool{}
			allInstrs(fn, func(in ssa.Instruction) {
				iff, ok := in.(*ssa.If)
				if !ok {
					return
				}
				bo, ok := iff.Cond.(*ssa.BinOp)
				if !ok || bo.Op != token.EQL {
					return
				}
				t := iff.Block().Succs[0]
				if !(t == ret.Block() || t.Dominates(ret.Block())) {
					return
				}
				if sd, ok := lenSide(bo.X); ok {
					have[sd] = true
				}
				if sd, ok := lenSide(bo.Y); ok {
					have[sd] = true
				}
			})
			r.check(have[0] && have[1], name+":return 0", c.pos(ret.Pos()), "equality is reported only where the length of both operands has been tested", "equality can be reported without establishing that both operands end at the same position (arrays/documents of different length may compare equal)")
		}
		r.guard(n, 2, "`return 0` in "+name)
	}
}

func ruleProj1(c *Ctx, r *Reporter) {
	fn := c.lookupSSA(pkgMongokit, "projectElemMatch")
	incF := c.field(pkgMongokit, "projectState", "include")
	skipF := c.field(pkgMongokit, "projectState", "skip")
	if fn == nil || incF == nil || skipF == nil {
		r.bad("anchor:projectElemMatch", "-", "not found")
		return
	}
	var incStore *ssa.Store
	var skipUpd *ssa.MapUpdate
	allInstrs(fn, func(in ssa.Instruction) {
		switch x := in.(type) {
		case *ssa.Store:
			if fa, ok := x.Addr.(*ssa.FieldAddr); ok && structFieldOf(fa) == incF {
				incStore = x
			}
		case *ssa.MapUpdate:
			if isLoadOf(x.Map, skipF) {
				skipUpd = x
			}
		}
	})
	if incStore == nil || skipUpd == nil {
		r.bad("projectElemMatch:include/skip", c.pos(fn.Pos()), "$elemMatch does not both include and skip its path")
		return
	}
	r.check(incStore.Block() == skipUpd.Block(), "projectElemMatch:include/skip paired", c.pos(skipUpd.Pos()), "the path is added to include and marked skip in the same block", "the path can be included without being marked skip (or vice versa): for some field shapes the stored value is copied instead of the matched element")
	b, ok := constBool(skipUpd.Value)
	r.check(ok && b && skipUpd.Key == ssa.Value(fn.Params[3]), "projectElemMatch:skip own path", c.pos(skipUpd.Pos()), "skip[path] = true for the operator's own path", "the skip mark is not set for the operator's own path")
}
