package main

import (
	"fmt"
	"go/constant"
	"go/token"
	"go/types"
	"sort"
	"strings"

	"golang.org/x/tools/go/ssa"
)

// Rules added after the seventh (half) round of seeded changes.

func init() {
	register(&Rule{ID: "FLAG-3", Doc: "accumulating flags only rise: in mongokit and bsonkit a boolean that is false before a loop, is carried around it and is read after it is, on the back edge, either unchanged or the constant true; assigning it the current element's verdict (`found = isX`) lets a later element erase what an earlier one established", Run: ruleFlag3})
	register(&Rule{ID: "NUM-8", Doc: "the two sides of $mod are rounded alike: numberToInt64 (the field) and modOperandToInt64 (the operands) of mongokit use the same math rounding function (Trunc)", Run: ruleNum8})
	register(&Rule{ID: "WIN-8", Doc: "updates keep a document's position: mongokit.Collection.Update and Collection.Replace exchange documents of the set with Set.Replace only, never by Set.Remove followed by Set.Add (which would move the document to the end and change which of several tied documents a sorted operation sees first)", Run: ruleWin8})
	register(&Rule{ID: "NUM-9", Doc: "a missing field counts from an int32 zero: the value bsonkit.Increment and bsonkit.Multiply substitute for a missing field is the constant int32(0), so that the type of the result follows the operand ($inc by an int32 on a missing field yields an int32)", Run: ruleNum9})
	register(&Rule{ID: "UPD-6", Doc: "path conflicts are detected in both directions: the conflict error of Changes.Record is controlled by a test of the found node's flag (an ancestor or the path itself was recorded) and by a test of the unmatched rest against PathEnd (a descendant was recorded)", Run: ruleUpd6})
	register(&Rule{ID: "PROJ-8", Doc: "$slice always records its window: in projectSlice every successful path on which the field was found to be an array stores into the projection state's merge map (an inclusion projection takes the sliced array from there only)", Run: ruleProj8})
}

// ---- FLAG-3 ------------------------------------------------------------------------------

func ruleFlag3(c *Ctx, r *Reporter) {
	n, bad := 0, 0
	for _, fn := range c.repoFuncs() {
		p := fnPkgPath(fn)
		if p != pkgMongokit && p != pkgBsonkit {
			continue
		}
		for _, hdr := range fn.Blocks {
			var latches []int
			for k, pb := range hdr.Preds {
				if hdr.Dominates(pb) {
					latches = append(latches, k)
				}
			}
			if len(latches) == 0 {
				continue
			}
			for _, in := range hdr.Instrs {
				ph, ok := in.(*ssa.Phi)
				if !ok {
					break
				}
				if b, ok := ph.Type().Underlying().(*types.Basic); !ok || b.Kind() != types.Bool {
					continue
				}
				// starts false
				startsFalse := true
				for k, e := range ph.Edges {
					isLatch := false
					for _, l := range latches {
						if l == k {
							isLatch = true
						}
					}
					if isLatch {
						continue
					}
					if v, isConst := constBool(e); !isConst || v {
						startsFalse = false
					}
				}
				if !startsFalse {
					continue
				}
				// read after the loop (outside it)
				readAfter := false
				if refs := ph.Referrers(); refs != nil {
					for _, ref := range *refs {
						if rb := ref.Block(); rb != nil && !(hdr.Dominates(rb) && blockReach(rb.Succs, nil)[hdr]) {
							readAfter = true
						}
						if rb := ref.Block(); rb == hdr {
							if _, isIf := ref.(*ssa.If); isIf {
								readAfter = true
							}
						}
					}
				}
				if !readAfter {
					continue
				}
				n++
				// every back-edge value: the phi itself, true, or a merge of those
				var monotone func(v ssa.Value, depth int) bool
				monotone = func(v ssa.Value, depth int) bool {
					if v == ssa.Value(ph) {
						return true
					}
					if b, isConst := constBool(v); isConst {
						return b
					}
					if p2, ok := v.(*ssa.Phi); ok && depth < 6 {
						for _, e := range p2.Edges {
							if !monotone(e, depth+1) {
								return false
							}
						}
						return true
					}
					if bo, ok := v.(*ssa.BinOp); ok && bo.Op == token.OR && depth < 6 {
						return monotone(bo.X, depth+1) || monotone(bo.Y, depth+1)
					}
					return false
				}
				// a value that is assigned only under a condition (a merge that keeps the old value on some edge) is a
				// setting being parsed, not an accumulator: only an unconditional per-iteration overwrite is judged
				keepsOld := func(v ssa.Value) bool {
					p2, ok := v.(*ssa.Phi)
					if !ok {
						return false
					}
					for _, e := range p2.Edges {
						if e == ssa.Value(ph) {
							return true
						}
					}
					return false
				}
				okAll := true
				conditional := false
				for _, l := range latches {
					if ph.Edges[l] == ssa.Value(ph) || keepsOld(ph.Edges[l]) {
						conditional = true // some way round the loop leaves the flag alone
					}
				}
				for _, l := range latches {
					if !monotone(ph.Edges[l], 0) && !conditional {
						okAll = false
					}
				}
				if !okAll {
					bad++
					r.bad(fmt.Sprintf("%s:flag %s is overwritten per iteration", funcName(fn), ph.Comment), c.pos(ph.Pos()), "a flag that starts false and is read after the loop is assigned a per-element value on the way round: a later element resets what an earlier element established (a list such as [\"number\", \"string\"] loses its first member's effect)")
				}
			}
		}
	}
	// the same for flags that live in a cell because a function literal captures them: a store of a computed value
	// that runs on every completed iteration of a loop, into a bool cell that starts false and is read after the loop
	for _, fn := range c.repoFuncs() {
		p := fnPkgPath(fn)
		if p != pkgMongokit && p != pkgBsonkit {
			continue
		}
		allInstrs(fn, func(in ssa.Instruction) {
			al, ok := in.(*ssa.Alloc)
			if !ok || al.Referrers() == nil {
				return
			}
			if pt, ok := al.Type().Underlying().(*types.Pointer); !ok || typeKey(pt.Elem()) != "bool" {
				return
			}
			var stores []*ssa.Store
			var loads []*ssa.UnOp
			captured := false
			for _, ref := range *al.Referrers() {
				switch x := ref.(type) {
				case *ssa.Store:
					if x.Addr == ssa.Value(al) {
						stores = append(stores, x)
					}
				case *ssa.UnOp:
					loads = append(loads, x)
				case *ssa.MakeClosure:
					captured = true // read by a function literal (the operator callback that runs afterwards)
				}
			}
			for _, st := range stores {
				if _, isConst := st.Val.(*ssa.Const); isConst {
					continue
				}
				hdr := innermostLoopHeader(st.Block())
				if hdr == nil {
					continue
				}
				// runs on every completed iteration: dominates every latch
				everyIter := true
				for _, pb := range hdr.Preds {
					if hdr.Dominates(pb) && !(st.Block() == pb || st.Block().Dominates(pb)) {
						everyIter = false
					}
				}
				readAfter := captured
				for _, ld := range loads {
					if lb := ld.Block(); !(hdr.Dominates(lb) && blockReach(lb.Succs, nil)[hdr]) && fnOf(ld) == fn {
						readAfter = true
					}
				}
				if !everyIter || !readAfter {
					continue
				}
				n++
				// `flag = flag || x` keeps what was established
				keeps := false
				if bo, ok := st.Val.(*ssa.BinOp); ok && bo.Op == token.OR {
					keeps = true
				}
				if ph, ok := st.Val.(*ssa.Phi); ok {
					for _, e := range ph.Edges {
						if b, isConst := constBool(e); isConst && b {
							keeps = true
						}
					}
				}
				if !keeps {
					bad++
					r.bad(fmt.Sprintf("%s:flag %s is overwritten per iteration", funcName(fn), al.Comment), c.pos(st.Pos()), "a flag that is read after the loop is assigned a per-element value on every iteration: a later element resets what an earlier element established (a list such as [\"number\", \"string\"] loses its first member's effect)")
				}
			}
		})
	}
	if bad == 0 {
		r.ok("mongokit+bsonkit:accumulating flags", "-", fmt.Sprintf("%d loop-carried flags read after their loop, all monotone", n))
	}
	r.guard(n, 5, "loop-carried boolean flags in mongokit and bsonkit")
}

// ---- NUM-8 -------------------------------------------------------------------------------

func ruleNum8(c *Ctx, r *Reporter) {
	rounding := func(name string) ([]string, *ssa.Function) {
		fn := c.lookupSSA(pkgMongokit, name)
		if fn == nil {
			return nil, nil
		}
		set := map[string]bool{}
		allInstrs(fn, func(in ssa.Instruction) {
			if call, ok := in.(*ssa.Call); ok {
				if f := calleeObj(&call.Call); f != nil && f.Pkg() != nil && f.Pkg().Path() == "math" {
					switch f.Name() {
					case "Trunc", "Floor", "Ceil", "Round", "RoundToEven":
						set[f.Name()] = true
					}
				}
			}
		})
		var out []string
		for k := range set {
			out = append(out, k)
		}
		sort.Strings(out)
		return out, fn
	}
	a, fa := rounding("numberToInt64")
	b, fb := rounding("modOperandToInt64")
	if fa == nil || fb == nil {
		r.bad("anchor:numberToInt64/modOperandToInt64", "-", "not found")
		return
	}
	r.check(len(a) > 0 && strings.Join(a, ",") == strings.Join(b, ","), "$mod:field and operands rounded alike", c.pos(fa.Pos()), "both use math."+strings.Join(a, ","), fmt.Sprintf("the field is rounded with math.%v, the operands with math.%v: for negative non-integral doubles the remainder is computed from different integers than MongoDB's truncation gives", a, b))
}

// ---- WIN-8 -------------------------------------------------------------------------------

func ruleWin8(c *Ctx, r *Reporter) {
	n := 0
	for _, name := range []string{"Collection.Update", "Collection.Replace"} {
		fn := c.lookupSSA(pkgMongokit, name)
		if fn == nil {
			r.bad("anchor:mongokit."+name, "-", "not found")
			continue
		}
		var replaces, moves []string
		coneInstrs(fn, func(in ssa.Instruction) {
			call, ok := in.(*ssa.Call)
			if !ok {
				return
			}
			switch calleeFull(&call.Call) {
			case pkgBsonkit + ".Set.Replace":
				replaces = append(replaces, c.pos(call.Pos()))
			case pkgBsonkit + ".Set.Remove", pkgBsonkit + ".Set.Add":
				moves = append(moves, calleeObj(&call.Call).Name()+" at "+c.pos(call.Pos()))
			}
		})
		n += len(replaces)
		r.check(len(replaces) > 0 && len(moves) == 0, "mongokit."+name+":documents keep their position", c.pos(fn.Pos()), "new versions enter the set through Set.Replace", "the set is changed with "+strings.Join(moves, ", ")+" (or not through Set.Replace): an updated document moves to the end of the natural order, so ties under a later sort, skip/limit windows and sorted one-document writes see another first document")
	}
	r.guard(n, 2, "Set.Replace calls in Collection.Update/Replace")
}

// ---- NUM-9 -------------------------------------------------------------------------------

func ruleNum9(c *Ctx, r *Reporter) {
	for _, name := range []string{"Increment", "Multiply"} {
		fn := c.lookupSSA(pkgBsonkit, name)
		if fn == nil {
			r.bad("anchor:bsonkit."+name, "-", "not found")
			continue
		}
		var zeros []string
		okAll := true
		allInstrs(fn, func(in ssa.Instruction) {
			mi, ok := in.(*ssa.MakeInterface)
			if !ok {
				return
			}
			k, ok := mi.X.(*ssa.Const)
			if !ok || k.Value == nil {
				return
			}
			if k.Value.Kind() != constant.Int && k.Value.Kind() != constant.Float {
				return
			}
			if v, exact := constant.Float64Val(constant.ToFloat(k.Value)); !exact || v != 0 {
				return
			}
			zeros = append(zeros, typeKey(mi.X.Type()))
			if typeKey(mi.X.Type()) != "int32" {
				okAll = false
			}
		})
		r.check(len(zeros) > 0 && okAll, "bsonkit."+name+":start value of a missing field", c.pos(fn.Pos()), "int32(0)", fmt.Sprintf("the zero substituted for a missing field has type %v, not int32: the result no longer follows the operand's type (an int32 $inc on a missing field would produce that wider type)", zeros))
	}
}

// ---- UPD-6 -------------------------------------------------------------------------------

func ruleUpd6(c *Ctx, r *Reporter) {
	fn := c.lookupSSA(pkgMongokit, "Changes.Record")
	pathEnd := c.lookupVar(pkgBsonkit, "PathEnd")
	if fn == nil {
		r.bad("anchor:Changes.Record", "-", "not found")
		return
	}
	// the conflict return: a non-nil error built by fmt.Errorf
	var errRet *ssa.Return
	for _, ret := range returnsOf(fn) {
		if v := retVal(ret, 0); v != nil && !isNilConst(v) {
			if call, ok := v.(*ssa.Call); ok && calleeFull(&call.Call) == "fmt.Errorf" {
				errRet = ret
			}
		}
	}
	if errRet == nil {
		r.bad("Changes.Record:conflict", c.pos(fn.Pos()), "no conflict error is returned")
		return
	}
	nodeFlag, restEnd := false, false
	for _, cond := range controlConds(errRet.Block(), 1) {
		bo, ok := cond.(*ssa.BinOp)
		if !ok || (bo.Op != token.EQL && bo.Op != token.NEQ) {
			continue
		}
		isEnd := func(v ssa.Value) bool {
			if k, ok := constString(v); ok && pathEnd == nil {
				return k == ""
			}
			if u, ok := stripValue(v).(*ssa.UnOp); ok && u.Op == token.MUL {
				if g, ok := u.X.(*ssa.Global); ok && pathEnd != nil && g.Object() == types.Object(pathEnd) {
					return true
				}
			}
			if k, ok := v.(*ssa.Const); ok && pathEnd != nil && k.Value != nil && k.Value.Kind() == constant.String {
				// PathEnd is a constant: compare by value
				if pc, ok := c.Pkgs[pkgBsonkit].Types.Scope().Lookup("PathEnd").(*types.Const); ok {
					return constant.Compare(k.Value, token.EQL, pc.Val())
				}
			}
			return false
		}
		isLoadCall := func(v ssa.Value) bool {
			call, ok := stripValue(v).(*ssa.Call)
			if !ok {
				return false
			}
			f := calleeObj(&call.Call)
			return f != nil && f.Name() == "Load"
		}
		if isEnd(bo.X) || isEnd(bo.Y) {
			restEnd = true
		}
		if isLoadCall(bo.X) || isLoadCall(bo.Y) {
			nodeFlag = true
		}
	}
	r.check(nodeFlag && restEnd, "Changes.Record:conflict in both directions", c.pos(errRet.Pos()), "the conflict is raised for a recorded ancestor (node flag) and for a recorded descendant (rest == PathEnd)", fmt.Sprintf("the conflict test covers node flag: %v, rest == PathEnd: %v - one direction of a path conflict (for example {$inc: {\"a.b\": 1}, $set: {a: ...}} with the deeper path first) is applied instead of being rejected as a whole", nodeFlag, restEnd))
}

// ---- PROJ-8 ------------------------------------------------------------------------------

func ruleProj8(c *Ctx, r *Reporter) {
	regs := readRegistries(c)
	var fn *ssa.Function
	for name, reg := range regs {
		if strings.Contains(name, "Projection") {
			if f := reg["$slice"]; f != nil {
				fn = f
			}
		}
	}
	stT := c.lookupType(pkgMongokit, "projectState")
	if fn == nil || stT == nil {
		r.bad("anchor:$slice projection", "-", "operator not registered")
		return
	}
	mergeB := map[*ssa.BasicBlock]bool{}
	allInstrs(fn, func(in ssa.Instruction) {
		mu, ok := in.(*ssa.MapUpdate)
		if !ok {
			return
		}
		if u, ok := mu.Map.(*ssa.UnOp); ok {
			if fa, ok := u.X.(*ssa.FieldAddr); ok && derefNamed(fa.X.Type()) == stT && structFieldOf(fa).Name() == "merge" {
				mergeB[mu.Block()] = true
			}
		}
	})
	// "the field is an array": the comma-ok assertion of the Get result to bson.A
	isArrayOK := func(v ssa.Value) bool {
		ex, ok := v.(*ssa.Extract)
		if !ok || ex.Index != 1 {
			return false
		}
		ta, ok := ex.Tuple.(*ssa.TypeAssert)
		if !ok || typeKey(ta.AssertedType) != "bson.A" && typeKey(ta.AssertedType) != "primitive.A" {
			return false
		}
		call, ok := ta.X.(*ssa.Call)
		return ok && calleeFull(&call.Call) == pkgBsonkit+".Get"
	}
	paths, ends, trunc := enumPaths(fn.Blocks[0], nil, func(b *ssa.BasicBlock) bool {
		_, isRet := b.Instrs[len(b.Instrs)-1].(*ssa.Return)
		return isRet
	}, 8192)
	if trunc {
		r.unk("$slice:window recorded", c.pos(fn.Pos()), "too many paths")
		return
	}
	blocks := enumPathBlocks
	n := 0
	bad := ""
	for pi, p := range paths {
		end := ends[pi]
		if end == nil {
			continue
		}
		ret, ok := end.Instrs[len(end.Instrs)-1].(*ssa.Return)
		if !ok || !isNilConst(retVal(ret, 0)) {
			continue
		}
		isArr := false
		for _, d := range p {
			if isArrayOK(d.cond) && d.taken {
				isArr = true
			}
		}
		if !isArr {
			continue
		}
		n++
		stored := false
		for _, b := range append(append([]*ssa.BasicBlock{}, blocks[pi]...), end) {
			if mergeB[b] {
				stored = true
			}
		}
		if !stored && bad == "" {
			bad = fmt.Sprintf("the successful return at %s is reached for an array field without an entry in state.merge", c.pos(ret.Pos()))
		}
	}
	r.check(bad == "" && n > 0, "$slice:window recorded", c.pos(fn.Pos()), fmt.Sprintf("all %d successful paths for an array field store the window", n), bad+": in an inclusion projection the field then disappears from the result (the window is taken from the overlay only)")
}

func fnOf(in ssa.Instruction) *ssa.Function { return in.Parent() }
