package main

import (
	"fmt"
	"go/types"
	"sort"
	"strings"

	"golang.org/x/tools/go/callgraph"
	"golang.org/x/tools/go/ssa"
)

// Lockset analysis: for every instruction of every repo function the set of repo locks that
// MUST be held (intersection over paths and callers) and that MAY be held (union).
//
// Lock identity is (owner struct type, field) or a package-level variable. The analysis is
// instance-insensitive. Read locks of a RWMutex are tracked as a separate bit ("T.f(R)").

type lockInfo struct {
	names []string
	index map[string]int
}

func (li *lockInfo) id(name string) int {
	if i, ok := li.index[name]; ok {
		return i
	}
	i := len(li.names)
	if i >= 63 {
		panic("too many locks")
	}
	li.names = append(li.names, name)
	li.index[name] = i
	return i
}

func (li *lockInfo) render(mask uint64) string {
	var out []string
	for i, n := range li.names {
		if mask&(1<<uint(i)) != 0 {
			out = append(out, n)
		}
	}
	sort.Strings(out)
	return "{" + strings.Join(out, ",") + "}"
}

type lockState struct {
	must, may uint64
	// deferred unlocks registered so far (must / may)
	dmust, dmay uint64
}

func (a lockState) join(b lockState) lockState {
	return lockState{a.must & b.must, a.may | b.may, a.dmust & b.dmust, a.dmay | b.dmay}
}

type lockOp struct {
	lock    int
	acquire bool
}

type lockEdge struct {
	from, to int
	fn       *ssa.Function
	pos      string
}

type Locksets struct {
	c     *Ctx
	info  *lockInfo
	at    map[ssa.Instruction]lockState // state BEFORE the instruction
	entry map[*ssa.Function]lockState
	exits map[*ssa.Function][]exitState
	edges []lockEdge
	// acquisition sites
	acquires map[int][]string
}

type exitState struct {
	ret *ssa.Return
	st  lockState
}

// lockOpOf recognises sync.(RW)Mutex Lock/Unlock/RLock/RUnlock calls on repo locks.
func (ls *Locksets) lockOpOf(cc *ssa.CallCommon) (lockOp, bool) {
	f := calleeObj(cc)
	if f == nil || f.Pkg() == nil || f.Pkg().Path() != "sync" {
		return lockOp{}, false
	}
	sig := f.Type().(*types.Signature)
	if sig.Recv() == nil {
		return lockOp{}, false
	}
	rn := derefNamed(sig.Recv().Type())
	if rn == nil || (rn.Obj().Name() != "Mutex" && rn.Obj().Name() != "RWMutex") {
		return lockOp{}, false
	}
	var acquire, read bool
	switch f.Name() {
	case "Lock":
		acquire = true
	case "Unlock":
	case "RLock":
		acquire, read = true, true
	case "RUnlock":
		read = true
	default:
		return lockOp{}, false
	}
	if len(cc.Args) == 0 {
		return lockOp{}, false
	}
	name := lockName(cc.Args[0])
	if name == "" {
		return lockOp{}, false
	}
	if read {
		name += "(R)"
	}
	return lockOp{ls.info.id(name), acquire}, true
}

// lockName names the lock a receiver expression denotes ("lungo.Engine.mutex", "bsonkit.tsMutex").
func lockName(recv ssa.Value) string {
	switch v := recv.(type) {
	case *ssa.FieldAddr:
		p, ok := v.X.Type().Underlying().(*types.Pointer)
		if !ok {
			return ""
		}
		n := derefNamed(p.Elem())
		st, ok2 := p.Elem().Underlying().(*types.Struct)
		if n == nil || !ok2 || n.Obj().Pkg() == nil {
			return ""
		}
		if !strings.HasPrefix(n.Obj().Pkg().Path(), pkgLungo) {
			return ""
		}
		return n.Obj().Pkg().Name() + "." + n.Obj().Name() + "." + st.Field(v.Field).Name()
	case *ssa.Global:
		if v.Pkg == nil || !strings.HasPrefix(v.Pkg.Pkg.Path(), pkgLungo) {
			return ""
		}
		return v.Pkg.Pkg.Name() + "." + v.Name()
	}
	return ""
}

func computeLocksets(c *Ctx) *Locksets {
	ls := &Locksets{
		c:        c,
		info:     &lockInfo{index: map[string]int{}},
		at:       map[ssa.Instruction]lockState{},
		entry:    map[*ssa.Function]lockState{},
		exits:    map[*ssa.Function][]exitState{},
		acquires: map[int][]string{},
	}
	g := c.Graph()

	// pre-register all locks so that the "top" element is well defined
	for _, fn := range c.repoFuncs() {
		allInstrs(fn, func(in ssa.Instruction) {
			if ci, ok := in.(ssa.CallInstruction); ok {
				ls.lockOpOf(ci.Common())
			}
		})
	}
	top := uint64(1)<<uint(len(ls.info.names)) - 1

	// roots: functions that can be entered without any repo lock: exported functions and
	// methods, init, functions started with `go`, and functions without any caller in the graph.
	isRoot := func(fn *ssa.Function) bool {
		if fn.Parent() != nil || fn.Pkg == nil {
			return false
		}
		if obj := fn.Object(); obj != nil && obj.Exported() {
			return true
		}
		return fn.Name() == "init" || fn.Name() == "main"
	}

	// start targets of go statements run without the spawner's locks
	goTargets := map[*ssa.Function]bool{}
	for _, node := range g.Nodes {
		for _, e := range node.Out {
			if _, ok := e.Site.(*ssa.Go); ok && e.Callee.Func != nil {
				goTargets[e.Callee.Func] = true
			}
		}
	}

	// initial entry states
	funcs := []*ssa.Function{}
	for fn, node := range g.Nodes {
		if fn == nil {
			continue
		}
		funcs = append(funcs, fn)
		if isRoot(fn) || goTargets[fn] || len(node.In) == 0 {
			ls.entry[fn] = lockState{}
		} else {
			ls.entry[fn] = lockState{must: top, may: 0, dmust: 0, dmay: 0}
		}
	}
	sort.Slice(funcs, func(i, j int) bool { return funcs[i].String() < funcs[j].String() })

	// worklist fixpoint
	inWork := map[*ssa.Function]bool{}
	work := []*ssa.Function{}
	push := func(fn *ssa.Function) {
		if !inWork[fn] {
			inWork[fn] = true
			work = append(work, fn)
		}
	}
	for _, fn := range funcs {
		push(fn)
	}
	for len(work) > 0 {
		fn := work[0]
		work = work[1:]
		inWork[fn] = false
		node := g.Nodes[fn]
		if node == nil {
			continue
		}
		// state at each call site
		siteState := ls.analyseFunc(fn)
		for _, e := range node.Out {
			callee := e.Callee.Func
			if callee == nil {
				continue
			}
			if _, ok := e.Site.(*ssa.Go); ok {
				continue
			}
			// Library code calls back into the repo only through function values it was handed
			// (sort.Slice less functions, btree iterators, tomb.Go). VTA also resolves interface
			// calls inside library code (io.Reader.Read, fmt.Stringer, ...) to repo methods; those
			// receivers are never supplied by repo code under a lock, so following them would only
			// smear every lock over every method.
			if !ls.c.isRepoPkg(fnPkgPath(fn)) && ls.c.isRepoPkg(fnPkgPath(callee)) && callee.Signature.Recv() != nil && callee.Parent() == nil {
				continue
			}
			var st lockState
			if e.Site == nil {
				st = ls.entry[fn]
			} else if s, ok := siteState[e.Site]; ok {
				st = s
			} else {
				st = ls.entry[fn]
			}
			// the callee starts with the caller's held locks; deferred info does not transfer
			in := lockState{must: st.must, may: st.may}
			old := ls.entry[callee]
			var nw lockState
			if isRoot(callee) || goTargets[callee] {
				// may-set still accumulates (needed for lock order), must-set is empty
				nw = lockState{must: 0, may: old.may | in.may}
			} else {
				nw = lockState{must: old.must & in.must, may: old.may | in.may}
			}
			if nw != old {
				ls.entry[callee] = nw
				push(callee)
			}
		}
	}
	// final pass to record per-instruction states, edges and exits for repo functions
	for _, fn := range c.repoFuncs() {
		ls.recordFunc(fn)
	}
	return ls
}

// analyseFunc runs the intra-procedural dataflow and returns the state before each call site.
// Non-repo functions are treated as lock-neutral: every site sees the entry state.
func (ls *Locksets) analyseFunc(fn *ssa.Function) map[ssa.CallInstruction]lockState {
	if fn.Blocks == nil || !ls.c.isRepoPkg(fnPkgPath(fn)) {
		return nil
	}
	res := map[ssa.CallInstruction]lockState{}
	var atExit lockState
	hasExit := false
	var defers []*ssa.Defer
	ls.flow(fn, func(in ssa.Instruction, st lockState) {
		if ci, ok := in.(ssa.CallInstruction); ok {
			res[ci] = st
		}
		if d, ok := in.(*ssa.Defer); ok {
			defers = append(defers, d)
		}
		if _, ok := in.(*ssa.RunDefers); ok {
			// deferred calls run in LIFO order somewhere between "all deferred unlocks still
			// pending" (may) and "all of them done" (must)
			x := lockState{must: st.must &^ st.dmay, may: st.may}
			if !hasExit {
				atExit, hasExit = x, true
			} else {
				atExit = atExit.join(x)
			}
		}
	})
	if hasExit {
		for _, d := range defers {
			res[d] = atExit
		}
	}
	return res
}

func (ls *Locksets) recordFunc(fn *ssa.Function) {
	ls.exits[fn] = nil
	ls.flow(fn, func(in ssa.Instruction, st lockState) {
		ls.at[in] = st
		if ci, ok := in.(ssa.CallInstruction); ok {
			if _, isDefer := in.(*ssa.Defer); !isDefer {
				if op, ok := ls.lockOpOf(ci.Common()); ok && op.acquire {
					ls.acquires[op.lock] = append(ls.acquires[op.lock], ls.c.pos(in.Pos()))
					for i := range ls.info.names {
						if st.may&(1<<uint(i)) != 0 {
							ls.edges = append(ls.edges, lockEdge{i, op.lock, fn, ls.c.pos(in.Pos())})
						}
					}
				}
			}
		}
		if r, ok := in.(*ssa.Return); ok {
			ls.exits[fn] = append(ls.exits[fn], exitState{r, st})
		}
	})
}

// flow: forward dataflow over fn; visit is called with the state before each instruction once the fixpoint is reached.
func (ls *Locksets) flow(fn *ssa.Function, visit func(ssa.Instruction, lockState)) {
	if len(fn.Blocks) == 0 {
		return
	}
	n := len(fn.Blocks)
	in := make([]lockState, n)
	has := make([]bool, n)
	in[0] = ls.entry[fn]
	has[0] = true
	transfer := func(b *ssa.BasicBlock, st lockState, v func(ssa.Instruction, lockState)) lockState {
		for _, instr := range b.Instrs {
			if v != nil {
				v(instr, st)
			}
			switch x := instr.(type) {
			case *ssa.Call:
				if op, ok := ls.lockOpOf(&x.Call); ok {
					bit := uint64(1) << uint(op.lock)
					if op.acquire {
						st.must |= bit
						st.may |= bit
					} else {
						st.must &^= bit
						st.may &^= bit
					}
				}
			case *ssa.Defer:
				if op, ok := ls.lockOpOf(&x.Call); ok && !op.acquire {
					bit := uint64(1) << uint(op.lock)
					st.dmust |= bit
					st.dmay |= bit
				}
			case *ssa.RunDefers:
				// deferred unlocks run now
				st.must &^= st.dmay
				st.may &^= st.dmust
				st.dmust, st.dmay = 0, 0
			}
		}
		return st
	}
	changed := true
	for iter := 0; changed && iter < 100; iter++ {
		changed = false
		for _, b := range fn.Blocks {
			if !has[b.Index] {
				continue
			}
			out := transfer(b, in[b.Index], nil)
			for _, s := range b.Succs {
				if !has[s.Index] {
					in[s.Index] = out
					has[s.Index] = true
					changed = true
				} else {
					j := in[s.Index].join(out)
					if j != in[s.Index] {
						in[s.Index] = j
						changed = true
					}
				}
			}
		}
	}
	for _, b := range fn.Blocks {
		if has[b.Index] {
			transfer(b, in[b.Index], visit)
		}
	}
}

// held reports whether lock name is in the must-set before the instruction.
func (ls *Locksets) mustHold(in ssa.Instruction, name string) bool {
	i, ok := ls.info.index[name]
	if !ok {
		return false
	}
	return ls.at[in].must&(1<<uint(i)) != 0
}

func (ls *Locksets) mayHold(in ssa.Instruction, name string) bool {
	i, ok := ls.info.index[name]
	if !ok {
		return false
	}
	return ls.at[in].may&(1<<uint(i)) != 0
}

func (ls *Locksets) describe(in ssa.Instruction) string {
	st := ls.at[in]
	return fmt.Sprintf("must=%s may=%s", ls.info.render(st.must), ls.info.render(st.may))
}

var _ = callgraph.CalleesOf
