package main

import (
	"fmt"
	"go/token"
	"go/types"
	"strings"
	"unicode"

	"golang.org/x/tools/go/ssa"
)

// Rules added after the fourth round of independently seeded changes (DESIGN 11.5).

func init() {
	register(&Rule{ID: "ATOM-5", Doc: "the dirty flag only ever rises: every store to Transaction.dirty stores the constant true (a later operation that changes nothing must not clear what an earlier operation of the same transaction set, or the commit would skip persisting and publishing)", Run: ruleAtom5})
	register(&Rule{ID: "ACC-1", Doc: "publish decisions count everything: in every Transaction method where the store of t.catalog is guarded by a counter carried through a loop (Bulk's changes, Expire's deletions), every update of that counter inside the loop is counter + n - an overwrite would let the last item decide for the whole batch", Run: ruleAcc1})
	register(&Rule{ID: "LOCK-13", Doc: "read-modify-write of the transaction's catalog is one critical section: in every Transaction method that stores t.catalog, each read of t.catalog (the field or t.Catalog()) is made after t.mutex.Lock() of that same method, so two goroutines sharing a session transaction cannot both start from the same base and overwrite each other", Run: ruleLock13})
	register(&Rule{ID: "OWN-10", Doc: "working copies are taken from the working catalog: in every Transaction method each Collection.Clone() is applied to an entry of the Namespaces map of the catalog returned by Catalog.Clone() in that method (not of t.catalog), so consecutive steps of one call build on each other instead of each restarting from the committed state", Run: ruleOwn10})
	register(&Rule{ID: "RET-2", Doc: "retention limits reach Clean in the right slots: at the txn.Clean call in Engine.Commit every argument is read from the option whose name contains the words of the parameter it is passed for (minSize <- MinOplogSize, maxAge <- MaxOplogAge, ...)", Run: ruleRet2})
	register(&Rule{ID: "PROJ-5", Doc: "mixing inclusion and exclusion is rejected whatever produced them: mongokit.Project tests len(include) > 0 && len(exclude) > 0 after the projection document has been processed completely (after the Process call), since operators such as $elemMatch add inclusions too", Run: ruleProj5})
	register(&Rule{ID: "PROJ-6", Doc: "$elemMatch projects the first match: in the function registered as the $elemMatch projection operator the store into state.merge inside the element loop cannot be followed by another iteration of that loop", Run: ruleProj6})
	register(&Rule{ID: "NUM-6", Doc: "bit patterns are sign-extended: in mongokit and bsonkit no signed integer narrower than 64 bits is converted to an unsigned type before being widened (int32 -> uint32 -> uint64 zero-extends and loses the upper bits of a negative number)", Run: ruleNum6})
	register(&Rule{ID: "ERR-2", Doc: "nothing is cached before it is known to be good: a value obtained together with an error is stored into a map or field reachable from the receiver only on the success edge of that error's test (a nil compiled regexp cached for an invalid pattern makes the next evaluation panic)", Run: ruleErr2})
	register(&Rule{ID: "LOCK-12", Doc: "callbacks run under a deferred abort: in every function of package lungo that calls a function-typed parameter while a write transaction begun in that function is open, a defer that reaches Engine.Abort / Session.AbortTransaction is registered before the call, so a panicking callback cannot keep the writer slot", Run: ruleLock12})
	register(&Rule{ID: "SEM-10", Doc: "$exists sees an empty fan-out as absent: in the function registered as $exists the fan-out flag returned by bsonkit.All is consulted, and on the paths where it is set and the collected value is an array the outcome is len(array) > 0 (not `value != Missing`: All returns an empty array, not Missing, when no element along the path carries the field)", Run: ruleSem10})
	register(&Rule{ID: "PANIC-7", Doc: "computed indexes are guarded: in the bit accessors of mongokit every element access data[i] with a computed index is dominated by the failing edge of i >= len(data) (or the succeeding edge of i < len(data)) on the very slice that is indexed", Run: rulePanic7})
}

func ruleAtom5(c *Ctx, r *Reporter) {
	dirtyF := c.field(pkgLungo, "Transaction", "dirty")
	if dirtyF == nil {
		r.bad("anchor:Transaction.dirty", "-", "not found")
		return
	}
	n := 0
	for _, fn := range c.repoFuncs() {
		if fnPkgPath(fn) != pkgLungo {
			continue
		}
		allInstrs(fn, func(in ssa.Instruction) {
			st, ok := in.(*ssa.Store)
			if !ok {
				return
			}
			fa, ok := st.Addr.(*ssa.FieldAddr)
			if !ok || structFieldOf(fa) != dirtyF {
				return
			}
			n++
			v, isConst := constBool(st.Val)
			if !isConst {
				// a variable that is known to be true here: the store sits behind the true edge of a test of that variable
				for _, b := range fn.Blocks {
					if iff, ok := b.Instrs[len(b.Instrs)-1].(*ssa.If); ok && iff.Cond == st.Val {
						t := b.Succs[0]
						if len(t.Preds) == 1 && (t == st.Block() || t.Dominates(st.Block())) {
							v, isConst = true, true
						}
					}
				}
			}
			r.check(isConst && v, funcName(fn)+":store t.dirty", c.pos(st.Pos()), "set to true", "t.dirty is assigned something other than the constant true: an operation that changes nothing can clear the flag an earlier operation of the transaction set, and the commit then publishes nothing while reporting success")
		})
	}
	r.guard(n, 10, "stores to Transaction.dirty")
}

// counterGuard finds, for a store of t.catalog, the guarding test on a loop-carried integer phi (nil if none).
func counterGuard(pub *ssa.Store) (*ssa.If, *ssa.Phi) {
	for b := pub.Block(); b != nil; b = b.Idom() {
		if len(b.Preds) != 1 {
			continue
		}
		p := b.Preds[0]
		iff, ok := p.Instrs[len(p.Instrs)-1].(*ssa.If)
		if !ok || p.Succs[0] != b {
			continue
		}
		bo, ok := iff.Cond.(*ssa.BinOp)
		if !ok {
			continue
		}
		if ph, ok := bo.X.(*ssa.Phi); ok && isIntType(ph.Type()) {
			return iff, ph
		}
	}
	return nil, nil
}

func accumulates(c *Ctx, ph *ssa.Phi) (adds int, bad string) {
	seen := map[ssa.Value]bool{}
	var visit func(v ssa.Value)
	visit = func(v ssa.Value) {
		if seen[v] {
			return
		}
		seen[v] = true
		switch x := v.(type) {
		case *ssa.Phi:
			for _, e := range x.Edges {
				visit(e)
			}
		case *ssa.Const:
			if k, ok := constInt(x); !ok || k != 0 {
				bad = "the counter is set to a non-zero constant"
			}
		case *ssa.BinOp:
			// the new value must contain a previous value of the counter (one of the phis seen so far) exactly once
			form := gfsLin(x)
			okAcc := false
			for y := range seen {
				if ph, isPhi := y.(*ssa.Phi); isPhi && form.coef[atomOf(ph)] == 1 {
					okAcc = true
				}
			}
			if okAcc {
				adds++
				return
			}
			bad = fmt.Sprintf("the counter is assigned %s at %s, which does not include its previous value", form, c.pos(x.Pos()))
		default:
			bad = fmt.Sprintf("the counter is overwritten at %s with a value that does not include its previous value", c.pos(v.Pos()))
		}
	}
	visit(ph)
	if adds == 0 && bad == "" {
		bad = "the counter is never increased"
	}
	return
}

func ruleAcc1(c *Ctx, r *Reporter) {
	txnT := c.lookupType(pkgLungo, "Transaction")
	catF := c.field(pkgLungo, "Transaction", "catalog")
	if txnT == nil || catF == nil {
		r.bad("anchor:Transaction", "-", "not found")
		return
	}
	n := 0
	for i := 0; i < txnT.NumMethods(); i++ {
		fn := c.ssaFunc(txnT.Method(i))
		if fn == nil {
			continue
		}
		allInstrs(fn, func(in ssa.Instruction) {
			st, ok := in.(*ssa.Store)
			if !ok {
				return
			}
			fa, ok := st.Addr.(*ssa.FieldAddr)
			if !ok || structFieldOf(fa) != catF {
				return
			}
			guard, ph := counterGuard(st)
			if guard == nil {
				return
			}
			n++
			adds, bad := accumulates(c, ph)
			pos := guard.Cond.Pos()
			r.check(bad == "", funcName(fn)+":publish counter accumulates", c.pos(pos), fmt.Sprintf("%d update(s), each counter + n", adds), bad+": the decision to install the cloned catalog then depends on the last item only, and the effects of earlier items are dropped although they were reported")
		})
	}
	r.guard(n, 2, "counter-guarded publish stores (Bulk, Expire)")
}

func ruleLock13(c *Ctx, r *Reporter) {
	txnT := c.lookupType(pkgLungo, "Transaction")
	catF := c.field(pkgLungo, "Transaction", "catalog")
	mutexF := c.field(pkgLungo, "Transaction", "mutex")
	catM := c.lookupFunc(pkgLungo, "Transaction.Catalog")
	if txnT == nil || catF == nil || mutexF == nil || catM == nil {
		r.bad("anchor:Transaction", "-", "not found")
		return
	}
	n := 0
	for i := 0; i < txnT.NumMethods(); i++ {
		fn := c.ssaFunc(txnT.Method(i))
		if fn == nil {
			continue
		}
		storesCat := func(g *ssa.Function) bool {
			found := false
			allInstrs(g, func(in ssa.Instruction) {
				if st, ok := in.(*ssa.Store); ok {
					if fa, ok := st.Addr.(*ssa.FieldAddr); ok && structFieldOf(fa) == catF {
						found = true
					}
				}
			})
			return found
		}
		stores := storesCat(fn)
		if !stores && len(fn.Params) > 0 {
			// or hands its receiver to an unexported method that does
			allInstrs(fn, func(in ssa.Instruction) {
				if call, ok := in.(*ssa.Call); ok && len(call.Call.Args) > 0 && call.Call.Args[0] == ssa.Value(fn.Params[0]) {
					if h := staticFn(&call.Call); h != nil && h != fn && h.Blocks != nil && h.Object() != nil && !h.Object().Exported() && storesCat(h) {
						stores = true
					}
				}
			})
		}
		if !stores {
			continue
		}
		// the write lock of this method
		var lock *ssa.Call
		allInstrs(fn, func(in ssa.Instruction) {
			if call, ok := in.(*ssa.Call); ok && lock == nil {
				if f := calleeObj(&call.Call); f != nil && f.Name() == "Lock" && len(call.Call.Args) > 0 {
					if fa, ok := call.Call.Args[0].(*ssa.FieldAddr); ok && structFieldOf(fa) == mutexF {
						lock = call
					}
				}
			}
		})
		n++
		key := funcName(fn) + ":base read under the write lock"
		if lock == nil {
			// an unexported method that every caller invokes with t.mutex held (the tail of a write method moved out):
			// its reads happen inside the callers' critical sections
			callers, complete := allCallers(fn)
			held := complete && len(callers) > 0
			ls := locksets(c)
			for _, ci := range callers {
				if !ls.mustHold(ci, "lungo.Transaction.mutex") || len(ci.Common().Args) == 0 || len(ci.Parent().Params) == 0 || ci.Common().Args[0] != ssa.Value(ci.Parent().Params[0]) {
					held = false
				}
			}
			if held {
				r.ok(key, c.pos(fn.Pos()), fmt.Sprintf("unexported: all %d call sites hold the receiver's t.mutex", len(callers)))
				continue
			}
			r.bad(key, c.pos(fn.Pos()), "the method stores t.catalog without taking t.mutex.Lock()")
			continue
		}
		bad := ""
		recv := fn.Params[0]
		allInstrs(fn, func(in ssa.Instruction) {
			if bad != "" {
				return
			}
			switch x := in.(type) {
			case *ssa.UnOp:
				if fa, ok := x.X.(*ssa.FieldAddr); ok && x.Op == token.MUL && structFieldOf(fa) == catF && fa.X == ssa.Value(recv) && !instrDominates(lock, in) {
					bad = fmt.Sprintf("t.catalog is read at %s before t.mutex.Lock()", c.pos(x.Pos()))
				}
			case *ssa.Call:
				if calleeObj(&x.Call) == catM && len(x.Call.Args) > 0 && x.Call.Args[0] == ssa.Value(recv) && !instrDominates(lock, in) {
					bad = fmt.Sprintf("t.Catalog() is called at %s before t.mutex.Lock()", c.pos(x.Pos()))
				}
			}
		})
		r.check(bad == "", key, c.pos(lock.Pos()), "every read of the base catalog follows t.mutex.Lock()", bad+": the base is read in one critical section and the result stored in another, so two concurrent calls on the same transaction clone the same base and the later store discards the earlier call's acknowledged write")
	}
	r.guard(n, 10, "Transaction methods that store t.catalog")
}

func ruleOwn10(c *Ctx, r *Reporter) {
	txnT := c.lookupType(pkgLungo, "Transaction")
	cloneColl := c.lookupFunc(pkgMongokit, "Collection.Clone")
	cloneCat := c.lookupFunc(pkgLungo, "Catalog.Clone")
	nsF := c.field(pkgLungo, "Catalog", "Namespaces")
	if txnT == nil || cloneColl == nil || cloneCat == nil || nsF == nil {
		r.bad("anchor:Transaction/Catalog.Clone/Collection.Clone", "-", "not found")
		return
	}
	n := 0
	for i := 0; i < txnT.NumMethods(); i++ {
		fn := c.ssaFunc(txnT.Method(i))
		if fn == nil {
			continue
		}
		seen := map[string]int{}
		allInstrs(fn, func(in ssa.Instruction) {
			call, ok := in.(*ssa.Call)
			if !ok || calleeObj(&call.Call) != cloneColl || len(call.Call.Args) == 0 {
				return
			}
			n++
			key := funcName(fn) + ":Collection.Clone source"
			seen[key]++
			if seen[key] > 1 {
				key = fmt.Sprintf("%s #%d", key, seen[key])
			}
			// receiver: (possibly via a local / phi) a lookup in <catalog clone>.Namespaces
			okSrc := false
			var walk func(v ssa.Value, d int)
			walk = func(v ssa.Value, d int) {
				if d > 4 || okSrc {
					return
				}
				switch x := stripValue(v).(type) {
				case *ssa.Lookup:
					if u, ok := x.X.(*ssa.UnOp); ok && u.Op == token.MUL {
						if fa, ok := u.X.(*ssa.FieldAddr); ok && structFieldOf(fa) == nsF {
							if src, ok := fa.X.(*ssa.Call); ok && calleeObj(&src.Call) == cloneCat {
								okSrc = true
							}
							// the clone handed to an unexported method of the transaction: a Catalog.Clone() at every call site
							if p, ok := fa.X.(*ssa.Parameter); ok {
								if callers, complete := allCallers(p.Parent()); complete && len(callers) > 0 {
									idx := -1
									for i, q := range p.Parent().Params {
										if q == p {
											idx = i
										}
									}
									all := idx >= 0
									for _, ci := range callers {
										if !all || idx >= len(ci.Common().Args) {
											all = false
											break
										}
										src, ok := stripValue(ci.Common().Args[idx]).(*ssa.Call)
										if !ok || calleeObj(&src.Call) != cloneCat {
											all = false
										}
									}
									if all {
										okSrc = true
									}
								}
							}
						}
					}
				case *ssa.Extract:
					walk(x.Tuple, d+1)
				case *ssa.Phi:
					all := len(x.Edges) > 0
					for _, e := range x.Edges {
						sub := false
						okSrc = false
						walk(e, d+1)
						sub = okSrc
						if !sub {
							all = false
						}
					}
					okSrc = all
				}
			}
			walk(call.Call.Args[0], 0)
			r.check(okSrc, key, c.pos(call.Pos()), "the collection is taken from the Namespaces of this call's Catalog.Clone()", "the collection that is cloned is not an entry of this call's cloned catalog (e.g. it is read from t.catalog): what earlier steps of the same call installed in the clone is not part of it, so their effects (e.g. the delete events of other namespaces in one expiry pass) are overwritten")
		})
	}
	r.guard(n, 10, "Collection.Clone calls in Transaction methods")
}

func camelWords(s string) []string {
	var out []string
	cur := ""
	for _, ch := range s {
		if unicode.IsUpper(ch) && cur != "" {
			out = append(out, strings.ToLower(cur))
			cur = ""
		}
		cur += string(ch)
	}
	if cur != "" {
		out = append(out, strings.ToLower(cur))
	}
	return out
}

func ruleRet2(c *Ctx, r *Reporter) {
	commit := c.lookupSSA(pkgLungo, "Engine.Commit")
	cleanF := c.lookupFunc(pkgLungo, "Transaction.Clean")
	if commit == nil || cleanF == nil {
		r.bad("anchor:Engine.Commit/Transaction.Clean", "-", "not found")
		return
	}
	n := 0
	allInstrs(commit, func(in ssa.Instruction) {
		call, ok := in.(*ssa.Call)
		if !ok || calleeObj(&call.Call) != cleanF {
			return
		}
		sig := cleanF.Type().(*types.Signature)
		for i := 0; i < sig.Params().Len(); i++ {
			pname := sig.Params().At(i).Name()
			arg := call.Call.Args[i+1]
			n++
			key := "Engine.Commit:Clean argument " + pname
			p, ok := fieldPath(stripValue(arg))
			if !ok {
				r.unk(key, c.pos(call.Pos()), "the argument is not read from an option field")
				continue
			}
			fname := p[strings.LastIndex(p, ".")+1:]
			words := map[string]bool{}
			for _, w := range camelWords(fname) {
				words[w] = true
			}
			okAll := true
			for _, w := range camelWords(pname) {
				if !words[w] {
					okAll = false
				}
			}
			r.check(okAll, key, c.pos(call.Pos()), "read from "+fname, fmt.Sprintf("parameter %s receives option %s: the retention limits are swapped, so events are kept or dropped by the wrong bound", pname, fname))
		}
	})
	r.guard(n, 4, "arguments of txn.Clean in Engine.Commit")
}

func ruleProj5(c *Ctx, r *Reporter) {
	fn := c.lookupSSA(pkgMongokit, "Project")
	procF := c.lookupFunc(pkgMongokit, "Process")
	stT := c.lookupType(pkgMongokit, "projectState")
	if fn == nil || procF == nil || stT == nil {
		r.bad("anchor:mongokit.Project", "-", "not found")
		return
	}
	var proc *ssa.Call
	allInstrs(fn, func(in ssa.Instruction) {
		if call, ok := in.(*ssa.Call); ok && calleeObj(&call.Call) == procF {
			proc = call
		}
	})
	if proc == nil {
		r.bad("Project:process", c.pos(fn.Pos()), "Project does not call Process")
		return
	}
	// tests len(state.include) > 0 and len(state.exclude) > 0 after Process, leading to an error return
	lenTest := func(field string) *ssa.If {
		var out *ssa.If
		allInstrs(fn, func(in ssa.Instruction) {
			iff, ok := in.(*ssa.If)
			if !ok || !instrDominates(proc, in) {
				return
			}
			bo, ok := iff.Cond.(*ssa.BinOp)
			if !ok {
				return
			}
			lc, ok := bo.X.(*ssa.Call)
			if !ok {
				return
			}
			b, ok := lc.Call.Value.(*ssa.Builtin)
			if !ok || b.Name() != "len" {
				return
			}
			u, ok := lc.Call.Args[0].(*ssa.UnOp)
			if !ok {
				return
			}
			fa, ok := u.X.(*ssa.FieldAddr)
			if !ok || derefNamed(fa.X.Type()) != stT || structFieldOf(fa).Name() != field {
				return
			}
			if k, ok := constInt(bo.Y); ok && k == 0 && (bo.Op == token.GTR || bo.Op == token.NEQ) && out == nil {
				out = iff
			}
		})
		return out
	}
	inc, exc := lenTest("include"), lenTest("exclude")
	okMix := false
	if inc != nil && exc != nil {
		// one test nested in the true branch of the other, and the inner true branch returns an error
		inner, outer := exc, inc
		if !(outer.Block().Succs[0] == inner.Block() || outer.Block().Succs[0].Dominates(inner.Block())) {
			inner, outer = inc, exc
		}
		if outer.Block().Succs[0] == inner.Block() || outer.Block().Succs[0].Dominates(inner.Block()) {
			tb := inner.Block().Succs[0]
			if ret, ok := tb.Instrs[len(tb.Instrs)-1].(*ssa.Return); ok && len(ret.Results) == 2 && !isNilConst(ret.Results[1]) {
				okMix = true
			}
		}
	}
	if !okMix {
		// the same test written as a boolean: mixed := len(include) > 0 && len(exclude) > 0; if mixed { return error }
		isLenGT := func(v ssa.Value, field string) bool {
			bo, ok := v.(*ssa.BinOp)
			if !ok {
				return false
			}
			lc, ok := bo.X.(*ssa.Call)
			if !ok {
				return false
			}
			b, ok := lc.Call.Value.(*ssa.Builtin)
			if !ok || b.Name() != "len" {
				return false
			}
			u, ok := lc.Call.Args[0].(*ssa.UnOp)
			if !ok {
				return false
			}
			fa, ok := u.X.(*ssa.FieldAddr)
			if !ok || derefNamed(fa.X.Type()) != stT || structFieldOf(fa).Name() != field {
				return false
			}
			k, okK := constInt(bo.Y)
			return okK && k == 0 && (bo.Op == token.GTR || bo.Op == token.NEQ)
		}
		allInstrs(fn, func(in ssa.Instruction) {
			iff, ok := in.(*ssa.If)
			if !ok || !instrDominates(proc, in) {
				return
			}
			ph, ok := iff.Cond.(*ssa.Phi)
			if !ok || len(ph.Edges) != 2 {
				return
			}
			for k, e := range ph.Edges {
				other := ph.Edges[1-k]
				if b, isConst := constBool(other); !isConst || b {
					continue
				}
				for _, pair := range [][2]string{{"include", "exclude"}, {"exclude", "include"}} {
					if !isLenGT(e, pair[1]) {
						continue
					}
					// the block computing e is entered from the true edge of the other length test
					eb := e.(*ssa.BinOp).Block()
					for _, pp := range eb.Preds {
						if i2, ok := pp.Instrs[len(pp.Instrs)-1].(*ssa.If); ok && pp.Succs[0] == eb && isLenGT(i2.Cond, pair[0]) {
							tb := iff.Block().Succs[0]
							if ret, ok := tb.Instrs[len(tb.Instrs)-1].(*ssa.Return); ok && len(ret.Results) == 2 && !isNilConst(ret.Results[1]) {
								okMix = true
							}
						}
					}
				}
			}
		})
	}
	r.check(okMix, "Project:mix of inclusion and exclusion", c.pos(proc.Pos()), "after Process, len(include) > 0 && len(exclude) > 0 returns an error", "Project does not reject len(include) > 0 && len(exclude) > 0 after the whole projection was processed: an exclusion followed by an operator that includes ($elemMatch) is accepted and silently drops every other field")
}

func ruleProj6(c *Ctx, r *Reporter) {
	regs := readRegistries(c)
	var fn *ssa.Function
	for name, reg := range regs {
		if strings.Contains(name, "Projection") {
			if f := reg["$elemMatch"]; f != nil {
				fn = f
			}
		}
	}
	stT := c.lookupType(pkgMongokit, "projectState")
	if fn == nil || stT == nil {
		r.bad("anchor:$elemMatch projection", "-", "operator not registered")
		return
	}
	n := 0
	allInstrs(fn, func(in ssa.Instruction) {
		mu, ok := in.(*ssa.MapUpdate)
		if !ok {
			return
		}
		u, ok := mu.Map.(*ssa.UnOp)
		if !ok {
			return
		}
		fa, ok := u.X.(*ssa.FieldAddr)
		if !ok || derefNamed(fa.X.Type()) != stT || structFieldOf(fa).Name() != "merge" {
			return
		}
		hdr := lexicalLoopHeader(mu.Block())
		if hdr == nil {
			// no loop: the element may be picked by the library's first-index search
			var idx *ssa.Call
			allInstrs(fn, func(x ssa.Instruction) {
				if call, ok := x.(*ssa.Call); ok {
					if f := calleeObj(&call.Call); f != nil && f.Pkg() != nil && f.Pkg().Path() == "slices" && f.Name() == "IndexFunc" {
						idx = call
					}
				}
			})
			if idx != nil && dependsOn(mu.Value, idx, map[ssa.Value]bool{}) {
				n++
				r.ok("$elemMatch projection:first match wins", c.pos(mu.Pos()), "the stored element is the one at slices.IndexFunc's result, the first index the predicate holds for")
			}
			return
		}
		n++
		again := false
		for _, s2 := range mu.Block().Succs {
			if s2 == hdr || blockReach([]*ssa.BasicBlock{s2}, nil)[hdr] {
				again = true
			}
		}
		r.check(!again, "$elemMatch projection:first match wins", c.pos(mu.Pos()), "the loop is left after the first matching element was stored", "after storing a matching element the loop goes on: a later match overwrites it and the projection returns the last matching element instead of the first")
	})
	r.guard(n, 1, "merge store inside the element loop of the $elemMatch projection")
}

func ruleNum6(c *Ctx, r *Reporter) {
	n, bad := 0, 0
	for _, fn := range c.repoFuncs() {
		p := fnPkgPath(fn)
		if p != pkgMongokit && p != pkgBsonkit {
			continue
		}
		allInstrs(fn, func(in ssa.Instruction) {
			cv, ok := in.(*ssa.Convert)
			if !ok {
				return
			}
			fb, ok1 := cv.X.Type().Underlying().(*types.Basic)
			tb, ok2 := cv.Type().Underlying().(*types.Basic)
			if !ok1 || !ok2 || fb.Info()&types.IsInteger == 0 || tb.Info()&types.IsInteger == 0 {
				return
			}
			n++
			if _, isConst := cv.X.(*ssa.Const); isConst {
				return
			}
			fromSigned := fb.Info()&types.IsUnsigned == 0
			toUnsigned := tb.Info()&types.IsUnsigned != 0
			if fromSigned && toUnsigned && intWidth(fb.Kind()) < 64 && intWidth(tb.Kind()) <= intWidth(fb.Kind()) {
				// is the unsigned value widened afterwards?
				widened := false
				if refs := cv.Referrers(); refs != nil {
					for _, ref := range *refs {
						if c2, ok := ref.(*ssa.Convert); ok {
							if b2, ok := c2.Type().Underlying().(*types.Basic); ok && intWidth(b2.Kind()) > intWidth(tb.Kind()) {
								widened = true
							}
						}
					}
				}
				if widened {
					bad++
					r.bad(funcName(fn)+":sign lost before widening", c.pos(cv.Pos()), fmt.Sprintf("%s is converted to %s and then widened: a negative value is zero-extended, its upper bits read as clear", fb.Name(), tb.Name()))
				}
			}
		})
	}
	if bad == 0 {
		r.ok("mongokit+bsonkit:integer conversions", "-", fmt.Sprintf("%d integer conversions examined, none drops the sign before widening", n))
	}
	r.guard(n, 20, "integer conversions in mongokit and bsonkit")
}

func ruleErr2(c *Ctx, r *Reporter) {
	n := 0
	for _, fn := range c.repoFuncs() {
		if fn.Signature.Recv() == nil || len(fn.Params) == 0 {
			continue
		}
		recv := fn.Params[0]
		allInstrs(fn, func(in ssa.Instruction) {
			mu, ok := in.(*ssa.MapUpdate)
			if !ok {
				return
			}
			// the map hangs off the receiver
			p, ok := fieldPath(mu.Map)
			if !ok {
				return
			}
			_ = p
			if u, ok := mu.Map.(*ssa.UnOp); ok {
				if fa, ok := u.X.(*ssa.FieldAddr); !ok || fa.X != ssa.Value(recv) {
					return
				}
			}
			// the value comes out of a call together with an error
			ex, ok := stripValue(mu.Value).(*ssa.Extract)
			if !ok {
				return
			}
			call, ok := ex.Tuple.(*ssa.Call)
			if !ok {
				return
			}
			errV := errorResult(call)
			if errV == nil || errV == ssa.Value(ex) {
				return
			}
			n++
			okEdge := false
			for _, ec := range errChecksOf(errV) {
				if ec.OkSucc == mu.Block() || ec.OkSucc.Dominates(mu.Block()) {
					okEdge = true
				}
			}
			r.check(okEdge, funcName(fn)+":cached only when good", c.pos(mu.Pos()), "stored on the success edge of the error test", "a value returned together with an error is stored into the receiver's map before (or without) that error being tested: a failed computation leaves a bad entry behind that the next call trusts")
		})
	}
	r.guard(n, 1, "receiver map stores of values that come with an error")
}

func ruleLock12(c *Ctx, r *Reporter) {
	abortE := c.lookupFunc(pkgLungo, "Engine.Abort")
	abortS := c.lookupFunc(pkgLungo, "Session.AbortTransaction")
	begin := c.lookupFunc(pkgLungo, "Engine.Begin")
	startS := c.lookupFunc(pkgLungo, "Session.startTransaction")
	if abortE == nil || abortS == nil || begin == nil || startS == nil {
		r.bad("anchor:Engine.Abort/Session.AbortTransaction", "-", "not found")
		return
	}
	reachesAbort := func(d *ssa.Defer) bool {
		f := calleeObj(&d.Call)
		if f == abortE || f == abortS {
			return true
		}
		// a deferred helper of package lungo, or a deferred closure, that calls one of them
		var cf *ssa.Function
		if sf := d.Call.StaticCallee(); sf != nil && fnPkgPath(sf) == pkgLungo && sf.Blocks != nil {
			cf = sf
		}
		if mc, ok := d.Call.Value.(*ssa.MakeClosure); ok {
			cf, _ = mc.Fn.(*ssa.Function)
		}
		{
			if cf != nil {
				found := false
				allInstrs(cf, func(in ssa.Instruction) {
					if ci, ok := in.(ssa.CallInstruction); ok {
						if g := calleeObj(ci.Common()); g == abortE || g == abortS {
							found = true
						}
					}
				})
				return found
			}
		}
		return false
	}
	n := 0
	for _, fn := range c.repoFuncs() {
		if fnPkgPath(fn) != pkgLungo || fn.Parent() != nil {
			continue
		}
		// a write transaction is begun here: Begin(ctx, lock) with lock not constant false, or startTransaction
		var opened ssa.Instruction
		allInstrs(fn, func(in ssa.Instruction) {
			call, ok := in.(*ssa.Call)
			if !ok {
				return
			}
			switch calleeObj(&call.Call) {
			case begin:
				if v, isConst := constBool(call.Call.Args[len(call.Call.Args)-1]); !isConst || v {
					opened = in
				}
			case startS:
				opened = in
			}
		})
		if opened == nil {
			continue
		}
		// the instructions reachable from the point where the transaction is open (the success edge of the
		// begin call) without passing a call that finishes it
		commitE := c.lookupFunc(pkgLungo, "Engine.Commit")
		commitS := c.lookupFunc(pkgLungo, "Session.CommitTransaction")
		finishes := func(in ssa.Instruction) bool {
			call, ok := in.(*ssa.Call)
			if !ok {
				return false
			}
			f := calleeObj(&call.Call)
			if f == abortE || f == abortS || (f != nil && (f == commitE || f == commitS)) {
				return true
			}
			// a function that commits or aborts the transaction it is given on every path
			for i := range call.Call.Args {
				if derefNamed(call.Call.Args[i].Type()) != nil && derefNamed(call.Call.Args[i].Type()).Obj().Name() == "Transaction" && releasesTxnParam(staticFn(&call.Call), i, abortE, commitE, 0) {
					return true
				}
			}
			return false
		}
		openAt := map[ssa.Instruction]bool{}
		seenB := map[*ssa.BasicBlock]bool{}
		var walkOpen func(b *ssa.BasicBlock, idx int)
		walkOpen = func(b *ssa.BasicBlock, idx int) {
			for i := idx; i < len(b.Instrs); i++ {
				if finishes(b.Instrs[i]) {
					return
				}
				openAt[b.Instrs[i]] = true
			}
			for _, s2 := range b.Succs {
				if !seenB[s2] {
					seenB[s2] = true
					walkOpen(s2, 0)
				}
			}
		}
		started := false
		if oc, ok := opened.(*ssa.Call); ok {
			for _, ec := range errChecksOf(errorResult(oc)) {
				started = true
				if !seenB[ec.OkSucc] {
					seenB[ec.OkSucc] = true
					walkOpen(ec.OkSucc, 0)
				}
			}
		}
		if !started {
			walkOpen(opened.Block(), instrIndex(opened)+1)
		}
		// calls of function-typed parameters while the transaction is open
		allInstrs(fn, func(in ssa.Instruction) {
			call, ok := in.(*ssa.Call)
			if !ok || !isFuncParamCall(fn, &call.Call) || !openAt[in] {
				return
			}
			// only the calls on the locked path matter: skip a call that is dominated by the `!lock` branch
			n++
			deferred := false
			allInstrs(fn, func(x ssa.Instruction) {
				if d, ok := x.(*ssa.Defer); ok && reachesAbort(d) && instrDominates(d, in) {
					deferred = true
				}
			})
			if !deferred {
				// the unlocked fast path of useTransaction calls fn(txn) on a transaction that holds nothing
				if lockParamFalseDominates(fn, in) {
					r.ok(funcName(fn)+":callback without write transaction", c.pos(in.Pos()), "on the path where lock is false no writer slot is held")
					return
				}
			}
			r.check(deferred, funcName(fn)+":callback under deferred abort", c.pos(in.Pos()), "a deferred abort is registered before the callback runs", "the callback runs without a deferred abort: if it panics (and the caller recovers) the write transaction is never aborted, the writer slot stays taken and every later write waits for the acquisition timeout")
		})
	}
	r.guard(n, 2, "callback invocations in functions that open a write transaction")
}

// lockParamFalseDominates: instruction in is reached only through the false edge of a test of a bool parameter named lock.
func lockParamFalseDominates(fn *ssa.Function, in ssa.Instruction) bool {
	for _, b := range fn.Blocks {
		iff, ok := b.Instrs[len(b.Instrs)-1].(*ssa.If)
		if !ok {
			continue
		}
		cond, neg := iff.Cond, false
		if u, ok := cond.(*ssa.UnOp); ok && u.Op == token.NOT {
			cond, neg = u.X, true
		}
		p, ok := cond.(*ssa.Parameter)
		if !ok || p.Name() != "lock" {
			continue
		}
		s := b.Succs[1]
		if neg {
			s = b.Succs[0]
		}
		if len(s.Preds) == 1 && (s == in.Block() || s.Dominates(in.Block())) {
			return true
		}
	}
	return false
}

func ruleSem10(c *Ctx, r *Reporter) {
	regs := readRegistries(c)
	fn := regs["ExpressionQueryOperators"]["$exists"]
	allF := c.lookupFunc(pkgBsonkit, "All")
	missing := c.lookupVar(pkgBsonkit, "Missing")
	if fn == nil || allF == nil || missing == nil {
		r.bad("anchor:$exists", "-", "operator not registered")
		return
	}
	var all *ssa.Call
	allInstrs(fn, func(in ssa.Instruction) {
		if call, ok := in.(*ssa.Call); ok && calleeObj(&call.Call) == allF {
			all = call
		}
	})
	if all == nil {
		r.bad("$exists:fan-out", c.pos(fn.Pos()), "the operator does not use bsonkit.All")
		return
	}
	multi := tupleResult(all, 1)
	value := tupleResult(all, 0)
	used := false
	if multi != nil {
		if refs := multi.Referrers(); refs != nil && len(*refs) > 0 {
			used = true
		}
	}
	if !r.check(used, "$exists:fan-out flag consulted", c.pos(all.Pos()), "the `multi` result of All is used", "the fan-out flag returned by All is ignored: an empty fan-out result (no element along the path has the field) is not Missing and counts as present") {
		return
	}
	// the final comparison exists == found
	var found ssa.Value
	allInstrs(fn, func(in ssa.Instruction) {
		bo, ok := in.(*ssa.BinOp)
		if !ok || bo.Op != token.EQL {
			return
		}
		if types.Identical(bo.X.Type().Underlying(), types.Typ[types.Bool]) {
			if _, ok := bo.Y.(*ssa.Phi); ok {
				found = bo.Y
			} else if _, ok := bo.X.(*ssa.Phi); ok {
				found = bo.X
			}
		}
	})
	if found == nil {
		r.unk("$exists:outcome", c.pos(all.Pos()), "no comparison of the requested truth value with a computed `found`")
		return
	}
	enumWatchV = []ssa.Value{found}
	defer func() { enumWatchV = nil }()
	fb := found.(*ssa.Phi).Block()
	var pred *ssa.BasicBlock
	if len(all.Block().Preds) > 0 {
		pred = all.Block().Preds[0]
	}
	paths, ends, trunc := enumPaths(all.Block(), pred, func(b *ssa.BasicBlock) bool { return b == fb }, 1024)
	res := enumWatchVRes
	if trunc {
		r.unk("$exists:outcome", c.pos(all.Pos()), "too many paths")
		return
	}
	isLenTest := func(v ssa.Value) bool {
		bo, ok := v.(*ssa.BinOp)
		if !ok {
			return false
		}
		lc, ok := bo.X.(*ssa.Call)
		if !ok {
			return false
		}
		b, ok := lc.Call.Value.(*ssa.Builtin)
		k, okK := constInt(bo.Y)
		return ok && b.Name() == "len" && okK && k == 0 && (bo.Op == token.GTR || bo.Op == token.NEQ)
	}
	isMissingTest := func(v ssa.Value) bool {
		bo, ok := v.(*ssa.BinOp)
		if !ok || bo.Op != token.NEQ {
			return false
		}
		isM := func(x ssa.Value) bool {
			if u, ok := stripValue(x).(*ssa.UnOp); ok && u.Op == token.MUL {
				if g, ok := u.X.(*ssa.Global); ok && g.Object() == missing {
					return true
				}
			}
			return false
		}
		return (isM(bo.X) && bo.Y == value) || (isM(bo.Y) && bo.X == value)
	}
	nArr, nOther := 0, 0
	bad := ""
	for pi, p := range paths {
		if ends[pi] != fb {
			continue
		}
		isMulti, isArr := false, false
		for _, d := range p {
			if d.cond == multi && d.taken {
				isMulti = true
			}
			if ex, ok := d.cond.(*ssa.Extract); ok && ex.Index == 1 && d.taken {
				if ta, ok := ex.Tuple.(*ssa.TypeAssert); ok && ta.X == value {
					isArr = true
				}
			}
		}
		out := res[pi][0]
		switch {
		case isMulti && isArr:
			nArr++
			if !isLenTest(out) && bad == "" {
				bad = "with a fan-out array the outcome is not len(array) > 0"
			}
		default:
			nOther++
			if !isMissingTest(out) && bad == "" {
				bad = "without a fan-out array the outcome is not value != Missing"
			}
		}
	}
	if nArr == 0 && bad == "" {
		bad = "no path treats a fan-out array separately"
	}
	r.check(bad == "", "$exists:outcome table", c.pos(all.Pos()), fmt.Sprintf("%d fan-out-array path(s): len > 0; %d other path(s): value != Missing", nArr, nOther), bad+": a document where the path crosses an array whose elements all lack the field is reported as having it")
}

func rulePanic7(c *Ctx, r *Reporter) {
	fn := c.lookupSSA(pkgMongokit, "bitAccessor")
	if fn == nil {
		r.bad("anchor:mongokit.bitAccessor", "-", "not found")
		return
	}
	n := 0
	for _, g := range withClosures(fn) {
		allInstrs(g, func(in ssa.Instruction) {
			ia, ok := in.(*ssa.IndexAddr)
			if !ok {
				return
			}
			if _, isConst := constInt(ia.Index); isConst {
				return
			}
			if _, isSlice := ia.X.Type().Underlying().(*types.Slice); !isSlice {
				return
			}
			n++
			guarded := false
			for _, b := range g.Blocks {
				iff, ok := b.Instrs[len(b.Instrs)-1].(*ssa.If)
				if !ok {
					continue
				}
				bo, ok := iff.Cond.(*ssa.BinOp)
				if !ok {
					continue
				}
				isLen := func(v ssa.Value) bool {
					lc, ok := v.(*ssa.Call)
					if !ok {
						return false
					}
					bi, ok := lc.Call.Value.(*ssa.Builtin)
					return ok && bi.Name() == "len" && (lc.Call.Args[0] == ia.X || sameSource(lc.Call.Args[0], ia.X))
				}
				isIdx := func(v ssa.Value) bool { return stripIntConv(v) == stripIntConv(ia.Index) }
				// which successor establishes idx < len
				var good *ssa.BasicBlock
				switch {
				case isIdx(bo.X) && isLen(bo.Y) && bo.Op == token.GEQ:
					good = b.Succs[1]
				case isIdx(bo.X) && isLen(bo.Y) && bo.Op == token.LSS:
					good = b.Succs[0]
				case isLen(bo.X) && isIdx(bo.Y) && bo.Op == token.LEQ:
					good = b.Succs[1]
				case isLen(bo.X) && isIdx(bo.Y) && bo.Op == token.GTR:
					good = b.Succs[0]
				}
				if good != nil && len(good.Preds) == 1 && (good == ia.Block() || good.Dominates(ia.Block())) {
					guarded = true
				}
			}
			r.check(guarded, funcName(g)+":computed index is in range", c.pos(ia.Pos()), "dominated by index < len(slice)", "the element access is not dominated by index < len(slice) (an off-by-one such as index > len lets index == len through): a bit position in the byte just past the value panics")
		})
	}
	r.guard(n, 1, "computed element accesses in the bit accessors")
}

// lexicalLoopHeader: the header of a loop whose body (the blocks dominated by a successor of the header
// that can return to it) contains b - also when b itself leaves the loop by return or break.
func lexicalLoopHeader(b *ssa.BasicBlock) *ssa.BasicBlock {
	for h := b.Idom(); h != nil; h = h.Idom() {
		var latches []*ssa.BasicBlock
		for _, p := range h.Preds {
			if h.Dominates(p) {
				latches = append(latches, p)
			}
		}
		if len(latches) == 0 {
			continue
		}
		for _, s := range h.Succs {
			if !(s == b || s.Dominates(b)) {
				continue
			}
			reach := blockReach([]*ssa.BasicBlock{s}, map[*ssa.BasicBlock]bool{h: true})
			for _, l := range latches {
				if reach[l] || l == s {
					return h
				}
			}
		}
	}
	return nil
}

// ---- UPD-4: every update operator records what it changed ---------------------------------

func init() {
	register(&Rule{ID: "UPD-4", Doc: "update operators describe their own effect: in every function registered as a field update operator, each in-place mutation of the document (bsonkit.Put/Unset/Push/Pop/Increment/Multiply on the operator's doc) can be followed by a Changes.Record for the same path value, and each Changes.Record is preceded by such a mutation of that path - the recorded changes are what update events and the modified/unmodified decision are built from", Run: ruleUpd4})
}

func ruleUpd4(c *Ctx, r *Reporter) {
	regs := readRegistries(c)
	reg := regs["FieldUpdateOperators"]
	recF := c.lookupFunc(pkgMongokit, "Changes.Record")
	if reg == nil || recF == nil {
		r.bad("anchor:FieldUpdateOperators/Changes.Record", "-", "not found")
		return
	}
	mutators := map[string]int{"Put": 1, "Unset": 1, "Push": 1, "Pop": 1, "Increment": 1, "Multiply": 1} // name -> index of the path argument
	var names []string
	for n := range reg {
		names = append(names, n)
	}
	sortStrings(names)
	seenFn := map[*ssa.Function]bool{}
	nOps := 0
	for _, name := range names {
		fn := reg[name]
		if seenFn[fn] || len(fn.Params) < 5 {
			continue
		}
		seenFn[fn] = true
		doc := fn.Params[1]
		type site struct {
			call *ssa.Call
			path ssa.Value
		}
		var muts, recs []site
		for _, g := range withClosures(fn) {
			allInstrs(g, func(in ssa.Instruction) {
				call, ok := in.(*ssa.Call)
				if !ok {
					return
				}
				f := calleeObj(&call.Call)
				if f == nil {
					return
				}
				if f == recF {
					recs = append(recs, site{call, call.Call.Args[1]})
					return
				}
				if f.Pkg() != nil && f.Pkg().Path() == pkgBsonkit {
					if pi, ok := mutators[f.Name()]; ok && len(call.Call.Args) > pi {
						a0 := call.Call.Args[0]
						if a0 == ssa.Value(doc) {
							muts = append(muts, site{call, call.Call.Args[pi]})
						} else if fv, ok := a0.(*ssa.FreeVar); ok && fv.Name() == doc.Name() {
							muts = append(muts, site{call, call.Call.Args[pi]})
						}
					}
				}
			})
		}
		if len(muts) == 0 && len(recs) == 0 {
			continue
		}
		nOps++
		samePath := func(a, b ssa.Value) bool {
			if a == b || sameSource(a, b) {
				return true
			}
			// a record for path+"."+index belongs to a mutation of path
			return dependsOn(a, b, map[ssa.Value]bool{}) || dependsOn(b, a, map[ssa.Value]bool{})
		}
		bad := ""
		for _, m := range muts {
			okM := false
			for _, rc := range recs {
				if samePath(m.path, rc.path) && (m.call.Parent() != rc.call.Parent() || instrReaches(m.call, rc.call)) {
					okM = true
				}
			}
			if !okM && bad == "" {
				bad = fmt.Sprintf("the mutation at %s is never followed by a Changes.Record for its path", c.pos(m.call.Pos()))
			}
		}
		for _, rc := range recs {
			okR := false
			for _, m := range muts {
				if samePath(m.path, rc.path) && (m.call.Parent() != rc.call.Parent() || instrReaches(m.call, rc.call)) {
					okR = true
				}
			}
			if !okR && bad == "" {
				bad = fmt.Sprintf("the Changes.Record at %s is not preceded by a mutation of that path", c.pos(rc.call.Pos()))
			}
		}
		label := name
		r.check(bad == "", "update operator "+label+" ("+fn.Name()+"):mutations and records are paired", c.pos(fn.Pos()), fmt.Sprintf("%d mutation(s), %d record(s), paired by path", len(muts), len(recs)), bad+": the change description of the update event (and the decision whether the document was modified) no longer matches what happened to the document")
	}
	r.guard(nOps, 12, "field update operators that mutate the document")
}
