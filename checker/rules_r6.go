package main

import (
	"fmt"
	"go/token"
	"go/types"
	"sort"
	"strings"

	"golang.org/x/tools/go/ssa"
)

// Rules added after the sixth round of seeded changes.

func init() {
	register(&Rule{ID: "TXN-5", Doc: "snapshots go through useTransaction: outside useTransaction (and its private helpers) every call of Engine.Begin in package lungo passes the constant true; a snapshot begun directly would ignore the transaction of the session in the context, so a read inside a session would not see the session's own writes", Run: ruleTxn5})
	register(&Rule{ID: "NS-1", Doc: "namespaces are matched by their components: no prefix/substring test (strings.HasPrefix/HasSuffix/Contains/Index...) is applied in package lungo to a namespace name (a value derived from Handle.String() or from a Handle element), except the separator check of Handle.Validate; `users` must not select `users_archive`", Run: ruleNs1})
	register(&Rule{ID: "NUM-7", Doc: "sibling arithmetic agrees with its name: in bsonkit.Add every decimal operation is Add and every integer/float operation +, in bsonkit.Mul every decimal operation is Mul and every integer/float operation *; no case of one borrows the operation of the other", Run: ruleNum7})
	register(&Rule{ID: "WATCH-2", Doc: "resume positions are found by equality: in Engine.Watch every comparison of an oplog event id with the resumeAfter/startAfter token is a test `Compare(...) == 0` (or != 0); an ordering test would silently resume at a later event when the token's event has been discarded instead of reporting that the position is lost", Run: ruleWatch2})
	register(&Rule{ID: "SIG-3", Doc: "a woken consumer looks at the stream state again: in Stream.next the loop that waits for the signal loads s.closed (and s.error) inside the loop, under the mutex, before it can wait again; a check hoisted out of the loop lets a consumer woken by Close park again for ever", Run: ruleSig3})
}

// ---- TXN-5 -------------------------------------------------------------------------------

func ruleTxn5(c *Ctx, r *Reporter) {
	begin := c.lookupFunc(pkgLungo, "Engine.Begin")
	useTxn := c.lookupSSA(pkgLungo, "useTransaction")
	if begin == nil || useTxn == nil {
		r.bad("anchor:Engine.Begin/useTransaction", "-", "not found")
		return
	}
	n := 0
	for _, fn := range c.repoFuncs() {
		if fnPkgPath(fn) != pkgLungo {
			continue
		}
		allInstrs(fn, func(in ssa.Instruction) {
			call, ok := in.(*ssa.Call)
			if !ok || calleeObj(&call.Call) != begin {
				return
			}
			n++
			key := funcName(fn) + ":Engine.Begin lock argument"
			if inCone(useTxn, outermost(fn)) {
				r.ok(key, c.pos(call.Pos()), "inside useTransaction, which consults the session first (TXN-2)")
				return
			}
			v, isConst := constBool(call.Call.Args[len(call.Call.Args)-1])
			r.check(isConst && v, key, c.pos(call.Pos()), "a write transaction (lock = true): Begin itself rejects a nested one", "a snapshot (or a transaction with a variable lock flag) is begun outside useTransaction: the transaction of the session in the context is ignored, so inside a session this call does not see the session's own uncommitted writes")
		})
	}
	r.guard(n, 8, "Engine.Begin call sites")
}

// ---- NS-1 --------------------------------------------------------------------------------

func ruleNs1(c *Ctx, r *Reporter) {
	handleT := c.lookupType(pkgLungo, "Handle")
	strF := c.lookupFunc(pkgLungo, "Handle.String")
	if handleT == nil || strF == nil {
		r.bad("anchor:Handle", "-", "not found")
		return
	}
	// does v derive from a namespace name?
	var fromHandle func(v ssa.Value, depth int) bool
	fromHandle = func(v ssa.Value, depth int) bool {
		if v == nil || depth > 6 {
			return false
		}
		v = stripValue(v)
		switch x := v.(type) {
		case *ssa.Call:
			if calleeObj(&x.Call) == strF {
				return true
			}
		case *ssa.UnOp:
			if x.Op == token.MUL {
				if ia, ok := x.X.(*ssa.IndexAddr); ok {
					if derefNamed(ia.X.Type()) == handleT {
						return true
					}
				}
				if al, ok := x.X.(*ssa.Alloc); ok && al.Referrers() != nil {
					for _, ref := range *al.Referrers() {
						if st, ok := ref.(*ssa.Store); ok && st.Addr == ssa.Value(al) && fromHandle(st.Val, depth+1) {
							return true
						}
					}
				}
			}
		case *ssa.Index:
			if derefNamed(x.X.Type()) == handleT {
				return true
			}
		case *ssa.Phi:
			for _, e := range x.Edges {
				if fromHandle(e, depth+1) {
					return true
				}
			}
		case *ssa.BinOp:
			if x.Op == token.ADD {
				return fromHandle(x.X, depth+1) || fromHandle(x.Y, depth+1)
			}
		}
		return false
	}
	partial := map[string]bool{"HasPrefix": true, "HasSuffix": true, "Contains": true, "Index": true, "LastIndex": true, "IndexByte": true, "ContainsAny": true, "ContainsRune": true, "EqualFold": true, "TrimPrefix": true, "TrimSuffix": true}
	n := 0
	for _, fn := range c.repoFuncs() {
		if fnPkgPath(fn) != pkgLungo || isBucketFile(c, fn) {
			continue
		}
		allInstrs(fn, func(in ssa.Instruction) {
			call, ok := in.(*ssa.Call)
			if !ok {
				return
			}
			f := calleeObj(&call.Call)
			if f == nil || f.Pkg() == nil || f.Pkg().Path() != "strings" || !partial[f.Name()] {
				return
			}
			derived := false
			for _, a := range call.Call.Args {
				if fromHandle(a, 0) {
					derived = true
				}
			}
			if !derived {
				return
			}
			n++
			key := fmt.Sprintf("%s:strings.%s on a namespace name", funcName(fn), f.Name())
			if strings.HasSuffix(funcName(fn), "Handle).Validate") || funcName(fn) == "(lungo.Handle).Validate" {
				r.ok(key, c.pos(call.Pos()), "the separator check of Handle.Validate (TAB-8)")
				return
			}
			r.bad(key, c.pos(call.Pos()), "a namespace is selected by a partial match of its name: a collection whose name is a prefix of (or contained in) a sibling's name selects the sibling too; namespaces are compared component by component (ns == handle, ns[0] == handle[0])")
		})
	}
	if n == 0 {
		r.ok("package lungo:partial matches of namespace names", "-", "none")
	}
}

// ---- NUM-7 -------------------------------------------------------------------------------

func ruleNum7(c *Ctx, r *Reporter) {
	for _, it := range []struct {
		fn, method string
		op         token.Token
	}{{"Add", "Add", token.ADD}, {"Mul", "Mul", token.MUL}} {
		fn := c.lookupSSA(pkgBsonkit, it.fn)
		if fn == nil {
			r.bad("anchor:bsonkit."+it.fn, "-", "not found")
			continue
		}
		nDec, nBin := 0, 0
		var wrong []string
		allInstrs(fn, func(in ssa.Instruction) {
			switch x := in.(type) {
			case *ssa.Call:
				f := calleeObj(&x.Call)
				if f == nil || f.Pkg() == nil || f.Pkg().Path() != "github.com/shopspring/decimal" {
					return
				}
				sig := f.Type().(*types.Signature)
				if sig.Recv() == nil || sig.Params().Len() != 1 || !strings.HasSuffix(typeKey(sig.Params().At(0).Type()), "decimal.Decimal") {
					return
				}
				switch f.Name() {
				case "Add", "Sub", "Mul", "Div", "Mod", "Pow":
					nDec++
					if f.Name() != it.method {
						wrong = append(wrong, fmt.Sprintf("decimal %s at %s", f.Name(), c.pos(x.Pos())))
					}
				}
			case *ssa.BinOp:
				switch x.Op {
				case token.ADD, token.SUB, token.MUL, token.QUO, token.REM:
					if b, ok := x.Type().Underlying().(*types.Basic); ok && b.Info()&types.IsNumeric != 0 {
						nBin++
						if x.Op != it.op {
							wrong = append(wrong, fmt.Sprintf("operator %s at %s", x.Op, c.pos(x.Pos())))
						}
					}
				}
			}
		})
		sort.Strings(wrong)
		r.check(len(wrong) == 0, "bsonkit."+it.fn+":operation of every case", c.pos(fn.Pos()), fmt.Sprintf("%d decimal and %d machine operations, all %s", nDec, nBin, it.method), "bsonkit."+it.fn+" computes a different operation for some type pair: "+strings.Join(wrong, ", "))
		r.guard(nDec+nBin, 8, "arithmetic operations in bsonkit."+it.fn)
	}
}

// ---- WATCH-2 -----------------------------------------------------------------------------

func ruleWatch2(c *Ctx, r *Reporter) {
	fn := c.lookupSSA(pkgLungo, "Engine.Watch")
	cmpF := c.lookupFunc(pkgBsonkit, "Compare")
	if fn == nil || cmpF == nil {
		r.bad("anchor:Engine.Watch", "-", "not found")
		return
	}
	tokens := map[ssa.Value]string{}
	for _, p := range fn.Params {
		if p.Name() == "resumeAfter" || p.Name() == "startAfter" {
			tokens[p] = p.Name()
		}
	}
	if len(tokens) == 0 {
		r.bad("anchor:Engine.Watch resume parameters", c.pos(fn.Pos()), "no resumeAfter/startAfter parameter")
		return
	}
	n := 0
	scan := withClosures(fn)
	// a package function the token is handed to: its parameter is the token there
	allInstrs(fn, func(in ssa.Instruction) {
		call, ok := in.(*ssa.Call)
		if !ok {
			return
		}
		h := staticFn(&call.Call)
		if h == nil || h.Blocks == nil || h == fn || fnPkgPath(h) != pkgLungo {
			return
		}
		for i, a := range call.Call.Args {
			if name, isTok := tokens[a]; isTok && i < len(h.Params) {
				tokens[h.Params[i]] = name
				scan = append(scan, withClosures(h)...)
			}
		}
	})
	for _, g := range scan {
		allInstrs(g, func(in ssa.Instruction) {
			call, ok := in.(*ssa.Call)
			if !ok || calleeObj(&call.Call) != cmpF {
				return
			}
			which := ""
			for _, a := range call.Call.Args {
				for tp, name := range tokens {
					if dependsOn(a, tp, map[ssa.Value]bool{}) || dependsOnFree(a, name) {
						which = name
					}
				}
			}
			if which == "" || call.Referrers() == nil {
				return
			}
			for _, ref := range *call.Referrers() {
				bo, ok := ref.(*ssa.BinOp)
				if !ok {
					continue
				}
				n++
				k, isK := constInt(bo.Y)
				r.check((bo.Op == token.EQL || bo.Op == token.NEQ) && isK && k == 0, "Engine.Watch:"+which+" is matched by equality", c.pos(bo.Pos()), "Compare(token, event id) == 0", fmt.Sprintf("the %s token is matched with `%s` instead of equality: when the token's event is no longer retained the stream resumes at some later event and skips the discarded ones silently instead of failing with a lost position", which, bo.Op))
			}
		})
	}
	r.guard(n, 2, "comparisons with the resume tokens in Engine.Watch")
}

// dependsOnFree: v depends on a captured variable of that name (the token captured by a search predicate).
func dependsOnFree(v ssa.Value, name string) bool {
	seen := map[ssa.Value]bool{}
	var walk func(x ssa.Value, d int) bool
	walk = func(x ssa.Value, d int) bool {
		if x == nil || seen[x] || d > 8 {
			return false
		}
		seen[x] = true
		if fv, ok := x.(*ssa.FreeVar); ok {
			return fv.Name() == name
		}
		in, ok := x.(ssa.Instruction)
		if !ok {
			return false
		}
		for _, op := range in.Operands(nil) {
			if op != nil && *op != nil && walk(*op, d+1) {
				return true
			}
		}
		return false
	}
	return walk(v, 0)
}

// ---- SIG-3 -------------------------------------------------------------------------------

func ruleSig3(c *Ctx, r *Reporter) {
	fn := c.lookupSSA(pkgLungo, "Stream.next")
	closedF := c.field(pkgLungo, "Stream", "closed")
	if fn == nil || closedF == nil {
		r.bad("anchor:Stream.next", "-", "not found")
		return
	}
	// the waits: selects that receive from the signal channel
	n := 0
	allInstrs(fn, func(in ssa.Instruction) {
		sel, ok := in.(*ssa.Select)
		if !ok {
			return
		}
		hdr := innermostLoopHeader(sel.Block())
		if hdr == nil {
			hdr = lexicalLoopHeader(sel.Block())
		}
		if hdr == nil {
			return
		}
		n++
		// loop body: blocks dominated by the header from which the header is reachable again
		inLoopBlock := func(b *ssa.BasicBlock) bool {
			return hdr.Dominates(b) && (b == hdr || blockReach(b.Succs, nil)[hdr])
		}
		checked := false
		allInstrs(fn, func(x ssa.Instruction) {
			ld, ok := x.(*ssa.UnOp)
			if !ok || ld.Op != token.MUL {
				return
			}
			if _, ok := fieldAddrOf(ld.X, closedF); !ok {
				return
			}
			if inLoopBlock(ld.Block()) && (ld.Block() == sel.Block() || ld.Block().Dominates(sel.Block())) {
				checked = true
			}
		})
		r.check(checked, "Stream.next:state re-checked per wake-up", c.pos(sel.Pos()), "s.closed is loaded inside the wait loop on the way to every wait", "the wait loop does not look at s.closed between two waits: a consumer woken by Close (which has already removed the stream from the engine's broadcast set) finds no event and waits again for ever")
	})
	r.guard(n, 1, "waits on the signal channel in Stream.next")
}

func init() {
	register(&Rule{ID: "LOG-6", Doc: "update descriptions split fields by presence: in Transaction.append a changed path is listed as removed exactly when its recorded value is bsonkit.Missing - every path into the removed list decides `val == Missing` true and every path into the updated map decides it false (an explicit null is an updated field)", Run: ruleLog6})
	register(&Rule{ID: "MOD-2", Doc: "a document leaves the modified list only for byte equality: in the loop of Collection.Update that builds Modified every path that skips a document has decided the byte comparison of old and new version equal; no other shortcut (recorded changes, counters) may drop a document", Run: ruleMod2})
	register(&Rule{ID: "TAB-12", Doc: "the store file is decoded into a fresh value: the target of bson.Unmarshal in FileStore.Load is a local variable of that call, not a field or another object that survives it (the codec merges into existing maps, so dropped namespaces would come back)", Run: ruleTab12})
	register(&Rule{ID: "GFS-7", Doc: "a failed upload is aborted: in every Bucket method that opens an upload stream and copies a reader into it, the failure edge of io.Copy passes Abort on that stream before the error is returned (chunks written so far must not stay behind)", Run: ruleGfs7})
}

// ---- LOG-6 -------------------------------------------------------------------------------

func ruleLog6(c *Ctx, r *Reporter) {
	fn := c.lookupSSA(pkgLungo, "Transaction.append")
	missing := c.lookupVar(pkgBsonkit, "Missing")
	if fn == nil || missing == nil {
		r.bad("anchor:Transaction.append", "-", "not found")
		return
	}
	isMissing := func(v ssa.Value) bool {
		if u, ok := stripValue(v).(*ssa.UnOp); ok && u.Op == token.MUL {
			if g, ok := u.X.(*ssa.Global); ok && g.Object() == missing {
				return true
			}
		}
		return false
	}
	// the loop over changes.Changed
	var next *ssa.Next
	coneInstrs(fn, func(in ssa.Instruction) {
		nx, ok := in.(*ssa.Next)
		if !ok {
			return
		}
		rg, ok := nx.Iter.(*ssa.Range)
		if !ok {
			return
		}
		if u, ok := rg.X.(*ssa.UnOp); ok && u.Op == token.MUL {
			if fa, ok := u.X.(*ssa.FieldAddr); ok && structFieldOf(fa).Name() == "Changed" {
				next = nx
			}
		}
	})
	if next == nil {
		r.bad("append:loop over Changed", c.pos(fn.Pos()), "no loop over changes.Changed found")
		return
	}
	fn = next.Parent() // the loop may live in a private helper of append
	hdr := next.Block()
	var val ssa.Value
	if refs := next.Referrers(); refs != nil {
		for _, ref := range *refs {
			if ex, ok := ref.(*ssa.Extract); ok && ex.Index == 2 {
				val = ex
			}
		}
	}
	var removedAt, updatedAt []ssa.Instruction
	allInstrs(fn, func(in ssa.Instruction) {
		if !hdr.Dominates(in.Block()) || in.Block() == hdr || !blockReach(in.Block().Succs, nil)[hdr] {
			return
		}
		switch x := in.(type) {
		case *ssa.Call:
			if b, ok := x.Call.Value.(*ssa.Builtin); ok && b.Name() == "append" && typeKey(x.Type()) == "[]string" {
				removedAt = append(removedAt, in)
			}
		case *ssa.MapUpdate:
			updatedAt = append(updatedAt, in)
		}
	})
	if val == nil || len(removedAt) == 0 || len(updatedAt) == 0 {
		r.bad("append:removed/updated split", c.pos(next.Pos()), "the loop does not fill a removed list and an updated map from the recorded values")
		return
	}
	var start *ssa.BasicBlock
	for _, s := range hdr.Succs {
		if s != hdr && blockReach([]*ssa.BasicBlock{s}, map[*ssa.BasicBlock]bool{hdr: true})[removedAt[0].Block()] || s == removedAt[0].Block() {
			start = s
		}
	}
	if start == nil {
		r.unk("append:removed/updated split", c.pos(next.Pos()), "cannot locate the loop body")
		return
	}
	target := map[*ssa.BasicBlock]string{}
	for _, in := range removedAt {
		target[in.Block()] = "removed"
	}
	for _, in := range updatedAt {
		target[in.Block()] = "updated"
	}
	paths, ends, trunc := enumPaths(start, hdr, func(b *ssa.BasicBlock) bool { return b == hdr || target[b] != "" }, 1024)
	if trunc {
		r.unk("append:removed/updated split", c.pos(next.Pos()), "too many paths")
		return
	}
	bad := ""
	n := 0
	for pi, p := range paths {
		kind := target[ends[pi]]
		if kind == "" {
			continue
		}
		n++
		decided, isMiss := false, false
		for _, d := range p {
			bo, ok := d.cond.(*ssa.BinOp)
			if !ok || (bo.Op != token.EQL && bo.Op != token.NEQ) {
				continue
			}
			if (isMissing(bo.X) && stripValue(bo.Y) == val) || (isMissing(bo.Y) && stripValue(bo.X) == val) {
				decided = true
				isMiss = (bo.Op == token.EQL) == d.taken
			}
		}
		if bad == "" {
			switch {
			case kind == "removed" && !(decided && isMiss):
				bad = "a path lists a changed field as removed without having established that its recorded value is bsonkit.Missing (an explicit null would be reported as removed)"
			case kind == "updated" && !(decided && !isMiss):
				bad = "a path lists a changed field as updated without having established that its recorded value is not bsonkit.Missing"
			}
		}
	}
	r.check(bad == "" && n >= 2, "append:removed/updated split", c.pos(removedAt[0].Pos()), fmt.Sprintf("all %d paths split on val == Missing", n), bad)
}

// ---- MOD-2 -------------------------------------------------------------------------------

func ruleMod2(c *Ctx, r *Reporter) {
	fn := c.lookupSSA(pkgMongokit, "Collection.Update")
	if fn == nil {
		r.bad("anchor:Collection.Update", "-", "not found")
		return
	}
	// the equality verdict: bytes.Equal in the method, or the call of a package function built on it (MOD-1 checks what it compares)
	var verdicts []ssa.Value
	allInstrs(fn, func(in ssa.Instruction) {
		call, ok := in.(*ssa.Call)
		if !ok {
			return
		}
		if calleeFull(&call.Call) == "bytes.Equal" {
			verdicts = append(verdicts, call)
			return
		}
		if h := staticFn(&call.Call); h != nil && h.Blocks != nil && fnPkgPath(h) == pkgMongokit && len(h.Params) == 2 && len(callsInAny(h, "bytes.Equal")) == 1 {
			verdicts = append(verdicts, call)
		}
	})
	if len(verdicts) == 0 {
		r.bad("Collection.Update:modified filter", c.pos(fn.Pos()), "no byte comparison found")
		return
	}
	vin := verdicts[0].(ssa.Instruction)
	hdr := innermostLoopHeader(vin.Block())
	if hdr == nil {
		hdr = lexicalLoopHeader(vin.Block())
	}
	if hdr == nil {
		r.unk("Collection.Update:modified filter", c.pos(vin.Pos()), "the byte comparison is not inside a loop")
		return
	}
	// appends inside that loop: keeping the document
	keeps := map[*ssa.BasicBlock]bool{}
	allInstrs(fn, func(in ssa.Instruction) {
		if call, ok := in.(*ssa.Call); ok {
			if b, ok := call.Call.Value.(*ssa.Builtin); ok && b.Name() == "append" && hdr.Dominates(call.Block()) && call.Block() != hdr && blockReach(call.Block().Succs, nil)[hdr] {
				keeps[call.Block()] = true
			}
		}
	})
	var start *ssa.BasicBlock
	for _, s := range hdr.Succs {
		if s == vin.Block() || s.Dominates(vin.Block()) || blockReach([]*ssa.BasicBlock{s}, map[*ssa.BasicBlock]bool{hdr: true})[vin.Block()] {
			start = s
		}
	}
	if start == nil || len(keeps) == 0 {
		r.unk("Collection.Update:modified filter", c.pos(vin.Pos()), "cannot locate the loop body / the kept-document append")
		return
	}
	paths, ends, trunc := enumPaths(start, hdr, func(b *ssa.BasicBlock) bool { return b == hdr || keeps[b] }, 2048)
	if trunc {
		r.unk("Collection.Update:modified filter", c.pos(vin.Pos()), "too many paths")
		return
	}
	isVerdict := func(v ssa.Value) bool {
		for _, x := range verdicts {
			if v == x {
				return true
			}
		}
		return false
	}
	bad := ""
	nSkip := 0
	for pi, p := range paths {
		if ends[pi] != hdr {
			continue
		}
		nSkip++
		equal := false
		for _, d := range p {
			if isVerdict(d.cond) && d.taken {
				equal = true
			}
		}
		if !equal && bad == "" {
			bad = "a path skips a document (it does not reach Modified) without the byte comparison of its old and new version having come out equal"
		}
	}
	r.check(bad == "" && nSkip > 0, "Collection.Update:modified filter", c.pos(vin.Pos()), fmt.Sprintf("all %d skipping paths decided byte equality", nSkip), bad+": a change that the skipped-for reason does not capture (an operator that writes without recording, a type-only change) is applied to the working copy, reported as unmodified and then discarded")
}

func callsInAny(fn *ssa.Function, full string) []*ssa.Call {
	var out []*ssa.Call
	allInstrs(fn, func(in ssa.Instruction) {
		if call, ok := in.(*ssa.Call); ok && calleeFull(&call.Call) == full {
			out = append(out, call)
		}
	})
	return out
}

// ---- TAB-12 ------------------------------------------------------------------------------

func ruleTab12(c *Ctx, r *Reporter) {
	fn := c.lookupSSA(pkgLungo, "FileStore.Load")
	if fn == nil {
		r.bad("anchor:FileStore.Load", "-", "not found")
		return
	}
	n := 0
	coneInstrs(fn, func(in ssa.Instruction) {
		call, ok := in.(*ssa.Call)
		if !ok || calleeFull(&call.Call) != "go.mongodb.org/mongo-driver/bson.Unmarshal" || len(call.Call.Args) < 2 {
			return
		}
		n++
		target := stripValue(call.Call.Args[1])
		al, isLocal := target.(*ssa.Alloc)
		fresh := isLocal
		if isLocal && al.Referrers() != nil {
			// nothing was put into it before
			for _, ref := range *al.Referrers() {
				if st, ok := ref.(*ssa.Store); ok && st.Addr == ssa.Value(al) && instrReaches(st, call) {
					fresh = false
				}
			}
		}
		r.check(fresh, "FileStore.Load:decode target", c.pos(call.Pos()), "a local File value of this call", "the store file is decoded into an object that outlives the call (a field or shared value): bson.Unmarshal merges into existing maps, so namespaces dropped since the previous load reappear")
	})
	r.guard(n, 1, "bson.Unmarshal calls in FileStore.Load")
}

// ---- GFS-7 -------------------------------------------------------------------------------

func ruleGfs7(c *Ctx, r *Reporter) {
	n := 0
	for _, fn := range c.repoFuncs() {
		if fnPkgPath(fn) != pkgLungo || !isBucketFile(c, fn) {
			continue
		}
		allInstrs(fn, func(in ssa.Instruction) {
			call, ok := in.(*ssa.Call)
			if !ok || calleeFull(&call.Call) != "io.Copy" || len(call.Call.Args) != 2 {
				return
			}
			dst := stripValue(call.Call.Args[0])
			if n := derefNamed(dst.Type()); n == nil || n.Obj().Name() != "UploadStream" {
				return
			}
			n++
			key := funcName(fn) + ":failed copy aborts the upload"
			checks := errChecksOf(errorResult(call))
			if len(checks) == 0 {
				r.bad(key, c.pos(call.Pos()), "the error of io.Copy is not examined")
				return
			}
			good := true
			for _, ec := range checks {
				if len(ec.FailSucc.Instrs) == 0 {
					continue
				}
				isAbort := func(x ssa.Instruction) bool {
					ac, ok := x.(*ssa.Call)
					if !ok {
						return false
					}
					f := calleeObj(&ac.Call)
					return f != nil && fullShort(f) == "UploadStream.Abort" && len(ac.Call.Args) > 0 && stripValue(ac.Call.Args[0]) == dst
				}
				first := ec.FailSucc.Instrs[0]
				if isAbort(first) {
					continue
				}
				if _, isRet := first.(*ssa.Return); isRet || exitWithoutPassing(first, isAbort, nil) != nil {
					good = false
				}
			}
			r.check(good, key, c.pos(call.Pos()), "every way out of the failure edge of io.Copy passes stream.Abort()", "a failing source returns without stream.Abort(): the chunks (and the upload marker) written so far stay behind")
		})
	}
	r.guard(n, 1, "io.Copy into an upload stream")
}

func init() {
	register(&Rule{ID: "ATOM-7", Doc: "an unordered batch goes on after every failing item: in the item loops of Transaction.Insert and Transaction.Bulk every path from the failure edge of an item that leaves the loop has decided `ordered` true; with ordered false every failure leads back to the next item, whatever failed before", Run: ruleAtom7})
	register(&Rule{ID: "WIN-7", Doc: "each sort column is judged by its own direction: no value returned from inside the column loop of bsonkit.Order depends on a variable carried from one column to the next (other than the loop index); a direction that sticks would sort every ascending column after a descending one descending too", Run: ruleWin7})
	register(&Rule{ID: "SEM-13", Doc: "element tests look at the element: in mongokit and bsonkit no comparison inside a `for range X` compares len(X) - the length of the slice being traversed - with a value fixed outside the loop; such a test has the same outcome for every element and stands where a test of the element's own length was meant ($size over an array of sub-documents)", Run: ruleSem13})
}

// ---- ATOM-7 ------------------------------------------------------------------------------

func ruleAtom7(c *Ctx, r *Reporter) {
	helpers := loggingHelpers(c)
	isHelper := func(f *ssa.Function) bool {
		for _, h := range helpers {
			if h == f {
				return true
			}
		}
		return false
	}
	n := 0
	for _, name := range []string{"Transaction.Insert", "Transaction.Bulk"} {
		fn := c.lookupSSA(pkgLungo, name)
		if fn == nil {
			r.bad("anchor:"+name, "-", "not found")
			continue
		}
		var ordered *ssa.Parameter
		for _, p := range fn.Params {
			if p.Name() == "ordered" {
				ordered = p
			}
		}
		if ordered == nil {
			r.bad("anchor:"+name+" ordered", c.pos(fn.Pos()), "no ordered parameter")
			continue
		}
		isOrdered := func(v ssa.Value) bool { return resolveHelperValue(v) == ssa.Value(ordered) }
		seenIf := map[*ssa.If]bool{}
		walk := allInstrs
		direct := false
		allInstrs(fn, func(in ssa.Instruction) {
			if call, ok := in.(*ssa.Call); ok && isHelper(staticFn(&call.Call)) {
				direct = true
			}
		})
		if !direct {
			walk = coneInstrs // the item loop moved into a private helper of the method
		}
		walk(fn, func(in ssa.Instruction) {
			call, ok := in.(*ssa.Call)
			if !ok || !isHelper(staticFn(&call.Call)) {
				return
			}
			hdr := innermostLoopHeader(call.Block())
			if hdr == nil {
				hdr = lexicalLoopHeader(call.Block())
			}
			if hdr == nil {
				return
			}
			inLoop := func(b *ssa.BasicBlock) bool {
				return hdr.Dominates(b) && (b == hdr || blockReach(b.Succs, nil)[hdr])
			}
			for _, ec := range errChecksOf(errorResult(call)) {
				if seenIf[ec.If] {
					continue
				}
				seenIf[ec.If] = true
				n++
				key := name + ":unordered continues after a failing item"
				paths, ends, trunc := enumPaths(ec.FailSucc, ec.If.Block(), func(b *ssa.BasicBlock) bool { return b == hdr || !inLoop(b) }, 1024)
				if trunc {
					r.unk(key, c.pos(ec.If.Pos()), "too many paths")
					continue
				}
				bad := ""
				for pi, p := range paths {
					if ends[pi] == hdr {
						continue
					}
					// the path leaves the loop (or the function)
					decidedOrdered := false
					for _, d := range p {
						if isOrdered(d.cond) && d.taken {
							decidedOrdered = true
						}
					}
					if !decidedOrdered && bad == "" {
						bad = "a path from the failure of an item leaves the loop without `ordered` having been found true"
					}
				}
				r.check(bad == "", key, c.pos(call.Pos()), "the loop is left after a failure only when ordered is true", bad+": an unordered batch stops at some failing item (for example the second one) and silently drops the valid items behind it")
			}
		})
	}
	r.guard(n, 2, "item failure checks in Insert/Bulk")
}

// ---- WIN-7 -------------------------------------------------------------------------------

func ruleWin7(c *Ctx, r *Reporter) {
	fn := c.lookupSSA(pkgBsonkit, "Order")
	if fn == nil {
		r.bad("anchor:bsonkit.Order", "-", "not found")
		return
	}
	fns := []*ssa.Function{fn}
	allInstrs(fn, func(in ssa.Instruction) {
		if call, ok := in.(*ssa.Call); ok {
			if h := staticFn(&call.Call); h != nil && h.Blocks != nil && h != fn && fnPkgPath(h) == pkgBsonkit {
				for _, p := range h.Params {
					if typeKey(p.Type()) == "[]bsonkit.Column" {
						fns = append(fns, h)
					}
				}
			}
		}
	})
	n := 0
	var rets []*ssa.Return
	for _, g := range fns {
		rets = append(rets, returnsOf(g)...)
	}
	for _, ret := range rets {
		hdr := innermostLoopHeader(ret.Block())
		if hdr == nil {
			hdr = lexicalLoopHeader(ret.Block())
		}
		if hdr == nil {
			continue
		}
		n++
		bad := ""
		for _, in := range hdr.Instrs {
			ph, ok := in.(*ssa.Phi)
			if !ok {
				break
			}
			// the loop index: advanced by one on the back edge
			isIndex := false
			for k, p := range hdr.Preds {
				if hdr.Dominates(p) {
					if bo, ok := ph.Edges[k].(*ssa.BinOp); ok && bo.Op == token.ADD && bo.X == ssa.Value(ph) {
						if one, ok := constInt(bo.Y); ok && one == 1 {
							isIndex = true
						}
					}
				}
			}
			if isIndex {
				continue
			}
			if dependsOn(retVal(ret, 0), ph, map[ssa.Value]bool{}) && bad == "" {
				bad = fmt.Sprintf("the value returned at %s depends on %s, which is carried over from the previous column", c.pos(ret.Pos()), ph.Comment)
			}
		}
		r.check(bad == "", "bsonkit.Order:columns are independent", c.pos(ret.Pos()), "the verdict of a column depends on that column only", bad+": a descending column changes how every later column is ordered")
	}
	r.guard(n, 1, "returns inside the column loop of bsonkit.Order")
}

// ---- SEM-13 ------------------------------------------------------------------------------

func ruleSem13(c *Ctx, r *Reporter) {
	n, bad := 0, 0
	for _, fn := range c.repoFuncs() {
		p := fnPkgPath(fn)
		if p != pkgMongokit && p != pkgBsonkit {
			continue
		}
		allInstrs(fn, func(in ssa.Instruction) {
			bo, ok := in.(*ssa.BinOp)
			if !ok {
				return
			}
			switch bo.Op {
			case token.EQL, token.NEQ, token.LSS, token.GTR, token.LEQ, token.GEQ:
			default:
				return
			}
			lenOf := func(v ssa.Value) ssa.Value {
				call, ok := stripIntConv(v).(*ssa.Call)
				if !ok {
					return nil
				}
				if b, ok := call.Call.Value.(*ssa.Builtin); ok && b.Name() == "len" {
					return call.Call.Args[0]
				}
				return nil
			}
			for _, side := range [][2]ssa.Value{{bo.X, bo.Y}, {bo.Y, bo.X}} {
				sl := lenOf(side[0])
				if sl == nil {
					continue
				}
				if _, isSlice := sl.Type().Underlying().(*types.Slice); !isSlice {
					continue
				}
				// is the test inside a loop that traverses sl element by element?
				for hdr := innermostLoopHeader(bo.Block()); hdr != nil; {
					traverses := false
					allInstrs(fn, func(x ssa.Instruction) {
						ia, ok := x.(*ssa.IndexAddr)
						if !ok || ia.X != sl || !hdr.Dominates(ia.Block()) || ia.Block() == hdr {
							return
						}
						if ph, ok := ia.Index.(*ssa.Phi); ok && ph.Block() == hdr {
							traverses = true
						}
						if bo2, ok := ia.Index.(*ssa.BinOp); ok {
							if ph, ok := bo2.X.(*ssa.Phi); ok && ph.Block() == hdr {
								traverses = true
							}
						}
					})
					if !traverses {
						break
					}
					n++
					// the other operand: fixed outside the loop?
					other := stripIntConv(side[1])
					invariant := false
					switch o := other.(type) {
					case *ssa.Const, *ssa.Parameter:
						invariant = true
					default:
						if oi, ok := o.(ssa.Instruction); ok && oi.Block() != nil && !hdr.Dominates(oi.Block()) {
							invariant = true
						} else if ok && oi.Block() != nil && oi.Block().Dominates(hdr) && oi.Block() != hdr {
							invariant = true
						}
					}
					// the loop's own bound test (i < len(x)) lives in the header and compares with the index
					if invariant && bo.Block() != hdr {
						if _, isConst := other.(*ssa.Const); !isConst {
							bad++
							r.bad(funcName(fn)+":length of the traversed slice tested per element", c.pos(bo.Pos()), "inside the loop over a slice its own length is compared with a value fixed outside the loop: the outcome is the same for every element, the element's own length was probably meant")
						}
					}
					break
				}
			}
		})
	}
	if bad == 0 {
		r.ok("mongokit+bsonkit:per-element length tests", "-", fmt.Sprintf("%d length tests inside traversals examined, none compares the traversed slice's own length with a loop-invariant value", n))
	}
}

var _ = sort.Strings
var _ = strings.Contains

func init() {
	register(&Rule{ID: "PROJ-7", Doc: "`_id: 0` hides the id in every mode: on every path of mongokit.Project to its successful return on which hideID has not been found false, either `_id` is removed from the result (Unset(res, \"_id\")) or nothing on the path put an id there (neither Put(res, \"_id\", ...) nor the full clone an exclusion or operator-only projection starts from)", Run: ruleProj7})
}

func ruleProj7(c *Ctx, r *Reporter) {
	fn := c.lookupSSA(pkgMongokit, "Project")
	putF := c.lookupFunc(pkgBsonkit, "Put")
	unsetF := c.lookupFunc(pkgBsonkit, "Unset")
	cloneF := c.lookupFunc(pkgBsonkit, "Clone")
	stT := c.lookupType(pkgMongokit, "projectState")
	if fn == nil || putF == nil || unsetF == nil || cloneF == nil || stT == nil {
		r.bad("anchor:mongokit.Project", "-", "not found")
		return
	}
	body := fn
	// the assembling part may live in a private helper (R2-mk_project-r1)
	coneInstrs(fn, func(in ssa.Instruction) {
		if call, ok := in.(*ssa.Call); ok && calleeObj(&call.Call) == unsetF {
			body = call.Parent()
		}
	})
	isIDPath := func(v ssa.Value) bool { s, ok := constString(v); return ok && s == "_id" }
	unsetB, putB, cloneB := map[*ssa.BasicBlock]bool{}, map[*ssa.BasicBlock]bool{}, map[*ssa.BasicBlock]bool{}
	allInstrs(body, func(in ssa.Instruction) {
		call, ok := in.(*ssa.Call)
		if !ok {
			return
		}
		switch calleeObj(&call.Call) {
		case unsetF:
			if len(call.Call.Args) >= 2 && isIDPath(call.Call.Args[1]) {
				unsetB[call.Block()] = true
			}
		case putF:
			if len(call.Call.Args) >= 2 && isIDPath(call.Call.Args[1]) {
				putB[call.Block()] = true
			}
		case cloneF:
			// a clone that becomes the result (flows into the returned value)
			for _, ret := range returnsOf(body) {
				if dependsOn(retVal(ret, 0), call, map[ssa.Value]bool{}) {
					cloneB[call.Block()] = true
				}
			}
		}
	})
	isHideLoad := func(v ssa.Value) bool {
		switch x := v.(type) {
		case *ssa.UnOp:
			if fa, ok := x.X.(*ssa.FieldAddr); ok && x.Op == token.MUL {
				return derefNamed(fa.X.Type()) == stT && structFieldOf(fa).Name() == "hideID"
			}
		case *ssa.Field:
			return structFieldOf(x).Name() == "hideID"
		}
		return false
	}
	paths, ends, trunc := enumPaths(body.Blocks[0], nil, func(b *ssa.BasicBlock) bool {
		_, isRet := b.Instrs[len(b.Instrs)-1].(*ssa.Return)
		return isRet
	}, 8192)
	if trunc {
		r.unk("Project:hideID honoured", c.pos(body.Pos()), "too many paths")
		return
	}
	blocks := enumPathBlocks
	n := 0
	bad := ""
	for pi, p := range paths {
		end := ends[pi]
		if end == nil {
			continue
		}
		ret, ok := end.Instrs[len(end.Instrs)-1].(*ssa.Return)
		if !ok || len(ret.Results) != 2 || !isNilConst(retVal(ret, 1)) {
			continue
		}
		n++
		hideFalse := false
		for _, d := range p {
			if isHideLoad(d.cond) && !d.taken {
				hideFalse = true
			}
		}
		if hideFalse {
			continue
		}
		hasUnset, hasID := false, false
		for _, b := range append(append([]*ssa.BasicBlock{}, blocks[pi]...), end) {
			if unsetB[b] {
				hasUnset = true
			}
			if putB[b] || cloneB[b] {
				hasID = true
			}
		}
		if hasID && !hasUnset && bad == "" {
			bad = "a successful path on which `_id: 0` may have been requested returns a result that received the id (copied, or cloned with the whole document) and never removes it"
		}
	}
	r.check(bad == "" && n > 0, "Project:hideID honoured", c.pos(body.Pos()), fmt.Sprintf("%d successful paths: the id is removed or was never put wherever hideID may be set", n), bad+": exclusion and operator-only projections with `_id: 0` still return the id")
}
