#!/bin/bash
# usage: checkdiff.sh <patch> [lungocheck args, default: -prop ALL]  -- runs the checker on a scratch copy of /repo with the patch applied
export GOFLAGS=-mod=mod GOPROXY=off; unset GOWORK
VERIF=$(readlink -f "$(dirname "$0")/.."); p=$(readlink -f "$1"); shift
c=$(mktemp -d /tmp/checkdiff.XXXXXX); trap 'rm -rf "$c"' EXIT
(cd /repo && git ls-files -z | xargs -0 cp --parents -t "$c") 2>/dev/null; cp /repo/go.sum "$c/" 2>/dev/null
(cd "$c" && git apply "$p") || { echo "patch does not apply"; exit 3; }
if [ $# -eq 0 ]; then set -- -prop ALL; fi
"$VERIF/bin/lungocheck" "$@" -repo "$c" -out "$VERIF" 2>&1 | grep -E "^PROP .* VIOLATED|^RULE|UNANALYSABLE|UNDECIDED|VIOLATION property|\] VIOLATED" | grep -v "NUM-3 VIOLATED bsonkit\.\(Add\|Mul\)\|SEM-5 VIOLATED conversion safe\|VIOLATED bsonkit.put:" | cut -c1-${WIDTH:-500}
