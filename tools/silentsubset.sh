#!/bin/bash
# usage: silentsubset.sh <comma separated rule ids>   -- runs only these rules against every behaviour-preserving variant
# (selftest/silent/*.diff) on scratch copies of /repo; for re-checking the variants after a change to a few rules.
set -u
export GOFLAGS=-mod=mod GOPROXY=off; unset GOWORK
VERIF=$(readlink -f "$(dirname "$0")/.."); RULES=$1
WORK=$(mktemp -d "${TMPDIR:-/tmp}/silentsubset.XXXXXX"); trap 'rm -rf "$WORK"' EXIT
run_one() {
  p=$1; id=$(basename "$p" .diff); c="$WORK/$id"
  mkdir -p "$c"; (cd /repo && git ls-files -z | xargs -0 cp --parents -t "$c") 2>/dev/null
  if ! (cd "$c" && git apply "$p" 2>/dev/null); then echo "$id SKIP patch does not apply"; rm -rf "$c"; return; fi
  out=$("${LUNGOCHECK:-$VERIF/bin/lungocheck}" -prop C01 -only "$RULES" -no-evidence -repo "$c" -out "$VERIF" 2>&1); rc=$?
  if [ $rc -eq 0 ]; then echo "$id silent"; else echo "$id ALARM rc=$rc"; echo "$out" | grep -E "VIOLAT|UNDECIDED|UNANALYSABLE|panic" | cut -c1-300 | sed 's/^/    /'; fi
  rm -rf "$c"
}
export -f run_one; export WORK VERIF RULES
ls "$VERIF"/selftest/silent/*.diff | xargs -P ${JOBS:-8} -I{} bash -c 'run_one {}'
