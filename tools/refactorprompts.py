#!/usr/bin/env python3
"""Writes one prompt per code area for a round of independent behaviour-preserving refactorings (false-alarm tests).
usage: refactorprompts.py <round-dir> [second|third]   -> <round-dir>/<area>.prompt.txt; worktrees are <round-dir>/<area>."""
import os, sys
here = os.path.dirname(os.path.abspath(__file__))
rd = sys.argv[1]
second = len(sys.argv) > 2 and sys.argv[2] == 'second'
third = len(sys.argv) > 2 and sys.argv[2] == 'third'
areas = {
 'engine': 'engine.go of the root package: Engine.Begin, Commit, Abort, Watch, Close, expire, CreateEngine.',
 'transaction1': 'transaction.go of the root package, the document write paths: Transaction.Insert / insert, Replace / replace, Update / update, Delete / delete, Bulk, append.',
 'transaction2': 'transaction.go of the root package, the remaining methods: Create, Drop, ListDatabases/ListCollections, CountDocuments, ListIndexes, CreateIndex, DropIndex, DropIndexByKey, Clean, Expire, Find.',
 'session_stream': 'session.go, stream.go, utils.go (useTransaction), cursor.go, result.go of the root package.',
 'driver': 'collection.go, database.go, client.go, indexes.go (the driver-compatible API layer) of the root package.',
 'bucket': 'bucket.go of the root package (GridFS): UploadStream (Write, upload, Close, Suspend, Resume, Abort), DownloadStream (load, seek, next, Read, Seek), Bucket.Delete/ClaimUpload/Cleanup.',
 'storefile': 'store.go, file.go, catalog.go of the root package and dbkit/atomic.go, dbkit/semaphore.go.',
 'mk_collection': 'mongokit/collection.go and mongokit/index.go: Collection.Find/Insert/Replace/Update/Upsert/Delete/CreateIndex/DropIndex/Clone, Index.Add/Remove/Has/Build/Config/Clone, IndexConfig.Equal/Name, CreateIndex.',
 'mk_match': 'mongokit/match.go and mongokit/process.go, mongokit/resolve.go: the query operators, matchUnwind, matchNegate, bitAccessor, Process, Resolve.',
 'mk_apply': 'mongokit/apply.go: the update operators ($set, $inc, $min/$max, $push with modifiers, $pop, $pull, $addToSet, $bit, $rename, ...), Changes.Record, Apply.',
 'mk_project': 'mongokit/project.go, mongokit/sort.go, mongokit/distinct.go, mongokit/extract.go, mongokit/filter.go.',
 'bk_compare': 'bsonkit/compare.go, bsonkit/sort.go, bsonkit/math.go, bsonkit/inspect.go.',
 'bk_access': 'bsonkit/access.go (Get/All/Put/Unset/Increment/Multiply/Push/Pop, get/put), bsonkit/clone.go, bsonkit/convert.go, bsonkit/lists.go, bsonkit/path.go.',
 'bk_set': 'bsonkit/set.go, bsonkit/index.go, bsonkit/schema.go, bsonkit/transform.go, bsonkit/decode.go.',
}
t = open(here + '/refactor_prompt_template.txt').read()
extra = open(here + '/refactor_prompt_second_round.txt').read() if second else (open(here + '/refactor_prompt_third_round.txt').read() if third else '')
os.makedirs(rd + '/out', exist_ok=True)
for k, a in areas.items():
    open(f'{rd}/{k}.prompt.txt', 'w').write(t.replace('{DIR}', f'{rd}/{k}').replace('{OUT}', f'{rd}/out/{k}').replace('{AREA}', a) + extra)
print('written', len(areas))
