#!/usr/bin/env python3
"""Writes one prompt per property for a new round of independently seeded changes.
usage: seedprompts.py <round-dir> [extra-text-file]   (e.g. /tmp/seed5 tools/seed_prompt_round5_extra.txt): creates <round-dir>/<Cxx>.prompt.txt; worktrees are <round-dir>/<Cxx>."""
import json, re, os, sys
here = os.path.dirname(os.path.abspath(__file__)) + "/.."
rd = sys.argv[1]
props = {json.loads(l)['id']: json.loads(l) for l in open(here + '/properties.jsonl')}
design = open(here + '/DESIGN.md').read()
rows = re.findall(r'^\| \**([A-Z0-9a-z, ()-]+?)\** \| (.+?) \| (.+?) \|$', design, re.M)
desc = {}
for seeds, what, _ in rows:
    for sid in re.findall(r'C\d\d[a-z]\d?', seeds):
        desc.setdefault(sid[:3], []).append(re.sub(r'`', '', what))
tmpl = open(here + '/tools/seed_prompt_template.txt').read()
extra = open(sys.argv[2]).read() if len(sys.argv) > 2 else ''
os.makedirs(rd + '/out', exist_ok=True)
for pid, p in props.items():
    text = f"{pid} — {p['title']}\n\n{p['statement']}\n\nQuantifier: {p['quantifier']['text']}\n"
    already = "\n".join("- " + d for d in dict.fromkeys(desc.get(pid, []))) or "- (nothing yet)"
    out = tmpl.replace('{DIR}', f'{rd}/{pid}').replace('{OUT}', f'{rd}/out/{pid}').replace('{PROPERTY}', text).replace('{ALREADY}', already) + extra
    open(f'{rd}/{pid}.prompt.txt', 'w').write(out)
print('written', len(props))
