#!/bin/bash
# Runs every rule against every seeded change on scratch copies of /repo (4 at a time) and
# writes seeded/MATRIX.json: seed -> property -> [rule ...]. Scratch copies live under $TMPDIR and are removed.
set -u
export GOFLAGS=-mod=mod GOPROXY=off; unset GOWORK
VERIF=$(readlink -f "$(dirname "$0")/..")
WORK=$(mktemp -d "${TMPDIR:-/tmp}/seedmatrix.XXXXXX")
trap 'rm -rf "$WORK"' EXIT
run_one() {
  d=$1; id=$(basename "$d"); c="$WORK/$id"
  mkdir -p "$c"; (cd /repo && git ls-files -z | xargs -0 cp --parents -t "$c") 2>/dev/null
  cp /repo/go.sum "$c/" 2>/dev/null
  if ! (cd "$c" && git apply "$d/patch.diff" 2>/dev/null); then echo "$id SKIP patch does not apply" > "$WORK/$id.out"; rm -rf "$c"; return; fi
  "${LUNGOCHECK:-$VERIF/bin/lungocheck}" -prop ALL -repo "$c" -out "$VERIF" 2>&1 | grep -E "^PROP .* VIOLATED|UNANALYSABLE" > "$WORK/$id.out"
  rm -rf "$c"
}
export -f run_one; export WORK VERIF
# optional argument: a grep pattern selecting seed directories; their rows are merged into the existing MATRIX.json
PAT=${1:-.}
ls -d "$VERIF"/seeded/*/ | grep -v _confirm | grep -E "$PAT" | xargs -P ${JOBS:-6} -I{} bash -c 'run_one {}'
python3 - "$WORK" "$VERIF" "$PAT" <<'PY'
import sys,os,re,json,glob
work,verif=sys.argv[1],sys.argv[2]
m={}
if len(sys.argv)>3 and sys.argv[3]!='.':
    m=json.load(open(verif+'/seeded/MATRIX.json'))
for f in sorted(glob.glob(work+'/*.out')):
    sid=os.path.basename(f)[:-4]
    m[sid]={}
    for l in open(f):
        if 'SKIP' in l or 'UNANALYSABLE' in l:
            m[sid]['_status']=l.strip(); continue
        mm=re.match(r'PROP (\S+) VIOLATED \d+: (.*)',l)
        if mm:
            rules=sorted(set(re.findall(r'([A-Z]+-[0-9a-z]+)\[',mm.group(2))))
            m[sid][mm.group(1)]=rules
json.dump(m,open(verif+'/seeded/MATRIX.json','w'),indent=1,sort_keys=True)
for sid,v in m.items():
    print(sid, {k:v[k] for k in v})
PY
