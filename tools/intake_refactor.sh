#!/bin/bash
# usage: intake_refactor.sh <round-out-dir>/<area> <round-tag e.g. R5>
# For each rN.diff of a behaviour-preserving refactoring: check it applies to a scratch copy of /repo, builds, is gofmt-clean,
# the runnable tests pass and the other test binaries compile; then run every rule on the copy. Copies the diff to
# selftest/silent/<tag>-<area>-rN.diff when the checker is silent, and prints the alarm otherwise (decide by hand: false
# alarm of the checker, or a refactoring that is not behaviour preserving).
set -u
export GOFLAGS=-mod=mod GOPROXY=off; unset GOWORK
VERIF=$(readlink -f "$(dirname "$0")/..")
SRC=$(readlink -f "$1"); TAG=${2:-R5}; AREA=$(basename "$SRC")
for p in "$SRC"/r[0-9].diff; do
  [ -s "$p" ] || continue
  n=$(basename "$p" .diff); c=$(mktemp -d /tmp/intaker.XXXXXX)
  (cd /repo && git ls-files -z | xargs -0 cp --parents -t "$c") 2>/dev/null; cp /repo/go.sum "$c/" 2>/dev/null
  if ! (cd "$c" && git apply "$p" 2>/dev/null); then echo "$AREA/$n: does not apply"; rm -rf "$c"; continue; fi
  if ! (cd "$c" && go build ./... && [ -z "$(gofmt -l . 2>/dev/null)" ] && go test -vet=off -count=1 ./bsonkit ./dbkit >/dev/null 2>&1 && go test -vet=off -count=1 -run '^$' -exec /bin/true ./... >/dev/null 2>&1); then
    echo "$AREA/$n: baseline fails (not taken)"; rm -rf "$c"; continue
  fi
  out=$("$VERIF/bin/lungocheck" -prop ALL -repo "$c" -out "$VERIF" 2>&1 | grep -E "^RULE|UNANALYSABLE" | grep -v "NUM-3 VIOLATED bsonkit\.\(Add\|Mul\)\|SEM-5 VIOLATED conversion safe\|VIOLATED bsonkit.put:" | cut -c1-400)
  rm -rf "$c"
  if [ -z "$out" ]; then cp "$p" "$VERIF/selftest/silent/$TAG-$AREA-$n.diff"; echo "$AREA/$n: silent (kept)"; else echo "$AREA/$n: ALARM"; echo "$out" | sed 's/^/    /'; fi
done
