#!/bin/bash
# usage: seedcheck.sh <dir with patch.diff and demo/> [confirm|detect|both]
# confirm: in a scratch worktree: baseline passes with the patch, demo fails with it and passes without.
# detect : apply the patch to /repo, run every rule once (lungocheck -prop ALL), undo the patch.
set -u
export GOFLAGS=-mod=mod GOPROXY=off; unset GOWORK
D=$(readlink -f "$1"); MODE=${2:-both}
VERIF=$(readlink -f "$(dirname "$0")/..")
if [ "$MODE" = confirm ] || [ "$MODE" = both ]; then
  WT=$(mktemp -d /tmp/sc.XXXXXX); rmdir "$WT"
  git -C /repo worktree add -q --detach "$WT" HEAD || exit 3
  trap 'git -C /repo worktree remove --force "$WT" 2>/dev/null; rm -rf "$WT" /tmp/scdemo.$$' EXIT
  if ! git -C "$WT" apply "$D/patch.diff"; then echo "CONFIRM: patch does not apply"; exit 3; fi
  ( cd "$WT" && go build ./... && go vet ./bsonkit ./dbkit ./mongokit . >/dev/null 2>&1 && go test -vet=off -count=1 ./bsonkit ./dbkit >/dev/null 2>&1 && go test -vet=off -count=1 -run '^$' -exec /bin/true ./... >/dev/null 2>&1 ) && echo "CONFIRM: baseline passes with patch" || echo "CONFIRM: BASELINE FAILS with patch"
  rm -rf /tmp/scdemo.$$; cp -r "$D/demo" /tmp/scdemo.$$
  sed -i "s#=> .*#=> $WT#" /tmp/scdemo.$$/go.mod; cp "$WT/go.sum" /tmp/scdemo.$$/go.sum
  ( cd /tmp/scdemo.$$ && timeout 300 go test -count=1 -timeout 240s . >/tmp/scdemo.$$/with.txt 2>&1 ) && echo "CONFIRM: DEMO PASSES with patch (bad)" || echo "CONFIRM: demo fails with patch"
  git -C "$WT" checkout -q -- .
  ( cd /tmp/scdemo.$$ && timeout 300 go test -count=1 -timeout 240s . >/tmp/scdemo.$$/without.txt 2>&1 ) && echo "CONFIRM: demo passes without patch" || { echo "CONFIRM: DEMO FAILS without patch (bad)"; tail -5 /tmp/scdemo.$$/without.txt; }
fi
if [ "$MODE" = detect ] || [ "$MODE" = both ]; then
  if ! git -C /repo diff --quiet; then echo "DETECT: /repo is dirty"; exit 3; fi
  git -C /repo apply "$D/patch.diff" || { echo "DETECT: patch does not apply to /repo"; exit 3; }
  "$VERIF/bin/lungocheck" -prop ALL -out "$VERIF" 2>&1 | grep -E "^PROP .* VIOLATED|^RULE|UNANALYSABLE" | cut -c1-600
  git -C /repo checkout -q -- .
fi
