#!/bin/bash
# Runs every rule against every behaviour-preserving variant (selftest/silent/*.diff) on scratch copies of /repo.
set -u
export GOFLAGS=-mod=mod GOPROXY=off; unset GOWORK
VERIF=$(readlink -f "$(dirname "$0")/..")
WORK=$(mktemp -d "${TMPDIR:-/tmp}/silentmatrix.XXXXXX")
trap 'rm -rf "$WORK"' EXIT
run_one() {
  p=$1; id=$(basename "$p" .diff); c="$WORK/$id"
  mkdir -p "$c"; (cd /repo && git ls-files -z | xargs -0 cp --parents -t "$c") 2>/dev/null
  if ! (cd "$c" && git apply "$p" 2>/dev/null); then echo "$id SKIP patch does not apply"; rm -rf "$c"; return; fi
  out=$("${LUNGOCHECK:-$VERIF/bin/lungocheck}" -prop ALL -repo "$c" -out "$VERIF" 2>&1 | grep -E "^RULE|UNANALYSABLE" | grep -v "NUM-3\|SEM-5\|bsonkit.put")
  if [ -z "$out" ]; then echo "$id silent"; else echo "$id ALARM"; echo "$out" | cut -c1-300 | sed 's/^/    /'; fi
  rm -rf "$c"
}
export -f run_one; export WORK VERIF
ls "$VERIF"/selftest/silent/*.diff | xargs -P ${JOBS:-4} -I{} bash -c 'run_one {}'
