#!/usr/bin/env python3
"""Refresh seeded/<id>/meta.json from seeded/MATRIX.json (detected_by / detected); creates meta.json for new seeds."""
import json, os, sys, glob
here = os.path.dirname(os.path.abspath(__file__)) + "/.."
m = json.load(open(here + "/seeded/MATRIX.json"))
titles = {}
for l in open(here + "/properties.jsonl"):
    p = json.loads(l); titles[p["id"]] = p.get("title", "")
for d in sorted(glob.glob(here + "/seeded/*/patch.diff")):
    sd = os.path.dirname(d); sid = os.path.basename(sd)
    mp = sd + "/meta.json"
    meta = json.load(open(mp)) if os.path.exists(mp) else None
    if meta is None:
        prop = sid[:3]
        meta = {"id": sid, "property": prop, "property_title": titles.get(prop, ""),
                "origin": "independent sub-agent (round 2) given only the property text and a scratch worktree of /repo",
                "needs_to_manifest": "see notes.md",
                "confirmed": {"cmd": f"tools/seedcheck.sh seeded/{sid} confirm",
                              "baseline_with_patch": "passes (go build, go vet, go test ./bsonkit ./dbkit, test binaries compile)",
                              "demo_with_patch": "fails", "demo_without_patch": "passes"},
                "detect_cmd": f"tools/seedcheck.sh seeded/{sid} detect"}
    det = {k: v for k, v in m.get(sid, {}).items() if not k.startswith("_")}
    meta["detected_by"] = det
    meta["detected"] = bool(det)
    if not det:
        meta.setdefault("miss_reason", "see DESIGN.md section 11.5")
    else:
        meta.pop("miss_reason", None)
    json.dump(meta, open(mp, "w"), indent=1)
print("ok")
