#!/bin/bash
# usage: intake.sh <round-out-dir>/<Cxx> <round-number>
# Takes a sub-agent's deliverables (<dir>/a, <dir>/b: patch.diff, demo/, notes.md), confirms each in a scratch worktree
# (tools/seedcheck.sh confirm) and, when confirmed, copies it to seeded/<Cxx><next free letter>/ and runs every rule on a
# scratch copy of /repo with the patch applied (never /repo itself, so several intakes can run side by side).
set -u
export GOFLAGS=-mod=mod GOPROXY=off; unset GOWORK
VERIF=$(readlink -f "$(dirname "$0")/..")
SRC=$(readlink -f "$1"); ROUND=${2:-8}; PROP=$(basename "$SRC")
for v in a b; do
  d="$SRC/$v"
  [ -f "$d/patch.diff" ] && [ -d "$d/demo" ] || { echo "$PROP/$v: no deliverable"; continue; }
  res=$("$VERIF/tools/seedcheck.sh" "$d" confirm 2>&1)
  if ! echo "$res" | grep -q "baseline passes with patch" || ! echo "$res" | grep -q "demo fails with patch" || ! echo "$res" | grep -q "demo passes without patch"; then
    echo "$PROP/$v: NOT CONFIRMED"; echo "$res" | sed 's/^/    /'; continue
  fi
  # next free letter (flock: several intakes of the same property never run, but be safe)
  # the letter after the highest one in use (ids of removed seeds are not re-used: DESIGN.md still names them)
  last=$(ls -d "$VERIF"/seeded/$PROP[a-z] 2>/dev/null | sed 's/.*\(.\)$/\1/' | sort | tail -1)
  l=$(echo "${last:-\`}" | tr '`a-y' 'a-z')
  id="$PROP$l"; t="$VERIF/seeded/$id"; mkdir -p "$t"
  cp "$d/patch.diff" "$t/"; cp -r "$d/demo" "$t/"; [ -f "$d/notes.md" ] && cp "$d/notes.md" "$t/"
  rm -f "$t/demo/with.txt" "$t/demo/without.txt"
  sed -i "s#=> .*#=> /repo#" "$t/demo/go.mod"
  c=$(mktemp -d /tmp/intake.XXXXXX)
  (cd /repo && git ls-files -z | xargs -0 cp --parents -t "$c") 2>/dev/null; cp /repo/go.sum "$c/" 2>/dev/null
  (cd "$c" && git apply "$t/patch.diff") || echo "$id: patch does not apply to copy"
  out=$("$VERIF/bin/lungocheck" -prop ALL -repo "$c" -out "$VERIF" 2>&1 | grep -E "^PROP .* VIOLATED|^RULE|UNANALYSABLE" | grep -v "NUM-3 VIOLATED bsonkit\.\(Add\|Mul\)\|SEM-5 VIOLATED conversion safe\|VIOLATED bsonkit.put:" | cut -c1-400)
  rm -rf "$c"
  python3 - "$t" "$id" "$PROP" "$ROUND" <<'PY'
import json,sys
t,sid,prop,rnd=sys.argv[1:5]
titles={json.loads(l)['id']:json.loads(l).get('title','') for l in open(t+'/../../properties.jsonl')}
meta={"id":sid,"property":prop,"property_title":titles.get(prop,""),
 "origin":f"independent sub-agent (round {rnd}) given only the property text and a scratch worktree of /repo",
 "needs_to_manifest":"see notes.md",
 "confirmed":{"cmd":f"tools/seedcheck.sh seeded/{sid} confirm","baseline_with_patch":"passes (go build, go vet, go test ./bsonkit ./dbkit, test binaries compile)","demo_with_patch":"fails","demo_without_patch":"passes"},
 "detect_cmd":f"tools/seedcheck.sh seeded/{sid} detect","detected_by":{},"detected":False}
json.dump(meta,open(t+'/meta.json','w'),indent=1)
PY
  if [ -z "$out" ]; then echo "$id ($PROP/$v): confirmed, MISSED"; else echo "$id ($PROP/$v): confirmed, reported:"; echo "$out" | grep "^PROP" | sed 's/^/    /' | cut -c1-300; fi
  grep -m1 -i -A3 "^#\|breaks\|clause" "$t/notes.md" 2>/dev/null | head -4 | sed 's/^/    | /'
done
